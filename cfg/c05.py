ID = 'C05'
ENTRY = dict(
    props_v='Props/C05.v', harness='c05',
    level_text='Proof, unbounded, over the item-level model of Merge.v: C05_seq (any sequence of Add/AddIfNotExist/Upsert/Update/UpdateKey/Remove/Get calls of one transaction keeps the keys of its view pairwise distinct in a unique store), C05_replay (every refetch-and-merge replay, in any order of the tracked actions, from any tracker, either fails or yields a store with pairwise distinct keys: the add goes through the duplicate check), C05_install (the direct commit path keeps keys distinct), C05_conc (invariant over every sequence of commits by any number of writers, each with an arbitrary snapshot among the earlier committed states, any number of refetch rounds against any earlier committed states and any replay orders: the committed store never holds two equal keys), C05_first_root (the first-root race of C04 leaves some single writer\'s items in the root: still no duplicate). Tie: K3 scheduled runs of 2-3 writers racing on the same keys of a unique store on the real backend; the model must explain every run and the ordered scan read back by a fresh process has no adjacent equal keys.',
    level_note='Trusted: Coq kernel; hand transcription of the Go code into Merge.v (tied by differential runs); B-tree nodes not modelled: that one committed node set scans as a key-ordered list is C17\'s claim; the direct path is modelled as per-key replacement by the writer\'s local content.',
    technique='Coq proof (invariant by induction over op lists, tracked action lists and commit sequences) over a hand-transcribed executable model; gate-scheduled differential runs with same-key races',
    trusted_base=[
        'modelled, not verified: btree/node.go add duplicate check (ins_u), common/itemactiontracker.go, common/managebtree.go refetchAndMergeClosure, direct commit path as per-key replacement (hand transcription in coq/theories/Merge.v)',
        'harness: gate scheduler (sopx decorators), one child process per program, fresh-process forward and backward scan',
    ],
    assumptions=['unique store (IsUnique) with the built-in int comparer; filesystem backend, in-memory L2 cache, no faults'],
    search_rounds=1,
)

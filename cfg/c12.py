ID = 'C12'
ENTRY = dict(
    props_v='Props/C12.v', harness='c12',
    level_text='Proof over the executable model StoreCatalog.v (NewBtree as Get + Add-or-cleanup, StoreRepository.Add/Remove under the store-list lock, Transaction.rollback with its addActivelyPersistedItem early return, RemoveBtree). C12_abort_no_store_refuted (witness: logger state 99) + C12_abort_no_store_partial (every catalog, name, options, every other logger state: store gone, other stores untouched) + C12_newbtree_failure_leaves_nothing; C12_single_create_refuted (schedule Get2 Get1 Add1 Add2: the loser removes the winner\'s store) + C12_single_create_partial (any k non-overlapping creators: one entry, first Created, rest Opened) + C12_add_keeps_names_unique; C12_remove_complete in full (no artefact, other stores untouched, re-creation starts at count 0 with the new options). Tie: differential run on the real filesystem backend: every single fault position (Fail and FailAfter) of NewBtree + commit, explicit Rollback, gated same-name creation, sequential creators, remove-then-recreate with other options; observed through fresh transactions (GetStores, OpenBtree, Count, scan), a fresh process (DumpFresh) and the raw folder tree; the model must predict existence / loser outcome / entry count / count and options after re-creation.',
    level_note='Trusted: Coq kernel, harness (decorators, gate, raw folder decoding). The catalog model abstracts one StoreRepository.Add as atomic (it runs under the store-list lock; its partial failures are covered by the cleanup theorem and by FailAfter injection). Single-folder layout only: the replicated layout (two folders) was not exercised. Transaction.rollback branch constants come from Gen/MaintConsts.v (translator).',
    technique='Coq proof (list induction) over a transcribed catalog model; fault-injection / gated-interleaving differential check against the model inside Coq',
    trusted_base=[
        'modelled: common.NewBtree, Transaction.rollback (catalog part), fs.StoreRepository.Add/Remove/Get, infs.RemoveBtree; the store-list lock makes one Add atomic',
        'options compatibility abstracted to equality of one number',
    ],
    assumptions=['standalone mode (in-memory L2 cache), single stores folder'],
)

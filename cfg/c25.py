ID = 'C25'
ENTRY = dict(
    props_v='Props/C25.v', harness='c25',
    level_text='WIP',
    level_note='WIP',
    technique='Coq proof over a symbolic model of the EC read/write path; exhaustive damage enumeration on real shard files',
    trusted_base=[],
    assumptions=[],
)

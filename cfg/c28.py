ID = 'C28'
ENTRY = dict(
    props_v='Props/C28.v', harness='c28',
    level_text=('Proof over ALL interleavings (induction over arbitrary command lists by any number of owners, every eviction-victim choice, every shard capacity) '
                'of an executable model of both lock services (Locks.v). FULL: C28_one_holder (at most one unexpired holder per key, both services), '
                'C28_mutex_inmem (in-memory, any capacity: every owner that was told it holds k and whose recorded TTL has not elapsed IS the holder, hence never two believers), '
                'C28_lock_never_evicts_held and C28_lock_true_holds_all (a Lock on a full shard never removes an unexpired lock of anybody and holds every key it answers true for), '
                'C28_release_inmem (in-memory Unlock by a non-holder never frees the holder, any state and capacity). '
                'The in-memory theorems describe the code after the repair "never evict a held lock" (loadOrStore skips unexpired lock entries when it picks an eviction victim; the translator checks that guard is present); before it the mutex statement was refuted by filling a shard. '
                'REFUTED with vm_compute witnesses reproduced on the real code: '
                'C28_release_redis_refuted + C28_release_redis_double_unlock_refuted + C28_mutex_redis_refuted (Redis Unlock deletes by local flag), C28_mutex_redis_ttl_refuted (Redis IsLockedTTL rewrites a foreign TTL before comparing). '
                'PARTIAL: C28_mutex_redis_partial and C28_release_redis_partial (runs in which no Unlock/IsLockedTTL touches a live entry of another owner), C28_mutex_redis_polite_partial (the same from a client-side discipline: Unlock/IsLockedTTL only for keys the caller still validly believes to hold, i.e. no unlock after own expiry and no second unlock). '
                'Tie (K2): scripted interleavings of 2-4 owners over overlapping keys run against cache.NewL2InMemoryCache (shard capacity 1-8 and default, keys forced into chosen shards, full and overfull shards) and against the Redis adapter + go-redis over an in-process RESP2 stand-in; after EVERY command the answer, the reported owner, the whole lock table with expiries and (Redis) every IsLockOwner flag must equal one outcome of the Coq model; plus an omniscient holder oracle on the implementation and a goroutine stress run per service.'),
    level_note=('Trusted: Coq kernel; the model Locks.v read off the Go code (kept honest by the per-command differential check); ONE SERVICE COMMAND IS ATOMIC (hypothesis of every theorem; '
                'real concurrency is only sampled by the stress run); logical time (the in-memory cache reads time.Now(): the harness realises ticks by shifting stored expiries through an add-only hook); '
                'for the Redis half the RESP2 stand-in harness/respsrv stands for a Redis server.'),
    technique='Coq proof (invariant "believer => holder" by induction over command lists, list-monad nondeterminism for eviction) + per-command differential check of both lock services + holder oracle',
    trusted_base=[
        'hypothesis: one lock-service command (Lock, DualLock, IsLocked, IsLockedTTL, IsLockedByOthers, Unlock) executes atomically; finer interleavings of the in-memory per-key steps and of the Redis round trips are only exercised by the goroutine stress run',
        'modelled, not verified: cache/l2inmemorycache.go + l2inmemorycache.sharded_map.go (lock table only) and adapters/redis/locker.go as Gallina functions in Locks.v; constants shardCount/sampleSize and the presence of the isHeldLock guard in loadOrStore regenerated from the Go AST (Gen/LocksConsts.v)',
        'RESP2 stand-in /verif/harness/respsrv replaces a Redis server (SET NX/PX/EX, GET, GETEX, DEL, EXISTS; expiry iff now > deadline; one command atomic): part of the trusted base of the Redis half',
        'logical clock: /repo/cache/verif_c28_locks.go VerifShiftLockExpirations moves stored expiries instead of the wall clock (sound because the lock code only compares time.Now() with stored expiries); RESP server clock is set explicitly',
        'believer = owner whose last Lock/DualLock/IsLocked/IsLockedTTL answer covering the key was true, not unlocked since, within the expiry the service recorded at that answer (a re-entrant Lock does not extend the TTL in either service and is not counted as a promise of now+duration)',
    ],
    assumptions=['durations are >= 0 (negative durations make go-redis send KEEPTTL); in-memory IsLockedTTL is called with a duration of at least one tick',
                 'an owner uses one LockID for all its keys and reuses its LockKey objects across calls (as a transaction does)'],
)

ID = 'C21'
ENTRY = dict(
    props_v='Props/C21.v', harness='c21',
    level_text='Proof, unbounded, over a transcription of fs/hashmap.go + hashmap.fileregion.go + registrymap.go + registry.go (Hashmap.v). '
               'The full statement is FALSE of the code and the refutation is reproduced on the implementation (findings/C21.json): '
               'C21_map_refuted, C21_removed_reappears_refuted, C21_remove_present_refuted, C21_invariant_refuted (witnesses by vm_compute). '
               'C21_map_partial / C21_run_partial: for EVERY op sequence (Add, Update, UpdateNoLocks, Remove, Get; any hash modulus > 0, any ids, full blocks, any number of segment files) '
               'outside the hazardous pattern (hazard_free: no write names a stored id that has an empty slot before its record in its scan order; UpdateNoLocks batches name stored ids only; the 1000-file limit is not hit) '
               'every API result equals a finite map\'s, every cold lookup equals the map, and the invariant Inv holds (no id in two slots, every record in the block its id hashes to). '
               'C21_lookup_last_written_partial, C21_remove_present_succeeds_partial, C21_removed_never_reappears_partial restate the clauses of the property. '
               'C21_hazard_is_exact: whenever the excluded pattern holds, Remove fails on a stored id, Update leaves the id in two slots and Add accepts a stored id, so the hypothesis excludes nothing that works. '
               'Tie (K2 structural): each history is run on the real fs.NewRegistry over real segment files (hash modulus 1, 2, 3, 250; ids built to collide in block and slot; cold lookups through a fresh registry + fresh L2 cache); '
               'after every call the raw segment bytes are decoded slot by slot and the model must agree on every API result, the number of segment files, every slot, and on the hazard flag the harness computes from the disk bytes.',
    level_note='Trusted: Coq kernel; the transcription of the four Go files into Hashmap.v (checked differentially, slot by slot); the translator for handlesPerBlock and the literal 1000 of findOneFileRegion; '
               'the harness (decoding of segment files, canonicalisation). A block read is assumed to return the bytes last written (crash safety and corruption are C22/C23); '
               'locking and concurrency are not modelled (one caller at a time).',
    technique='Coq proof (invariant + refinement to a finite map, induction over op sequences) over a transcription of the Go code; structural differential check of the real on-disk registry against the model',
    trusted_base=[
        'modelled: fs.hashmap.findOneFileRegion / findAndAdd / findFileRegion / fetch, registryMap.add/set/remove/fetch, registryOnDisk.Add/Update/UpdateNoLocks/Remove/Get with a cold cache (Hashmap.v, hand transcription tied by the K2 check)',
        'translator: handlesPerBlock, block and record sizes (Gen/Consts.v), the guard `if i > 1000` and the loop shape of findOneFileRegion (Gen/HashmapConsts.v)',
        'slot emptiness is the field-wise test is_zero; HashmapProofs.is_zero_bytes proves it equals isZeroData on the encoded 62 bytes for every well-formed handle',
        'a block read returns the bytes last written (readAndRestoreBlock / cow files are C22, C23); single caller, no concurrent writers; locks always granted',
        'add hook: /repo/fs/verif_c21.go (build tag verif) shortens lockSectorRetryTimeoutDuration so that Add of a stored id fails at once instead of after 3 minutes',
    ],
    assumptions=[
        'ids are non-nil 16-byte UUIDs (wf_id); a handle with a nil LogicalID is outside the domain',
        'UpdateNoLocks with several handles is given stored ids only (registryMap.set resolves all slots before writing; every caller in /repo passes stored ids) — C21_batch_upsert_outside_domain shows why',
    ],
)

ID = 'C21'
ENTRY = dict(
    props_v='Props/C21.v', harness='c21',
    level_text='(work in progress)',
    level_note='',
    technique='Coq proof (invariant + refinement to a finite map) over a transcription of fs/hashmap.go; structural differential check against the real fs registry',
    trusted_base=[],
    assumptions=[],
)

ID = 'C01'
ENTRY = dict(
    props_v='Props/C01.v', harness='c01',
    level_text='Proof over Proto.v (the commit of common.Transaction at storage-interface-call granularity, transcribed from the Go sources): for every transaction, every well-formed pre-commit state and EVERY injected failure position, a commit that does not report success leaves every pre-existing node resolving to the same, still present, blob (C01_failed_commit_changes_nothing_visible, unbounded). Tie: trace conformance — each generated program is run on the real filesystem backend with a failure injected at each interface call of the commit; the recorded call trace, the result class and the decoded durable state must equal Proto.run on the same inputs (evaluated in Coq). Direct oracle: a fresh OS process must read exactly the reference contents after success and the pre-transaction contents after failure / rollback.',
    level_note='Trusted: Coq kernel; the harness (decorators, canonicalisation, raw decoding); B-tree node sets are inputs of the model (the B-tree is C17); L2-cache calls are not modelled; a call either happens completely or not at all in the model (performed-then-failed batch writes are oracle-only).',
    technique='Coq invariant proof over an interface-call-level model of the commit protocol; trace/state conformance of the implementation under single-fault injection; fresh-process oracle',
    trusted_base=[
        'modelled: common.Transaction.{phase1Commit,phase2Commit,rollback,cleanup}, nodeRepositoryBackend.{commit*,rollback*,activateInactiveNodes,touchNodes}, transactionLog.{log,priorityRollback}, sop.Handle methods; one storage-interface call is atomic',
        'not modelled: B-tree layer (node sets are inputs), L2 cache calls, refetch-and-merge loop (outcome Conflicted), actively persisted value placement, store creation inside the subject transaction (covered by the oracle only)',
    ],
    assumptions=['single injected fault per commit; no fault inside the rollback path'],
)

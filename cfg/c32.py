ID = 'C32'
ENTRY = dict(
    props_v='Props/C32.v', harness='c32',
    level_text='Partial. Proof, unbounded: C32_prefix_scan_exact (the cursor scan of Index.Search incl. its miss handling returns exactly the postings with prefix "term|", for every key-sorted postings map and whichever neighbour Find leaves the cursor on), C32_posting_key_unambiguous (byte-order / "|"-freeness argument; document ids may contain "|"), C32_membership_partial (per term: hits = documents having a posting of that term), C32_result_ids, C32_each_once (every document at most once, any index state), C32_sorted (final sort: non-increasing, permutation, for any total score comparison). NOT proved, validated on every correspondence case against an independent reference: that Index.Add maintains postings/term/doc/global statistics equal to the true corpus statistics, the accumulation over several terms as a set equality, and the float64 BM25 value (harness evaluates the formula over the reference statistics, relative tolerance 1e-9). Tie: K1 concrete tokenizer model (UTF-8 decoding, Unicode letter/number classes and lower-casing from generated Go tables, stop words generated from the source) against SimpleTokenizer; K2 real search.Index over filesystem B-trees, indexing split over 1-4 transactions, model must return the same documents with the same statistics tuples.',
    level_note='Trusted: Coq kernel; the hand-written model Search.v / SearchTok.v (the B-tree is abstracted to a key-sorted unique map; Find(key,true) on a miss leaves the cursor on the predecessor or successor), the translator for the stop words and Unicode tables, the harness reference BM25. Terms contain no "|" is a hypothesis of the membership theorems, checked on every tokenizer case.',
    technique='Coq proof (sorted-list / lexicographic byte-order reasoning) over an executable index model; differential run of tokenizer and index against the implementation with an independent reference BM25',
    trusted_base=[
        'modelled by hand: search.Index.Add/Search over four unique ordered maps (B-tree behaviour as an ordered map is C17/C18), sort.Slice as a correct sort',
        'generated: stop words from /repo/search/tokenizer.go; unicode.L, unicode.N, unicode.CaseRanges of the Go standard library the harness is built with (Gen/SearchTables.v)',
        'hypothesis of C32_membership_partial: query terms and indexed terms contain no "|" (tokenizer fact, validated K1 and by the token-shape oracle)',
        'float64 evaluation of BM25 is validated by the harness at relative tolerance 1e-9, not proved',
    ],
    assumptions=['document ids are distinct', 'no I/O error during indexing or search'],
)

ID = 'C31'
ENTRY = dict(
    props_v='Props/C31.v', harness='c31',
    level_text=('Proof, unbounded, over the Gallina model Stream.v of streamingdata (reader.Read WITH fixes/C31-reader-advance-chunk.patch, writer.Write add/update mode, '
                'Encoder.Close, Add/Update/Upsert/Remove, the "current key + 1 ? Next : Find" shortcut) on an ordered collection with a cursor; every theorem is '
                'quantified over all cursor oracles (where the B-tree leaves its cursor after a Find miss / an Add). Full: C31_shortcut_is_lookup (Next from (k,i) lands on '
                '(k,i+1) iff it is stored); C31_read (all stores holding other keys, all chunk lists incl. empty chunks, all cursor positions, ALL buffer-size sequences >= 1: '
                'results are data reads then only EOFs, delivered bytes are always a prefix of concat chunks, EOF only after everything, each read <= len(p), at most '
                '|bytes|+|chunks| reads before EOF); C31_read_all (longer sequences deliver exactly concat chunks and end in EOF); C31_update_replaces (any old <> [], any '
                'new list, fewer/equal/more: exactly indices 0..m\'-1 with the new contents, other keys untouched, fuel never exhausted), C31_update_missing, C31_add_creates, '
                'C31_upsert_replaces, C31_remove_local (every chunk of the key gone, other keys untouched), C31_remove_missing, C31_roundtrip. C31_read_v0_refuted: the reader '
                'of the unchanged repository delivers a 3-byte chunk twice with 2-byte buffers (vm_compute witness; documents the defect). Tie: correspondence on the '
                'implementation built from /repo: raw reader (verif export) driven with chosen buffer sizes — per Read bytes and EOF recomputed by the model under three '
                'oracles; add/update/upsert/remove programs — status and full sorted (key,chunk,bytes) dump after every op recomputed by the model; plus direct oracle '
                '(B-tree items and json.Decoder output of every key equal the prediction after every op and after commit, values up to > 1 MiB).'),
    level_note=('Trusted: Coq kernel; the model is hand-written from the four Go files (no translator) and tied only by the differential run; B-tree assumption A1 '
                '(one coherent cursor, unique keys ordered by StreamingDataKey.Compare, operations return no error); encoding/json (one Write per Encode, Decoder reads '
                'with buffers >= 1 byte and reassembles values independent of read boundaries); ChunkIndex does not overflow int.'),
    technique='Coq proof (invariants + induction over buffer sequences / chunk lists, unbounded) over a hand-written executable model; value-level and structural differential check against the implementation; direct oracle through json.Decoder',
    trusted_base=[
        'modelled, not translated: streamingdata/reader.go, writer.go, encoder.go, streamingdatastore.go (Stream.v); the two textually identical positioning blocks of reader.Read and writer.Write share one definition (seek)',
        'assumption A1 on btree.Btree: a single coherent cursor over unique keys in Compare order; Find hit selects, Next moves to the least greater key, GetCurrentKey of an unset cursor is the zero item; cursor after a Find miss or a successful Add is arbitrary (oracle, universally quantified); B-tree calls return no error',
        'encoding/json: Encoder.Encode issues exactly one Write; Decoder issues Reads with non-empty buffers and parses the concatenated byte stream',
        'the value layer below the B-tree returns what was stored (violated inside one transaction for actively persisted values, see findings/C31.json second entry)',
    ],
    assumptions=[
        'chunks of an entry are contiguous from index 0 (what Add/Update/Upsert produce); AddChunk/RemoveChunk used directly can break this',
        'a reader/writer is not interleaved with other cursor movements on the same store between its calls (with an unset cursor, the zero key and chunk index 1 the shortcut would call Next on nothing)',
        'the reader models the code WITH fixes/C31-reader-advance-chunk.patch applied',
    ],
)

ID = 'C36'
ENTRY = dict(
    props_v='Props/C36.v', harness='c36',
    search_rounds=1,
    level_text=('PARTIAL claim. Proof, unbounded: C36_discipline_sound — on every trace of acq/rel/racq/rrel/rd/wr/fork/join events that respects mutex semantics, '
                'if every access to x is made holding one common mutex (writes exclusively, reads exclusively or shared) no two conflicting accesses to x are unordered by '
                'happens-before (induction over the trace, no bound); C36_table_sound / C36_guarded_objects_race_free lift it to site tables under the explicit hypothesis '
                '`realises` (the table covers the execution and the syntactic locksets are really held). Proof by vm_compute over the finite table regenerated from the Go '
                'sources on every run: C36_sites_guarded_<obj> for L1Cache.lookup, L1Cache.mru, shard.items, globalL1CacheRegistry, GlobalReplicationDetails, jitterRNG (every '
                'site guarded); C36_sites_guarded_outside_baseline_<obj> for the synchronized cache and the five maintenance globals (every site outside the committed baseline '
                'corpus/C36/sites.json is guarded — these objects have unguarded sites on the unchanged tree, get no guardedness theorem and are listed in the evidence notes). '
                'Tie: the translator is the tie; the harness re-runs its lockset pass on the tree it is built against and Corr/C36.v compares per-object site count, unguarded '
                'count and an FNV digest of the site lines with the proved table. Observation/search: the Go race detector over concurrent workloads (transactions, Begin x64, '
                'L1/L2 caches, replication tracker, jitter); each report is an oracle failure.'),
    level_note=('Whether the compiled program races is NOT a theorem: the race detector sees only executed schedules. Trusted: Coq kernel; the syntactic lockset pass '
                '(no aliasing, one level of caller-holds-lock helpers from a hand-written table, constructor accesses skipped); the hypothesis `realises`; the Go race detector.'),
    technique='Coq proof of lockset-discipline soundness (happens-before model, induction) + generated access-site tables checked by vm_compute + go -race workloads as search',
    trusted_base=[
        'caller-holds-lock table of tools/gen/accesssites.go (asCallerHolds): cache L1Cache.getEntryForHandleLocked and l1_mru.evict assume L1Cache.locker held exclusively; fs replicationTracker.syncWithL2Cache assumes globalReplicationDetailsLocker held exclusively; every call of these helpers is itself recorded and checked as a site',
        'syntactic lockset pass (go/ast, no go/types): X.Lock/RLock/Unlock/RUnlock regions in statement order, deferred unlock holds to function end, branches joined by intersection, loops to a fixed point, function literals / go / defer start with the empty lockset; lock instances are identified by base expression text (no alias analysis); no interprocedural lock passing beyond the table; channels and atomics are opaque',
        'accesses through a local variable initialised from a composite literal in the same function are treated as construction of an unshared object and are not sites',
        'kind classification: assignment / index assignment / delete / clear / ++ / address-of / method call (except isFull, Count, IsFull) = write, everything else = read',
        'guards are the locks the code uses: lastOnIdleRunTime, hourBeingProcessed, onStartUpFlag -> locker; lastPriorityOnIdleTime, priorityLogFound -> priorityLocker',
        'hypothesis `realises` of C36_table_sound: every dynamic access to the object executes a listed site and the listed locks are held in the listed mode (not proved)',
        'happens-before edges modelled: program order, Unlock->Lock/RLock, RUnlock->Lock, go statement, join; mutex ids / variables are abstract naturals',
        'Go race detector (ThreadSanitizer runtime, -race, CGO): sees only the schedules executed by harness/c36/racer; absence of a report is not a proof',
        'corpus/C36/sites.json: committed baseline of known-unguarded site signatures (file:func:kind[#k])',
    ],
    assumptions=[
        'sync.Mutex / sync.RWMutex behave as documented (wf: a writer lock is exclusive, read locks shared, only a holder unlocks)',
        'the maintenance globals are reachable only through Transaction.onIdle, which returns immediately when called from Begin (DESIGN.md S1), so their unguarded reads cannot be exercised through the public API',
    ],
)

ID = 'C24'
ENTRY = dict(
    props_v='Props/C24.v', harness='c24',
    level_text='Proof, unbounded: C24_roundtrip (decode(encode h) = h and |encode h| = 62 for every handle in the Go field ranges), C24_layout / C24_offset_in_range / C24_write_local and corollaries (slots and checksum disjoint, every id maps to a whole slot, a slot write changes nothing else) are Coq theorems over Gallina text generated from encoding/handle.go, handle.go and the fs constants on every run. Tie: translator + value-level differential run (encode, decode incl. malformed buffers, offsets, slot writes, checksum placement).',
    level_note='Trusted: Coq kernel, the translator (recognises the statement shapes of encode/decode and aborts otherwise), the harness; bytes.Buffer/encoding.binary/uuid.FromBytes modelled by their documented behaviour; directio.BlockSize=4096.',
    technique='Coq proof (induction on byte lists, lia) over a model generated from the Go AST; differential check of codec and layout against the implementation',
    trusted_base=[
        'modelled: sop.Handle, encoding.encode/decode (Gallina text generated from the Go AST), fs block layout arithmetic; bytes.Buffer, uuid.FromBytes and encoding/binary are assumed to copy / convert as documented',
        'external constant directio.BlockSize = 4096 is hard-wired in the translator',
    ],
    assumptions=['Unmarshal is called with a zero-valued target (as every caller in /repo does)'],
)

ID = 'C18'
ENTRY = dict(
    props_v='Props/C18.v', harness='c18',
    level_text='TBD',
    level_note='TBD',
    technique='Coq proof over the specification monitor (OMap) and the node-level model (Btree); probe-heavy K2 differential check',
    trusted_base=['modelled: btree.Btree over an in-memory NodeRepository with shared node pointers'],
    assumptions=['keys are int with the built-in comparer'],
)

ID = 'C18'
ENTRY = dict(
    props_v='Props/C18.v', harness='c18',
    level_text=('FULL (unbounded, every item list reachable by an accepted run and every probe key) on the specification OMap: C18_find_first (hit: least index with the key; miss: cursor adjacent to the insertion point, everything before smaller, everything from it on greater), C18_find_descending (greatest index / adjacent), C18_find_with_id (true => on the item with that id; the stored pair is always found; missing key fails), C18_range and C18_range_desc (Range(from,to) = the stored items with from <= key <= to in order, RangeDesc its reverse, for every list and every bounds), C18_btree_results (transfer to the node-level model on every run where sim_run holds). PARTIAL: C18_find_any_partial (Find(k,false) = "an item with that key", hypothesis: cursor not on an emptied slot). REFUTED: C18_find_any_refuted (Find(0,false) = true on an absent key after an Add left the cursor on a slot emptied by a split), C18_find_with_id_refuted (an id stored under a greater key is accepted). BOUNDED: C18_bounded_L2_mixed_5. The node-level refinement itself is C17_refines_partial + bounded (see C17). Tie: as C17 (K2 structural after every call, digest recomputed in Coq, monitor run in Coq), with probe-heavy sequences: Find / FindInDescendingOrder / FindWithID / Range / RangeDesc with keys before, between, after and on heavily duplicated keys, plus an exhaustive probe-pair corpus for slot lengths 2, 4, 8.'),
    level_note=('Trusted: as C17 (hand transcription Btree.v tied by the differential check, Coq kernel + vm_compute, harness). The cursor on a miss and the choice among equal keys for Find(key,false) are structure-dependent: the specification takes them from the observed outcome and checks admissibility (adjacent to the insertion point / an item with the key).'),
    technique='Coq proofs over the specification monitor (lower/upper bound lemmas, filter characterisation of ranges), transfer through the refinement statement, vm_compute witnesses; probe-heavy K2 structural differential check',
    trusted_base=[
        'modelled by hand: node.find / findInDescendingOrder / moveToNext / moveToPrevious incl. nil children, Btree.Find* and inmemory Range/RangeDesc in coq/theories/Btree.v',
        'the refinement Btree.v -> OMap.v is checked on every explored run and bounded sequences, not proved by induction (C17_refines_partial)',
        'digest comparison: 32-bit djb2 per call',
    ],
    assumptions=['keys are int with the built-in comparer', 'single goroutine, in-memory repositories'],
    search_rounds=1,
)

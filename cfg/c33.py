ID = 'C33'
ENTRY = dict(
    props_v='Props/C33.v', harness='c33',
    level_text=('Proof, unbounded, PARTIAL by design (DESIGN.md section 8): only the item / tombstone / version bookkeeping of ai/vector is '
                'modelled (Vector.v: Content store, Vectors store of the active version, TempVectors staging, active version, the version-resolution '
                'rules of Get/Delete/upsertItem/Query, Consolidate and phases 3-4 of Optimize); centroid assignment, probed centroids and similarity '
                'are oracles the theorems quantify over. For EVERY operation sequence in the default configuration (index mode, deduplication on) and every '
                'oracle: C33_get_partial (Get = latest (vector, payload) if live, error otherwise: refinement to the map id |-> item, by an invariant proved '
                'by induction over the run), C33_live_set_partial (a Content scan lists exactly the live ids, once), C33_optimize_preserves_partial '
                '(every Get and the live set are unchanged by Optimize: no loss, duplicate, resurrection), C33_query_partial (at most k hits, distinct ids, '
                'all live, all pass the filter, score = sim(q, latest stored vector), non-increasing, nothing better among the probed candidates skipped), '
                'C33_query_at_most_k (any mode), C33_reference_latest, C33_translated_constants. The unrestricted statements are FALSE of the model and of '
                'the code: C33_optimize_resurrects_refuted and C33_optimize_loses_staged_refuted (staged ingestion, both reproduced on the real store), '
                'C33_query_distinct_dedup_off_refuted (documented ghost vectors with deduplication off). Tie: K2 + K4 differential runs of the real store '
                '(every Get, full dumps of Content / Vectors / TempVectors / active version after every session, every query hit list checked to be a valid '
                'top-k of the model\'s candidates) in index AND staged mode, dedup on and off; translator re-reads the Consolidate batch size, the phase-3 '
                'switch and the probe count.'),
    level_note=('Trusted: Coq kernel; the hand transcription of store.go / store.optimize.go / store.consolidate.go into Vector.v (checked only by the '
                'differential run); the harness (generators, dumps, float32 cosine recomputed independently, score/ distance codes); the translator for three '
                'constants. Outside the model: float32 geometry, k-means, closest-centroid search (oracles, read back from the store), centroid vector-count '
                'bookkeeping, locking and grace period of Optimize, crash recovery of a failed Optimize, SplitCentroid.'),
    technique='Coq proof (refinement invariant, induction over operation sequences, fold invariant for the Optimize migration) over a hand-transcribed bookkeeping model; K2 structural + K4 oracle-replay correspondence against the real store; direct oracle against the reference map',
    trusted_base=[
        'modelled by hand, not generated: ai/vector bookkeeping (Vector.v); conformance is established by the differential run only',
        'oracles (quantified over in the theorems, read back from the real store in the run): centroid assignment (cid, distance) of every upsert / consolidation / migration, the probed centroids of a query (add-only seam /repo/ai/vector/verif_c33.go), similarity scores (float32 cosine recomputed by the harness)',
        'theorem hypothesis op_index_dedup: Config.EnableIngestionBuffer = false, deduplication on, the assignment oracle never answers centroid id 0; section-free parameter close (the 1e-3 distance closeness of phase 3) is only required to be reflexive',
        'translator tools/gen/vector.go: Consolidate batchSize, initialize useTempVectors, Query probe count',
        'B-tree stores are modelled as finite maps with the documented Add/Upsert/UpdateKey/Remove semantics of /repo/btree (unique keys, Upsert replaces key and value)',
    ],
    search_rounds=1,
    assumptions=[
        'one process, no concurrent writers on the domain, Optimize runs to completion (no crash between its phases)',
        'payloads are JSON objects that unmarshal (the harness uses {"p": n})',
        'distances are non-negative finite float32 values (bit patterns order like the values)',
    ],
)

ID = 'C33'
ENTRY = dict(
    props_v='Props/C33.v', harness='c33',
    level_text='(being completed)',
    level_note='',
    technique='Coq proof (refinement invariant, induction over operation sequences) over a hand-transcribed bookkeeping model; K2 structural + K4 oracle-replay correspondence against the real store',
    trusted_base=[],
    assumptions=[],
)

ID = 'C37'
ENTRY = dict(
    props_v='Props/C37.v', harness='c37',
    level_text=('Model HandleProto.v: interleaving semantics of the node-version protocol (lock node keys, claim via Proto.claim written one handle per step, '
                'blob write, deletion marks, priority log, last lock check with re-lock, per-handle phase-2 flips, priority-log removal, unlock, cleanup, rollback from '
                'every stage, failed phase-2 write with own restore, crash at every step, lock expiry, ageing of timestamps past the hour, priority rollback with the '
                'version precondition and failover branch) for any number of transactions and nodes, parameterised by three environment hypotheses. '
                'Proof, unbounded (induction over step sequences, invariant of 10 clauses per transaction + 2 on the ghost history, all 19 step kinds), under all three '
                'hypotheses, for commits that update nodes (no node removals: the _partial): C37_single_successor_partial (between two installs of a successor of the same '
                'version of a node a logged image was written back), C37_version_monotone_partial (a step changes a registered version only by +1 with an install event of the '
                'registered version, or by writing back a logged image), C37_claim_exclusive_partial (live claimants are exclusive, hold the lock and read the registered '
                'version). Proof, all hypotheses-free: C37_recovery (both branches of one priority rollback), C37_logged_image_is_precommit, C37_accepts_sound (an accepted '
                'recorded trace is a model execution). Refuted by witness (each schedule blocked under the hypotheses): C37_expiry_refuted (LockHeldUntilUnlock dropped: two '
                'successors of one version), C37_points_at_data_stale_log_refuted (RecoveryWithinTheHour dropped), C37_points_at_data_mark_over_claim_refuted (MarkRespectsClaim '
                'dropped) - the first two and a panic variant of the third reproduce on the real code (open findings). Bounded, by exhaustive computation: '
                'C37_points_at_data_and_single_successor_bounded (every reachable state of 2 transactions over 1 node with every crash / expiry / ageing / priority-rollback '
                'step, update-update and update-remove, 5224 and 5403 states; 2 transactions over 2 nodes without crashes, 616 states). points_at_data has no unbounded proof. '
                'Tie (K3): gated, racing and crashing writers (child OS processes, os.Exit at a chosen storage call, clock shift, tiny maxTime) on the real filesystem backend; '
                'every recorded lock / registry / blob / priority-log call of every commit attempt is projected to an observation with its recorded handle images and replayed '
                'on the model in Coq (c37_check: all observations accepted, images equal, final registry and blob set agree, model predicates equal the oracle verdicts). '
                'Direct oracle: no two attempts that read one version both had their phase-2 write performed without a restore in between; every non-deleted handle has its '
                'active blob on disk after the run; the recovery sweep does not panic.'),
    level_note=('Trusted: Coq kernel; the harness (sopx decorators, scheduler, projection of calls to observations, canonicalisation, raw decoding of the registry). '
                'Hypotheses of the unbounded theorems are explicit in the model as the record hyps (strict): LockHeldUntilUnlock, RecoveryWithinTheHour, MarkRespectsClaim, '
                'and wf_init (fresh update-only transactions over distinct nodes). One registry.Get is atomic in the model; batched registry writes are per handle.'),
    technique='Coq invariant proof over an executable interleaving model (induction over step sequences), refutation witnesses and bounded exhaustive exploration by vm_compute, trace conformance of scheduled / racing / crashing writers on the real backend with a verified-sound acceptance checker',
    trusted_base=[
        'modelled (hand-transcribed, tied by trace conformance): phase1Commit/phase2Commit node-lock and node-version steps, commitUpdatedNodes, commitRemovedNodes, rollbackUpdatedNodes, rollbackRemovedNodes, activateInactiveNodes, touchNodes, deleteObsoleteEntries, doPriorityRollbacks/acquireLocks, sop.Handle methods (through Proto.v)',
        'not modelled: added/new-root nodes (enter as LAddNode environment steps), item locks, store counts, transaction-log based cleanup of dead transactions (processExpiredTransactionLogs), handleRegistrySectorLockTimeout, failure of the finalizeCommit log write (rollback after unlocking), registry hash-map internals, Redis lock takeover by lock id',
        'environment hypotheses (record hyps, all true in the theorems): h_lock, h_recov, h_mark; wf_init',
        'Print Assumptions of every theorem: closed under the global context',
    ],
    search_rounds=1,
    assumptions=['unbounded theorems: no node lock of a live committer expires before it unlocks; priority logs are processed within the hour; no removal over a foreign unexpired claim; transactions update nodes only (removals: bounded exploration, refutations and conformance runs)'],
)

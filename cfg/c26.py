ID = 'C26'
ENTRY = dict(
    props_v='Props/C26.v', harness='c26',
    level_text='Proof, unbounded in d >= 1, p, blob size >= 1 and the state of the shard files, over the model EC.v of GetOne with RepairCorruptedShards on (code as repaired by fixes/C25-ec-damaged-shards.patch), under rs_contract and md5_detects: C26_repair_partial (at most p shards damaged, each in its content possibly together with its metadata => the read returns the blob and afterwards every one of the d+p shard files is intact: damaged = 0) and C26_then_tolerates_p_failures (any disk differing from a fully intact one in at most p files reads back exactly); C26_repair_refuted (damage confined to the 17 metadata bytes is never noticed nor repaired; open finding repair-skips-metadata-only-damage). Tie: every damage pattern with at most p damaged shards (ten kinds) for (1,1),(2,1),(2,2) quick and (3,2),(4,2) thorough on real files: outcome class, which shard files are byte-identical to a fresh encode afterwards, and the outcome of a second read after p new failures, all compared with the model.',
    level_note='Trusted base as for C25 (hand transcription EC.v tied by the exhaustive differential run, rs_contract and md5_detects assumed, symbolic Reed-Solomon validated against the library by the C25 harness). Repair writes are assumed to succeed (a failed repair write is only logged by the code). On the unpatched /repo mixed damage cannot be read at all, so the check reports VIOLATION there.',
    technique='Coq proof over the symbolic EC model (repair loop = patching the positions the checksum pass dropped); exhaustive within-parity damage enumeration on real files with byte comparison of every shard after the repairing read',
    trusted_base=[
        'modelled by hand: the repair loop of BlobStoreWithEC.GetOne (re-encode, rewrite ReconstructedShardsIndeces) in EC.v; tied to the code by comparing, per shard file, byte-identity with a fresh encode',
        'assumed: rs_contract, md5_detects (Section hypotheses); Encode of the decoded blob reproduces the original shards (deterministic encoder)',
        'repair writes succeed (wfail = never)',
    ],
    assumptions=['as C25; the second damage of the tie is p shards missing / flipped / cut short, three rotations per pattern'],
)

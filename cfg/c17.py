ID = 'C17'
ENTRY = dict(
    props_v='Props/C17.v', harness='c17',
    level_text='TBD',
    level_note='TBD',
    technique='Coq proof over a specification monitor (OMap) and a node-level model (Btree) transcribed from btree.go/node.go/node.handlenilchild.go; K2 structural differential check after every call',
    trusted_base=['modelled: btree.Btree over an in-memory NodeRepository with shared node pointers'],
    assumptions=['keys are int with the built-in comparer'],
)

ID = 'C03'
ENTRY = dict(
    props_v='Props/C03.v', harness='c03',
    level_text='Proof over the interleaving model Conc.v, every system, every schedule of micro-steps, any number of writers and readers: C03_partial_staged_invisible (until some transaction executes a phase-2 flip micro-step the visible items, values and item versions are exactly the initial ones, whatever was staged / locked / validated / merged into the count), C03_unfinished_or_aborted_never_flipped + C03_partial_after_abort (a writer that is still before its flip, or ended rolled back or failed, never changed what readers see: items/values/versions equal the pre-writer ones), C03_abort_releases_locks. The count part of the statement is REFUTED: C03_count_refuted (commitStores merges the delta in phase 1; reproduced on the real code), C03_count_restored_by_rollback_bounded (witness only). Tie: a real writer is paused at its interface calls (every call in the thorough tier) and a fresh ForReading transaction reads Count, every key and a scan; Corr/C03.v evaluates what the model says is visible at that stage (including the modelled count defect and its Count==0 short-circuit) and compares.',
    level_note='Trusted: Coq kernel; Conc.v hand-written abstraction (no removes / structural changes; the stage-3 window inside the non-atomic flip is not predicted, C02 owns it); harness pause points, stage labelling and reader. Readers run in the same OS process (what the property speaks about) and share the process-global L1 cache; final states are also read by a fresh process.',
    technique='invariant lemmas over all schedules of an executable interleaving model (only flip steps change the visible store; program-counter monotonicity); pause-at-every-call differential check on the real code',
    trusted_base=[
        'modelled by hand: Conc.v (commit micro-steps, count merged at CStore); removes, splits and the Count==0 short-circuit exist only in Corr/C03.v stage model',
        'harness: pause/gate scheduler, stage labelling from recorded events, Go map model of the writer program',
    ],
    assumptions=['the reader is a new transaction of the same process (warm shapes: caches warmed by the setup commit; cold-start shapes: store committed by another process, writer reads first)', 'one writer at a time in the harness (the theorems allow any number)'],
)

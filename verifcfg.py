# Per-property configuration of ./check. One entry per claimed property.
#   props_v      theorem file under coq/theories (only theorems + Print Assumptions)
#   harness      subcommand of /verif/bin/harness
#   trusted_base extra trusted-base lines for the evidence
#   assumptions  what the check assumes
PROPS = {}
# properties deliberately not claimed, with the reason (DESIGN.md section 8)
NOT_APPLICABLE = {}
PENDING_REASON = 'not yet claimed: the model, theorems and correspondence for this property are not committed yet (work in progress, see DESIGN.md section 9); no check is registered rather than an unsound one'

import glob, os, importlib.util
for _f in sorted(glob.glob(os.path.join(os.path.dirname(os.path.abspath(__file__)), 'cfg', 'c*.py'))):
    _spec = importlib.util.spec_from_file_location('cfg_' + os.path.basename(_f)[:-3], _f)
    _m = importlib.util.module_from_spec(_spec); _spec.loader.exec_module(_m)
    PROPS[_m.ID] = _m.ENTRY

#!/bin/sh
# run every claimed check on a few seeds; print one line per (property, seed)
cd /verif
for s in ${SEEDS:-2 3}; do
for p in ${PROPS:-$(cat claimed.txt)}; do
  out=$(VERIF_SEED=$s timeout 2400 ./check $p 2>&1 | grep -v "^KNOWN-FINDING" | tail -2 | tr '\n' ' ' | cut -c1-300)
  echo "seed=$s $p: $out"
done
done

#!/usr/bin/env python3
"""tools/confirm_seed.py <name> <property> <seed worktree> <patch file name> <demo dir (module-relative cwd)> <demo go test args...>
   [--pkgs mod:pattern,...]   e.g. --pkgs .:./common/,.:./fs/
Confirms a seeded change in a fresh scratch worktree (demo passes without the patch, fails with it, code builds,
stable tests of the touched packages still pass) and files it under /verif/seeded/<name>/."""
import sys, os, subprocess, shutil, json, time
args = sys.argv[1:]
pkgs = []
if '--pkgs' in args:
    i = args.index('--pkgs'); pkgs = args[i + 1].split(','); args = args[:i] + args[i + 2:]
name, prop, seeddir, patchname, demodir = args[:5]
demoargs = args[5:]
env = dict(os.environ, PATH='/opt/veriftools/go1.26.8/bin:' + os.environ['PATH'], GOTOOLCHAIN='local', GOPROXY='off', GOSUMDB='off')
env.pop('GOFLAGS', None); env.pop('GOWORK', None)
W = '/var/tmp/confirm-%s-%d' % (name, os.getpid())
def sh(cmd, cwd):
    p = subprocess.run(cmd, cwd=cwd, env=env, stdout=subprocess.PIPE, stderr=subprocess.STDOUT, text=True)
    return p.returncode, p.stdout
subprocess.check_call(['git', '-C', '/repo', 'worktree', 'add', '-q', '--detach', W])
rec = dict(name=name, property=prop, confirmed_at=time.strftime('%Y-%m-%d %H:%M:%S'), steps=[])
ok = True
try:
    # demo files = untracked files of the seed worktree that are not the deliverable metadata
    rc, out = sh(['git', 'ls-files', '--others', '--exclude-standard'], seeddir)
    demos = [f for f in out.split('\n') if f and os.path.basename(f) not in ('seeded_meta.json',) and not f.startswith('.') and not f.endswith('.patch')]
    for f in demos:
        os.makedirs(os.path.dirname(os.path.join(W, f)) or W, exist_ok=True)
        shutil.copy(os.path.join(seeddir, f), os.path.join(W, f))
    cwd = os.path.join(W, demodir)
    democmd = (['go', 'run'] + demoargs[1:]) if demoargs and demoargs[0] == 'gorun' else (['go', 'test', '-count=1'] + demoargs)
    rc0, out0 = sh(democmd, cwd)
    rec['steps'].append(dict(step='demo on unchanged code', cmd='cd %s && go test -count=1 %s' % (demodir, ' '.join(demoargs)), exit=rc0, tail=out0[-600:]))
    if rc0 != 0: ok = False
    rca, outa = sh(['git', 'apply', '--whitespace=nowarn', os.path.join(seeddir, patchname)], W)
    rec['steps'].append(dict(step='apply patch', exit=rca, tail=outa[-300:]))
    if rca != 0: ok = False
    rcb, outb = sh(['go', 'build', './...'], W)
    rec['steps'].append(dict(step='go build ./... (root module)', exit=rcb, tail=outb[-300:]))
    if rcb != 0: ok = False
    rc1, out1 = sh(democmd, cwd)
    rec['steps'].append(dict(step='demo with the seeded change', exit=rc1, tail=out1[-900:]))
    if rc1 == 0: ok = False
    for pk in pkgs:
        mod, pat = pk.split(':')
        rcp, outp = sh(['python3', '/verif/tools/baseline_pkg.py', W, mod, pat], W)
        rec['steps'].append(dict(step='stable tests of %s %s with the seeded change' % (mod, pat), exit=rcp, tail=outp[-400:]))
        if rcp != 0: ok = False
    rec['confirmed'] = ok
    dst = os.path.join('/verif/seeded', name)
    shutil.rmtree(dst, ignore_errors=True)
    os.makedirs(os.path.join(dst, 'demo'))
    shutil.copy(os.path.join(seeddir, patchname), os.path.join(dst, 'patch.diff'))
    for f in demos:
        os.makedirs(os.path.dirname(os.path.join(dst, 'demo', f)), exist_ok=True)
        shutil.copy(os.path.join(seeddir, f), os.path.join(dst, 'demo', f))
    meta = {}
    mp = os.path.join(seeddir, 'seeded_meta.json')
    if os.path.exists(mp):
        try: meta = json.load(open(mp))
        except Exception: meta = {}
    json.dump(dict(property=prop, breaks=meta.get('summary', ''), needs=meta.get('needs', ''), files_changed=meta.get('files_changed', []),
                   demo='copy demo/* into a worktree of /repo at the same relative paths; cd %s && go test -count=1 %s' % (demodir, ' '.join(demoargs)),
                   author_meta=meta, confirmation=rec), open(os.path.join(dst, 'meta.json'), 'w'), indent=1)
    print(name, 'CONFIRMED' if ok else 'NOT CONFIRMED', [(s['step'], s['exit']) for s in rec['steps']])
finally:
    subprocess.call(['git', '-C', '/repo', 'worktree', 'remove', '--force', W])

#!/bin/sh
# tools/coqchk_all.sh — re-check every compiled property file and everything it depends on with Coq's independent
# checker and print the axioms they rely on (thorough tier only: ~20-30 min). Works on a copy of the compiled
# tree so that checks running meanwhile cannot change a .vo under it. Run ./setup first (all cones rebuilt).
T=/var/tmp/coqchk-tree-$$
rm -rf $T; mkdir -p $T; cp -r /verif/coq/theories $T/
cd $T
mods=$(ls theories/Props/*.vo | sed 's#theories/Props/\(.*\)\.vo#SopVerif.Props.\1#' | tr '\n' ' ')
timeout 7200 coqchk -silent -o -Q theories SopVerif $mods
rc=$?
cd /; rm -rf $T
exit $rc

#!/usr/bin/env python3
"""tools/baseline_pkg.py <repo_root> <module_dir> <pkg pattern...>
Runs `go test -json -vet=off -count=1` for the packages (inside the module dir, as the baseline command does) and
checks that every test of those packages listed in BASELINE.stable_pass passes. Exit 0 iff none regressed."""
import sys, os, json, subprocess
root, mod, pats = sys.argv[1], sys.argv[2], sys.argv[3:]
env = dict(os.environ, PATH='/opt/veriftools/go1.26.8/bin:' + os.environ['PATH'], GOTOOLCHAIN='local', GOPROXY='off', GOSUMDB='off')
env.pop('GOFLAGS', None); env.pop('GOWORK', None)
p = subprocess.run(['go', 'test', '-json', '-vet=off', '-count=1', '-timeout', '25m'] + pats, cwd=os.path.join(root, mod), env=env, stdout=subprocess.PIPE, stderr=subprocess.STDOUT, text=True)
res = {}
for line in p.stdout.split('\n'):
    try:
        e = json.loads(line)
    except Exception:
        continue
    if e.get('Test') and e.get('Action') in ('pass', 'fail', 'skip'):
        res[e['Package'] + '::' + e['Test']] = e['Action']
base = json.load(open('/root/.vp/BASELINE.json'))['stable_pass']
pk = set(k.split('::')[0] for k in res)
bad = [t for t in base if t.split('::')[0] in pk and res.get(t) != 'pass']
print('packages run:', sorted(pk))
print('tests run %d, stable_pass tests of these packages %d, regressed %d' % (len(res), sum(1 for t in base if t.split('::')[0] in pk), len(bad)))
for t in bad[:30]:
    print('  REGRESSED', t, res.get(t))
sys.exit(1 if bad else 0)

#!/bin/sh
# tools/seeded_alt.sh [parallelism] [skip-file] — every seeded change of seeded/EXPECT.txt against its expected checks, each
# in its own scratch worktree of /repo (VERIF_REPO self-test mode; /repo itself is not touched). One line per
# (change, check). Names listed in skip-file are skipped.
cd /verif
n=${1:-2}; skip=${2:-/dev/null}
grep -v '^#' seeded/EXPECT.txt | grep . | grep -v -w -F -f $skip | xargs -P $n -L 1 sh -c 'name=$0; tools/seedtest_one.sh /verif/seeded/$name/patch.diff "$@" 2>&1 | sed "s/^/$name /"'

#!/bin/sh
# tools/seedtest_one.sh <patch file> <prop> [prop...]  — run checks against a scratch copy of /repo with the patch (VERIF_REPO mode)
patch=$1; shift
d=/var/tmp/seedrun-$$
git -C /repo worktree add -q --detach $d || exit 2
(cd $d && git apply --whitespace=nowarn $patch) || { echo "patch does not apply"; git -C /repo worktree remove --force $d; exit 2; }
cd /verif
for p in "$@"; do
  out=$(VERIF_REPO=$d timeout 2400 ./check $p 2>&1 | grep -v "^KNOWN-FINDING" | tail -4 | tr '\n' ' ' | cut -c1-500)
  echo "$p: $out"
done
git -C /repo worktree remove --force $d

#!/bin/sh
# tools/thoroughsweep.sh <seed> [parallelism] — every claimed check, thorough tier, one seed; one line per property
cd /verif
s=${1:-1}; n=${2:-3}
tr " " "\n" < claimed.txt | grep . | xargs -P $n -I{} sh -c 'a=$(date +%s); out=$(VERIF_SEED='$s' timeout 5400 ./check {} --tier thorough 2>&1 | grep -v "^KNOWN-FINDING" | tail -2 | tr "\n" " " | cut -c1-300); b=$(date +%s); echo "seed='$s' {} ($((b-a))s): $out"'

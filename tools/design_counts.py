#!/usr/bin/env python3
"""tools/design_counts.py — refresh the 'open findings' column of DESIGN.md A.2 and the totals in A.6 from findings/*.json"""
import json, glob, re, os
ROOT = os.path.dirname(os.path.dirname(os.path.abspath(__file__)))
cnt = {}
tot_o = tot_f = 0
for f in glob.glob(os.path.join(ROOT, 'findings', 'C*.json')):
    p = os.path.basename(f)[:3]
    fs = json.load(open(f)).get('findings', [])
    o = sum(1 for x in fs if not x.get('status', 'open').startswith('fixed'))
    fx = sum(1 for x in fs if x.get('status', 'open').startswith('fixed'))
    cnt[p] = (o, fx); tot_o += o; tot_f += fx
s = open(os.path.join(ROOT, 'DESIGN.md')).read()
def row(m):
    p = m.group(1)
    o, fx = cnt.get(p, (0, 0))
    last = m.group(3)
    note = re.sub(r'^\s*(\d+|–)\s*(\(\d+ fixed\))?', '', last).strip()
    new = str(o) + ((' (%d fixed)' % fx) if fx else '') + ((' ' + note) if note else '')
    return '| %s |%s| %s |' % (p, m.group(2), new)
s = re.sub(r'^\| (C\d\d) \|(.*)\|([^|]*)\|$', row, s, flags=re.M)
s = re.sub(r'\d+ open findings and \d+ fixed entries', '%d open findings and %d fixed entries' % (tot_o, tot_f), s)
open(os.path.join(ROOT, 'DESIGN.md'), 'w').write(s)
print('open', tot_o, 'fixed', tot_f)

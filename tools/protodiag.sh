#!/bin/sh
# usage: protodiag.sh <dir with cases_000.v> <idx> ...   prints where model and implementation differ
d=$1; shift
cd $d
for i in "$@"; do
cat > diag.v <<EOT
Load "cases_000".
Definition dflt := mkCase (mkT false [] [] [] [] [] [] [] [] [] []) (mkD [] [] [] false None) None [] [] Committed (mkD [] [] [] false None).
Definition c := nth $i%nat cases dflt.
Definition D := Eval vm_compute in proto_diag c.
Print D.
Definition k := match snd (fst D) with Some k => k | None => 0%nat end.
Definition R := Eval vm_compute in (let '(o,d,t) := run (pc_txn c) (pc_pre c) (pc_fault c) in (pc_fault c, o, pc_outcome c, skipn (k-1) t, skipn (k-1) (pc_trace c))).
Print R.
EOT
coqc -Q /verif/coq/theories SopVerif diag.v 2>&1 | grep -v "^M =" | sed -n '/^D =/,$p' | tr -s ' \n' ' ' | sed 's/{| lid := \([0-9]*\); ida := \([0-9]*\); idb := \([0-9]*\); activeB := \([a-z]*\); ver := \([-0-9]*\); wip := \([0-9]*\); del := \([a-z]*\) |}/H(\1 a\2 b\3 \4 v\5 w\6 \7)/g' | cut -c1-2600
echo
done

#!/bin/sh
# tools/quicksweep.sh <seed> [parallelism] — every claimed check, quick tier, one seed; one line per property
cd /verif
s=${1:-1}; n=${2:-3}
tr " " "\n" < claimed.txt | grep . | xargs -P $n -I{} sh -c 'out=$(VERIF_SEED='$s' timeout 3000 ./check {} 2>&1 | grep -v "^KNOWN-FINDING" | tail -2 | tr "\n" " " | cut -c1-300); echo "seed='$s' {}: $out"'

#!/usr/bin/env python3
"""Regenerate /verif/MANIFEST.json from verifcfg.PROPS and properties.jsonl."""
import json, os, sys
ROOT = os.path.dirname(os.path.dirname(os.path.abspath(__file__)))
sys.path.insert(0, ROOT)
from verifcfg import PROPS, NOT_APPLICABLE, PENDING_REASON
props = [json.loads(l) for l in open(os.path.join(ROOT, 'properties.jsonl'))]
claimed = set(open(os.path.join(ROOT, 'claimed.txt')).read().split())   # integrated and verified green by the lead
checks, na = [], []
for p in props:
    pid = p['id']
    c = PROPS.get(pid) if pid in claimed else None
    if c is None:
        na.append(dict(property_id=pid, reason=NOT_APPLICABLE.get(pid, PENDING_REASON)))
        continue
    checks.append(dict(
        property_id=pid,
        quick_cmd='./check %s --tier quick' % pid,
        thorough_cmd='./check %s --tier thorough' % pid,
        evidence_file='/verif/evidence/%s.json' % pid,
        replay_cmd_template='./check %s --replay {path}' % pid,
        engine='coq+harness',
        level_claimed=dict(category=c.get('level', 'proof'), text=c['level_text'], design_ref=c.get('design_ref', 'DESIGN.md section 5, ' + pid)),
        level_note=c['level_note'],
        technique=c.get('technique', 'machine-checked proof in Coq 8.16.1 over an executable Gallina model; model tied to /repo by a translator and a differential correspondence check'),
    ))
m = dict(
    version=1,
    setup_cmd='./setup',
    hooks=dict(
        guard='verif',
        enable='go build -tags verif (the harness module under /verif/harness replaces github.com/sharedcode/sop and its submodules by /repo)',
        baseline_off_cmd=json.load(open('/root/.vp/BASELINE.json'))['cmd'] if os.path.exists('/root/.vp/BASELINE.json') else '',
        source_commits=[l.strip() for l in open(os.path.join(ROOT, 'HOOK_COMMITS')) if l.strip()] if os.path.exists(os.path.join(ROOT, 'HOOK_COMMITS')) else [],
        add_only=True,
    ),
    engines=[dict(name='coq+harness', path='/verif/check', serves_properties=[c['property_id'] for c in checks],
                  kind_free_text='Coq 8.16.1 development under /verif/coq (models, proofs, Props/Cnn.v theorem files), Go translator /verif/tools/gen, Go correspondence harness /verif/harness, python driver /verif/check')],
    checks=checks,
    notes='See DESIGN.md. Every check rebuilds the translator output, the Coq cone of its theorem file and the harness from /repo\'s working tree on each run.',
    not_applicable=na,
)
open(os.path.join(ROOT, 'MANIFEST.json'), 'w').write(json.dumps(m, indent=1) + '\n')
print('claimed', len(checks), 'not claimed', len(na))

#!/usr/bin/env python3
"""tools/seeded_results.py <log...> — collect the lines "<seeded change> <check>: <result line>" printed by
tools/seeded_alt.sh / tools/seeded_official.sh into seeded/RESULTS.json and compare with seeded/EXPECT.txt."""
import sys, re, json, os
ROOT = os.path.dirname(os.path.dirname(os.path.abspath(__file__)))
exp = {}
for line in open(os.path.join(ROOT, 'seeded', 'EXPECT.txt')):
    line = line.strip()
    if line and not line.startswith('#'):
        n, *cs = line.split()
        exp[n] = cs
res = {}
for f in sys.argv[1:]:
    mode = 'repo' if 'official' in f else 'worktree'
    for line in open(f, errors='replace'):
        m = re.match(r'^(C\d\d(?:r2)?-[\w-]+) (C\d\d): (.*)$', line.strip())
        if not m:
            continue
        name, chk, out = m.groups()
        if out.startswith('VIOLATION'):
            kind = 'tie' if 'no-failing-input-found' in out else 'input'
        elif out.startswith('OK'):
            kind = 'missed'
        else:
            kind = 'error'
        res.setdefault(name, {})[chk] = dict(result=kind, mode=mode, line=out[:300])
out = dict(comment="quick-tier results of the checks against every seeded change (mode worktree = scratch worktree of /repo with "
                   "the patch, VERIF_REPO; mode repo = git -C /repo apply, check, git -C /repo checkout -- .). input = VIOLATION with a "
                   "failing input; tie = VIOLATION ... no-failing-input-found; missed = the check printed OK.",
           results=res)
json.dump(out, open(os.path.join(ROOT, 'seeded', 'RESULTS.json'), 'w'), indent=1, sort_keys=True)
bad = 0
for n, cs in sorted(exp.items()):
    for c in cs:
        r = res.get(n, {}).get(c, {}).get('result', 'not run')
        flag = '' if r in ('input', 'tie') else '   <-- expected to be reported'
        if flag: bad += 1
        print('%-50s %s %s%s' % (n, c, r, flag))
print('not as expected:', bad)

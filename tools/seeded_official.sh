#!/bin/sh
# tools/seeded_official.sh [name...] — the official seeded-change run: for every seeded/<name> listed in
# seeded/EXPECT.txt apply patch.diff to /repo, run the expected checks (quick tier), undo straight afterwards.
# NOTHING ELSE may use /repo while this runs. Results: seeded/RESULTS.json (+ one line per run on stdout).
cd /verif
[ -z "$(git -C /repo status --porcelain)" ] || { echo "/repo working tree is not clean"; exit 2; }
trap 'git -C /repo checkout -- . ; exit 1' INT TERM
grep -v '^#' seeded/EXPECT.txt | while read name checks; do
  [ -n "$name" ] || continue
  if [ $# -gt 0 ]; then case " $* " in *" $name "*) ;; *) continue;; esac; fi
  git -C /repo apply --whitespace=nowarn /verif/seeded/$name/patch.diff || { echo "$name: patch does not apply"; continue; }
  for p in $checks; do
    out=$(timeout 3000 ./check $p 2>&1 | grep -v "^KNOWN-FINDING" | tail -3 | tr '\n' ' ' | cut -c1-400)
    echo "$name $p: $out"
  done
  git -C /repo checkout -- .
  [ -z "$(git -C /repo status --porcelain)" ] || { echo "/repo not clean after $name"; exit 2; }
done

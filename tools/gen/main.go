// Command gen is the translator half of the model/code tie: it reads the
// current sources under the repository root and regenerates the Coq files
// under coq/theories/Gen. It aborts (exit 2) when an expected declaration is
// missing or is not a literal constant expression it can evaluate, so that a
// refactor can never silently freeze an old value into the model.
package main

import (
	"encoding/json"
	"fmt"
	"go/ast"
	"go/parser"
	"go/token"
	"math/big"
	"os"
	"path/filepath"
	"reflect"
	"runtime"
	"sort"
	"strconv"
	"strings"
)

var repo = "/repo"
var outDir = "/verif/coq/theories/Gen"

type pkgInfo struct {
	files map[string]*ast.File
	fset  *token.FileSet
}

var pkgCache = map[string]*pkgInfo{}

func loadPkg(dir string) *pkgInfo {
	if p, ok := pkgCache[dir]; ok {
		return p
	}
	fset := token.NewFileSet()
	p := &pkgInfo{files: map[string]*ast.File{}, fset: fset}
	ents, err := os.ReadDir(filepath.Join(repo, dir))
	if err != nil {
		die("cannot read dir %s: %v", dir, err)
	}
	for _, e := range ents {
		n := e.Name()
		if !strings.HasSuffix(n, ".go") || strings.HasSuffix(n, "_test.go") {
			continue
		}
		src, err := os.ReadFile(filepath.Join(repo, dir, n))
		if err != nil {
			die("read %s: %v", n, err)
		}
		// skip files guarded by the verif tag or other non-default tags
		head := string(src)
		if i := strings.Index(head, "package "); i >= 0 {
			head = head[:i]
		}
		if strings.Contains(head, "//go:build") && !strings.Contains(head, "//go:build !") && !strings.Contains(head, "linux") && !strings.Contains(head, "unix") {
			continue
		}
		f, err := parser.ParseFile(fset, filepath.Join(repo, dir, n), src, parser.ParseComments)
		if err != nil {
			die("parse %s: %v", n, err)
		}
		p.files[n] = f
	}
	pkgCache[dir] = p
	return p
}

// genFailure is what die raises inside a generator: the generators are independent (one output file each), so a
// source shape one of them no longer recognises breaks the tie only for the properties whose theorems depend on
// that file; main records the failure per output file in GENSTATUS.json and still exits 2.
type genFailure string

var inGenerator bool

func die(f string, a ...any) {
	msg := fmt.Sprintf(f, a...)
	fmt.Fprintf(os.Stderr, "gen: %s\n", msg)
	if inGenerator {
		panic(genFailure(msg))
	}
	os.Exit(2)
}

// findValue returns the initialiser expression of a package-level const or var,
// or of a const declared inside function fn when fn != "". For iota-style
// const blocks it returns the implicit repetition with the iota index.
func findValue(dir, fn, name string) (ast.Expr, int, *pkgInfo) {
	p := loadPkg(dir)
	var names []string
	for n := range p.files {
		names = append(names, n)
	}
	sort.Strings(names)
	for _, n := range names {
		f := p.files[n]
		var found ast.Expr
		iota := -1
		visitGen := func(gd *ast.GenDecl) {
			if gd.Tok != token.CONST && gd.Tok != token.VAR {
				return
			}
			var last []ast.Expr
			for idx, s := range gd.Specs {
				vs := s.(*ast.ValueSpec)
				if len(vs.Values) > 0 {
					last = vs.Values
				}
				for i, id := range vs.Names {
					if id.Name == name && found == nil {
						if len(vs.Values) > i {
							found = vs.Values[i]
						} else if gd.Tok == token.CONST && len(last) > i {
							found = last[i]
						}
						iota = idx
					}
				}
			}
		}
		for _, d := range f.Decls {
			switch dd := d.(type) {
			case *ast.GenDecl:
				if fn == "" {
					visitGen(dd)
				}
			case *ast.FuncDecl:
				if fn != "" && dd.Name.Name == fn && dd.Body != nil {
					ast.Inspect(dd.Body, func(nd ast.Node) bool {
						if ds, ok := nd.(*ast.DeclStmt); ok {
							if gd, ok := ds.Decl.(*ast.GenDecl); ok {
								visitGen(gd)
							}
						}
						return true
					})
				}
			}
		}
		if found != nil {
			return found, iota, p
		}
	}
	die("declaration %s (func %q) not found in %s", name, fn, dir)
	return nil, 0, nil
}

var durUnits = map[string]int64{
	"Nanosecond": 1, "Microsecond": 1e3, "Millisecond": 1e6, "Second": 1e9, "Minute": 60e9, "Hour": 3600e9,
}

// knownExternal lists values of constants defined outside the repository that
// the sources refer to. They are part of the trusted base of the translator.
var knownExternal = map[string]int64{
	"directio.BlockSize": 4096,
}

func eval(dir string, e ast.Expr, iota int) *big.Int {
	switch x := e.(type) {
	case *ast.BasicLit:
		if x.Kind == token.INT {
			v, ok := new(big.Int).SetString(strings.ReplaceAll(x.Value, "_", ""), 0)
			if !ok {
				die("bad int literal %s", x.Value)
			}
			return v
		}
		die("non-int literal %s", x.Value)
	case *ast.ParenExpr:
		return eval(dir, x.X, iota)
	case *ast.UnaryExpr:
		v := eval(dir, x.X, iota)
		if x.Op == token.SUB {
			return new(big.Int).Neg(v)
		}
		if x.Op == token.ADD {
			return v
		}
		die("unsupported unary op %v", x.Op)
	case *ast.BinaryExpr:
		a, b := eval(dir, x.X, iota), eval(dir, x.Y, iota)
		switch x.Op {
		case token.ADD:
			return new(big.Int).Add(a, b)
		case token.SUB:
			return new(big.Int).Sub(a, b)
		case token.MUL:
			return new(big.Int).Mul(a, b)
		case token.QUO:
			return new(big.Int).Quo(a, b)
		case token.SHL:
			return new(big.Int).Lsh(a, uint(b.Int64()))
		}
		die("unsupported binary op %v", x.Op)
	case *ast.CallExpr:
		// conversions such as time.Duration(x), int64(x)
		if len(x.Args) == 1 {
			return eval(dir, x.Args[0], iota)
		}
		die("unsupported call expression")
	case *ast.SelectorExpr:
		if id, ok := x.X.(*ast.Ident); ok {
			if id.Name == "time" {
				if u, ok := durUnits[x.Sel.Name]; ok {
					return big.NewInt(u)
				}
			}
			if v, ok := knownExternal[id.Name+"."+x.Sel.Name]; ok {
				return big.NewInt(v)
			}
			if id.Name == "sop" {
				ee, io, _ := findValue(".", "", x.Sel.Name)
				return eval(".", ee, io)
			}
		}
		die("unsupported selector %v.%v", x.X, x.Sel.Name)
	case *ast.Ident:
		if x.Name == "iota" {
			return big.NewInt(int64(iota))
		}
		ee, io, _ := findValue(dir, "", x.Name)
		return eval(dir, ee, io)
	}
	die("unsupported expression %T", e)
	return nil
}

func evalString(dir string, e ast.Expr) string {
	switch x := e.(type) {
	case *ast.BasicLit:
		if x.Kind == token.STRING {
			s, err := strconv.Unquote(x.Value)
			if err != nil {
				die("bad string %s", x.Value)
			}
			return s
		}
	case *ast.CallExpr: // Role("Admin") style conversions
		if len(x.Args) == 1 {
			return evalString(dir, x.Args[0])
		}
	case *ast.Ident:
		ee, _, _ := findValue(dir, "", x.Name)
		return evalString(dir, ee)
	}
	die("unsupported string expression %T", e)
	return ""
}

type intSpec struct {
	dir, fn, name, coq string
	div                int64 // divide (e.g. ns -> ms); 0 = none
}

var intSpecs = []intSpec{
	{".", "", "HandleSizeInBytes", "HandleSizeInBytes", 0},
	{"fs", "", "handlesPerBlock", "handlesPerBlock", 0},
	{"fs", "", "blockSize", "blockSize", 0},
	{"fs", "", "MinimumModValue", "MinimumModValue", 0},
	{"fs", "", "MaximumModValue", "MaximumModValue", 0},
	{"fs", "", "lockSectorRetryTimeoutDuration", "lockSectorRetryTimeout_ms", 1e6},
	{"fs", "", "LockFileRegionDuration", "LockFileRegionDuration_ms", 1e6},
	{"common", "", "phase1CommitMaxRetryCount", "phase1CommitMaxRetryCount", 0},
	{"common", "", "priorityRollbackCheckIntervalSeconds", "priorityRollbackCheckIntervalSeconds", 0},
	{"common", "", "priorityRollbackQuickCheckIntervalSeconds", "priorityRollbackQuickCheckIntervalSeconds", 0},
	{"common", "", "cleanupCheckIntervalMinutes", "cleanupCheckIntervalMinutes", 0},
	{"common", "", "cleanupQuickCheckIntervalMinutes", "cleanupQuickCheckIntervalMinutes", 0},
	{"common", "", "defaultLockDuration", "defaultLockDuration_ms", 1e6},
	{".", "IsExpiredInactive", "maxDuration", "handleInactiveExpiryHours", 0},
}

func coqZ(v *big.Int) string {
	if v.Sign() < 0 {
		return "(" + v.String() + ")"
	}
	return v.String()
}

func writeIfChanged(path, content string) {
	old, err := os.ReadFile(path)
	if err == nil && string(old) == content {
		return
	}
	if err := os.MkdirAll(filepath.Dir(path), 0o755); err != nil {
		die("%v", err)
	}
	if err := os.WriteFile(path, []byte(content), 0o644); err != nil {
		die("%v", err)
	}
}

func genConsts() {
	var b strings.Builder
	b.WriteString("(* GENERATED by /verif/tools/gen from the sources under /repo. Do not edit. *)\n")
	b.WriteString("From Coq Require Import ZArith.\nLocal Open Scope Z_scope.\n\n")
	for _, s := range intSpecs {
		e, io, _ := findValue(s.dir, s.fn, s.name)
		v := eval(s.dir, e, io)
		if s.div != 0 {
			v = new(big.Int).Quo(v, big.NewInt(s.div))
		}
		fmt.Fprintf(&b, "(* %s: %s %s *)\nDefinition %s : Z := %s.\n", s.dir, s.fn, s.name, s.coq, coqZ(v))
	}
	writeIfChanged(filepath.Join(outDir, "Consts.v"), b.String())
}

func main() {
	if len(os.Args) > 1 {
		repo = os.Args[1]
	}
	if len(os.Args) > 2 {
		outDir = os.Args[2]
	}
	status := map[string]string{}
	failed := false
	runOne := func(g func()) {
		name := runtime.FuncForPC(reflect.ValueOf(g).Pointer()).Name()
		name = name[strings.LastIndex(name, ".")+1:]
		file, ok := genOutput[name]
		if !ok {
			fmt.Fprintf(os.Stderr, "gen: generator %s has no entry in genOutput\n", name)
			os.Exit(2)
		}
		defer func() {
			inGenerator = false
			if r := recover(); r != nil {
				gf, ok := r.(genFailure)
				if !ok {
					panic(r)
				}
				status[file] = string(gf)
				failed = true
			}
		}()
		inGenerator = true
		status[file] = ""
		g()
	}
	runOne(genConsts)
	for _, g := range extraGens {
		runOne(g)
	}
	js, _ := json.MarshalIndent(status, "", " ")
	os.MkdirAll(outDir, 0o755)
	os.WriteFile(filepath.Join(outDir, "GENSTATUS.json"), js, 0o644)
	if failed {
		os.Exit(2)
	}
}

// genOutput names the one file each generator writes (checked: a generator missing here aborts the run).
var genOutput = map[string]string{
	"genConsts": "Consts.v", "genAccessSites": "AccessSites.v", "genHandleCodec": "HandleCodec.v",
	"genHashmapConsts": "HashmapConsts.v", "genLocksConsts": "LocksConsts.v", "genMaintenance": "MaintConsts.v",
	"genRbac": "RbacConsts.v", "genSearchTables": "SearchTables.v", "genStoreInfo": "StoreInfoFields.v",
	"genTimeoutConsts": "TimeoutConsts.v", "genVectorConsts": "VectorConsts.v",
}

var extraGens []func()

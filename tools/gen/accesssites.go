package main

// C36: access sites of the shared objects the property names, with the locks
// syntactically held at each site. Output: Gen/AccessSites.v (one site table per
// object, its guard, and the baseline of known-unguarded site signatures read
// from corpus/C36/sites.json) and, when VERIF_SITES_JSON is set, the same
// summary as JSON for the harness.
//
// The pass is syntactic (go/ast only):
//   * types are resolved from declarations of the package (receiver, parameters,
//     struct fields, results of package functions, := from those, range);
//     a selector that has the name of a tracked field but whose base type cannot
//     be resolved aborts the translation;
//   * lockset: X.Lock()/X.RLock() add, X.Unlock()/X.RUnlock() remove, a deferred
//     unlock keeps the lock to the end of the function; if/switch/select join by
//     intersection over the branches that fall through; loops are iterated to a
//     fixed point (intersection with the state at continue / end of body);
//     function literals start with the empty lockset unless called on the spot;
//     `go` and `defer` bodies and calls start with the empty lockset;
//   * a lock protects a field object only when it was taken through the same
//     base expression (c.locker for c.lookup); other instances are printed as
//     name@base and never match the guard;
//   * asCallerHolds lists helpers documented as "caller holds the lock": their
//     bodies are analysed with that lock assumed, and every call of such a helper
//     is itself recorded as a site of the objects the helper touches, with the
//     lockset at the call (so the assumption is checked one level up);
//   * a local variable initialised from a composite literal in the same function
//     is an object under construction (not yet shared): accesses through it are
//     not sites (asFreshSkipped counts them).

import (
	"encoding/json"
	"fmt"
	"go/ast"
	"go/token"
	"go/types"
	"os"
	"path/filepath"
	"sort"
	"strings"
)

type asObj struct {
	name       string // Coq identifier suffix
	dir        string // package directory relative to the repository
	owner      string // struct type for a field object, "" for a package variable
	field      string // field or variable name
	pkgName    string // for exported variables: how other packages qualify it
	guardOwner string // struct type of the guarding lock field, "" for a package-level lock
	guardName  string
	readOnly   map[string]bool // methods of the object that do not mutate it
	promoted   string          // interface whose methods, when not redefined on owner, are promoted from the embedded field
}

func (o *asObj) guard() string {
	if o.guardOwner != "" {
		return o.guardOwner + "." + o.guardName
	}
	return o.guardName
}

var asObjects = []*asObj{
	{name: "L1Cache_lookup", dir: "cache", owner: "L1Cache", field: "lookup", guardOwner: "L1Cache", guardName: "locker"},
	{name: "L1Cache_mru", dir: "cache", owner: "L1Cache", field: "mru", guardOwner: "L1Cache", guardName: "locker", readOnly: map[string]bool{"isFull": true}},
	{name: "shard_items", dir: "cache", owner: "shard", field: "items", guardOwner: "shard", guardName: "mu"},
	{name: "globalL1CacheRegistry", dir: "cache", field: "globalL1CacheRegistry", guardName: "globalL1Locker"},
	{name: "sync_cache_Cache", dir: "cache", owner: "sync_cache", field: "Cache", guardOwner: "sync_cache", guardName: "locker",
		readOnly: map[string]bool{"Count": true, "IsFull": true}, promoted: "Cache"},
	{name: "GlobalReplicationDetails", dir: "fs", field: "GlobalReplicationDetails", pkgName: "fs", guardName: "globalReplicationDetailsLocker"},
	{name: "jitterRNG", dir: ".", field: "jitterRNG", guardName: "jitterMutex"},
	{name: "lastOnIdleRunTime", dir: "common", field: "lastOnIdleRunTime", guardName: "locker"},
	{name: "hourBeingProcessed", dir: "common", field: "hourBeingProcessed", guardName: "locker"},
	{name: "onStartUpFlag", dir: "common", field: "onStartUpFlag", guardName: "locker"},
	{name: "lastPriorityOnIdleTime", dir: "common", field: "lastPriorityOnIdleTime", guardName: "priorityLocker"},
	{name: "priorityLogFound", dir: "common", field: "priorityLogFound", guardName: "priorityLocker"},
}

// helpers whose documentation / naming says the caller holds the lock (trusted table,
// listed in cfg/c36.py; each call of them is checked as a site)
type asHelper struct {
	dir, recv, fn string
	lock, mode    string
}

var asCallerHolds = []asHelper{
	{"cache", "L1Cache", "getEntryForHandleLocked", "L1Cache.locker", "excl"},
	{"cache", "l1_mru", "evict", "L1Cache.locker", "excl"},
	{"fs", "replicationTracker", "syncWithL2Cache", "globalReplicationDetailsLocker", "excl"},
}

func (h asHelper) key() string { return h.dir + ":" + h.recv + "." + h.fn }

// ---------------------------------------------------------------- package facts

type asPkg struct {
	dir     string
	p       *pkgInfo
	structs map[string]map[string]ast.Expr
	funcs   map[string]*ast.FuncDecl // "Recv.Name" or "Name"
	fileOf  map[*ast.FuncDecl]string
	globals map[string]ast.Expr // declared package variables -> type expression (nil when not inferable)
	ifaces  map[string][]string
	imports map[string]map[string]bool // file -> imported package names
}

var asPkgs = map[string]*asPkg{}

func asBase(t ast.Expr) string {
	switch x := t.(type) {
	case *ast.StarExpr:
		return asBase(x.X)
	case *ast.ParenExpr:
		return asBase(x.X)
	case *ast.IndexExpr:
		return asBase(x.X)
	case *ast.IndexListExpr:
		return asBase(x.X)
	case *ast.Ident:
		return x.Name
	case *ast.SelectorExpr:
		if id, ok := x.X.(*ast.Ident); ok {
			return id.Name + "." + x.Sel.Name
		}
	}
	return ""
}

func asElem(t ast.Expr) ast.Expr {
	switch x := t.(type) {
	case *ast.ArrayType:
		return x.Elt
	case *ast.MapType:
		return x.Value
	case *ast.StarExpr:
		return asElem(x.X)
	case *ast.Ellipsis:
		return x.Elt
	case *ast.ParenExpr:
		return asElem(x.X)
	}
	return nil
}

func asResult(d *ast.FuncDecl) ast.Expr {
	if d.Type.Results == nil || len(d.Type.Results.List) == 0 {
		return nil
	}
	return d.Type.Results.List[0].Type
}

func asLoad(dir string) *asPkg {
	if k, ok := asPkgs[dir]; ok {
		return k
	}
	p := loadPkg(dir)
	k := &asPkg{dir: dir, p: p, structs: map[string]map[string]ast.Expr{}, funcs: map[string]*ast.FuncDecl{}, fileOf: map[*ast.FuncDecl]string{},
		globals: map[string]ast.Expr{}, ifaces: map[string][]string{}, imports: map[string]map[string]bool{}}
	for fname, f := range p.files {
		imp := map[string]bool{}
		for _, is := range f.Imports {
			path := strings.Trim(is.Path.Value, "\"")
			n := path[strings.LastIndex(path, "/")+1:]
			if is.Name != nil {
				n = is.Name.Name
			}
			imp[n] = true
		}
		k.imports[fname] = imp
		for _, d := range f.Decls {
			switch dd := d.(type) {
			case *ast.FuncDecl:
				key := dd.Name.Name
				if dd.Recv != nil && len(dd.Recv.List) == 1 {
					key = asBase(dd.Recv.List[0].Type) + "." + key
				}
				k.funcs[key] = dd
				k.fileOf[dd] = fname
			case *ast.GenDecl:
				for _, s := range dd.Specs {
					switch sp := s.(type) {
					case *ast.TypeSpec:
						switch tt := sp.Type.(type) {
						case *ast.StructType:
							fm := map[string]ast.Expr{}
							for _, fl := range tt.Fields.List {
								if len(fl.Names) == 0 { // embedded
									n := asBase(fl.Type)
									if i := strings.LastIndex(n, "."); i >= 0 {
										n = n[i+1:]
									}
									fm[n] = fl.Type
								}
								for _, n := range fl.Names {
									fm[n.Name] = fl.Type
								}
							}
							k.structs[sp.Name.Name] = fm
						case *ast.InterfaceType:
							var ms []string
							for _, m := range tt.Methods.List {
								for _, n := range m.Names {
									ms = append(ms, n.Name)
								}
							}
							k.ifaces[sp.Name.Name] = ms
						}
					case *ast.ValueSpec:
						if dd.Tok != token.VAR {
							continue
						}
						for i, n := range sp.Names {
							var t ast.Expr = sp.Type
							if t == nil && len(sp.Values) > i {
								switch v := sp.Values[i].(type) {
								case *ast.CompositeLit:
									t = v.Type
								case *ast.CallExpr:
									if id, ok := v.Fun.(*ast.Ident); ok && id.Name == "make" && len(v.Args) > 0 {
										t = v.Args[0]
									}
								case *ast.UnaryExpr:
									if cl, ok := v.X.(*ast.CompositeLit); ok && v.Op == token.AND {
										t = &ast.StarExpr{X: cl.Type}
									}
								}
							}
							k.globals[n.Name] = t
						}
					}
				}
			}
		}
	}
	asPkgs[dir] = k
	return k
}

// ---------------------------------------------------------------- locksets

type asLock struct{ name, base, mode string }
type asLS map[string]asLock // key: name|base|mode

func (l asLock) key() string { return l.name + "|" + l.base + "|" + l.mode }
func (ls asLS) clone() asLS {
	o := asLS{}
	for k, v := range ls {
		o[k] = v
	}
	return o
}
func asMeet(a, b asLS) asLS {
	o := asLS{}
	for k, v := range a {
		if _, ok := b[k]; ok {
			o[k] = v
		}
	}
	return o
}
func asEq(a, b asLS) bool {
	if len(a) != len(b) {
		return false
	}
	for k := range a {
		if _, ok := b[k]; !ok {
			return false
		}
	}
	return true
}

type asHeld struct{ Name, Mode string }

type asSite struct {
	obj        *asObj
	file, fn   string
	kind       string // rd | wr
	held       []asHeld
	occ        string
	unguardedF bool
}

type asPending struct {
	helper   string
	file, fn string
	base     string
	ls       asLS
}

var (
	asSites        = map[*asObj][]*asSite{}
	asPendings     []asPending
	asHelperTouch  = map[string]map[*asObj]string{} // helper key -> object -> strongest kind
	asFreshSkipped int
)

func asHeldFor(ls asLS, base string) []asHeld {
	var out []asHeld
	for _, l := range ls {
		n := l.name
		if !(l.base == "" || l.base == "*" || l.base == base || strings.HasPrefix(base, l.base+".")) {
			n = l.name + "@" + l.base
		}
		out = append(out, asHeld{n, l.mode})
	}
	sort.Slice(out, func(i, j int) bool {
		if out[i].Name != out[j].Name {
			return out[i].Name < out[j].Name
		}
		return out[i].Mode < out[j].Mode
	})
	return out
}

func asGuarded(o *asObj, s *asSite) bool {
	for _, h := range s.held {
		if h.Name == o.guard() && (h.Mode == "excl" || s.kind == "rd") {
			return true
		}
	}
	return false
}

// ---------------------------------------------------------------- function walker

type asLoop struct {
	isSwitch        bool
	brk, cont       asLS
	hasBrk, hasCont bool
}

type asFn struct {
	pk      *asPkg
	file    string // relative to the repository
	fname   string // base name of the file (imports lookup)
	name    string
	helper  string // key when this function is a caller-holds helper
	locals  map[string]ast.Expr
	fresh   map[string]bool
	record  bool
	loops   []*asLoop
	foreign bool // package other than the object's: only pkg.Var selectors are looked for
}

func (f *asFn) typeOf(e ast.Expr) ast.Expr {
	switch x := e.(type) {
	case *ast.Ident:
		if t, ok := f.locals[x.Name]; ok {
			return t
		}
		if t, ok := f.pk.globals[x.Name]; ok {
			return t
		}
	case *ast.ParenExpr:
		return f.typeOf(x.X)
	case *ast.StarExpr:
		t := f.typeOf(x.X)
		if s, ok := t.(*ast.StarExpr); ok {
			return s.X
		}
		return t
	case *ast.UnaryExpr:
		if x.Op == token.AND {
			if t := f.typeOf(x.X); t != nil {
				return &ast.StarExpr{X: t}
			}
		}
	case *ast.CompositeLit:
		return x.Type
	case *ast.SelectorExpr:
		b := asBase(f.typeOf(x.X))
		if fs, ok := f.pk.structs[b]; ok {
			if t, ok := fs[x.Sel.Name]; ok {
				return t
			}
		}
	case *ast.IndexExpr:
		if t := f.typeOf(x.X); t != nil {
			return asElem(t)
		}
	case *ast.TypeAssertExpr:
		return x.Type
	case *ast.CallExpr:
		fun := x.Fun
		switch g := fun.(type) { // generic instantiation
		case *ast.IndexExpr:
			fun = g.X
		case *ast.IndexListExpr:
			fun = g.X
		}
		switch fn := fun.(type) {
		case *ast.Ident:
			if _, shadow := f.locals[fn.Name]; !shadow && len(x.Args) > 0 {
				if fn.Name == "make" {
					return x.Args[0]
				}
				if fn.Name == "new" {
					return &ast.StarExpr{X: x.Args[0]}
				}
			}
			if d, ok := f.pk.funcs[fn.Name]; ok {
				return asResult(d)
			}
		case *ast.SelectorExpr:
			b := asBase(f.typeOf(fn.X))
			if d, ok := f.pk.funcs[b+"."+fn.Sel.Name]; ok {
				return asResult(d)
			}
		}
	}
	return nil
}

func (f *asFn) site(o *asObj, kind, base string, ls asLS) {
	if f.helper != "" {
		m := asHelperTouch[f.helper]
		if m == nil {
			m = map[*asObj]string{}
			asHelperTouch[f.helper] = m
		}
		if m[o] != "wr" {
			m[o] = kind
		}
	}
	if !f.record {
		return
	}
	asSites[o] = append(asSites[o], &asSite{obj: o, file: f.file, fn: f.name, kind: kind, held: asHeldFor(ls, base)})
}

func (f *asFn) isPkgName(id *ast.Ident) bool {
	if _, ok := f.locals[id.Name]; ok {
		return false
	}
	return f.pk.imports[f.fname][id.Name]
}

// touch reports whether e denotes one of the tracked objects and records the access
func (f *asFn) touch(e ast.Expr, ls asLS, kind string) bool {
	switch x := e.(type) {
	case *ast.Ident:
		if f.foreign {
			return false
		}
		if _, shadow := f.locals[x.Name]; shadow {
			return false
		}
		for _, o := range asObjects {
			if o.owner == "" && o.dir == f.pk.dir && o.field == x.Name {
				f.site(o, kind, "", ls)
				return true
			}
		}
	case *ast.SelectorExpr:
		if id, ok := x.X.(*ast.Ident); ok && f.isPkgName(id) {
			for _, o := range asObjects {
				if o.owner == "" && o.pkgName != "" && o.pkgName == id.Name && o.field == x.Sel.Name && o.dir != f.pk.dir {
					f.site(o, kind, "", ls)
					return true
				}
			}
			return false
		}
		if f.foreign {
			return false
		}
		for _, o := range asObjects {
			if o.owner == "" || o.dir != f.pk.dir || o.field != x.Sel.Name {
				continue
			}
			b := asBase(f.typeOf(x.X))
			if b == "" {
				die("accesssites: cannot resolve the type of %s in %s (%s) to decide whether .%s is %s.%s",
					types.ExprString(x.X), f.name, f.file, x.Sel.Name, o.owner, o.field)
			}
			if b != o.owner {
				continue
			}
			if id, ok := x.X.(*ast.Ident); ok && f.fresh[id.Name] {
				if f.record {
					asFreshSkipped++
				}
				return true
			}
			f.site(o, kind, types.ExprString(x.X), ls)
			return true
		}
	case *ast.ParenExpr:
		return f.touch(x.X, ls, kind)
	}
	return false
}

func asKind(wr bool) string {
	if wr {
		return "wr"
	}
	return "rd"
}

func (f *asFn) expr(e ast.Expr, ls asLS, wr bool) {
	switch x := e.(type) {
	case nil:
	case *ast.Ident:
		f.touch(x, ls, asKind(wr))
	case *ast.SelectorExpr:
		if f.touch(x, ls, asKind(wr)) {
			f.expr(x.X, ls, false)
			return
		}
		f.expr(x.X, ls, wr) // a write into a field of X is a write of (the pointee of) X
	case *ast.IndexExpr:
		f.expr(x.X, ls, wr)
		f.expr(x.Index, ls, false)
	case *ast.IndexListExpr:
		f.expr(x.X, ls, wr)
	case *ast.SliceExpr:
		f.expr(x.X, ls, wr)
		f.expr(x.Low, ls, false)
		f.expr(x.High, ls, false)
		f.expr(x.Max, ls, false)
	case *ast.StarExpr:
		f.expr(x.X, ls, wr)
	case *ast.ParenExpr:
		f.expr(x.X, ls, wr)
	case *ast.UnaryExpr:
		f.expr(x.X, ls, x.Op == token.AND) // taking the address lets the callee write: conservative
	case *ast.BinaryExpr:
		f.expr(x.X, ls, false)
		f.expr(x.Y, ls, false)
	case *ast.KeyValueExpr:
		if _, isID := x.Key.(*ast.Ident); !isID {
			f.expr(x.Key, ls, false)
		}
		f.expr(x.Value, ls, false)
	case *ast.CompositeLit:
		for _, el := range x.Elts {
			f.expr(el, ls, false)
		}
	case *ast.TypeAssertExpr:
		f.expr(x.X, ls, false)
	case *ast.FuncLit:
		f.lit(x, asLS{})
	case *ast.CallExpr:
		f.call(x, ls, false)
	}
}

func (f *asFn) lit(fl *ast.FuncLit, ls asLS) {
	g := &asFn{pk: f.pk, file: f.file, fname: f.fname, name: f.name + "$lit", helper: f.helper, locals: map[string]ast.Expr{}, fresh: map[string]bool{},
		record: f.record, foreign: f.foreign}
	for k, v := range f.locals {
		g.locals[k] = v
	}
	for k, v := range f.fresh {
		g.fresh[k] = v
	}
	g.params(fl.Type)
	g.block(fl.Body.List, ls.clone())
}

func (f *asFn) params(ft *ast.FuncType) {
	for _, fl := range []*ast.FieldList{ft.Params, ft.Results} {
		if fl == nil {
			continue
		}
		for _, p := range fl.List {
			for _, n := range p.Names {
				f.locals[n.Name] = p.Type
			}
		}
	}
}

func (f *asFn) helperCall(recv, fn, base string, ls asLS) {
	for _, h := range asCallerHolds {
		if h.dir == f.pk.dir && h.recv == recv && h.fn == fn {
			if f.record {
				asPendings = append(asPendings, asPending{helper: h.key(), file: f.file, fn: f.name + "[call " + fn + "]", base: base, ls: ls.clone()})
			}
		}
	}
}

func (f *asFn) call(c *ast.CallExpr, ls asLS, async bool) {
	eff := ls
	if async {
		eff = asLS{}
	}
	fun := c.Fun
	if p, ok := fun.(*ast.ParenExpr); ok {
		fun = p.X
	}
	switch fn := fun.(type) {
	case *ast.FuncLit:
		f.lit(fn, eff)
	case *ast.Ident:
		if _, shadow := f.locals[fn.Name]; !shadow {
			switch fn.Name {
			case "delete", "clear":
				for i, a := range c.Args {
					f.expr(a, ls, i == 0)
				}
				return
			case "make", "new":
				for i, a := range c.Args {
					if i > 0 {
						f.expr(a, ls, false)
					}
				}
				return
			}
			if !f.foreign {
				f.helperCall("", fn.Name, "", eff)
			}
		}
	case *ast.SelectorExpr:
		kind := "wr"
		// a method call on a tracked object mutates it unless the method is listed read-only for it
		matched := false
		switch rx := fn.X.(type) {
		case *ast.Ident, *ast.SelectorExpr:
			ro := false
			for _, o := range asObjects {
				if o.readOnly[fn.Sel.Name] {
					if id, ok := rx.(*ast.Ident); ok && o.owner == "" && o.field == id.Name {
						ro = true
					}
					if se, ok := rx.(*ast.SelectorExpr); ok && o.owner != "" && o.field == se.Sel.Name {
						ro = true
					}
				}
			}
			if ro {
				kind = "rd"
			}
			matched = f.touch(rx, eff, kind)
			if matched {
				if se, ok := rx.(*ast.SelectorExpr); ok {
					f.expr(se.X, ls, false)
				}
			}
		}
		if !matched {
			f.expr(fn.X, ls, false)
		}
		if !f.foreign {
			if b := asBase(f.typeOf(fn.X)); b != "" {
				f.helperCall(b, fn.Sel.Name, types.ExprString(fn.X), eff)
			}
		}
	default:
		f.expr(c.Fun, ls, false)
	}
	for _, a := range c.Args {
		f.expr(a, ls, false)
	}
}

// lockOp recognises X.Lock() / X.RLock() / X.Unlock() / X.RUnlock()
func (f *asFn) lockOp(e ast.Expr) (asLock, string, bool) {
	c, ok := e.(*ast.CallExpr)
	if !ok || len(c.Args) != 0 {
		return asLock{}, "", false
	}
	se, ok := c.Fun.(*ast.SelectorExpr)
	if !ok {
		return asLock{}, "", false
	}
	op := se.Sel.Name
	if op != "Lock" && op != "RLock" && op != "Unlock" && op != "RUnlock" {
		return asLock{}, "", false
	}
	mode := "excl"
	if op == "RLock" || op == "RUnlock" {
		mode = "shared"
	}
	switch l := se.X.(type) {
	case *ast.Ident:
		if _, local := f.locals[l.Name]; local {
			return asLock{"local:" + l.Name, "", mode}, op, true
		}
		return asLock{l.Name, "", mode}, op, true
	case *ast.SelectorExpr:
		if id, ok := l.X.(*ast.Ident); ok && f.isPkgName(id) {
			return asLock{id.Name + "." + l.Sel.Name, "", mode}, op, true
		}
		owner := asBase(f.typeOf(l.X))
		if owner == "" {
			owner = "?"
		}
		return asLock{owner + "." + l.Sel.Name, types.ExprString(l.X), mode}, op, true
	}
	return asLock{"?" + types.ExprString(se.X), "", mode}, op, true
}

func (f *asFn) define(id *ast.Ident, t ast.Expr, fresh bool) {
	if id == nil || id.Name == "_" {
		return
	}
	f.locals[id.Name] = t
	if fresh {
		f.fresh[id.Name] = true
	} else {
		delete(f.fresh, id.Name)
	}
}

func asIsFreshValue(e ast.Expr) bool {
	switch v := e.(type) {
	case *ast.CompositeLit:
		return true
	case *ast.UnaryExpr:
		_, ok := v.X.(*ast.CompositeLit)
		return ok && v.Op == token.AND
	}
	return false
}

func (f *asFn) block(list []ast.Stmt, ls asLS) (asLS, bool) {
	for _, s := range list {
		var t bool
		ls, t = f.stmt(s, ls)
		if t {
			return ls, true
		}
	}
	return ls, false
}

func (f *asFn) breakTo(ls asLS, cont bool, labeled bool) {
	for i := len(f.loops) - 1; i >= 0; i-- {
		lp := f.loops[i]
		if cont {
			if lp.isSwitch {
				continue
			}
			if lp.hasCont {
				lp.cont = asMeet(lp.cont, ls)
			} else {
				lp.cont, lp.hasCont = ls.clone(), true
			}
		} else {
			if lp.hasBrk {
				lp.brk = asMeet(lp.brk, ls)
			} else {
				lp.brk, lp.hasBrk = ls.clone(), true
			}
		}
		if !labeled {
			return
		}
	}
}

func (f *asFn) loop(ls asLS, head func(in asLS), body *ast.BlockStmt, post ast.Stmt, infinite bool) (asLS, bool) {
	in := ls
	saved := f.record
	f.record = false
	for iter := 0; iter < 6; iter++ {
		lp := &asLoop{}
		f.loops = append(f.loops, lp)
		head(in)
		out, t := f.block(body.List, in.clone())
		if !t && post != nil {
			out, _ = f.stmt(post, out)
		}
		f.loops = f.loops[:len(f.loops)-1]
		next := ls
		if !t {
			next = asMeet(next, out)
		}
		if lp.hasCont {
			next = asMeet(next, lp.cont)
		}
		if asEq(next, in) {
			break
		}
		in = next
	}
	f.record = saved
	lp := &asLoop{}
	f.loops = append(f.loops, lp)
	head(in)
	out, t := f.block(body.List, in.clone())
	if !t && post != nil {
		f.stmt(post, out)
	}
	f.loops = f.loops[:len(f.loops)-1]
	res := in
	if lp.hasBrk {
		if infinite {
			res = lp.brk
		} else {
			res = asMeet(res, lp.brk)
		}
	} else if infinite {
		return res, true
	}
	return res, false
}

func (f *asFn) clauses(ls asLS, bodies [][]ast.Stmt, pre []func(asLS), hasDefault bool) (asLS, bool) {
	lp := &asLoop{isSwitch: true}
	f.loops = append(f.loops, lp)
	var res asLS
	have := false
	add := func(o asLS) {
		if have {
			res = asMeet(res, o)
		} else {
			res, have = o, true
		}
	}
	for i, b := range bodies {
		in := ls.clone()
		if pre[i] != nil {
			pre[i](in)
		}
		o, t := f.block(b, in)
		if !t {
			add(o)
		}
	}
	f.loops = f.loops[:len(f.loops)-1]
	if lp.hasBrk {
		add(lp.brk)
	}
	if !hasDefault {
		add(ls)
	}
	if !have {
		return ls, true
	}
	return res, false
}

func (f *asFn) stmt(s ast.Stmt, ls asLS) (asLS, bool) {
	switch x := s.(type) {
	case nil:
	case *ast.ExprStmt:
		if l, op, ok := f.lockOp(x.X); ok {
			ls = ls.clone()
			switch op {
			case "Lock", "RLock":
				ls[l.key()] = l
			default:
				delete(ls, l.key())
			}
			return ls, false
		}
		f.expr(x.X, ls, false)
		if c, ok := x.X.(*ast.CallExpr); ok {
			if id, ok := c.Fun.(*ast.Ident); ok && id.Name == "panic" {
				return ls, true
			}
			if se, ok := c.Fun.(*ast.SelectorExpr); ok {
				if id, ok := se.X.(*ast.Ident); ok && id.Name == "os" && se.Sel.Name == "Exit" {
					return ls, true
				}
			}
		}
	case *ast.DeferStmt:
		if _, op, ok := f.lockOp(x.Call); ok && (op == "Unlock" || op == "RUnlock") {
			return ls, false // held until the function returns
		}
		f.call(x.Call, ls, true)
	case *ast.GoStmt:
		f.call(x.Call, ls, true)
	case *ast.AssignStmt:
		for _, r := range x.Rhs {
			f.expr(r, ls, false)
		}
		if x.Tok == token.DEFINE {
			for i, l := range x.Lhs {
				id, _ := l.(*ast.Ident)
				var t ast.Expr
				fresh := false
				if len(x.Rhs) == len(x.Lhs) {
					t = f.typeOf(x.Rhs[i])
					fresh = asIsFreshValue(x.Rhs[i])
				} else if i == 0 {
					t = f.typeOf(x.Rhs[0])
				}
				f.define(id, t, fresh)
			}
		} else {
			for i, l := range x.Lhs {
				f.expr(l, ls, true)
				if id, ok := l.(*ast.Ident); ok && f.fresh[id.Name] {
					if !(len(x.Rhs) == len(x.Lhs) && asIsFreshValue(x.Rhs[i])) {
						delete(f.fresh, id.Name)
					}
				}
			}
		}
	case *ast.IncDecStmt:
		f.expr(x.X, ls, true)
	case *ast.SendStmt:
		f.expr(x.Chan, ls, false)
		f.expr(x.Value, ls, false)
	case *ast.DeclStmt:
		if gd, ok := x.Decl.(*ast.GenDecl); ok && gd.Tok == token.VAR {
			for _, sp := range gd.Specs {
				vs := sp.(*ast.ValueSpec)
				for _, v := range vs.Values {
					f.expr(v, ls, false)
				}
				for i, n := range vs.Names {
					t := vs.Type
					fresh := false
					if t == nil && len(vs.Values) > i {
						t = f.typeOf(vs.Values[i])
						fresh = asIsFreshValue(vs.Values[i])
					}
					f.define(n, t, fresh)
				}
			}
		}
	case *ast.ReturnStmt:
		for _, r := range x.Results {
			f.expr(r, ls, false)
		}
		return ls, true
	case *ast.BranchStmt:
		switch x.Tok {
		case token.BREAK:
			f.breakTo(ls, false, x.Label != nil)
			return ls, true
		case token.CONTINUE:
			f.breakTo(ls, true, x.Label != nil)
			return ls, true
		case token.GOTO:
			die("accesssites: goto in %s (%s) is not supported by the lockset pass", f.name, f.file)
		}
	case *ast.BlockStmt:
		return f.block(x.List, ls)
	case *ast.LabeledStmt:
		return f.stmt(x.Stmt, ls)
	case *ast.IfStmt:
		if x.Init != nil {
			ls, _ = f.stmt(x.Init, ls)
		}
		f.expr(x.Cond, ls, false)
		a, ta := f.block(x.Body.List, ls.clone())
		b, tb := ls, false
		if x.Else != nil {
			b, tb = f.stmt(x.Else, ls.clone())
		}
		switch {
		case ta && tb:
			return ls, true
		case ta:
			return b, false
		case tb:
			return a, false
		}
		return asMeet(a, b), false
	case *ast.ForStmt:
		if x.Init != nil {
			ls, _ = f.stmt(x.Init, ls)
		}
		return f.loop(ls, func(in asLS) { f.expr(x.Cond, in, false) }, x.Body, x.Post, x.Cond == nil)
	case *ast.RangeStmt:
		f.expr(x.X, ls, false)
		t := f.typeOf(x.X)
		var kt, vt ast.Expr
		if t != nil {
			vt = asElem(t)
			if m, ok := t.(*ast.MapType); ok {
				kt = m.Key
			}
		}
		if x.Tok == token.DEFINE {
			if id, ok := x.Key.(*ast.Ident); ok {
				f.define(id, kt, false)
			}
			if id, ok := x.Value.(*ast.Ident); ok {
				f.define(id, vt, false)
			}
		} else {
			f.expr(x.Key, ls, true)
			f.expr(x.Value, ls, true)
		}
		return f.loop(ls, func(in asLS) {}, x.Body, nil, false)
	case *ast.SwitchStmt:
		if x.Init != nil {
			ls, _ = f.stmt(x.Init, ls)
		}
		f.expr(x.Tag, ls, false)
		var bodies [][]ast.Stmt
		var pre []func(asLS)
		def := false
		for _, c := range x.Body.List {
			cc := c.(*ast.CaseClause)
			if cc.List == nil {
				def = true
			}
			for _, e := range cc.List {
				f.expr(e, ls, false)
			}
			bodies = append(bodies, cc.Body)
			pre = append(pre, nil)
		}
		return f.clauses(ls, bodies, pre, def)
	case *ast.TypeSwitchStmt:
		if x.Init != nil {
			ls, _ = f.stmt(x.Init, ls)
		}
		switch a := x.Assign.(type) {
		case *ast.AssignStmt:
			for _, r := range a.Rhs {
				f.expr(r, ls, false)
			}
			for _, l := range a.Lhs {
				if id, ok := l.(*ast.Ident); ok {
					f.define(id, nil, false)
				}
			}
		case *ast.ExprStmt:
			f.expr(a.X, ls, false)
		}
		var bodies [][]ast.Stmt
		var pre []func(asLS)
		def := false
		for _, c := range x.Body.List {
			cc := c.(*ast.CaseClause)
			if cc.List == nil {
				def = true
			}
			bodies = append(bodies, cc.Body)
			pre = append(pre, nil)
		}
		return f.clauses(ls, bodies, pre, def)
	case *ast.SelectStmt:
		var bodies [][]ast.Stmt
		var pre []func(asLS)
		for _, c := range x.Body.List {
			cc := c.(*ast.CommClause)
			comm := cc.Comm
			bodies = append(bodies, cc.Body)
			pre = append(pre, func(in asLS) {
				if comm != nil {
					f.stmt(comm, in)
				}
			})
		}
		return f.clauses(ls, bodies, pre, true)
	}
	return ls, false
}

// ---------------------------------------------------------------- driver

func asAnalyse(k *asPkg, foreign bool) {
	var fnames []string
	for n := range k.p.files {
		fnames = append(fnames, n)
	}
	sort.Strings(fnames)
	for _, fname := range fnames {
		file := k.p.files[fname]
		for _, d := range file.Decls {
			fd, ok := d.(*ast.FuncDecl)
			if !ok || fd.Body == nil {
				continue
			}
			name := fd.Name.Name
			recv := ""
			if fd.Recv != nil && len(fd.Recv.List) == 1 {
				recv = asBase(fd.Recv.List[0].Type)
				name = recv + "." + name
			}
			rel := fname
			if k.dir != "." {
				rel = k.dir + "/" + fname
			}
			f := &asFn{pk: k, file: rel, fname: fname, name: name, locals: map[string]ast.Expr{}, fresh: map[string]bool{}, record: true, foreign: foreign}
			if fd.Recv != nil {
				for _, r := range fd.Recv.List {
					for _, n := range r.Names {
						f.locals[n.Name] = r.Type
					}
				}
			}
			f.params(fd.Type)
			ls := asLS{}
			if !foreign {
				for _, h := range asCallerHolds {
					if h.dir == k.dir && h.recv == recv && h.fn == fd.Name.Name {
						f.helper = h.key()
						l := asLock{h.lock, "*", h.mode}
						ls[l.key()] = l
					}
				}
			}
			f.block(fd.Body.List, ls)
		}
	}
}

func asRoot() string {
	if r := os.Getenv("VERIF_ROOT"); r != "" {
		return r
	}
	if exe, err := os.Executable(); err == nil {
		r := filepath.Dir(filepath.Dir(exe))
		if _, err := os.Stat(filepath.Join(r, "corpus")); err == nil {
			return r
		}
	}
	return "/verif"
}

func asCoqStr(s string) string { return "\"" + strings.ReplaceAll(s, "\"", "\"\"") + "\"" }

func asFNV(s string) uint32 {
	h := uint32(2166136261)
	for i := 0; i < len(s); i++ {
		h ^= uint32(s[i])
		h *= 16777619
	}
	return h
}

func genAccessSites() {
	// declarations the property names must still exist
	for _, o := range asObjects {
		k := asLoad(o.dir)
		if o.owner != "" {
			fs, ok := k.structs[o.owner]
			if !ok {
				die("accesssites: struct %s no longer declared in %s", o.owner, o.dir)
			}
			if _, ok := fs[o.field]; !ok {
				die("accesssites: field %s.%s no longer declared in %s", o.owner, o.field, o.dir)
			}
		} else if _, ok := k.globals[o.field]; !ok {
			die("accesssites: package variable %s no longer declared in %s", o.field, o.dir)
		}
		if o.guardOwner != "" {
			fs, ok := k.structs[o.guardOwner]
			if !ok {
				die("accesssites: struct %s no longer declared in %s", o.guardOwner, o.dir)
			}
			t, ok := fs[o.guardName]
			if !ok {
				die("accesssites: lock field %s.%s no longer declared in %s", o.guardOwner, o.guardName, o.dir)
			}
			if b := asBase(t); b != "sync.Mutex" && b != "sync.RWMutex" {
				die("accesssites: %s.%s is no longer a sync.Mutex / sync.RWMutex (%s)", o.guardOwner, o.guardName, b)
			}
		} else {
			t, ok := k.globals[o.guardName]
			if !ok {
				die("accesssites: lock variable %s no longer declared in %s", o.guardName, o.dir)
			}
			if b := asBase(t); b != "sync.Mutex" && b != "sync.RWMutex" {
				die("accesssites: %s is no longer a sync.Mutex / sync.RWMutex (%s)", o.guardName, b)
			}
		}
		if o.promoted != "" {
			if _, ok := k.ifaces[o.promoted]; !ok {
				die("accesssites: interface %s no longer declared in %s", o.promoted, o.dir)
			}
		}
	}
	for _, h := range asCallerHolds {
		k := asLoad(h.dir)
		key := h.fn
		if h.recv != "" {
			key = h.recv + "." + h.fn
		}
		if _, ok := k.funcs[key]; !ok {
			die("accesssites: caller-holds-lock helper %s no longer declared in %s", key, h.dir)
		}
	}
	dirs := map[string]bool{}
	for _, o := range asObjects {
		dirs[o.dir] = true
	}
	var ds []string
	for d := range dirs {
		ds = append(ds, d)
	}
	sort.Strings(ds)
	for _, d := range ds {
		asAnalyse(asLoad(d), false)
	}
	// exported variables: any other package of the repository that mentions them
	for _, o := range asObjects {
		if o.pkgName == "" {
			continue
		}
		filepath.WalkDir(repo, func(path string, de os.DirEntry, err error) error {
			if err != nil {
				return nil
			}
			if de.IsDir() {
				n := de.Name()
				if path != repo && (strings.HasPrefix(n, ".") || n == "vendor" || n == "node_modules" || n == "testdata") {
					return filepath.SkipDir
				}
				return nil
			}
			if !strings.HasSuffix(path, ".go") || strings.HasSuffix(path, "_test.go") {
				return nil
			}
			rel, _ := filepath.Rel(repo, filepath.Dir(path))
			if rel == o.dir {
				return nil
			}
			src, err := os.ReadFile(path)
			if err != nil || !strings.Contains(string(src), o.pkgName+"."+o.field) {
				return nil
			}
			if _, done := asPkgs[rel]; !done {
				asAnalyse(asLoad(rel), true)
			}
			return nil
		})
	}
	// calls of caller-holds helpers are sites of what the helper touches
	for _, p := range asPendings {
		touched := asHelperTouch[p.helper]
		var os_ []*asObj
		for o := range touched {
			os_ = append(os_, o)
		}
		sort.Slice(os_, func(i, j int) bool { return os_[i].name < os_[j].name })
		for _, o := range os_ {
			asSites[o] = append(asSites[o], &asSite{obj: o, file: p.file, fn: p.fn, kind: touched[o], held: asHeldFor(p.ls, p.base)})
		}
	}
	// methods promoted from an embedded field bypass the wrapper's lock
	for _, o := range asObjects {
		if o.promoted == "" {
			continue
		}
		k := asLoad(o.dir)
		file := ""
		for fname, f := range k.p.files {
			for _, d := range f.Decls {
				if gd, ok := d.(*ast.GenDecl); ok {
					for _, s := range gd.Specs {
						if ts, ok := s.(*ast.TypeSpec); ok && ts.Name.Name == o.owner {
							file = fname
						}
					}
				}
			}
		}
		for _, m := range k.ifaces[o.promoted] {
			if _, ok := k.funcs[o.owner+"."+m]; ok {
				continue
			}
			kind := "wr"
			if o.readOnly[m] {
				kind = "rd"
			}
			asSites[o] = append(asSites[o], &asSite{obj: o, file: o.dir + "/" + file, fn: o.owner + "." + m + "(promoted)", kind: kind})
		}
	}

	// baseline of known-unguarded signatures
	baseline := map[string][]string{}
	bpath := filepath.Join(asRoot(), "corpus", "C36", "sites.json")
	if raw, err := os.ReadFile(bpath); err == nil {
		if err := json.Unmarshal(raw, &baseline); err != nil {
			die("accesssites: %s: %v", bpath, err)
		}
	}

	type jsObj struct {
		Name       string   `json:"name"`
		Guard      string   `json:"guard"`
		NSites     int      `json:"nsites"`
		NUnguarded int      `json:"nunguarded"`
		Digest     uint32   `json:"digest"`
		Unguarded  []string `json:"unguarded"`
		Sites      []string `json:"sites"`
	}
	var js []jsObj

	var b strings.Builder
	b.WriteString("(* GENERATED by /verif/tools/gen (accesssites.go) from the sources under /repo and /verif/corpus/C36/sites.json. Do not edit. *)\n")
	b.WriteString("From Coq Require Import List String.\nFrom SopVerif Require Import RaceDiscipline.\nImport ListNotations.\nLocal Open Scope string_scope.\n\n")
	for _, o := range asObjects {
		ss := asSites[o]
		if len(ss) == 0 {
			die("accesssites: no access site of %s found (declaration moved or pass out of date)", o.name)
		}
		sort.SliceStable(ss, func(i, j int) bool {
			a, c := ss[i], ss[j]
			if a.file != c.file {
				return a.file < c.file
			}
			if a.fn != c.fn {
				return a.fn < c.fn
			}
			if a.kind != c.kind {
				return a.kind < c.kind
			}
			return fmt.Sprint(a.held) < fmt.Sprint(c.held)
		})
		occ := map[string]int{}
		jo := jsObj{Name: o.name, Guard: o.guard(), NSites: len(ss), Unguarded: []string{}}
		var dig strings.Builder
		fmt.Fprintf(&b, "(* %s: %s %s, guard %s *)\n", o.name, o.dir, strings.TrimPrefix(o.owner+"."+o.field, "."), o.guard())
		fmt.Fprintf(&b, "Definition guard_%s : string := %s.\n", o.name, asCoqStr(o.guard()))
		fmt.Fprintf(&b, "Definition sites_%s : list site := [\n", o.name)
		for i, s := range ss {
			sig := s.file + ":" + s.fn + ":" + s.kind
			if !asGuarded(o, s) {
				s.unguardedF = true
				occ[sig]++
				if occ[sig] > 1 {
					s.occ = fmt.Sprintf("#%d", occ[sig])
				}
				jo.NUnguarded++
				jo.Unguarded = append(jo.Unguarded, sig+s.occ)
			}
			var hs []string
			for _, h := range s.held {
				md := "LExcl"
				if h.Mode == "shared" {
					md = "LShared"
				}
				hs = append(hs, fmt.Sprintf("(%s, %s)", asCoqStr(h.Name), md))
				fmt.Fprintf(&dig, "%s/%s,", h.Name, h.Mode)
			}
			kd := "ARd"
			if s.kind == "wr" {
				kd = "AWr"
			}
			sep := ";"
			if i == len(ss)-1 {
				sep = ""
			}
			fmt.Fprintf(&b, "  mkSite %s %s %s [%s] %s%s\n", asCoqStr(s.file), asCoqStr(s.fn), kd, strings.Join(hs, "; "), asCoqStr(s.occ), sep)
			line := sig + s.occ + "|"
			for _, h := range s.held {
				line += h.Name + "/" + h.Mode + ","
			}
			jo.Sites = append(jo.Sites, line)
		}
		b.WriteString("].\n")
		all := ""
		for _, l := range jo.Sites {
			all += l + ";"
		}
		jo.Digest = asFNV(all)
		bl := baseline[o.name]
		var bls []string
		for _, s := range bl {
			bls = append(bls, asCoqStr(s))
		}
		fmt.Fprintf(&b, "Definition baseline_%s : list string := [%s].\n", o.name, strings.Join(bls, "; "))
		fmt.Fprintf(&b, "Definition obj_%s : sobject := mkObj %s guard_%s sites_%s baseline_%s.\n\n", o.name, asCoqStr(o.name), o.name, o.name, o.name)
		js = append(js, jo)
	}
	b.WriteString("Definition all_objects : list sobject := [\n")
	for i, o := range asObjects {
		sep := ";"
		if i == len(asObjects)-1 {
			sep = ""
		}
		fmt.Fprintf(&b, "  obj_%s%s\n", o.name, sep)
	}
	b.WriteString("].\n\n")
	var hl []string
	for _, h := range asCallerHolds {
		hl = append(hl, asCoqStr(h.dir+":"+strings.TrimPrefix(h.recv+"."+h.fn, ".")+" assumes "+h.lock+"/"+h.mode))
	}
	fmt.Fprintf(&b, "(* trusted table of helpers analysed with a lock assumed held (their calls are sites above) *)\nDefinition caller_holds_table : list string := [%s].\n", strings.Join(hl, "; "))
	writeIfChanged(filepath.Join(outDir, "AccessSites.v"), b.String())

	if p := os.Getenv("VERIF_SITES_JSON"); p != "" {
		out, _ := json.MarshalIndent(map[string]any{"objects": js, "fresh_skipped": asFreshSkipped, "repo": repo}, "", " ")
		if err := os.WriteFile(p, out, 0o644); err != nil {
			die("accesssites: %v", err)
		}
	}
}

func init() { extraGens = append(extraGens, genAccessSites) }

package main

import (
	"fmt"
	"go/ast"
	"go/token"
	"path/filepath"
	"strings"
)

// Translation of sop.Handle, encoding.encode and encoding.decode into Gallina.
// Only the statement shapes that occur in the codec are recognised; anything
// else aborts the translation.

type codecField struct{ kind, name string } // kind: uuid|bool|i32|i64

func funcDecl(dir, name string) *ast.FuncDecl {
	p := loadPkg(dir)
	for _, f := range p.files {
		for _, d := range f.Decls {
			if fd, ok := d.(*ast.FuncDecl); ok && fd.Name.Name == name && fd.Recv == nil {
				return fd
			}
		}
	}
	die("func %s not found in %s", name, dir)
	return nil
}

func structFields(dir, name string) []codecField {
	p := loadPkg(dir)
	for _, f := range p.files {
		for _, d := range f.Decls {
			gd, ok := d.(*ast.GenDecl)
			if !ok || gd.Tok != token.TYPE {
				continue
			}
			for _, s := range gd.Specs {
				ts := s.(*ast.TypeSpec)
				st, ok := ts.Type.(*ast.StructType)
				if !ok || ts.Name.Name != name {
					continue
				}
				var out []codecField
				for _, fl := range st.Fields.List {
					id, ok := fl.Type.(*ast.Ident)
					if !ok {
						die("struct %s: unsupported field type", name)
					}
					var k string
					switch id.Name {
					case "UUID":
						k = "uuid"
					case "bool":
						k = "bool"
					case "int32":
						k = "i32"
					case "int64":
						k = "i64"
					default:
						die("struct %s: unsupported field type %s", name, id.Name)
					}
					for _, n := range fl.Names {
						out = append(out, codecField{k, n.Name})
					}
				}
				return out
			}
		}
	}
	die("struct %s not found", name)
	return nil
}

func exprStr(e ast.Expr) string {
	switch x := e.(type) {
	case *ast.Ident:
		return x.Name
	case *ast.SelectorExpr:
		return exprStr(x.X) + "." + x.Sel.Name
	case *ast.CallExpr:
		var as []string
		for _, a := range x.Args {
			as = append(as, exprStr(a))
		}
		return exprStr(x.Fun) + "(" + strings.Join(as, ",") + ")"
	case *ast.SliceExpr:
		return exprStr(x.X) + "[:]"
	case *ast.IndexExpr:
		return exprStr(x.X) + "[" + exprStr(x.Index) + "]"
	case *ast.BasicLit:
		return x.Value
	case *ast.CompositeLit:
		var as []string
		for _, a := range x.Elts {
			as = append(as, exprStr(a))
		}
		return exprStr(x.Type) + "{" + strings.Join(as, ",") + "}"
	case *ast.ArrayType:
		return "[]" + exprStr(x.Elt)
	case *ast.BinaryExpr:
		return exprStr(x.X) + x.Op.String() + exprStr(x.Y)
	case *ast.UnaryExpr:
		return x.Op.String() + exprStr(x.X)
	}
	return fmt.Sprintf("<%T>", e)
}

func translateEncode() []codecField {
	fd := funcDecl("encoding", "encode")
	recv := fd.Type.Params.List[1].Names[0].Name // h
	var out []codecField
	pendingBool := ""           // field set into b by an if
	pendingInt := codecField{}  // PutUintNN seen, awaiting Write
	bIsZero := false
	for _, st := range fd.Body.List {
		switch s := st.(type) {
		case *ast.DeclStmt:
			txt := ""
			gd := s.Decl.(*ast.GenDecl)
			for _, sp := range gd.Specs {
				vs := sp.(*ast.ValueSpec)
				txt = vs.Names[0].Name
				if len(vs.Values) != 0 {
					die("encode: unexpected initialiser for %s", txt)
				}
			}
			if txt == "b" {
				bIsZero = true
			}
		case *ast.AssignStmt:
			if exprStr(s.Lhs[0]) == "b" && exprStr(s.Rhs[0]) == "0" {
				bIsZero = true
			} else {
				die("encode: unsupported assignment %s", exprStr(s.Lhs[0]))
			}
		case *ast.IfStmt:
			c := exprStr(s.Cond)
			if !strings.HasPrefix(c, recv+".") || len(s.Body.List) != 1 || s.Else != nil {
				die("encode: unsupported if")
			}
			as, ok := s.Body.List[0].(*ast.AssignStmt)
			if !ok || exprStr(as.Lhs[0]) != "b" || exprStr(as.Rhs[0]) != "1" || !bIsZero {
				die("encode: unsupported if body")
			}
			pendingBool = strings.TrimPrefix(c, recv+".")
		case *ast.ExprStmt:
			c := exprStr(s.X)
			switch {
			case strings.HasPrefix(c, "w.Write("+recv+".") && strings.HasSuffix(c, "[:])"):
				out = append(out, codecField{"uuid", strings.TrimSuffix(strings.TrimPrefix(c, "w.Write("+recv+"."), "[:])")})
			case c == "w.Write([]byte{b})":
				if pendingBool == "" {
					die("encode: byte write without a flag")
				}
				out = append(out, codecField{"bool", pendingBool})
				pendingBool, bIsZero = "", false
			case strings.HasPrefix(c, "binary.LittleEndian.PutUint32(dummy4[:],uint32("+recv+"."):
				pendingInt = codecField{"i32", strings.TrimSuffix(strings.TrimPrefix(c, "binary.LittleEndian.PutUint32(dummy4[:],uint32("+recv+"."), "))")}
			case strings.HasPrefix(c, "binary.LittleEndian.PutUint64(dummy8[:],uint64("+recv+"."):
				pendingInt = codecField{"i64", strings.TrimSuffix(strings.TrimPrefix(c, "binary.LittleEndian.PutUint64(dummy8[:],uint64("+recv+"."), "))")}
			case c == "w.Write(dummy4[:])" && pendingInt.kind == "i32", c == "w.Write(dummy8[:])" && pendingInt.kind == "i64":
				out = append(out, pendingInt)
				pendingInt = codecField{}
			default:
				die("encode: unsupported statement %s", c)
			}
		case *ast.ReturnStmt:
		default:
			die("encode: unsupported statement %T", st)
		}
	}
	return out
}

func translateDecode() []codecField {
	fd := funcDecl("encoding", "decode")
	var out []codecField
	pendingUUID := false
	pendingByte := false
	for _, st := range fd.Body.List {
		switch s := st.(type) {
		case *ast.AssignStmt:
			l, r := exprStr(s.Lhs[0]), exprStr(s.Rhs[0])
			switch {
			case l == "h" && r == "uuid.FromBytes(r.Next(16))":
				pendingUUID = true
			case strings.HasPrefix(l, "target.") && r == "sop.UUID(h)" && pendingUUID:
				out = append(out, codecField{"uuid", strings.TrimPrefix(l, "target.")})
				pendingUUID = false
			case l == "b" && r == "r.Next(1)[0]":
				pendingByte = true
			case strings.HasPrefix(l, "target.") && r == "int32(binary.LittleEndian.Uint32(r.Next(4)))":
				out = append(out, codecField{"i32", strings.TrimPrefix(l, "target.")})
			case strings.HasPrefix(l, "target.") && r == "int64(binary.LittleEndian.Uint64(r.Next(8)))":
				out = append(out, codecField{"i64", strings.TrimPrefix(l, "target.")})
			default:
				die("decode: unsupported assignment %s = %s", l, r)
			}
		case *ast.DeclStmt:
			gd := s.Decl.(*ast.GenDecl)
			vs := gd.Specs[0].(*ast.ValueSpec)
			if vs.Names[0].Name == "b" && len(vs.Values) == 1 && exprStr(vs.Values[0]) == "r.Next(1)[0]" {
				pendingByte = true
			} else {
				die("decode: unsupported declaration")
			}
		case *ast.IfStmt:
			c := exprStr(s.Cond)
			if c == "err!=nil" {
				continue
			}
			if c == "b==1" && pendingByte && len(s.Body.List) == 1 && s.Else == nil {
				as, ok := s.Body.List[0].(*ast.AssignStmt)
				if ok && strings.HasPrefix(exprStr(as.Lhs[0]), "target.") && exprStr(as.Rhs[0]) == "true" {
					out = append(out, codecField{"bool", strings.TrimPrefix(exprStr(as.Lhs[0]), "target.")})
					pendingByte = false
					continue
				}
			}
			die("decode: unsupported if %s", c)
		case *ast.ReturnStmt:
		default:
			die("decode: unsupported statement %T", st)
		}
	}
	return out
}

func genHandleCodec() {
	fields := structFields(".", "Handle")
	enc := translateEncode()
	dec := translateDecode()
	var b strings.Builder
	b.WriteString("(* GENERATED by /verif/tools/gen from /repo/handle.go and /repo/encoding/handle.go. Do not edit. *)\n")
	b.WriteString("From Coq Require Import List ZArith NArith.\nFrom SopVerif Require Import Lib.Bytes.\nImport ListNotations.\n\n")
	ty := map[string]string{"uuid": "uuid", "bool": "bool", "i32": "Z", "i64": "Z"}
	b.WriteString("(* type Handle struct, fields in declaration order *)\nRecord handle : Type := mkHandle {\n")
	for i, f := range fields {
		sep := ";"
		if i == len(fields)-1 {
			sep = ""
		}
		fmt.Fprintf(&b, "  %s : %s%s\n", f.name, ty[f.kind], sep)
	}
	b.WriteString("}.\n\n")
	b.WriteString("(* func encode: the writes in program order *)\nDefinition encode (h : handle) : list N :=\n")
	for _, f := range enc {
		fmt.Fprintf(&b, "  enc_%s (%s h) ++\n", f.kind, f.name)
	}
	b.WriteString("  [].\n\n")
	b.WriteString("(* func decode: the reads in program order; None = error or panic on a short buffer *)\nDefinition decode (bs : list N) : option handle :=\n")
	seen := map[string]bool{}
	for _, f := range dec {
		fmt.Fprintf(&b, "  match dec_%s bs with None => None | Some (v_%s, bs) =>\n", f.kind, f.name)
		seen[f.name] = true
	}
	b.WriteString("  Some (mkHandle")
	for _, f := range fields {
		if seen[f.name] {
			fmt.Fprintf(&b, " v_%s", f.name)
		} else {
			// field never assigned by decode keeps the zero value
			fmt.Fprintf(&b, " zero_%s", f.kind)
		}
	}
	b.WriteString(")\n  ")
	b.WriteString(strings.Repeat("end ", len(dec)))
	b.WriteString(".\n\n")
	b.WriteString("(* value ranges of the Go field types *)\nDefinition wf_handle (h : handle) : Prop :=\n")
	for _, f := range fields {
		switch f.kind {
		case "uuid":
			fmt.Fprintf(&b, "  wf_uuid (%s h) /\\\n", f.name)
		case "i32":
			fmt.Fprintf(&b, "  (- 2 ^ 31 <= %s h < 2 ^ 31)%%Z /\\\n", f.name)
		case "i64":
			fmt.Fprintf(&b, "  (- 2 ^ 63 <= %s h < 2 ^ 63)%%Z /\\\n", f.name)
		}
	}
	b.WriteString("  True.\n\n")
	fmt.Fprintf(&b, "Definition encode_field_count : nat := %d.\nDefinition decode_field_count : nat := %d.\n", len(enc), len(dec))
	writeIfChanged(filepath.Join(outDir, "HandleCodec.v"), b.String())
}

func init() { extraGens = append(extraGens, genHandleCodec) }

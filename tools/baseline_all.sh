#!/bin/sh
# tools/baseline_all.sh — the pinned test suite on a scratch worktree of /repo HEAD (all modules, no build tag):
# every test listed as stable_pass in /root/.vp/BASELINE.json must pass.
W=/var/tmp/baseline-wt-$$
git -C /repo worktree add -q --detach $W || exit 2
rc=0
for m in . adapters/cassandra adapters/redis ai incfs infs jsondb search; do
  python3 /verif/tools/baseline_pkg.py $W $m ./... > /var/tmp/baseline-$$.out 2>&1 || rc=1
  echo "== module $m: $(tail -n +2 /var/tmp/baseline-$$.out | head -40)"
done
git -C /repo worktree remove --force $W
rm -f /var/tmp/baseline-$$.out
exit $rc

package main

import (
	"fmt"
	"sort"
	"strconv"
	"strings"

	"verif/harness/hx"
	"verif/harness/sopx"
)

// Op is one B-tree call of the writer's program. Kinds:
//
//	add   Add(key, val)                       (fails on an existing key: unique store)
//	upd   Update(key, val)                    (fails on a missing key)
//	fupd  Find(key) + UpdateCurrentValue(val) (no-op on a missing key)
//	rem   Remove(key)                         (fails on a missing key)
//	ups   Upsert(key, val)
type Op struct {
	K   string `json:"k"`
	Key int    `json:"key"`
	Val int    `json:"v,omitempty"`
}

// Shape is one replayable run: a pre-populated store, the writer's program and how it ends.
type Shape struct {
	Opts    sopx.StoreOpts `json:"opts"` // Name is assigned per run
	HashMod int            `json:"hash_mod"`
	Pre     [][2]int       `json:"pre"` // key, value (committed by the setup transaction)
	Prog    []Op           `json:"prog"`
	// Ending: commit | rollback (Rollback instead of Commit) | p1rollback (Phase1Commit, then Rollback)
	// | fail (Commit with an injected failure at FailAt, so that the writer's own rollback path runs)
	Ending string `json:"ending"`
	// FailAt: sr.Update | flip (the phase-2 reg.UpdateNoLocks ok=true) | region:K (the K-th, 0-based,
	// l2x.RegionLock inside the flip: K handles are already flipped on disk) | step11 (tlog.Add finalizeCommit)
	FailAt string `json:"fail_at,omitempty"`
	Note   string `json:"note,omitempty"`
	// Cold: cold-start family (cold.go): the store is committed by one process, the paused writer and its
	// readers run in another fresh process and the writer goes first. ColdGate: readers after "each" API
	// op of the working phase (default) or only after the "last" one.
	Cold     bool   `json:"cold,omitempty"`
	ColdGate string `json:"cold_gate,omitempty"`
	// AllCalls: corpus shapes whose every call is a pause point in the quick tier too
	AllCalls bool `json:"all_calls,omitempty"`
}

// Input is the replayable input attached to every case and failure.
//
// Pause >= 0: index (among the writer's armed calls, Begin to end) of the call the writer was
// parked in front of while the reader ran; -1 final in-process reader; -2 final fresh-process
// reader; -3 the whole shape with the tier's pause sampling.
type Input struct {
	Shape *Shape `json:"shape"`
	Pause int    `json:"pause"`
}

const (
	pauseFinalInProc = -1
	pauseFinalFresh  = -2
	pauseWholeShape  = -3
)

func (s *Shape) canon() string {
	var sb strings.Builder
	fmt.Fprintf(&sb, "slot=%d,in=%v,ap=%v,gc=%v,hm=%d|", s.Opts.Slot, s.Opts.InNode, s.Opts.ActivelyP, s.Opts.GlobalCache, s.HashMod)
	for _, kv := range s.Pre {
		fmt.Fprintf(&sb, "%d=%d,", kv[0], kv[1])
	}
	sb.WriteString("|")
	for _, o := range s.Prog {
		fmt.Fprintf(&sb, "%s:%d:%d,", o.K, o.Key, o.Val)
	}
	fmt.Fprintf(&sb, "|%s:%s", s.Ending, s.FailAt)
	if s.Cold {
		fmt.Fprintf(&sb, "|cold:%s", s.ColdGate)
	}
	return sb.String()
}

func (s *Shape) optsBucket() string {
	return fmt.Sprintf("opts.slot=%d,innode=%v,activelyp=%v,globalcache=%v", s.Opts.Slot, s.Opts.InNode, s.Opts.ActivelyP, s.Opts.GlobalCache)
}

// model is the sequential meaning of the program on a unique store.
type model struct {
	pre, post map[int]int
	exp       []bool // expected result of every op
	universe  []int  // pre keys ∪ touched keys, sorted
	preCount  int64
	postCount int64
	changes   bool // post differs from pre (something a reader could see)
}

func buildModel(s *Shape) *model {
	m := &model{pre: map[int]int{}, post: map[int]int{}}
	uni := map[int]bool{}
	for _, kv := range s.Pre {
		m.pre[kv[0]] = kv[1]
		m.post[kv[0]] = kv[1]
		uni[kv[0]] = true
	}
	for _, o := range s.Prog {
		uni[o.Key] = true
		_, has := m.post[o.Key]
		ok := false
		switch o.K {
		case "add":
			if !has {
				m.post[o.Key] = o.Val
				ok = true
			}
		case "upd", "fupd":
			if has {
				m.post[o.Key] = o.Val
				ok = true
			}
		case "rem":
			if has {
				delete(m.post, o.Key)
				ok = true
			}
		case "ups":
			m.post[o.Key] = o.Val
			ok = true
		}
		m.exp = append(m.exp, ok)
	}
	for k := range uni {
		m.universe = append(m.universe, k)
	}
	sort.Ints(m.universe)
	m.preCount, m.postCount = int64(len(m.pre)), int64(len(m.post))
	if len(m.pre) != len(m.post) {
		m.changes = true
	}
	for k, v := range m.pre {
		if w, ok := m.post[k]; !ok || w != v {
			m.changes = true
		}
	}
	return m
}

// ---------------------------------------------------------------- observations

// Obs is what one reader transaction saw.
type Obs struct {
	Count     int64
	Items     map[int]*int // universe key -> value (nil = Find said not found); missing = the read errored
	Scan      []int        // keys of the First/Next scan
	Errs      []string     // "<site>: <text>"
	CommitErr string
	BadVals   []string // values that are not decimal numbers
}

const badValSentinel = 4000000000

func parseVal(s string, o *Obs) int {
	n, err := strconv.Atoi(s)
	if err != nil || n < 0 {
		o.BadVals = append(o.BadVals, s)
		return badValSentinel
	}
	return n
}

func (o *Obs) brief(universe []int) string {
	var sb strings.Builder
	fmt.Fprintf(&sb, "count=%d items={", o.Count)
	for i, k := range universe {
		if i > 0 {
			sb.WriteString(" ")
		}
		v, ok := o.Items[k]
		switch {
		case !ok:
			fmt.Fprintf(&sb, "%d:ERR", k)
		case v == nil:
			fmt.Fprintf(&sb, "%d:-", k)
		default:
			fmt.Fprintf(&sb, "%d:%d", k, *v)
		}
	}
	fmt.Fprintf(&sb, "} scan=%v", o.Scan)
	if len(o.Errs) > 0 {
		fmt.Fprintf(&sb, " errs=%v", o.Errs)
	}
	if o.CommitErr != "" {
		fmt.Fprintf(&sb, " commit_err=%q", o.CommitErr)
	}
	return sb.String()
}

// ---------------------------------------------------------------- Coq printing (types of History.v / Corr/C03.v)

func coqState(m map[int]int, universe []int) string {
	xs := make([]string, 0, len(universe))
	for _, k := range universe {
		if v, ok := m[k]; ok { // absent keys are omitted: lookup gives None
			xs = append(xs, fmt.Sprintf("(%d, Some %d)", k, v))
		}
	}
	return hx.CoqList(xs)
}

func coqObs(o *Obs, universe []int) string {
	xs := make([]string, 0, len(universe))
	for _, k := range universe {
		v, ok := o.Items[k]
		if !ok {
			continue // the read errored: no observation for this key
		}
		if v == nil {
			xs = append(xs, fmt.Sprintf("OGet %d None", k))
		} else {
			xs = append(xs, fmt.Sprintf("OGet %d (Some %d)", k, *v))
		}
	}
	return hx.CoqList(xs)
}

func coqCase(m *model, stage int, o *Obs) string {
	cnt := o.Count
	if cnt < 0 {
		cnt = badValSentinel
	}
	return fmt.Sprintf("PauseCase %s %s %d %d %d %s %d", coqState(m.pre, m.universe), coqState(m.post, m.universe),
		m.preCount, m.postCount, stage, coqObs(o, m.universe), cnt)
}

package main

// Cold-start family: the store is created and committed by one OS process (child:c03setup); the
// paused writer and its readers run in ANOTHER fresh process (child:c03cold: cold L1 MRU, new
// in-memory L2), and the writer goes first: nobody opens the store, counts or reads before the
// writer has executed its operations, so the writer's own first node reads miss L1 and L2 and are
// served from the blob store (nodeRepositoryBackend.get -> l1Cache.SetNode). Readers of the same
// process then resolve the very nodes the uncommitted writer is working on through the
// process-global L1 MRU. The child only observes; the parent applies the oracle and prints cases.

import (
	"encoding/json"
	"fmt"
	"os"
	"os/exec"
	"path/filepath"
	"strings"
	"time"

	"verif/harness/hx"
	"verif/harness/sopx"
)

type coldJob struct {
	Shape  *Shape `json:"shape"`
	Folder string `json:"folder"`
	Name   string `json:"name"`
	Tier   string `json:"tier"`
}

type coldPause struct {
	Idx    int    `json:"idx"`
	Stage  int    `json:"stage"`
	Key    string `json:"key"`
	Desc   string `json:"desc"`
	Merged int64  `json:"merged"`
	Obs    *Obs   `json:"obs"`
}

type coldResult struct {
	Pauses    []coldPause `json:"pauses"`
	Final     *Obs        `json:"final"`
	Fresh     *Obs        `json:"fresh"`
	OpRes     []bool      `json:"op_res"`
	OpErr     string      `json:"op_err,omitempty"`
	EndErr    string      `json:"end_err,omitempty"`
	Committed bool        `json:"committed"`
	Stuck     string      `json:"stuck,omitempty"`
	Panicked  string      `json:"panicked,omitempty"`
	GaveUp    int         `json:"gave_up,omitempty"`
	NCalls    int         `json:"n_calls"`
	// storage reads of the writer before the first reader ran: evidence that the writer went first and cold
	BlobReadsBeforeFirstReader int    `json:"blob_reads_before_first_reader"`
	Err                        string `json:"err,omitempty"`
}

func init() {
	hx.Children["c03setup"] = func(args []string) int {
		job, err := readJob(args)
		if err == nil {
			var e *sopx.Env
			if e, err = sopx.NewEnv(job.Folder, job.Shape.HashMod); err == nil {
				err = setupStore(e, job.Shape, job.Name)
			}
		}
		if err != nil {
			fmt.Fprintln(os.Stdout, err.Error())
			return 1
		}
		return 0
	}
	hx.Children["c03cold"] = func(args []string) int {
		res := &coldResult{}
		job, err := readJob(args)
		if err != nil {
			res.Err = err.Error()
		} else {
			res = coldChild(job)
		}
		b, _ := json.Marshal(res)
		os.Stdout.Write(b)
		return 0
	}
}

func readJob(args []string) (*coldJob, error) {
	if len(args) < 1 {
		return nil, fmt.Errorf("job file missing")
	}
	raw, err := os.ReadFile(args[0])
	if err != nil {
		return nil, err
	}
	job := &coldJob{}
	if err := json.Unmarshal(raw, job); err != nil {
		return nil, err
	}
	if job.Shape == nil {
		return nil, fmt.Errorf("job without a shape")
	}
	return job, nil
}

// coldChild runs in the fresh process: the writer first, readers only at its pause points.
func coldChild(job *coldJob) *coldResult {
	sh := job.Shape
	m := buildModel(sh)
	h := &harness{res: hx.NewResult("C03"), root: filepath.Dir(job.Folder), tier: job.Tier, rng: hx.NewRng(1), failed: map[*Shape]map[string]bool{}}
	res := &coldResult{BlobReadsBeforeFirstReader: -1}
	tr := newTracker(sh)
	tr.cold = true
	tr.pauseAll = job.Tier == "thorough"
	tr.sampleEvery = 3
	onPause := func(p *pauseInfo, e *sopx.Env, name string) {
		if res.BlobReadsBeforeFirstReader < 0 {
			n := 0
			for _, ev := range e.Rec.Snapshot() {
				if ev.Txn == "w" && ev.Iface == "blob" && ev.Method == "GetOne" {
					n++
				}
			}
			res.BlobReadsBeforeFirstReader = n
		}
		o := h.read(e, name, m.universe)
		tr.mu.Lock()
		merged := tr.mergedSum
		tr.mu.Unlock()
		res.Pauses = append(res.Pauses, coldPause{Idx: p.Idx, Stage: p.Stage, Key: p.Key, Desc: p.Desc, Merged: merged, Obs: o})
	}
	gate := sh.ColdGate
	if gate == "" {
		gate = "each"
	}
	out, err := h.exec(sh, m, tr, onPause, execOpt{Folder: job.Folder, Name: job.Name, SkipSetup: true, GateOps: gate})
	if err != nil {
		res.Err = err.Error()
		return res
	}
	res.OpRes, res.OpErr, res.EndErr, res.Committed = out.opRes, out.opErr, out.endErr, out.committed
	res.Stuck, res.Panicked, res.GaveUp, res.NCalls = out.stuck, out.panicked, out.gaveUp, len(out.infos)
	res.Final = h.read(out.env, out.name, m.universe)
	res.Fresh = obsFromDump(sopx.DumpFresh(job.Folder, sh.HashMod, false), job.Name, m.universe)
	return res
}

func runChild(timeout time.Duration, args ...string) ([]byte, string, error) {
	cmd := exec.Command(os.Args[0], args...)
	var stderr strings.Builder
	cmd.Stderr = &stderr
	done := make(chan struct{})
	var outb []byte
	var cerr error
	go func() { outb, cerr = cmd.Output(); close(done) }()
	select {
	case <-done:
	case <-time.After(timeout):
		if cmd.Process != nil {
			cmd.Process.Kill()
		}
		<-done
		return outb, stderr.String(), fmt.Errorf("child killed after %v", timeout)
	}
	return outb, stderr.String(), cerr
}

func tailStr(s string, n int) string {
	if len(s) > n {
		return s[len(s)-n:]
	}
	return s
}

// runColdShape: parent side. Setup child, cold child, then oracle + cases.
func (h *harness) runColdShape(sh *Shape) {
	res := h.res
	m := buildModel(sh)
	res.Count("cold.shape")
	res.Count("cold." + sh.optsBucket())
	res.Count("cold.ending." + sh.Ending + map[bool]string{true: ":" + sh.FailAt, false: ""}[sh.FailAt != ""])
	res.Count("cold.gate." + map[bool]string{true: "each", false: sh.ColdGate}[sh.ColdGate == ""])
	for _, o := range sh.Prog {
		res.Count("cold.op." + o.K)
	}
	h.nstore++
	dir := filepath.Join(h.root, fmt.Sprintf("cold%d", h.nstore))
	os.MkdirAll(dir, 0o755)
	defer os.RemoveAll(dir)
	job := &coldJob{Shape: sh, Folder: filepath.Join(dir, "db"), Name: fmt.Sprintf("%sc%d_%d", storePrefix, os.Getpid(), h.nstore), Tier: h.tier}
	jf := filepath.Join(dir, "job.json")
	jb, _ := json.Marshal(job)
	os.WriteFile(jf, jb, 0o644)
	h.tracef("\n=== cold shape %s\n    opts %+v hashmod %d gate %q\n    pre %v\n    prog %v\n    ending %s %s\n", sh.Note, sh.Opts, sh.HashMod, sh.ColdGate, sh.Pre, sh.Prog, sh.Ending, sh.FailAt)
	t0 := time.Now()
	if outb, errs, err := runChild(2*time.Minute, "child:c03setup", jf); err != nil {
		res.Count("cold.setup-error")
		res.Notes = append(res.Notes, fmt.Sprintf("cold shape %q: setup child failed: %v %s %s", sh.Note, err, tailStr(string(outb), 300), tailStr(errs, 300)))
		return
	}
	outb, errs, err := runChild(4*time.Minute, "child:c03cold", jf)
	h.timed("cold-children", t0)
	cr := &coldResult{}
	if err == nil {
		err = json.Unmarshal(outb, cr)
	}
	if err == nil && cr.Err != "" {
		err = fmt.Errorf("%s", cr.Err)
	}
	if err != nil {
		res.Count("cold.child-error")
		res.Notes = append(res.Notes, fmt.Sprintf("cold shape %q: cold child failed: %v %s %s", sh.Note, err, tailStr(string(outb), 300), tailStr(errs, 300)))
		return
	}
	if cr.Stuck != "" || cr.Panicked != "" || cr.GaveUp > 0 {
		res.Count("cold.writer-stuck-or-panicked")
		res.Notes = append(res.Notes, fmt.Sprintf("cold shape %q: stuck=%q panic=%q gave_up=%d", sh.Note, cr.Stuck, cr.Panicked, cr.GaveUp))
	}
	switch {
	case cr.BlobReadsBeforeFirstReader > 0:
		res.Count("cold.writer-read-the-blob-store-first")
	case cr.BlobReadsBeforeFirstReader == 0:
		res.Count("cold.writer-did-NOT-read-the-blob-store-before-the-first-reader")
		res.Notes = append(res.Notes, fmt.Sprintf("cold shape %q: the writer issued no blob.GetOne before the first reader: the scenario was not cold", sh.Note))
	}
	outcome := "rolledback"
	switch {
	case cr.OpErr != "":
		outcome = "op-error"
		res.Notes = append(res.Notes, fmt.Sprintf("cold shape %q: writer op error %s", sh.Note, cr.OpErr))
	case cr.Committed:
		outcome = "committed"
	case sh.Ending == "fail":
		outcome = "failed:" + sh.FailAt
	case sh.Ending == "p1rollback":
		outcome = "phase1-then-rolledback"
	case sh.Ending == "commit":
		outcome = "commit-error"
		res.Notes = append(res.Notes, fmt.Sprintf("cold shape %q: Commit failed without injection: %s", sh.Note, short(cr.EndErr)))
	}
	res.Count("cold.outcome." + outcome)
	for i := range sh.Prog {
		if i < len(cr.OpRes) && cr.OpRes[i] != m.exp[i] {
			res.Count("cold.writer-op-result-differs-from-map-model")
			res.Notes = append(res.Notes, fmt.Sprintf("cold shape %q: op %d %+v returned %v, the map model says %v", sh.Note, i, sh.Prog[i], cr.OpRes[i], m.exp[i]))
		}
	}
	occ := map[string]int{}
	for _, p := range cr.Pauses {
		if p.Obs == nil {
			continue
		}
		h.tracef("  [%3d] stage %d  %-44s %s\n", p.Idx, p.Stage, p.Desc, p.Obs.brief(m.universe))
		h.record(m, p.Stage, p.Obs, "cold-start", p.Merged, Input{Shape: sh, Pause: p.Idx}, fmt.Sprintf("cold-start:%s#%d", p.Key, occ[p.Key]), sh)
		occ[p.Key]++
		res.Count(fmt.Sprintf("cold.stage.%d", p.Stage))
		res.Count("cold.pause." + p.Key)
	}
	h.tracef("  writer: %d calls, %d pauses, %d blob reads before the first reader, outcome %s, op results %v, end error %q\n", cr.NCalls, len(cr.Pauses), cr.BlobReadsBeforeFirstReader, outcome, cr.OpRes, short(cr.EndErr))
	stage := 5
	if cr.Committed {
		stage = 4
	}
	if cr.Final != nil {
		h.tracef("  [fin] stage %d  %-44s %s\n", stage, "final reader, the writer's process", cr.Final.brief(m.universe))
		h.record(m, stage, cr.Final, "cold-start:in-process", 0, Input{Shape: sh, Pause: pauseFinalInProc}, "cold-start:final.in-process", sh)
		res.Count(fmt.Sprintf("cold.stage.%d", stage))
	}
	if cr.Fresh != nil {
		h.tracef("  [fin] stage %d  %-44s %s\n", stage, "final reader, fresh process", cr.Fresh.brief(m.universe))
		h.record(m, stage, cr.Fresh, "cold-start:fresh", 0, Input{Shape: sh, Pause: pauseFinalFresh}, "cold-start:final.fresh", sh)
		res.Count(fmt.Sprintf("cold.stage.%d", stage))
	}
	h.pendingNew = nil
}

// checkCold: the oracle of the cold-start family at stage 0 (working phase) and stage 5 (after the
// rollback), with signatures of its own; every other stage goes through check().
func checkCold(m *model, stage int, o *Obs, where string) (devs []deviation) {
	add := func(kind, format string, a ...any) {
		sig := "uncommitted-item-visible:stage0:cold-start:" + kind
		if stage == 5 {
			sig = "rolledback-write-visible:cold-start:" + kind + ":" + strings.TrimPrefix(where, "cold-start:")
		}
		devs = append(devs, deviation{sig, fmt.Sprintf(format, a...)})
	}
	if len(o.BadVals) > 0 {
		add("value", "values that are not numbers: %q", o.BadVals)
	}
	found := []int{}
	for _, k := range m.universe {
		v, ok := o.Items[k]
		if !ok {
			continue
		}
		if v != nil {
			found = append(found, k)
		}
		pv, inPre := m.pre[k]
		switch {
		case inPre && v == nil:
			add("presence", "committed key %d (value %d) is not found (%s)", k, pv, itemKind(v, m, k))
		case !inPre && v != nil:
			add("presence", "key %d reads %d, it was never committed (%s)", k, *v, itemKind(v, m, k))
		case inPre && *v != pv:
			add("value", "key %d reads %d, the committed value is %d (%s)", k, *v, pv, itemKind(v, m, k))
		}
	}
	if len(o.Errs) == 0 {
		pre := make([]int, 0, len(m.pre))
		for _, k := range m.universe {
			if _, ok := m.pre[k]; ok {
				pre = append(pre, k)
			}
		}
		if !eqInts(o.Scan, pre) || !eqInts(o.Scan, found) {
			add("scan", "First/Next scan %v, committed keys %v, Find hits %v", o.Scan, pre, found)
		}
	}
	if o.Count >= 0 && o.Count != m.preCount {
		add("count", "Count()=%d, committed count %d", o.Count, m.preCount)
	}
	return devs
}

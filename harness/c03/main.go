// C03: uncommitted and rolled-back writes are never visible to other transactions.
//
// One shape = a pre-populated store, a WRITER transaction (all of its storage / L2 calls are
// recorded and gated: sopx.Env.NewTxnDeep) that runs a generated program and then commits, rolls
// back, or fails inside Commit (injected failure), and a READER transaction that is run to
// completion in the main goroutine every time the writer is parked in front of one of its calls.
// Direct oracle: what the reader saw must be explained by the state before the writer began (or,
// once the commit returned, by the writer's result). Every reader observation is also printed as
// a Corr/C03.v `PauseCase` for evaluation by the Coq model.
package main

import (
	"encoding/json"
	"fmt"
	"os"
	"path/filepath"
	"runtime/pprof"
	"sort"
	"strings"
	"time"

	"verif/harness/hx"
	"verif/harness/sopx"
)

func main() { hx.Main("c03", run) }

const knownCountSig = "uncommitted-count-visible:after-commitStores-before-flip"
const failedCommitSig = "failed-commit-write-visible:stage3:cold-reader"

// ---------------------------------------------------------------- corpus

func seqPre(keys ...int) [][2]int {
	out := make([][2]int, len(keys))
	for i, k := range keys {
		out[i] = [2]int{k, 100 + k}
	}
	return out
}

func corpus() []*Shape {
	one := sopx.StoreOpts{Slot: 8, Unique: true, InNode: true}
	multi := sopx.StoreOpts{Slot: 4, Unique: true, InNode: true}
	multiSep := sopx.StoreOpts{Slot: 4, Unique: true, InNode: false, GlobalCache: true}
	add2 := []Op{{K: "add", Key: 2, Val: 5002}, {K: "add", Key: 3, Val: 5003}}
	return []*Shape{
		// 1: the known count defect (S12), writer fails at the phase-2 flip and is rolled back
		{Opts: one, HashMod: 2, Pre: seqPre(1), Prog: add2, Ending: "fail", FailAt: "flip", AllCalls: true, Note: "corpus1: add 2 keys to a 1-key store, Commit fails at the phase-2 registry write"},
		// 1b: the same, ended by Phase1Commit + Rollback
		{Opts: one, HashMod: 2, Pre: seqPre(1), Prog: add2, Ending: "p1rollback", AllCalls: true, Note: "corpus1b: add 2 keys to a 1-key store, Phase1Commit then Rollback"},
		// 2: the same writer commits
		{Opts: one, HashMod: 2, Pre: seqPre(1), Prog: add2, Ending: "commit", AllCalls: true, Note: "corpus2: add 2 keys to a 1-key store, commit"},
		// 3: delta -1
		{Opts: one, HashMod: 2, Pre: seqPre(1, 2, 3), Prog: []Op{{K: "rem", Key: 2}}, Ending: "commit", Note: "corpus3: remove 1 of 3 keys, commit"},
		{Opts: one, HashMod: 2, Pre: seqPre(1, 2, 3), Prog: []Op{{K: "rem", Key: 2}}, Ending: "fail", FailAt: "flip", Note: "corpus3b: remove 1 of 3 keys, Commit fails at the phase-2 registry write"},
		// 3c/3d: the writer removes ALL items: the merged count is 0 and a reader whose Count() is 0 is told
		// "empty" by Find/First without looking at a node (uncommitted-item-visible:stage2:removed-key-absent:reader-count-0)
		{Opts: one, HashMod: 2, Pre: seqPre(1, 2, 3), Prog: []Op{{K: "rem", Key: 1}, {K: "rem", Key: 2}, {K: "rem", Key: 3}}, Ending: "fail", FailAt: "flip", AllCalls: true, Note: "corpus3c: remove all 3 keys, Commit fails at the phase-2 registry write"},
		{Opts: one, HashMod: 2, Pre: seqPre(1, 2, 3), Prog: []Op{{K: "rem", Key: 1}, {K: "rem", Key: 2}, {K: "rem", Key: 3}}, Ending: "commit", Note: "corpus3d: remove all 3 keys, commit"},
		// 4: pure update of keys in several leaves (delta 0): where do new values become visible
		{Opts: multi, HashMod: 2, Pre: seqPre(1, 2, 3, 4, 5, 6, 7, 8, 9, 10, 11, 12), Ending: "commit", AllCalls: true, Note: "corpus4: multi-leaf update, commit",
			Prog: []Op{{K: "upd", Key: 1, Val: 6001}, {K: "fupd", Key: 6, Val: 6006}, {K: "upd", Key: 12, Val: 6012}}},
		{Opts: multiSep, HashMod: 2, Pre: seqPre(1, 2, 3, 4, 5, 6, 7, 8, 9, 10, 11, 12), Ending: "fail", FailAt: "region:1", Note: "corpus5: multi-leaf update (values in their own segment), Commit fails after one handle was flipped",
			Prog: []Op{{K: "upd", Key: 1, Val: 6001}, {K: "fupd", Key: 6, Val: 6006}, {K: "upd", Key: 12, Val: 6012}, {K: "add", Key: 13, Val: 6013}}},
		// 7: cold start: another process committed the store, the uncommitted writer reads first (in-place change in
		// leaf A, removal in leaf B, add into leaf C), readers of its process after each op and after Rollback()
		{Opts: multi, HashMod: 2, Pre: seqPre(1, 2, 3, 4, 5, 6, 7, 8, 9, 10, 11, 12), Ending: "rollback", Cold: true, ColdGate: "each", Note: "corpus7: cold start, value in node, update/remove/add in three leaves, Rollback",
			Prog: []Op{{K: "fupd", Key: 2, Val: 8002}, {K: "rem", Key: 7}, {K: "add", Key: 13, Val: 8013}}},
		{Opts: sopx.StoreOpts{Slot: 4, Unique: true, InNode: false}, HashMod: 2, Pre: seqPre(1, 2, 3, 4, 5, 6, 7, 8, 9, 10, 11, 12), Ending: "rollback", Cold: true, ColdGate: "each", Note: "corpus7b: cold start, values in their own segment, update/remove/add in three leaves, Rollback",
			Prog: []Op{{K: "fupd", Key: 2, Val: 8002}, {K: "rem", Key: 7}, {K: "add", Key: 13, Val: 8013}}},
		{Opts: multi, HashMod: 2, Pre: seqPre(1, 2, 3, 4, 5, 6, 7, 8, 9, 10, 11, 12), Ending: "rollback", Cold: true, ColdGate: "last", Note: "corpus7c: cold start, readers only after the last op and after Rollback",
			Prog: []Op{{K: "fupd", Key: 2, Val: 8002}, {K: "rem", Key: 7}, {K: "add", Key: 13, Val: 8013}}},
		// 6: plain Rollback() of a writer with adds, updates and removes
		{Opts: multi, HashMod: 3, Pre: seqPre(2, 4, 6, 8, 10, 12, 14, 16, 18, 20), Ending: "rollback", Note: "corpus6: mixed program, Rollback instead of Commit",
			Prog: []Op{{K: "add", Key: 1, Val: 7001}, {K: "rem", Key: 4}, {K: "upd", Key: 20, Val: 7020}, {K: "ups", Key: 9, Val: 7009}}},
	}
}

// ---------------------------------------------------------------- generators

var optCombos = []sopx.StoreOpts{
	{Unique: true, InNode: true},
	{Unique: true, InNode: false},
	{Unique: true, InNode: false, ActivelyP: true},
	{Unique: true, InNode: false, GlobalCache: true},
	{Unique: true, InNode: false, ActivelyP: true, GlobalCache: true},
}

func genShape(r *hx.Rng, i int) *Shape {
	sh := &Shape{Opts: optCombos[(i+r.Intn(2))%len(optCombos)], HashMod: hx.Pick(r, []int{2, 3, 7})}
	var keys []int
	if r.Chance(25) { // single node
		sh.Opts.Slot = 8
		for k := 0; k < 3; k++ {
			keys = append(keys, 10*(k+1)+r.Intn(5))
		}
	} else { // several leaves
		sh.Opts.Slot = 4
		n := 10 + r.Intn(5)
		k := 1 + r.Intn(3)
		for j := 0; j < n; j++ {
			keys = append(keys, k)
			k += 1 + r.Intn(3)
		}
	}
	for _, k := range keys {
		sh.Pre = append(sh.Pre, [2]int{k, 100 + k})
	}
	present := map[int]bool{}
	for _, k := range keys {
		present[k] = true
	}
	maxKey := keys[len(keys)-1]
	val := func(j int) int { return 5000 + 37*i%1000 + j }
	newKey := func() int {
		for t := 0; t < 50; t++ {
			k := r.Intn(maxKey + 6)
			if !present[k] {
				return k
			}
		}
		return maxKey + 7 + r.Intn(10)
	}
	someKey := func() int {
		var ks []int
		for k, p := range present {
			if p {
				ks = append(ks, k)
			}
		}
		if len(ks) == 0 {
			return newKey()
		}
		sort.Ints(ks)
		return hx.Pick(r, ks)
	}
	emit := func(kind string, k int) {
		o := Op{K: kind, Key: k}
		if kind != "rem" {
			o.Val = val(len(sh.Prog))
		}
		sh.Prog = append(sh.Prog, o)
		switch kind {
		case "add", "ups":
			present[k] = true
		case "rem":
			present[k] = false
		}
	}
	style := hx.Pick(r, []string{"update", "grow", "shrink", "mixed", "mixed", "balanced"})
	switch style {
	case "update": // delta 0, no structural change
		for j, n := 0, 1+r.Intn(4); j < n; j++ {
			emit(hx.Pick(r, []string{"upd", "fupd", "ups"}), someKey())
		}
	case "grow": // new nodes / splits
		n := 5 + r.Intn(7)
		if sh.Opts.Slot == 8 {
			n = 6 + r.Intn(6)
		}
		base := newKey()
		for j := 0; j < n; j++ {
			k := newKey()
			if r.Chance(50) { // a run of neighbouring keys fills one leaf
				k = base + j
				if present[k] {
					k = newKey()
				}
			}
			emit(hx.Pick(r, []string{"add", "add", "ups"}), k)
		}
	case "shrink": // removal of a whole node
		start := r.Intn(len(keys))
		n := 4 + r.Intn(4)
		for j := 0; j < n && start+j < len(keys); j++ {
			emit("rem", keys[start+j])
		}
		if len(sh.Prog) == 0 {
			emit("rem", someKey())
		}
	case "balanced": // delta 0 with structural change
		n := 1 + r.Intn(3)
		for j := 0; j < n; j++ {
			emit("rem", someKey())
			emit("add", newKey())
		}
	default:
		for j, n := 0, 2+r.Intn(6); j < n; j++ {
			switch k := r.Intn(10); {
			case k < 3:
				emit("add", newKey())
			case k < 5:
				emit(hx.Pick(r, []string{"upd", "fupd"}), someKey())
			case k < 7:
				emit("rem", someKey())
			case k < 8:
				if r.Bool() {
					emit("ups", someKey())
				} else {
					emit("ups", newKey())
				}
			case k < 9: // an op that must fail: unique-store semantics
				if r.Bool() {
					emit("add", someKey())
				} else {
					emit(hx.Pick(r, []string{"upd", "rem", "fupd"}), newKey())
				}
			default:
				emit("add", newKey())
			}
		}
	}
	// A transaction of nothing but removes on an actively-persisted store commits as a no-op (Remove does
	// not track the item there, so phase 1 returns at once): not a C03 matter, probed once per run instead.
	if sh.Opts.ActivelyP {
		m := buildModel(sh)
		tracked := false
		for j, o := range sh.Prog {
			if o.K != "rem" && m.exp[j] {
				tracked = true
			}
		}
		if !tracked {
			if r.Bool() {
				emit("add", newKey())
			} else {
				emit("upd", someKey())
			}
			if !buildModel(sh).exp[len(sh.Prog)-1] {
				emit("add", newKey())
			}
		}
	}
	switch e := r.Intn(20); {
	case e < 9:
		sh.Ending = "commit"
	case e < 12:
		sh.Ending = "rollback"
	case e < 15:
		sh.Ending = "p1rollback"
	default:
		sh.Ending = "fail"
		sh.FailAt = hx.Pick(r, []string{"flip", "flip", "sr.Update", "step11", "region:1", "region:2", "region:0"})
	}
	sh.Note = "gen:" + style
	return sh
}

// genColdShape: cold-start family. In-place changes of existing nodes by a writer that is mostly rolled back.
func genColdShape(r *hx.Rng, i int) *Shape {
	sh := &Shape{Opts: optCombos[(i+r.Intn(2))%len(optCombos)], HashMod: hx.Pick(r, []int{2, 3}), Cold: true, ColdGate: hx.Pick(r, []string{"each", "each", "last"})}
	var keys []int
	if r.Chance(25) {
		sh.Opts.Slot = 8
		keys = []int{10 + r.Intn(5), 20 + r.Intn(5), 30 + r.Intn(5)}
	} else {
		sh.Opts.Slot = 4
		k := 1 + r.Intn(3)
		for j, n := 0, 10+r.Intn(5); j < n; j++ {
			keys = append(keys, k)
			k += 1 + r.Intn(3)
		}
	}
	present := map[int]bool{}
	for _, k := range keys {
		sh.Pre = append(sh.Pre, [2]int{k, 100 + k})
		present[k] = true
	}
	existing := func() int {
		var ks []int
		for _, k := range keys {
			if present[k] {
				ks = append(ks, k)
			}
		}
		if len(ks) == 0 {
			return keys[0]
		}
		return hx.Pick(r, ks)
	}
	fresh := func() int {
		for t := 0; t < 60; t++ {
			if k := r.Intn(keys[len(keys)-1] + 4); !present[k] {
				return k
			}
		}
		return keys[len(keys)-1] + 5 + r.Intn(9)
	}
	tracked := false
	for j, n := 0, 1+r.Intn(5); j < n; j++ {
		o := Op{Val: 8000 + 31*i%900 + j}
		switch c := r.Intn(10); {
		case c < 4:
			o.K, o.Key = hx.Pick(r, []string{"fupd", "upd", "fupd"}), existing()
			tracked = true
		case c < 7:
			o.K, o.Key, o.Val = "rem", existing(), 0
			present[o.Key] = false
		case c < 9:
			o.K, o.Key = "add", fresh()
			present[o.Key] = true
			tracked = true
		default:
			o.K, o.Key = "ups", existing()
			tracked = true
		}
		sh.Prog = append(sh.Prog, o)
	}
	if sh.Opts.ActivelyP && !tracked { // see genShape: remove-only on actively-persisted stores is a no-op commit
		sh.Prog = append(sh.Prog, Op{K: "fupd", Key: existing(), Val: 8999})
	}
	switch e := r.Intn(10); {
	case e < 5:
		sh.Ending = "rollback"
	case e < 7:
		sh.Ending = "p1rollback"
	case e < 9:
		sh.Ending, sh.FailAt = "fail", "flip"
	default:
		sh.Ending = "commit" // control
	}
	sh.Note = "gen:cold"
	return sh
}

// ---------------------------------------------------------------- one shape

type pauseMode struct {
	all    bool
	only   int // >= 0: exactly this call index
	budget int // quick tier: about this many pause points
}

func (h *harness) choosePauses(dry []evInfo, pm pauseMode) map[int]bool {
	set := map[int]bool{}
	if pm.all || pm.only >= 0 {
		return set
	}
	var rest []int
	musts := 0
	for _, d := range dry {
		if d.Must {
			musts++
		} else {
			rest = append(rest, d.Idx)
		}
	}
	want := pm.budget - musts
	if want < 8 {
		want = 8
	}
	if want >= len(rest) {
		for _, i := range rest {
			set[i] = true
		}
		return set
	}
	// the first writer call, the first call of every stage and of the explicit rollback, then an even spread
	seenStage := map[int]bool{}
	for _, d := range dry {
		if !seenStage[d.Stage] {
			seenStage[d.Stage] = true
			set[d.Idx] = true
		}
	}
	stride := float64(len(rest)) / float64(want)
	off := h.rng.Intn(len(rest))
	for j := 0; j < want; j++ {
		set[rest[(off+int(float64(j)*stride))%len(rest)]] = true
	}
	return set
}

func outcomeOf(sh *Shape, out *execOut) string {
	switch {
	case out.opErr != "":
		return "op-error"
	case out.committed:
		if sh.Ending == "fail" {
			return "committed(fail-point-not-reached:" + sh.FailAt + ")"
		}
		return "committed"
	case sh.Ending == "fail":
		return "failed:" + sh.FailAt
	case sh.Ending == "rollback":
		return "rolledback"
	case sh.Ending == "p1rollback":
		return "phase1-then-rolledback"
	}
	return "commit-error"
}

func (h *harness) fail(sig, what string, in Input) {
	h.res.Fail(sig, what, in)
}

func (h *harness) runShape(sh *Shape, pm pauseMode) {
	if sh.Cold {
		h.runColdShape(sh)
		return
	}
	res := h.res
	m := buildModel(sh)
	res.Count("shape")
	res.Count(sh.optsBucket())
	res.Count("ending." + sh.Ending + map[bool]string{true: ":" + sh.FailAt, false: ""}[sh.FailAt != ""])
	for _, o := range sh.Prog {
		res.Count("op." + o.K)
	}
	res.Count(fmt.Sprintf("delta.%+d", sign(m.postCount-m.preCount)))
	h.tracef("\n=== shape %s\n    opts %+v hashmod %d\n    pre %v\n    prog %v\n    ending %s %s\n", sh.Note, sh.Opts, sh.HashMod, sh.Pre, sh.Prog, sh.Ending, sh.FailAt)

	// dry run: number of armed calls and where the structural pause points are
	dtr := newTracker(sh)
	dtr.dry = true
	dout, err := h.exec(sh, m, dtr, nil, execOpt{})
	if err != nil {
		res.Notes = append(res.Notes, fmt.Sprintf("dry run of %q could not be set up: %v", sh.Note, err))
		res.Count("setup-error")
		return
	}
	os.RemoveAll(dout.env.Folder)
	if dout.stuck != "" || dout.panicked != "" {
		res.Notes = append(res.Notes, fmt.Sprintf("dry run of %q: stuck=%q panic=%q", sh.Note, dout.stuck, dout.panicked))
	}

	tr := newTracker(sh)
	tr.pauseAll, tr.only = pm.all, pm.only
	tr.pauseSet = h.choosePauses(dout.infos, pm)
	occ := map[string]int{}
	npause := 0
	onPause := func(p *pauseInfo, e *sopx.Env, name string) {
		npause++
		o := h.read(e, name, m.universe)
		tr.mu.Lock()
		merged := tr.mergedSum
		tr.mu.Unlock()
		in := Input{Shape: sh, Pause: p.Idx}
		h.tracef("  [%3d] stage %d  %-44s %s\n", p.Idx, p.Stage, p.Desc, o.brief(m.universe))
		h.record(m, p.Stage, o, "", merged, in, fmt.Sprintf("%s#%d", p.Key, occ[p.Key]), sh)
		res.Count(fmt.Sprintf("stage.%d", p.Stage))
		res.Count("pause." + p.Key)
		// the same pause point for a reader that has to resolve the handles from the registry files
		if p.Must || pm.only >= 0 || (h.tier == "thorough" && npause%3 == 0) {
			co := h.coldRead(e, name, m.universe)
			h.tracef("        cold-L2 reader %-42s %s\n", "", co.brief(m.universe))
			h.record(m, p.Stage, co, "cold-l2", merged, in, fmt.Sprintf("cold:%s#%d", p.Key, occ[p.Key]), sh)
			res.Count(fmt.Sprintf("stage.%d.cold-l2", p.Stage))
		}
		occ[p.Key]++
	}
	out, err := h.exec(sh, m, tr, onPause, execOpt{})
	if err != nil {
		res.Notes = append(res.Notes, fmt.Sprintf("shape %q could not be set up: %v", sh.Note, err))
		res.Count("setup-error")
		return
	}
	keepFolder := false
	defer func() {
		if !keepFolder {
			os.RemoveAll(out.env.Folder)
		}
	}()
	res.Count("outcome." + outcomeOf(sh, out))
	if !out.committed {
		for _, pn := range h.pendingNew {
			res.Count(pn.bucket)
			if pn.cold {
				// a reader with cold handle caches saw a write of a transaction that was then rolled back
				res.Count("deviation." + failedCommitSig)
				h.tracef("        !! %s: %s\n", failedCommitSig, pn.note)
				if h.failed[sh] == nil {
					h.failed[sh] = map[string]bool{}
				}
				if !h.failed[sh][failedCommitSig] {
					h.failed[sh][failedCommitSig] = true
					h.fail(failedCommitSig, pn.note+fmt.Sprintf("; Commit returned %q; final readers are checked against pre separately", short(out.endErr)), pn.in)
				}
			} else if res.Distribution["stage3.new-value-noted"] < 3 { // hot reader: counted and noted only
				res.Count("stage3.new-value-noted")
				res.Notes = append(res.Notes, pn.note)
			}
		}
	}
	h.pendingNew = nil
	if len(out.infos) != len(dout.infos) {
		res.Count("dry-run-call-count-differs")
		h.tracef("  note: dry run had %d calls, the gated run %d\n", len(dout.infos), len(out.infos))
	}
	if out.stuck != "" || out.panicked != "" || out.gaveUp > 0 {
		res.Count("writer-stuck-or-panicked")
		res.Notes = append(res.Notes, fmt.Sprintf("shape %q: stuck=%q panic=%q gave_up=%d", sh.Note, out.stuck, out.panicked, out.gaveUp))
	}
	h.tracef("  writer: %d calls, %d pauses, outcome %s, op results %v, end error %q\n", len(out.infos), npause, outcomeOf(sh, out), out.opRes, short(out.endErr))

	// the setup is what the model says
	if devs, _ := check(m, 0, out.preObs, "in-process", 0); len(devs) > 0 || len(out.preObs.Errs) > 0 {
		res.Notes = append(res.Notes, fmt.Sprintf("shape %q: the reader before the writer began does not see the setup: %v %v", sh.Note, devs, out.preObs.Errs))
		res.Count("pre-state-unverified")
	}
	// the writer's own view: op results of a unique store
	if out.opErr != "" {
		res.Count("writer-op-error")
		res.Notes = append(res.Notes, fmt.Sprintf("shape %q: writer op error %s", sh.Note, out.opErr))
	} else {
		for i := range sh.Prog {
			if i < len(out.opRes) && out.opRes[i] != m.exp[i] {
				res.Count("writer-op-result-differs-from-map-model")
				res.Notes = append(res.Notes, fmt.Sprintf("shape %q: op %d %+v returned %v, the map model says %v", sh.Note, i, sh.Prog[i], out.opRes[i], m.exp[i]))
			}
		}
	}
	switch {
	case sh.Ending == "commit" && !out.committed && out.opErr == "":
		res.Count("commit-error-without-injection")
		res.Notes = append(res.Notes, fmt.Sprintf("shape %q: Commit failed without injection: %s", sh.Note, short(out.endErr)))
	case sh.Ending != "commit" && sh.Ending != "fail" && out.endErr != "":
		res.Count("rollback-error")
		res.Notes = append(res.Notes, fmt.Sprintf("shape %q: %s returned %s", sh.Note, sh.Ending, short(out.endErr)))
	}

	// after the writer finished: in-process reader, then a reader in a fresh OS process
	stage := 5
	if out.committed {
		stage = 4
	}
	fo := h.read(out.env, out.name, m.universe)
	h.tracef("  [fin] stage %d  %-44s %s\n", stage, "final reader, same process", fo.brief(m.universe))
	h.record(m, stage, fo, "in-process", 0, Input{Shape: sh, Pause: pauseFinalInProc}, "final.in-process", sh)
	res.Count(fmt.Sprintf("stage.%d", stage))
	// the fresh-process reader runs in the background (process start-up dominates); its observation is
	// recorded, in shape order, by flushDumps
	keepFolder = true
	pd := &pendingDump{sh: sh, m: m, stage: stage, folder: out.env.Folder, name: out.name, ch: make(chan *sopx.Dump, 1)}
	go func() { pd.ch <- sopx.DumpFresh(pd.folder, sh.HashMod, false) }()
	h.pending = append(h.pending, pd)
	if len(h.pending) >= 8 {
		h.flushDumps()
	}
}

type pendingDump struct {
	sh     *Shape
	m      *model
	stage  int
	folder string
	name   string
	ch     chan *sopx.Dump
}

func (h *harness) flushDumps() {
	t0 := time.Now()
	for _, pd := range h.pending {
		var d *sopx.Dump
		select {
		case d = <-pd.ch:
		case <-time.After(2 * time.Minute):
			d = &sopx.Dump{Err: "fresh-process dump did not return within 2 minutes"}
		}
		do := obsFromDump(d, pd.name, pd.m.universe)
		h.tracef("  [fin] stage %d  %-44s %s   (%s)\n", pd.stage, "final reader, fresh process", do.brief(pd.m.universe), pd.sh.Note)
		h.record(pd.m, pd.stage, do, "fresh", 0, Input{Shape: pd.sh, Pause: pauseFinalFresh}, "final.fresh", pd.sh)
		h.res.Count(fmt.Sprintf("stage.%d", pd.stage))
		os.RemoveAll(pd.folder)
	}
	h.pending = nil
	h.timed("fresh-dump-wait", t0)
}

func sign(d int64) int {
	switch {
	case d < 0:
		return -1
	case d > 0:
		return 1
	}
	return 0
}

func short(s string) string {
	if len(s) > 160 {
		return s[:160] + "…"
	}
	return s
}

// record applies the direct oracle to one reader observation and prints its correspondence case.
func (h *harness) record(m *model, stage int, o *Obs, where string, merged int64, in Input, point string, sh *Shape) {
	res := h.res
	res.Seen(fmt.Sprintf("%s|%d|%s", sh.canon(), stage, point), m.changes)
	if o.CommitErr != "" {
		res.Count("reader.commit-error")
		res.Count(fmt.Sprintf("reader.commit-error.stage%d", stage))
		if res.Distribution["reader.commit-error"] <= 5 {
			res.Notes = append(res.Notes, fmt.Sprintf("reader commit error at stage %d (%s, %s): %s", stage, point, sh.Note, short(o.CommitErr)))
		}
	}
	if len(o.Errs) > 0 {
		res.Count(fmt.Sprintf("reader.error.stage%d", stage))
		if res.Distribution["reader.error.noted"] < 8 {
			res.Count("reader.error.noted")
			res.Notes = append(res.Notes, fmt.Sprintf("reader error at stage %d (%s, %s): %v", stage, point, sh.Note, o.Errs))
		}
	}
	if o.Count < 0 {
		res.Count("reader.no-observation")
		return // the store could not even be opened: nothing was observed
	}
	var devs []deviation
	mixed := false
	if strings.HasPrefix(where, "cold-start") && (stage == 0 || stage == 5) {
		devs = checkCold(m, stage, o, where)
	} else {
		devs, mixed = check(m, stage, o, where, merged)
	}
	variant := ""
	if where == "cold-l2" {
		variant = ".cold-l2"
	}
	if mixed { // counted, never an oracle failure (C02 owns the mixed snapshot)
		res.Count("partial-flip-visible:stage3:mixed-old-new" + variant)
		if variant == "" && res.Distribution["partial-flip-visible:stage3:mixed-old-new"] <= 3 {
			res.Notes = append(res.Notes, fmt.Sprintf("partial-flip-visible:stage3:mixed-old-new (counted only): %s at %s: %s", sh.Note, point, o.brief(m.universe)))
		}
	}
	if stage == 3 && sh.Ending == "fail" {
		for _, k := range m.universe {
			if v, ok := o.Items[k]; ok && !valEq(v, m.pre, k) && valEq(v, m.post, k) {
				// decided when the writer has finished: only if its Commit really failed
				h.pendingNew = append(h.pendingNew, pendingNewValue{bucket: "stage3.new-value-seen-in-a-commit-that-then-failed" + variant, cold: where == "cold-l2", in: in,
					note: fmt.Sprintf("reader%s at %s saw key %d = %s, the NEW value of a writer whose Commit then FAILED and was rolled back (%s, injected failure at %s): %s", variant, point, k, gotStr(v), sh.Note, sh.FailAt, o.brief(m.universe))})
				break
			}
		}
	}
	seen := map[string]bool{}
	for _, d := range devs {
		if seen[d.sig] {
			continue
		}
		seen[d.sig] = true
		res.Count("deviation." + d.sig)
		h.tracef("        !! %s: %s\n", d.sig, d.what)
		if h.failed[sh] == nil {
			h.failed[sh] = map[string]bool{}
		}
		if h.failed[sh][d.sig] {
			continue // one oracle failure per shape and signature (the first pause point that shows it); all are counted
		}
		h.failed[sh][d.sig] = true
		rc := "the reader's own Commit returned nil"
		if o.CommitErr != "" {
			rc = "the reader's own Commit returned: " + short(o.CommitErr)
		}
		kind := "reader"
		if where == "cold-l2" {
			kind = "cold-L2 reader (registry handles of the writer evicted from L2 before it ran)"
		} else if where == "cold-start" {
			kind = "reader in the writer's process (cold start: the store was committed by another process, the writer read first)"
		} else if where != "" {
			kind = where + " reader after the writer finished"
		}
		h.fail(d.sig, fmt.Sprintf("%s [%s, %s, stage %d] %s saw %s; %s; pre count %d, post count %d", d.what, sh.Note, point, stage, kind, o.brief(m.universe), rc, m.preCount, m.postCount), in)
	}
	res.AddCase(coqCase(m, stage, o), in)
	if stage == 2 || stage == 3 {
		res.Sample(map[string]any{"shape": sh.Note, "point": point, "stage": stage, "obs": o.brief(m.universe), "pre_count": m.preCount, "post_count": m.postCount})
	}
}

// probeActivelyPersistedRemoveOnly: incidental observation, outside C03 (count + note only, no
// oracle failure, no case): a remove-only transaction on an actively-persisted store.
func (h *harness) probeActivelyPersistedRemoveOnly() {
	sh := &Shape{Opts: sopx.StoreOpts{Slot: 8, Unique: true, ActivelyP: true}, HashMod: 2, Pre: seqPre(1, 2, 3),
		Prog: []Op{{K: "rem", Key: 2}}, Ending: "commit", Note: "probe: remove-only transaction, actively persisted values"}
	m := buildModel(sh)
	tr := newTracker(sh)
	tr.dry = true
	out, err := h.exec(sh, m, tr, nil, execOpt{})
	if err != nil {
		h.res.Notes = append(h.res.Notes, "activelyp remove-only probe could not run: "+err.Error())
		return
	}
	defer os.RemoveAll(out.env.Folder)
	o := h.read(out.env, out.name, m.universe)
	d := obsFromDump(sopx.DumpFresh(out.env.Folder, sh.HashMod, false), out.name, m.universe)
	h.tracef("\n=== %s\n  writer: %d calls, committed=%v err=%q op results %v\n  same process : %s\n  fresh process: %s\n", sh.Note, len(out.infos), out.committed, short(out.endErr), out.opRes, o.brief(m.universe), d.brief(m.universe))
	if out.committed && o.Count == m.preCount && d.Count == m.preCount && valEq(o.Items[2], m.pre, 2) && valEq(d.Items[2], m.pre, 2) {
		h.res.Count("incidental.activelyp-remove-only-commit-noop")
		h.res.Notes = append(h.res.Notes, fmt.Sprintf("incidental (not C03): Remove(2) returned %v and Commit returned nil on an actively-persisted store, yet the transaction issued only %d storage calls and nothing was removed: same process %s; fresh process %s", out.opRes, len(out.infos), o.brief(m.universe), d.brief(m.universe)))
	} else {
		h.res.Count("incidental.activelyp-remove-only-commit-effective")
	}
}

// ---------------------------------------------------------------- entry point

func run(cfg *hx.RunCfg) (*hx.Result, error) {
	res := hx.NewResult("C03")
	res.Imports = []string{"Lib.Bytes", "History", "Corr.C03"} // Lib.Bytes: `mismatches`
	res.CaseType = "c03case"
	res.Checker = "c03_check"
	res.Rule = "a deterministic corpus (the known count defect with a failing, a rolled-back and a committing writer; delta -1; multi-leaf updates; plain Rollback) followed by seeded shapes: store options (value in node / own segment, actively persisted, globally cached; slot 4 with 10-14 keys in several leaves or slot 8 with 3 keys), a writer program (update-only, growing with splits, shrinking by a whole node, balanced, mixed incl. ops that must fail on a unique store) and an ending (commit, Rollback, Phase1Commit+Rollback, Commit with an injected failure at sr.Update / tlog step 11 / the phase-2 registry write / the K-th block write inside it). One evaluation = one reader transaction run to completion while the writer is parked in front of one of its storage/L2 calls (or after it finished: same process and fresh process); distinct = distinct (shape, stage, call kind and its occurrence number); non-trivial = the writer's program changes the content or count of the store"
	if err := os.MkdirAll(scratchRoot, 0o755); err != nil {
		return nil, err
	}
	root, err := os.MkdirTemp(scratchRoot, fmt.Sprintf("run%d-", os.Getpid()))
	if err != nil {
		return nil, err
	}
	defer os.RemoveAll(root)
	h := &harness{res: res, root: root, tier: cfg.Tier, rng: hx.NewRng(cfg.Seed), failed: map[*Shape]map[string]bool{}}
	if p := os.Getenv("C03_PROF"); p != "" {
		if f, err := os.Create(p); err == nil {
			pprof.StartCPUProfile(f)
			defer pprof.StopCPUProfile()
		}
	}
	if p := os.Getenv("C03_TRACE"); p != "" {
		if f, err := os.Create(p); err == nil {
			h.trace = f
			defer f.Close()
		}
	}

	if cfg.Replay != "" {
		raw, err := os.ReadFile(cfg.Replay)
		if err != nil {
			return nil, err
		}
		var rp struct {
			Input Input `json:"input"`
		}
		if err := json.Unmarshal(raw, &rp); err != nil {
			return nil, err
		}
		if rp.Input.Shape == nil {
			return nil, fmt.Errorf("replay file has no shape")
		}
		pm := pauseMode{only: rp.Input.Pause, budget: 25}
		if rp.Input.Pause < 0 {
			// final readers / whole shape: serve every call so that the run is the one that was recorded
			pm = pauseMode{all: true, only: -1}
		}
		h.runShape(rp.Input.Shape, pm)
		h.flushDumps()
		return res, nil
	}

	thorough := cfg.Tier == "thorough"
	n := cfg.N
	if n == 0 {
		n = 18
		if thorough {
			n = 150
		}
	}
	// corpus first: every call of these small shapes is a pause point
	for _, sh := range corpus() {
		h.runShape(sh, pauseMode{all: thorough || sh.AllCalls, only: -1, budget: 25})
	}
	hitKnown := false
	for _, f := range res.OracleFailures {
		if f.Signature == knownCountSig {
			hitKnown = true
		}
	}
	if !hitKnown {
		res.Notes = append(res.Notes, "the corpus did NOT reproduce "+knownCountSig+" in this run")
		res.Count("corpus.known-count-defect-not-reproduced")
	} else {
		res.Count("corpus.known-count-defect-reproduced")
	}
	h.probeActivelyPersistedRemoveOnly()
	for i := 0; i < n; i++ {
		sh := genShape(h.rng, i)
		h.runShape(sh, pauseMode{all: thorough, only: -1, budget: 25})
	}
	h.flushDumps()
	for k, v := range h.tm {
		h.tracef("time %-24s %v\n", k, v)
	}
	ncold := 6
	if thorough {
		ncold = 60
	}
	if cfg.N != 0 {
		ncold = (cfg.N + 2) / 3
	}
	for i := 0; i < ncold; i++ {
		h.runShape(genColdShape(h.rng, i), pauseMode{only: -1})
	}
	h.flushDumps()
	left, _ := filepath.Glob(filepath.Join(root, "*"))
	if len(left) > 0 {
		res.Notes = append(res.Notes, fmt.Sprintf("%d scratch folders were left by stuck runs (removed now)", len(left)))
	}
	sort.Strings(res.Notes)
	res.Notes = dedupe(res.Notes)
	return res, nil
}

func dedupe(xs []string) []string {
	var out []string
	for i, x := range xs {
		if i == 0 || x != xs[i-1] {
			out = append(out, x)
		}
	}
	if len(out) > 60 {
		out = append(out[:60], fmt.Sprintf("… %d more notes", len(out)-60))
	}
	return out
}


package main

import (
	"context"
	"fmt"
	"os"
	"path/filepath"
	"strconv"
	"strings"
	"sync"
	"time"

	"github.com/sharedcode/sop"
	"github.com/sharedcode/sop/btree"
	"github.com/sharedcode/sop/cache"

	"verif/harness/hx"
	"verif/harness/sopx"
)

const (
	scratchRoot   = "/var/tmp/C03"
	storePrefix   = "c03s"
	parkTimeout   = 30 * time.Second // a parked writer gives up waiting for the main goroutine
	stepTimeout   = 30 * time.Second // the main goroutine gives up waiting for the writer
	readerTimeout = 20 * time.Second
	writerMaxTime = time.Minute
)

// ---------------------------------------------------------------- stage tracking + gate

// evInfo describes one armed call of the writer.
type evInfo struct {
	Idx   int
	Key   string // iface.method
	Desc  string // key + distinguishing detail (tlog step, ok flag, deltas)
	Stage int    // stage of the writer when it stood in front of this call
	Must  bool   // structural pause point (around sr.Update, the flip and everything inside it)
}

type pauseInfo struct {
	evInfo
	ev *sopx.Event
}

// tracker follows the writer through its calls (Recorder.Before/After) and parks it.
type tracker struct {
	mu  sync.Mutex
	wmu sync.Mutex // one goroutine of the writer in the gate at a time

	sh *Shape

	n              int   // writer calls seen so far
	inEnd          bool  // Commit / Phase1Commit / Rollback has been called
	inRollbackCall bool  // the explicit Rollback() is running
	mergedSum      int64 // sum of the CountDeltas of the sr.Update calls that returned nil
	srUpdates      int
	marker10       bool // tlog.Add step 10 (beforeFinalize) returned
	flipStarted    bool // the phase-2 reg.UpdateNoLocks(ok=true) started (and was not refused by injection)
	inFlip         bool
	regionsInFlip  int
	failInjected   bool
	lastWasSr      bool // the previous call was sr.Update: this one is the first call after it
	afterFlip      bool // the previous call was the flip: this one is the first call after it
	finished       bool
	committed      bool

	infos []evInfo

	// gating
	dry      bool
	pauseAll bool
	pauseSet map[int]bool
	only     int // >= 0: park at exactly this index
	// cold-start family: no storage call of the working phase is a pause point (a reader there would warm the
	// caches before the writer's own first reads); in the end phase: structural points + every sampleEvery-th call
	cold        bool
	sampleEvery int
	parked   chan *pauseInfo
	resume   chan struct{}
	freeCh   chan struct{}
	freeOnce sync.Once
	gaveUp   int
}

func newTracker(sh *Shape) *tracker {
	return &tracker{sh: sh, only: -1, parked: make(chan *pauseInfo), resume: make(chan struct{}), freeCh: make(chan struct{})}
}

func (t *tracker) openGates() { t.freeOnce.Do(func() { close(t.freeCh) }) }

func (t *tracker) isFree() bool {
	select {
	case <-t.freeCh:
		return true
	default:
		return false
	}
}

// stageLocked: see Corr/C03.v. While the count delta is merged into the store info and no
// handle has been flipped the writer is in stage 2, whether it is still committing or already
// undoing (p1rollback / failed commit) — the state readers can see is the same.
func (t *tracker) stageLocked() int {
	switch {
	case t.finished && t.committed:
		return 4
	case t.finished:
		return 5
	case t.flipStarted:
		return 3
	case !t.inEnd:
		return 0
	case t.mergedSum != 0:
		return 2
	case t.marker10 && t.srUpdates == 0 && !t.failInjected && !t.inRollbackCall:
		return 2 // delta = 0: no commitStores write; stage 2 starts at the beforeFinalize marker
	}
	return 1
}

func isFlip(ev *sopx.Event) bool {
	return ev.Iface == "reg" && ev.Method == "UpdateNoLocks" && ev.Bool != nil && *ev.Bool
}

func descOf(ev *sopx.Event) string {
	d := ev.Key()
	switch {
	case ev.Iface == "tlog" && ev.Method == "Add":
		d += fmt.Sprintf("(step %d)", ev.Step)
	case ev.Iface == "reg" && ev.Method == "UpdateNoLocks":
		d += fmt.Sprintf("(ok=%v,%d handles)", ev.Bool != nil && *ev.Bool, len(ev.Handles))
	case ev.Iface == "sr" && ev.Method == "Update":
		d += fmt.Sprintf("(deltas %v)", ev.Deltas)
	case ev.Iface == "l2x" && ev.Method == "SetHandle":
		d += fmt.Sprintf("(lid %v)", ev.IDs)
	case ev.Iface == "reg":
		d += fmt.Sprintf("(%d ids,%d handles)", len(ev.IDs), len(ev.Handles))
	}
	return d
}

func (t *tracker) before(ev *sopx.Event) sopx.Action {
	if ev.Txn != "w" {
		return sopx.Proceed
	}
	t.mu.Lock()
	info := evInfo{Idx: t.n, Key: ev.Key(), Desc: descOf(ev), Stage: t.stageLocked()}
	t.n++
	flip := isFlip(ev)
	srUpd := ev.Iface == "sr" && ev.Method == "Update"
	info.Must = t.lastWasSr || t.afterFlip || flip || (srUpd && t.srUpdates == 0) || (t.inFlip && ev.Iface == "l2x")
	t.lastWasSr, t.afterFlip = false, false
	act := sopx.Proceed
	if t.sh.Ending == "fail" && !t.failInjected && t.inEnd {
		hit := false
		switch {
		case t.sh.FailAt == "sr.Update":
			hit = srUpd
		case t.sh.FailAt == "flip":
			hit = flip
		case t.sh.FailAt == "step11":
			hit = ev.Iface == "tlog" && ev.Method == "Add" && ev.Step == 11
		case strings.HasPrefix(t.sh.FailAt, "region:"):
			k, _ := strconv.Atoi(strings.TrimPrefix(t.sh.FailAt, "region:"))
			hit = t.inFlip && ev.Key() == "l2x.RegionLock" && t.regionsInFlip == k
		}
		if hit {
			act = sopx.Fail
		}
	}
	t.infos = append(t.infos, info)
	// replay of one pause index: that call, plus every call inside the flip (the order in which the handles
	// of one commit are flipped follows Go map iteration, so a partial-flip state moves between the indices)
	if t.cold {
		pause := !t.dry && t.inEnd && (info.Must || t.pauseAll || (t.sampleEvery > 0 && info.Idx%t.sampleEvery == 0))
		t.mu.Unlock()
		return t.finishBefore(ev, info, act, flip, pause)
	}
	pause := !t.dry && (t.only < 0 && (t.pauseAll || info.Must || t.pauseSet[info.Idx]) || t.only == info.Idx || (t.only >= 0 && t.inFlip && ev.Iface == "l2x"))
	t.mu.Unlock()
	return t.finishBefore(ev, info, act, flip, pause)
}

func (t *tracker) finishBefore(ev *sopx.Event, info evInfo, act sopx.Action, flip, pause bool) sopx.Action {
	if pause && !t.isFree() {
		t.park(&pauseInfo{evInfo: info, ev: ev})
	}

	// the call starts now
	t.mu.Lock()
	if act == sopx.Fail {
		t.failInjected = true
	}
	if t.inFlip && ev.Key() == "l2x.RegionLock" {
		t.regionsInFlip++
	}
	if flip {
		t.inFlip = true
		if act != sopx.Fail {
			t.flipStarted = true
		}
	}
	t.mu.Unlock()
	return act
}

// opPauseBase: pause "index" of the gate after API op i of the working phase is -(opPauseBase+i).
const opPauseBase = 10

// parkOp parks the writer between two API operations of its working phase (stage 0).
func (t *tracker) parkOp(i int, o Op, ok bool) {
	if t.dry || t.isFree() {
		return
	}
	t.mu.Lock()
	info := evInfo{Idx: -(opPauseBase + i), Key: "api." + o.K, Desc: fmt.Sprintf("after op %d: %s(%d)=%v", i, o.K, o.Key, ok), Stage: t.stageLocked()}
	t.mu.Unlock()
	t.park(&pauseInfo{evInfo: info})
}

func (t *tracker) park(p *pauseInfo) {
	t.wmu.Lock()
	defer t.wmu.Unlock()
	select {
	case t.parked <- p:
	case <-t.freeCh:
		return
	case <-time.After(parkTimeout):
		t.mu.Lock()
		t.gaveUp++
		t.mu.Unlock()
		return
	}
	select {
	case <-t.resume:
	case <-t.freeCh:
	case <-time.After(parkTimeout):
		t.mu.Lock()
		t.gaveUp++
		t.mu.Unlock()
	}
}

func (t *tracker) after(ev *sopx.Event) {
	if ev.Txn != "w" {
		return
	}
	t.mu.Lock()
	defer t.mu.Unlock()
	switch {
	case ev.Iface == "sr" && ev.Method == "Update":
		if ev.Err == "" {
			for _, d := range ev.Deltas {
				t.mergedSum += d
			}
			t.srUpdates++
		}
		t.lastWasSr = true
	case isFlip(ev):
		t.inFlip = false
		t.afterFlip = true
	case ev.Iface == "tlog" && ev.Method == "Add" && ev.Step == 10 && ev.Err == "":
		t.marker10 = true
	}
}

// ---------------------------------------------------------------- one writer execution

type execOut struct {
	infos     []evInfo
	opRes     []bool
	opErr     string
	endErr    string // error of Commit / Phase1Commit / Rollback
	committed bool
	panicked  string
	stuck     string
	gaveUp    int
	preObs    *Obs
	env       *sopx.Env
	name      string
}

type harness struct {
	res    *hx.Result
	cache  sop.L2Cache // one L2 cache for the whole process, like one long-running application
	root   string
	nstore int
	tier   string
	trace  *os.File
	rng    *hx.Rng
	failed map[*Shape]map[string]bool // signatures already reported for a shape
	// stage-3 observations of new values in a shape whose Commit is meant to fail (count, note)
	pendingNew []pendingNewValue
	pending    []*pendingDump
	tm         map[string]time.Duration
}

type pendingNewValue struct {
	bucket, note string
	cold         bool
	in           Input
}

func (h *harness) timed(what string, t0 time.Time) {
	if h.tm == nil {
		h.tm = map[string]time.Duration{}
	}
	h.tm[what] += time.Since(t0)
}

func (h *harness) tracef(format string, a ...any) {
	if h.trace != nil {
		fmt.Fprintf(h.trace, format, a...)
	}
}

func (h *harness) newEnv(folder string, hashMod int) (*sopx.Env, error) {
	e, err := sopx.NewEnv(folder, hashMod)
	if err != nil {
		return nil, err
	}
	if h.cache == nil {
		h.cache = e.Cache
	} else {
		e.Cache = h.cache
	}
	return e, nil
}

func doOp(ctx context.Context, b btree.BtreeInterface[int, string], o Op) (bool, error) {
	v := strconv.Itoa(o.Val)
	switch o.K {
	case "add":
		return b.Add(ctx, o.Key, v)
	case "upd":
		return b.Update(ctx, o.Key, v)
	case "fupd":
		ok, err := b.Find(ctx, o.Key, false)
		if err != nil || !ok {
			return false, err
		}
		return b.UpdateCurrentValue(ctx, v)
	case "rem":
		return b.Remove(ctx, o.Key)
	case "ups":
		return b.Upsert(ctx, o.Key, v)
	}
	return false, fmt.Errorf("unknown op %q", o.K)
}

// read runs one reader transaction to completion.
func (h *harness) read(e *sopx.Env, name string, universe []int) (o *Obs) {
	defer h.timed("readers", time.Now())
	o = &Obs{Count: -1, Items: map[int]*int{}}
	defer func() {
		if r := recover(); r != nil {
			o.Errs = append(o.Errs, fmt.Sprintf("panic: %v", r))
		}
	}()
	ctx, cancel := context.WithTimeout(context.Background(), readerTimeout)
	defer cancel()
	t, err := e.NewTxn(ctx, sop.ForReading, time.Minute, "r", true)
	if err != nil {
		o.Errs = append(o.Errs, "newtxn: "+err.Error())
		return o
	}
	if err := t.Begin(ctx); err != nil {
		o.Errs = append(o.Errs, "begin: "+err.Error())
		return o
	}
	b, err := t.OpenStore(ctx, name)
	if err != nil {
		o.Errs = append(o.Errs, "open: "+err.Error())
		t.Rollback(ctx)
		return o
	}
	o.Count = b.Count()
	for _, k := range universe {
		ok, err := b.Find(ctx, k, false)
		if err != nil {
			o.Errs = append(o.Errs, fmt.Sprintf("find %d: %v", k, err))
			continue
		}
		if !ok {
			o.Items[k] = nil
			continue
		}
		v, err := b.GetCurrentValue(ctx)
		if err != nil {
			o.Errs = append(o.Errs, fmt.Sprintf("value %d: %v", k, err))
			continue
		}
		n := parseVal(v, o)
		o.Items[k] = &n
	}
	ok, err := b.First(ctx)
	for ok && err == nil {
		o.Scan = append(o.Scan, b.GetCurrentKey().Key)
		if len(o.Scan) > 10000 {
			o.Errs = append(o.Errs, "scan: does not end")
			break
		}
		ok, err = b.Next(ctx)
	}
	if err != nil {
		o.Errs = append(o.Errs, "scan: "+err.Error())
	}
	if err := t.Commit(ctx); err != nil {
		o.CommitErr = err.Error()
	}
	return o
}

// coldRead is read() for a reader that finds none of the writer's handles in the caches: not in
// the L2 cache (registry entries expire there after RegistryCacheDuration, 15 minutes by default)
// and not in the process-global L1 handle MRU (64 entries in standalone mode), so it resolves them
// from the registry files. The entries are put back afterwards so that the readers at later pause
// points see what the writer itself published.
func (h *harness) coldRead(e *sopx.Env, name string, universe []int) *Obs {
	ctx := context.Background()
	lids := map[int]bool{}
	for _, ev := range e.Rec.Snapshot() {
		if ev.Txn != "w" || !(ev.Iface == "reg" || ev.Iface == "plog" || ev.Key() == "l2x.SetHandle") {
			continue
		}
		for _, hd := range ev.Handles {
			lids[hd.Lid] = true
		}
		if ev.Iface != "plog" {
			for _, id := range ev.IDs {
				lids[id] = true
			}
		}
	}
	l1 := cache.GetGlobalL1Cache(h.cache)
	saved := map[string]*sop.Handle{}
	var ids []sop.UUID
	for lid := range lids {
		u := e.Rec.Canon.UUID(lid)
		if u.IsNil() {
			continue
		}
		ids = append(ids, u)
		var hd sop.Handle
		if ok, err := h.cache.GetStruct(ctx, u.String(), &hd); ok && err == nil {
			c := hd
			saved[u.String()] = &c
		} else {
			saved[u.String()] = nil
		}
		h.cache.Delete(ctx, []string{u.String()})
	}
	var savedL1 []sop.KeyValuePair[sop.UUID, sop.Handle]
	if len(ids) > 0 {
		for i, hd := range l1.Handles.Get(ids) {
			if !hd.IsEmpty() {
				savedL1 = append(savedL1, sop.KeyValuePair[sop.UUID, sop.Handle]{Key: ids[i], Value: hd})
			}
		}
		l1.Handles.Delete(ids)
	}
	o := h.read(e, name, universe)
	for k, hd := range saved {
		if hd == nil {
			h.cache.Delete(ctx, []string{k})
		} else {
			h.cache.SetStruct(ctx, k, hd, 15*time.Minute)
		}
	}
	if len(ids) > 0 {
		l1.Handles.Delete(ids)
		if len(savedL1) > 0 {
			l1.Handles.Set(savedL1)
		}
	}
	return o
}

func obsFromDump(d *sopx.Dump, name string, universe []int) *Obs {
	o := &Obs{Count: -1, Items: map[int]*int{}}
	if d.Err != "" {
		o.Errs = append(o.Errs, "dump: "+d.Err)
	}
	sd := d.Stores[name]
	if sd == nil {
		o.Errs = append(o.Errs, "dump: store missing")
		return o
	}
	if sd.Err != "" {
		o.Errs = append(o.Errs, "dump: "+sd.Err)
	}
	o.Count = sd.Count
	got := map[int]string{}
	for i, k := range sd.Keys {
		o.Scan = append(o.Scan, k)
		if i < len(sd.Vals) {
			got[k] = sd.Vals[i]
		}
	}
	for _, k := range universe {
		if v, ok := got[k]; ok {
			n := parseVal(v, o)
			o.Items[k] = &n
		} else {
			o.Items[k] = nil
		}
	}
	return o
}

// exec sets the store up and runs the writer once. onPause (nil in a dry run) is called in the
// calling goroutine for every pause point while the writer is parked.
// execOpt: the cold-start family runs the writer in a process that did NOT create the store.
type execOpt struct {
	Folder, Name string // "" = a new folder and store name of this process
	SkipSetup    bool   // the store was created and committed by another process
	GateOps      string // "" | "each" (park after every API op of the working phase) | "last" (after the last one)
}

// setupStore creates the store and commits the pre-population with an undecorated transaction.
func setupStore(e *sopx.Env, sh *Shape, name string) error {
	ctx := context.Background()
	t, err := e.NewTxn(ctx, sop.ForWriting, time.Minute, "setup", true)
	if err != nil {
		return fmt.Errorf("setup: %w", err)
	}
	if err = t.Begin(ctx); err != nil {
		return fmt.Errorf("setup begin: %w", err)
	}
	opts := sh.Opts
	opts.Name = name
	b, err := t.NewStore(ctx, opts)
	if err != nil {
		t.Rollback(ctx)
		return fmt.Errorf("setup newstore: %w", err)
	}
	for _, kv := range sh.Pre {
		if ok, err := b.Add(ctx, kv[0], strconv.Itoa(kv[1])); err != nil || !ok {
			t.Rollback(ctx)
			return fmt.Errorf("setup add %d: ok=%v err=%v", kv[0], ok, err)
		}
	}
	if err := t.Commit(ctx); err != nil {
		return fmt.Errorf("setup commit: %w", err)
	}
	return nil
}

func (h *harness) exec(sh *Shape, m *model, tr *tracker, onPause func(p *pauseInfo, e *sopx.Env, name string), xo execOpt) (out *execOut, err error) {
	h.nstore++
	name := fmt.Sprintf("%s%d_%d", storePrefix, os.Getpid(), h.nstore)
	folder := filepath.Join(h.root, fmt.Sprintf("db%d", h.nstore))
	if xo.Folder != "" {
		folder, name = xo.Folder, xo.Name
	}
	out = &execOut{name: name}
	ctx := context.Background()
	e, err := h.newEnv(folder, sh.HashMod)
	if err != nil {
		return out, err
	}
	out.env = e
	// setup transaction: not decorated, first user of the process-global L1 cache
	tSetup := time.Now()
	if !xo.SkipSetup {
		if err := setupStore(e, sh, name); err != nil {
			return out, err
		}
	}
	h.timed("setup", tSetup)
	if !tr.dry && !xo.SkipSetup {
		out.preObs = h.read(e, name, m.universe)
	}
	tRun := time.Now()
	defer func() { h.timed(map[bool]string{true: "dry-writer", false: "gated-writer+readers"}[tr.dry], tRun) }()

	e.Rec.Mute["plog.Remove"] = true   // phase 2 issues it from a task-runner goroutine
	e.Rec.Mute["reg.Replicate"] = true // the same
	e.Rec.Before = tr.before
	e.Rec.After = tr.after
	e.Rec.Arm()

	done := make(chan struct{})
	go func() {
		defer close(done)
		defer func() {
			if r := recover(); r != nil {
				out.panicked = fmt.Sprint(r)
			}
		}()
		t, err := e.NewTxnDeep(ctx, sop.ForWriting, writerMaxTime, "w")
		if err != nil {
			out.opErr = "newtxn: " + err.Error()
			return
		}
		if err := t.Begin(ctx); err != nil {
			out.opErr = "begin: " + err.Error()
			return
		}
		b, err := t.OpenStore(ctx, name)
		if err != nil {
			out.opErr = "open: " + err.Error()
			t.Rollback(ctx)
			return
		}
		for i, o := range sh.Prog {
			ok, err := doOp(ctx, b, o)
			out.opRes = append(out.opRes, ok)
			if err != nil {
				out.opErr = fmt.Sprintf("%s %d: %v", o.K, o.Key, err)
				break
			}
			if xo.GateOps == "each" || (xo.GateOps == "last" && i == len(sh.Prog)-1) {
				tr.parkOp(i, o, ok)
			}
		}
		tr.mu.Lock()
		tr.inEnd = true
		tr.mu.Unlock()
		if out.opErr != "" {
			t.Rollback(ctx)
			return
		}
		switch sh.Ending {
		case "commit", "fail":
			if err := t.Commit(ctx); err != nil {
				out.endErr = err.Error()
			} else {
				out.committed = true
			}
		case "rollback":
			tr.mu.Lock()
			tr.inRollbackCall = true
			tr.mu.Unlock()
			if err := t.Rollback(ctx); err != nil {
				out.endErr = err.Error()
			}
		case "p1rollback":
			if err := t.Two.Phase1Commit(ctx); err != nil {
				out.endErr = "phase1: " + err.Error()
			}
			tr.mu.Lock()
			tr.inRollbackCall = true
			tr.mu.Unlock()
			if err := t.Rollback(ctx); err != nil {
				out.endErr += " rollback: " + err.Error()
			}
		default:
			out.opErr = "unknown ending " + sh.Ending
			t.Rollback(ctx)
		}
	}()

loop:
	for {
		select {
		case p := <-tr.parked:
			if onPause != nil {
				func() {
					defer func() {
						if r := recover(); r != nil {
							out.stuck = fmt.Sprintf("panic while serving pause %d: %v", p.Idx, r)
						}
					}()
					onPause(p, e, name)
				}()
			}
			select {
			case tr.resume <- struct{}{}:
			case <-done:
				break loop
			case <-time.After(stepTimeout):
				out.stuck = fmt.Sprintf("writer did not take the resume after pause %d", p.Idx)
				tr.openGates()
			}
		case <-done:
			break loop
		case <-time.After(stepTimeout):
			out.stuck = "writer neither parked nor finished"
			tr.openGates()
			select {
			case <-done:
			case <-time.After(stepTimeout):
			}
			break loop
		}
	}
	tr.openGates() // never leave a goroutine parked
	select {
	case <-done:
	case <-time.After(stepTimeout):
		if out.stuck == "" {
			out.stuck = "writer goroutine still running at the end of the run"
		}
	}
	e.Rec.Disarm()
	e.Rec.Before, e.Rec.After = nil, nil
	tr.mu.Lock()
	tr.finished, tr.committed = true, out.committed
	out.infos = append([]evInfo(nil), tr.infos...)
	out.gaveUp = tr.gaveUp
	tr.mu.Unlock()
	return out, nil
}

// ---------------------------------------------------------------- direct oracle

type deviation struct{ sig, what string }

func eqInts(a, b []int) bool {
	if len(a) != len(b) {
		return false
	}
	for i := range a {
		if a[i] != b[i] {
			return false
		}
	}
	return true
}

func valEq(o *int, m map[int]int, k int) bool {
	v, ok := m[k]
	if o == nil {
		return !ok
	}
	return ok && v == *o
}

// itemKind classifies an observation that differs from pre.
func itemKind(o *int, m *model, k int) string {
	_, inPre := m.pre[k]
	if valEq(o, m.post, k) {
		switch {
		case !inPre:
			return "added-key-present"
		case o == nil:
			return "removed-key-absent"
		default:
			return "updated-value"
		}
	}
	return "third-value"
}

func gotStr(v *int) string {
	if v == nil {
		return "absent"
	}
	return strconv.Itoa(*v)
}

// check is the property itself: which state must explain the reader at this stage.
// where: "" (paused reader), "in-process" / "fresh" (readers after the writer finished).
// merged: sum of the count deltas the writer has merged into the store info so far.
func check(m *model, stage int, o *Obs, where string, merged int64) (devs []deviation, mixed bool) {
	add := func(sig, format string, a ...any) { devs = append(devs, deviation{sig, fmt.Sprintf(format, a...)}) }
	if len(o.BadVals) > 0 {
		add(fmt.Sprintf("non-numeric-value:stage%d", stage), "values %q", o.BadVals)
	}
	found := []int{}
	for _, k := range m.universe {
		if v, ok := o.Items[k]; ok && v != nil {
			found = append(found, k)
		}
	}
	if len(o.Errs) == 0 && !eqInts(found, o.Scan) && stage != 3 {
		add(fmt.Sprintf("scan-find-disagree:stage%d", stage), "Find hits %v, First/Next scan %v", found, o.Scan)
	}
	var want map[int]int
	var wantCount int64
	switch stage {
	case 0, 1, 2, 5:
		want, wantCount = m.pre, m.preCount
	case 4:
		want, wantCount = m.post, m.postCount
	}
	if want != nil {
		// a reader whose own Count() is 0 never looks at a node: Find/First answer "empty" (btree.go)
		zero := ""
		if o.Count == 0 && wantCount != 0 {
			zero = ":reader-count-0"
		}
		for _, k := range m.universe {
			v, ok := o.Items[k]
			if !ok || valEq(v, want, k) {
				continue
			}
			switch stage {
			case 4:
				add("committed-write-not-visible:items:"+where, "key %d reads %s after the commit returned", k, gotStr(v))
			case 5:
				add("rolledback-write-visible:items:"+where, "key %d reads %s after the writer was rolled back (%s)", k, gotStr(v), itemKind(v, m, k))
			default:
				add(fmt.Sprintf("uncommitted-item-visible:stage%d:%s%s", stage, itemKind(v, m, k), zero), "key %d reads %s at stage %d", k, gotStr(v), stage)
			}
		}
		if o.Count >= 0 && o.Count != wantCount {
			switch stage {
			case 4:
				add("committed-write-not-visible:count:"+where, "Count()=%d, want %d", o.Count, wantCount)
			case 5:
				add("rolledback-write-visible:count:"+where, "Count()=%d after the writer was rolled back, want %d", o.Count, wantCount)
			case 2:
				if merged != 0 && o.Count == m.preCount+merged && merged == m.postCount-m.preCount {
					add(knownCountSig, "Count()=%d while the committed count is %d (the reader's scan shows %d items): the writer's count delta %+d is merged into the store info by commitStores (sr.Update) before the registry flip",
						o.Count, m.preCount, len(o.Scan), merged)
				} else {
					add("uncommitted-count-visible:stage2:unexpected-value", "Count()=%d, pre %d, post %d, merged %+d", o.Count, m.preCount, m.postCount, merged)
				}
			default:
				add(fmt.Sprintf("uncommitted-count-visible:stage%d", stage), "Count()=%d at stage %d, want %d", o.Count, stage, wantCount)
			}
		}
		return devs, false
	}
	// stage 3: mid flip. Known (same root cause as C02's reader between two flips: the handles of one
	// commit are published one at a time): a mix of old and new values, a key the writer did not
	// change found in neither the old nor the new nodes, a torn scan. Anything else must alarm.
	sawPre, sawPost := false, false
	for _, k := range m.universe {
		v, ok := o.Items[k]
		if !ok {
			continue
		}
		p, q := valEq(v, m.pre, k), valEq(v, m.post, k)
		if !p && !q {
			pv, inPre := m.pre[k]
			qv, inPost := m.post[k]
			switch {
			case inPre && inPost && pv == qv && v == nil:
				add("partial-flip-visible:stage3:unchanged-key-absent", "key %d (not changed by the writer, %d before and after) is not found", k, pv)
			case inPre && inPost && pv == qv:
				add("third-value:stage3:unchanged-key-other-value", "key %d reads %s, old and new value are %d", k, gotStr(v), pv)
			case !inPre && !inPost:
				add("third-value:stage3:never-present-key", "key %d reads %s, it exists neither before nor after", k, gotStr(v))
			case v == nil:
				add("partial-flip-visible:stage3:changed-key-absent", "key %d is not found, it exists before and after the writer (old %d, new %d)", k, pv, qv)
			default:
				add("third-value:stage3:changed-key-other-value", "key %d reads %s, neither the old nor the new value", k, gotStr(v))
			}
		}
		if p && !q {
			sawPre = true
		}
		if q && !p {
			sawPost = true
		}
	}
	if len(o.Errs) == 0 {
		torn := !eqInts(found, o.Scan)
		for i := 1; i < len(o.Scan); i++ {
			if o.Scan[i] <= o.Scan[i-1] {
				torn = true
			}
		}
		if torn {
			add("partial-flip-visible:stage3:torn-scan", "Find hits %v, First/Next scan %v", found, o.Scan)
		}
	}
	if o.Count >= 0 && o.Count != m.preCount && o.Count != m.postCount {
		add("third-count:stage3", "Count()=%d, pre %d, post %d", o.Count, m.preCount, m.postCount)
	}
	return devs, sawPre && sawPost
}

package main

import (
	"bytes"
	"encoding/json"
	"fmt"
	"os"
	"runtime"

	"github.com/klauspost/reedsolomon"

	"verif/harness/c25/ecx"
	"verif/harness/hx"
)

// C25: erasure-coded blobs survive up to p damaged shards; reads never crash; excess damage gives an error,
// not wrong bytes; a write succeeds iff at most p shard writes fail.
// Exhaustive enumeration of damage patterns over real shard files; direct oracle + correspondence with EC.v.

func main() { hx.Main("c25", runC25) }

type geom struct {
	d, p  int
	sizes []int
	level int // kinds level (2 = all ten kinds)
}

func geoms(tier string) []geom {
	g := []geom{
		{1, 1, ecx.Sizes(1), 2},
		{2, 1, ecx.Sizes(2), 2},
		{2, 2, []int{1, 2, 4099}, 0},
		{2, 2, []int{3}, 1},
	}
	if tier == "thorough" {
		g = []geom{
			{1, 1, ecx.Sizes(1), 2},
			{2, 1, ecx.Sizes(2), 2},
			{2, 2, ecx.Sizes(2), 2},
			{3, 2, ecx.Sizes(3), 0},
			{4, 2, []int{5, 4099}, 0},
		}
	}
	return g
}

// corpus: one case per reproduced defect (S6) and per open finding, run first on every run.
func corpus() []ecx.Case {
	g := func(k string) ecx.Dmg { return ecx.Dmg{K: k} }
	t := func(n int) ecx.Dmg { return ecx.Dmg{K: "trunc", N: n} }
	return []ecx.Case{
		// S6a: shard file shorter than the metadata: panic in the reader goroutine (fixed by the patch)
		{Op: "read", D: 2, P: 2, Size: 9, Dmg: []ecx.Dmg{t(5), g("good"), g("good"), g("good")}},
		// S6b: missing + corrupted within parity: nil metadata indexed (fixed)
		{Op: "read", D: 2, P: 2, Size: 9, Dmg: []ecx.Dmg{g("missing"), g("flipdata"), g("good"), g("good")}},
		// S6c: truncated but longer than the metadata: "shard sizes do not match" (fixed)
		{Op: "read", D: 2, P: 2, Size: 9, Dmg: []ecx.Dmg{g("good"), t(20), g("good"), g("good")}},
		// found by the model: parity missing + data shard corrupted, exactly d shards left: wrong bytes returned (fixed)
		{Op: "read", D: 2, P: 1, Size: 9, Dmg: []ecx.Dmg{g("flipdata"), g("good"), g("missing")}},
		// open: pad count of the first readable shard flipped: wrong length / error within parity
		{Op: "read", D: 2, P: 1, Size: 9, Dmg: []ecx.Dmg{{K: "flippad", N: 1}, g("good"), g("good")}},
		{Op: "read", D: 2, P: 1, Size: 9, Dmg: []ecx.Dmg{{K: "flippad", N: 0x80}, g("good"), g("good")}},
		// open: every shard truncated to the same length still verifies: wrong bytes
		{Op: "read", D: 2, P: 1, Size: 4099, Dmg: []ecx.Dmg{t(17 + 2049), t(17 + 2049), t(17 + 2049)}},
	}
}

func sigRead(c ecx.Case, o ecx.Outcome) (sig, what string) {
	all, _ := ecx.Damaged(c.Dmg)
	desc := fmt.Sprintf("d=%d p=%d size=%d damage=%s: %d of %d shards damaged, GetOne -> %s %s", c.D, c.P, c.Size, dmgString(c.Dmg), all, c.N(), className(o.Class), o.Msg)
	bad := false
	switch {
	case o.Class == ecx.Panic:
		bad = true
	case all <= c.P && o.Class != ecx.OkEqual:
		bad = true
	case all > c.P && o.Class == ecx.OkDiff:
		bad = true
	}
	if !bad {
		return "", ""
	}
	switch {
	case o.Class == ecx.Panic && o.Killed:
		return "panic:reader-goroutine", desc
	case o.Class == ecx.Panic:
		return "panic:decode", desc
	case ecx.FirstReadablePadFlipped(c, c.Dmg):
		return "padflip-first-readable", desc
	case o.Class == ecx.OkDiff && o.RSVerify:
		return "excess-undetected-codeword", desc
	case all <= c.P && o.Class == ecx.Error:
		return "within-parity:error", desc
	case all <= c.P:
		return "within-parity:wrong-bytes", desc
	default:
		return "excess:wrong-bytes", desc
	}
}

func className(c int) string { return []string{"ok-equal", "ok-different", "error", "panic"}[c] }
func dmgString(gs []ecx.Dmg) string {
	s := "["
	for i, g := range gs {
		if i > 0 {
			s += " "
		}
		s += g.K
		if g.K == "trunc" || g.K == "flippad" {
			s += fmt.Sprint(g.N)
		}
	}
	return s + "]"
}

func record(res *hx.Result, c ecx.Case, o ecx.Outcome) {
	js, _ := json.Marshal(c)
	if o.Skipped {
		res.Count("skipped.short-file-after-repeated-process-death")
		return
	}
	switch c.Op {
	case "read":
		all, data := ecx.Damaged(c.Dmg)
		res.Seen(string(js), all > 0)
		res.Count(fmt.Sprintf("read.(%d,%d)", c.D, c.P))
		res.Count("read.outcome." + className(o.Class))
		switch {
		case all == 0:
			res.Count("read.damage.none")
		case all <= c.P:
			res.Count("read.damage.within-parity")
		default:
			res.Count("read.damage.excess")
		}
		if data > 0 && data < all {
			res.Count("read.damage.mixed-data+metadata")
		}
		for _, g := range c.Dmg {
			if g.K != "good" {
				res.Count("kind." + g.K)
			}
		}
		if sig, what := sigRead(c, o); sig != "" {
			res.Fail(sig, what, c)
		}
		res.AddCase(fmt.Sprintf("ReadCase %s %s %d %s %d", hx.CoqNat(c.D), hx.CoqNat(c.P), c.Size, ecx.CoqDmgs(c.Dmg, ecx.TruePad(c.D, c.Size)), o.Class), c)
		if all > 0 {
			res.Sample(map[string]any{"case": c, "outcome": className(o.Class), "msg": o.Msg})
		}
	case "write":
		nf := 0
		for _, f := range c.WFail {
			if f {
				nf++
			}
		}
		res.Seen(string(js), nf > 0)
		res.Count(fmt.Sprintf("write.(%d,%d)", c.D, c.P))
		if c.Size == 0 {
			res.Count("write.empty-blob")
		}
		desc := fmt.Sprintf("d=%d p=%d size=%d failed shard writes=%v: Add ok=%v (%s), read -> %s %s", c.D, c.P, c.Size, c.WFail, o.AddOK, o.Msg, className(o.Class), o.Msg2)
		// each clause of the write property is judged on its own (a later failure must not hide an earlier one)
		if c.Size == 0 {
			// reedsolomon.Split rejects an empty blob: Add fails before any write (guard of C25_write)
			if o.AddOK {
				res.Fail("write:empty-blob-accepted", desc, c)
			}
		} else {
			if o.AddOK != (nf <= c.P) {
				res.Fail("write:tolerance", desc, c)
			}
			if o.Class == ecx.Panic {
				res.Fail("write:panic", desc, c)
			} else if o.AddOK && o.Class != ecx.OkEqual {
				res.Fail("write:unreadable-after-success", desc, c)
			}
			for i, w := range o.Written {
				if i < len(c.WFail) && w == c.WFail[i] {
					res.Fail("write:shard-content", desc+fmt.Sprintf(" (shard %d written=%v)", i, w), c)
					break
				}
			}
		}
		res.AddCase(fmt.Sprintf("WriteCase %s %s %d %s %s %d", hx.CoqNat(c.D), hx.CoqNat(c.P), c.Size, ecx.CoqBools(c.WFail), hx.CoqBool(o.AddOK), o.Class), c)
	}
}

// ---------------------------------------------------------------- Reed–Solomon contract validation
// Symbols: 0 nil, 1 genuine, 2 altered (one byte, per-shard offset/mask), 3 truncated by one byte.

func coqSym(sym int, L int) string {
	switch sym {
	case 1:
		return "Some DGood"
	case 2:
		return "Some DBad"
	case 3:
		return fmt.Sprintf("Some (DTrunc %d)", L-1)
	}
	return "None"
}

func rsValidate(res *hx.Result, d, p, size int) {
	n := d + p
	L := (size + d - 1) / d
	enc, err := reedsolomon.New(d, p)
	if err != nil {
		return
	}
	genuine, err := enc.Split(append([]byte{}, ecx.Blob(d, p, size)...))
	if err != nil || enc.Encode(genuine) != nil {
		return
	}
	syms := []int{0, 1, 2}
	if L > 1 {
		syms = append(syms, 3)
	}
	vec := make([]int, n)
	var rec func(i int)
	build := func() [][]byte {
		sh := make([][]byte, n)
		for i, s := range vec {
			switch s {
			case 1:
				sh[i] = append([]byte{}, genuine[i]...)
			case 2:
				sh[i] = append([]byte{}, genuine[i]...)
				sh[i][ecx.FlipOffset(i, L)] ^= ecx.FlipMask(i)
			case 3:
				sh[i] = append([]byte{}, genuine[i][:L-1]...)
			}
		}
		return sh
	}
	classify := func(i int, b []byte) string {
		switch {
		case b == nil:
			return "None"
		case bytes.Equal(b, genuine[i]):
			return "Some DGood"
		case len(b) < L && bytes.Equal(b, genuine[i][:len(b)]):
			return fmt.Sprintf("Some (DTrunc %d)", len(b))
		}
		return "Some DBad"
	}
	rec = func(i int) {
		if i < n {
			for _, s := range syms {
				vec[i] = s
				rec(i + 1)
			}
			return
		}
		xs := make([]string, n)
		for j, s := range vec {
			xs[j] = coqSym(s, L)
		}
		in := map[string]any{"kind": "rs", "d": d, "p": p, "size": size, "symbols": append([]int{}, vec...)}
		ok, _ := enc.Verify(build())
		res.Seen(fmt.Sprintf("rsv:%d:%d:%d:%v", d, p, size, vec), true)
		res.Count("rs.verify")
		res.AddCase(fmt.Sprintf("RsVerifyCase %s %s %d %s %s", hx.CoqNat(d), hx.CoqNat(p), L, hx.CoqList(xs), hx.CoqBool(ok)), in)
		// Reconstruct from a set that holds an altered shard is garbage-in: the contract (rs_R2) and the repaired
		// code (checksum pass first) only ever rebuild from genuine shards, and what the garbage looks like is a
		// GF(256) coincidence (at perShard 1-2 it can even equal the genuine shard). Not compared.
		hasNil, hasAltered := false, false
		for _, s := range vec {
			hasNil = hasNil || s == 0
			hasAltered = hasAltered || s == 2
		}
		if hasNil && hasAltered {
			res.Count("rs.reconstruct.garbage-in-skipped")
			return
		}
		sh := build()
		rerr := enc.Reconstruct(sh)
		res.Count("rs.reconstruct")
		out := "None"
		if rerr == nil {
			ys := make([]string, n)
			for j := range sh {
				ys[j] = classify(j, sh[j])
			}
			out = "(Some " + hx.CoqList(ys) + ")"
		}
		res.AddCase(fmt.Sprintf("RsReconCase %s %s %d %s %s", hx.CoqNat(d), hx.CoqNat(p), L, hx.CoqList(xs), out), in)
	}
	rec(0)
}

func runC25(cfg *hx.RunCfg) (*hx.Result, error) {
	res := hx.NewResult("C25")
	res.Imports = []string{"Lib.Bytes", "EC", "Corr.C25"}
	res.CaseType = "c25case"
	res.Checker = "c25_check"
	res.Rule = "exhaustive: for each (d,p) and blob size, every assignment of a damage kind (good, missing, truncated to 0/5/17/len-1 bytes, byte flipped in data / in the md5 / in the pad count) to every shard file, on real files read through BlobStoreWithEC.GetOne in child processes; every subset of failing shard writes through Add; every symbol vector through klauspost/reedsolomon Verify/Reconstruct. distinct = distinct (geometry, size, pattern); non-trivial = at least one damaged shard / failed write"
	work := ecx.WorkRoot(cfg, "ec")
	defer os.RemoveAll(work)
	workers := runtime.NumCPU()
	if workers > 12 {
		workers = 12
	}
	if cfg.Replay != "" {
		raw, err := os.ReadFile(cfg.Replay)
		if err != nil {
			return nil, err
		}
		var rp struct {
			Input json.RawMessage `json:"input"`
		}
		if err := json.Unmarshal(raw, &rp); err != nil {
			return nil, err
		}
		var probe struct {
			Kind string `json:"kind"`
			D    int    `json:"d"`
			P    int    `json:"p"`
			Size int    `json:"size"`
		}
		json.Unmarshal(rp.Input, &probe)
		if probe.Kind == "rs" {
			rsValidate(res, probe.D, probe.P, probe.Size)
			return res, nil
		}
		var c ecx.Case
		if err := json.Unmarshal(rp.Input, &c); err != nil {
			return nil, err
		}
		outs, err := ecx.RunAll(work, []ecx.Case{c}, 1)
		if err != nil {
			return nil, err
		}
		record(res, c, outs[0])
		return res, nil
	}
	cases := corpus()
	for _, g := range geoms(cfg.Tier) {
		for _, size := range g.sizes {
			for _, pat := range ecx.Patterns(g.d+g.p, ecx.Kinds(g.d, size, g.level), -1) {
				cases = append(cases, ecx.Case{Op: "read", D: g.d, P: g.p, Size: size, Dmg: pat})
			}
		}
	}
	// writes: every subset of failing shard writes, every size incl. the empty blob
	wg := [][2]int{{1, 1}, {2, 1}, {2, 2}}
	if cfg.Tier == "thorough" {
		wg = append(wg, [2]int{3, 2}, [2]int{4, 2})
	}
	for _, g := range wg {
		n := g[0] + g[1]
		for _, size := range append([]int{0}, ecx.Sizes(g[0])...) {
			for m := 0; m < 1<<uint(n); m++ {
				wf := make([]bool, n)
				for i := range wf {
					wf[i] = m>>uint(i)&1 == 1
				}
				cases = append(cases, ecx.Case{Op: "write", D: g[0], P: g[1], Size: size, WFail: wf})
			}
		}
	}
	if cfg.N > 0 && cfg.N < len(cases) {
		cases = cases[:cfg.N]
	}
	outs, err := ecx.RunAll(work, cases, workers)
	if err != nil {
		return nil, err
	}
	for i, c := range cases {
		record(res, c, outs[i])
	}
	// the Reed–Solomon contract the model assumes, against the library itself
	for _, g := range wg {
		for _, size := range ecx.Sizes(g[0]) {
			rsValidate(res, g[0], g[1], size)
		}
	}
	res.Notes = append(res.Notes, fmt.Sprintf("%d cases executed in child processes with %d workers", len(cases), workers))
	return res, nil
}

// Package ecx is the part of the C25/C26 harnesses that touches the implementation: it puts real shard
// files of an erasure-coded blob on disk, damages them, and runs BlobStoreWithEC.GetOne / Add on them in
// child processes (a panic inside GetOne's reader goroutines cannot be recovered and kills the process).
package ecx

import (
	"bufio"
	"bytes"
	"context"
	"encoding/json"
	"errors"
	"fmt"
	"os"
	"os/exec"
	"path/filepath"
	"strconv"
	"strings"
	"sync"

	"github.com/klauspost/reedsolomon"
	"github.com/sharedcode/sop"
	"github.com/sharedcode/sop/fs"
	"github.com/sharedcode/sop/fs/erasure"

	"verif/harness/hx"
)

const Meta = erasure.MetaDataSize

// Dmg is one kind of damage applied to one shard file.
// k: good | missing | trunc (n = new file length) | flipdata | flipsum | flippad (n = xor mask on byte 0)
type Dmg struct {
	K string `json:"k"`
	N int    `json:"n,omitempty"`
}

type Case struct {
	Op    string `json:"op"` // read | repair | write
	D     int    `json:"d"`
	P     int    `json:"p"`
	Size  int    `json:"size"`
	Dmg   []Dmg  `json:"dmg,omitempty"`
	Dmg2  []Dmg  `json:"dmg2,omitempty"`
	WFail []bool `json:"wfail,omitempty"`
}

// Outcome classes.
const (
	OkEqual = 0
	OkDiff  = 1
	Error   = 2
	Panic   = 3
)

type Outcome struct {
	Class    int    `json:"class"`
	Msg      string `json:"msg,omitempty"`
	Killed   bool   `json:"killed,omitempty"` // the child process died (panic outside the caller's goroutine)
	Post     []bool `json:"post,omitempty"`   // repair: shard file i is byte-identical to a fresh encode
	Class2   int    `json:"class2,omitempty"` // repair: second read after Dmg2
	Msg2     string `json:"msg2,omitempty"`
	AddOK    bool   `json:"add_ok,omitempty"`    // write: Add returned nil
	Written  []bool `json:"written,omitempty"`   // write: shard file i exists and is byte-identical to a fresh encode
	Skipped  bool   `json:"skipped,omitempty"`   // not executed: see MaxKills
	RSVerify bool   `json:"rs_verify,omitempty"` // read: the library's Verify accepts the shard contents as found on disk
}

func (c Case) N() int { return c.D + c.P }
func (c Case) L() int {
	if c.Size == 0 {
		return 0
	}
	return (c.Size + c.D - 1) / c.D
}

// Blob is the deterministic content of the blob of a geometry: no zero bytes, so a wrong pad count always shows.
func Blob(d, p, size int) []byte {
	r := hx.NewRng(uint64(d)*1000003 + uint64(p)*1009 + uint64(size)*7 + 11)
	b := make([]byte, size)
	for i := range b {
		b[i] = byte(1 + r.Intn(255))
	}
	return b
}

// FreshFiles returns what Add writes for every shard: 17 bytes of metadata followed by the shard.
func FreshFiles(d, p int, data []byte) ([][]byte, error) {
	e, err := erasure.NewErasure(d, p)
	if err != nil {
		return nil, err
	}
	sh, err := e.Encode(data)
	if err != nil {
		return nil, err
	}
	out := make([][]byte, len(sh))
	for i := range sh {
		md := e.ComputeShardMetadata(len(data), sh, i)
		out[i] = append(append([]byte{}, md...), sh[i]...)
	}
	return out, nil
}

// FlipOffset/FlipMask: position and mask of the data flip in shard i (distinct per shard where L allows).
func FlipOffset(i, L int) int { return (3 + 5*i) % L }
func FlipMask(i int) byte     { return []byte{0x5A, 0xA7, 0x3C, 0xC9, 0x71, 0x1E, 0x8D, 0xE3}[i%8] }

// ApplyDmg changes file bytes in memory; nil result = file removed.
func ApplyDmg(f []byte, i int, g Dmg) []byte {
	if f == nil {
		return nil
	}
	switch g.K {
	case "missing":
		return nil
	case "trunc":
		if g.N < len(f) {
			return append([]byte{}, f[:g.N]...)
		}
	case "flipdata":
		if len(f) > Meta {
			o := append([]byte{}, f...)
			o[Meta+FlipOffset(i, len(f)-Meta)] ^= FlipMask(i)
			return o
		}
	case "flipsum":
		if len(f) >= Meta {
			o := append([]byte{}, f...)
			o[1+(3*i)%16] ^= 0x40
			return o
		}
	case "flippad":
		if len(f) >= 1 {
			o := append([]byte{}, f...)
			o[0] ^= byte(g.N)
			return o
		}
	}
	return f
}

type store struct {
	root   string
	table  string
	drives []string
	id     sop.UUID
}

func newStore(root string, n int) *store {
	s := &store{root: root, table: "t"}
	for i := 0; i < n; i++ {
		s.drives = append(s.drives, filepath.Join(root, fmt.Sprintf("drive%d", i)))
	}
	return s
}
func toFilePath(base string, _ sop.UUID) string { return base }
func (s *store) file(i int) string {
	return filepath.Join(s.drives[i], s.table, fmt.Sprintf("%s_%d", s.id.String(), i))
}
func (s *store) cfg(d, p int, repair bool) map[string]sop.ErasureCodingConfig {
	return map[string]sop.ErasureCodingConfig{s.table: {DataShardsCount: d, ParityShardsCount: p, BaseFolderPathsAcrossDrives: s.drives, RepairCorruptedShards: repair}}
}
func (s *store) put(i int, f []byte) error {
	fn := s.file(i)
	if f == nil {
		err := os.Remove(fn)
		if errors.Is(err, os.ErrNotExist) {
			return nil
		}
		return err
	}
	if err := os.MkdirAll(filepath.Dir(fn), 0o755); err != nil {
		return err
	}
	return os.WriteFile(fn, f, 0o644)
}
func (s *store) get(i int) []byte {
	b, err := os.ReadFile(s.file(i))
	if err != nil {
		return nil
	}
	return b
}

// failIO fails MkdirAll/WriteFile of chosen shard indices (the "_<i>" suffix of the file name).
type failIO struct {
	fs.FileIO
	fail map[int]bool
	mu   sync.Mutex
}

func (f *failIO) WriteFile(ctx context.Context, name string, data []byte, perm os.FileMode) error {
	if k := strings.LastIndexByte(name, '_'); k >= 0 {
		if i, err := strconv.Atoi(name[k+1:]); err == nil && f.fail[i] {
			return fmt.Errorf("induced write failure on shard %d", i)
		}
	}
	return f.FileIO.WriteFile(ctx, name, data, perm)
}

func read(s *store, d, p int, repair bool, want []byte) (class int, msg string) {
	defer func() {
		if r := recover(); r != nil {
			class, msg = Panic, fmt.Sprint(r)
		}
	}()
	bs, err := fs.NewBlobStoreWithEC(toFilePath, fs.NewFileIO(), s.cfg(d, p, repair))
	if err != nil {
		return Error, "constructor: " + err.Error()
	}
	got, err := bs.GetOne(context.Background(), s.table, s.id)
	if err != nil {
		return Error, err.Error()
	}
	if bytes.Equal(got, want) {
		return OkEqual, ""
	}
	return OkDiff, fmt.Sprintf("got %d bytes, want %d", len(got), len(want))
}

// libVerify: does the library's Verify accept the shard contents found on disk?
func libVerify(s *store, d, p int) (ok bool) {
	defer func() { recover() }()
	enc, err := reedsolomon.New(d, p)
	if err != nil {
		return false
	}
	sh := make([][]byte, d+p)
	for i := range sh {
		f := s.get(i)
		if len(f) <= Meta {
			return false
		}
		sh[i] = f[Meta:]
	}
	ok, _ = enc.Verify(sh)
	return ok
}

// RunCase executes one case against the real files under root. Runs inside a child process.
func RunCase(root string, c Case) Outcome {
	var o Outcome
	s := newStore(root, c.N())
	s.id = sop.UUID{0xEC, byte(c.D), byte(c.P), byte(c.Size), byte(c.Size >> 8)}
	data := Blob(c.D, c.P, c.Size)
	ctx := context.Background()
	for i := 0; i < c.N(); i++ {
		s.put(i, nil)
	}
	if c.Op == "write" {
		fio := &failIO{FileIO: fs.NewFileIO(), fail: map[int]bool{}}
		for i, f := range c.WFail {
			if f {
				fio.fail[i] = true
			}
		}
		bs, err := fs.NewBlobStoreWithEC(toFilePath, fio, s.cfg(c.D, c.P, false))
		if err != nil {
			return Outcome{Class: Error, Msg: "constructor: " + err.Error()}
		}
		func() {
			defer func() {
				if r := recover(); r != nil {
					o.Msg = "Add panicked: " + fmt.Sprint(r)
					o.Class = Panic
				}
			}()
			err = bs.Add(ctx, []sop.BlobsPayload[sop.KeyValuePair[sop.UUID, []byte]]{{BlobTable: s.table, Blobs: []sop.KeyValuePair[sop.UUID, []byte]{{Key: s.id, Value: data}}}})
			o.AddOK = err == nil
			if err != nil {
				o.Msg = err.Error()
			}
		}()
		if o.Class == Panic {
			return o
		}
		fresh, _ := FreshFiles(c.D, c.P, data)
		for i := 0; i < c.N(); i++ {
			o.Written = append(o.Written, fresh != nil && bytes.Equal(s.get(i), fresh[i]) && s.get(i) != nil)
		}
		o.Class, o.Msg2 = read(s, c.D, c.P, false, data)
		return o
	}
	fresh, err := FreshFiles(c.D, c.P, data)
	if err != nil {
		return Outcome{Class: Error, Msg: "encode: " + err.Error()}
	}
	for i := range fresh {
		if err := s.put(i, ApplyDmg(fresh[i], i, c.Dmg[i])); err != nil {
			return Outcome{Class: Error, Msg: "setup: " + err.Error()}
		}
	}
	o.RSVerify = libVerify(s, c.D, c.P)
	o.Class, o.Msg = read(s, c.D, c.P, c.Op == "repair", data)
	if c.Op == "repair" && o.Class == OkEqual {
		for i := range fresh {
			o.Post = append(o.Post, bytes.Equal(s.get(i), fresh[i]))
		}
		for i := range fresh {
			if i < len(c.Dmg2) && c.Dmg2[i].K != "good" {
				if err := s.put(i, ApplyDmg(s.get(i), i, c.Dmg2[i])); err != nil {
					return Outcome{Class: Error, Msg: "setup2: " + err.Error()}
				}
			}
		}
		o.Class2, o.Msg2 = read(s, c.D, c.P, false, data)
	}
	return o
}

// ---------------------------------------------------------------- child protocol
// child:ec <root> <casesFile(jsonl)> <outFile> <from> <to> <run-all|skip-short>
// For every case index i in [from,to): append "B i\n" then "R i <json>\n" to outFile (unbuffered writes).

func init() {
	hx.Children["ec"] = func(args []string) int {
		if len(args) != 6 {
			return 2
		}
		from, _ := strconv.Atoi(args[3])
		to, _ := strconv.Atoi(args[4])
		in, err := os.Open(args[1])
		if err != nil {
			return 2
		}
		defer in.Close()
		out, err := os.OpenFile(args[2], os.O_APPEND|os.O_CREATE|os.O_WRONLY, 0o644)
		if err != nil {
			return 2
		}
		defer out.Close()
		sc := bufio.NewScanner(in)
		sc.Buffer(make([]byte, 1<<20), 1<<24)
		for i := 0; sc.Scan(); i++ {
			if i < from {
				continue
			}
			if i >= to {
				break
			}
			var c Case
			if err := json.Unmarshal(sc.Bytes(), &c); err != nil {
				return 2
			}
			if args[5] == "skip-short" && hasShortFile(c) {
				fmt.Fprintf(out, "R %d {\"class\":3,\"skipped\":true}\n", i)
				continue
			}
			fmt.Fprintf(out, "B %d\n", i)
			o := RunCase(args[0], c)
			js, _ := json.Marshal(o)
			fmt.Fprintf(out, "R %d %s\n", i, js)
		}
		return 0
	}
}

// MaxKills bounds the number of children a worker lets die before it stops running cases with a shard file
// shorter than the metadata (each dead child costs a process start; on a repaired tree no child ever dies).
const MaxKills = 6

func hasShortFile(c Case) bool {
	for _, g := range c.Dmg {
		if g.K == "trunc" && g.N < Meta {
			return true
		}
	}
	return false
}

// RunAll executes the cases in child processes (workers in parallel, each with its own directory tree) and
// returns one outcome per case. A child that dies while running case i yields Class=Panic, Killed=true for i.
func RunAll(workRoot string, cases []Case, workers int) ([]Outcome, error) {
	if err := os.MkdirAll(workRoot, 0o755); err != nil {
		return nil, err
	}
	casesFile := filepath.Join(workRoot, "cases.jsonl")
	{
		f, err := os.Create(casesFile)
		if err != nil {
			return nil, err
		}
		w := bufio.NewWriter(f)
		for _, c := range cases {
			js, _ := json.Marshal(c)
			w.Write(js)
			w.WriteByte('\n')
		}
		w.Flush()
		f.Close()
	}
	outs := make([]Outcome, len(cases))
	if workers < 1 {
		workers = 1
	}
	if workers > len(cases) {
		workers = len(cases)
	}
	if len(cases) == 0 {
		return outs, nil
	}
	var wg sync.WaitGroup
	errs := make([]error, workers)
	chunk := (len(cases) + workers - 1) / workers
	for w := 0; w < workers; w++ {
		from, to := w*chunk, (w+1)*chunk
		if to > len(cases) {
			to = len(cases)
		}
		if from >= to {
			continue
		}
		wg.Add(1)
		go func(w, from, to int) {
			defer wg.Done()
			root := filepath.Join(workRoot, fmt.Sprintf("w%d", w))
			outFile := filepath.Join(workRoot, fmt.Sprintf("out%d.txt", w))
			os.Remove(outFile)
			next := from
			kills, stalls := 0, 0
			for next < to {
				// bound the cost of a tree on which short shard files kill the process: once that is established
				// (MaxKills dead children in this worker) the remaining cases with such a file are not run
				stop := to
				skip := "run-all"
				if kills >= MaxKills {
					skip = "skip-short"
				}
				cmd := exec.Command(os.Args[0], "child:ec", root, casesFile, outFile, strconv.Itoa(next), strconv.Itoa(stop), skip)
				var stderr bytes.Buffer
				cmd.Stderr = &stderr
				cmd.Stdout = nil
				runErr := cmd.Run()
				// parse what has been written so far: the crashed case is the last one begun and not reported
				raw, _ := os.ReadFile(outFile)
				os.Remove(outFile)
				began := -1
				reported := map[int]bool{}
				for _, line := range strings.Split(string(raw), "\n") {
					if strings.HasPrefix(line, "B ") {
						began, _ = strconv.Atoi(line[2:])
					} else if strings.HasPrefix(line, "R ") {
						rest := line[2:]
						sp := strings.IndexByte(rest, ' ')
						if sp < 0 {
							continue
						}
						i, _ := strconv.Atoi(rest[:sp])
						var o Outcome
						if json.Unmarshal([]byte(rest[sp+1:]), &o) == nil && i >= from && i < to {
							outs[i] = o
							reported[i] = true
						}
					}
				}
				if runErr == nil {
					next = stop
					continue
				}
				if began >= next && !reported[began] {
					msg := stderr.String()
					if k := strings.Index(msg, "panic:"); k >= 0 {
						msg = msg[k:]
					}
					if k := strings.Index(msg, "\n"); k >= 0 {
						msg = msg[:k]
					}
					outs[began] = Outcome{Class: Panic, Killed: true, Msg: strings.TrimSpace(msg)}
					next = began + 1
					kills++
					stalls = 0
				} else {
					for reported[next] {
						next++
					}
					stalls++
					if stalls > 3 {
						errs[w] = fmt.Errorf("child failed without a running case (began=%d next=%d): %v: %s", began, next, runErr, stderr.String())
						return
					}
				}
			}
			os.RemoveAll(root)
		}(w, from, to)
	}
	wg.Wait()
	for _, e := range errs {
		if e != nil {
			return nil, e
		}
	}
	return outs, nil
}

// ---------------------------------------------------------------- enumeration helpers

// Kinds returns the damage kinds of the enumeration for a geometry; full = all ten, otherwise a representative six.
func Kinds(d, size int, level int) []Dmg {
	L := (size + d - 1) / d
	ks := []Dmg{{K: "good"}, {K: "missing"}}
	switch level {
	case 2: // all
		ks = append(ks, Dmg{K: "trunc", N: 0}, Dmg{K: "trunc", N: 5}, Dmg{K: "trunc", N: Meta})
		if L > 1 {
			ks = append(ks, Dmg{K: "trunc", N: Meta + L - 1})
		}
		ks = append(ks, Dmg{K: "flipdata"}, Dmg{K: "flipsum"}, Dmg{K: "flippad", N: 1}, Dmg{K: "flippad", N: 0x80})
	case 1:
		ks = append(ks, Dmg{K: "trunc", N: 5})
		if L > 1 {
			ks = append(ks, Dmg{K: "trunc", N: Meta + L - 1})
		} else {
			ks = append(ks, Dmg{K: "trunc", N: Meta})
		}
		ks = append(ks, Dmg{K: "flipdata"}, Dmg{K: "flipsum"}, Dmg{K: "flippad", N: 1})
	default:
		if L > 1 {
			ks = append(ks, Dmg{K: "trunc", N: Meta + L - 1})
		} else {
			ks = append(ks, Dmg{K: "trunc", N: 5})
		}
		ks = append(ks, Dmg{K: "flipdata"}, Dmg{K: "flipsum"})
	}
	return ks
}

// Patterns enumerates every assignment of a kind to each of n shards (maxDamaged < 0: no limit on non-good entries).
func Patterns(n int, kinds []Dmg, maxDamaged int) [][]Dmg {
	var out [][]Dmg
	cur := make([]Dmg, n)
	var rec func(i, dm int)
	rec = func(i, dm int) {
		if i == n {
			out = append(out, append([]Dmg{}, cur...))
			return
		}
		for _, k := range kinds {
			nd := dm
			if k.K != "good" {
				nd++
			}
			if maxDamaged >= 0 && nd > maxDamaged {
				continue
			}
			cur[i] = k
			rec(i+1, nd)
		}
	}
	rec(0, 0)
	return out
}

func Sizes(d int) []int {
	seen := map[int]bool{}
	var out []int
	for _, s := range []int{1, d - 1, d, d + 1, 4096 + 3} {
		if s >= 1 && !seen[s] {
			seen[s] = true
			out = append(out, s)
		}
	}
	return out
}

// ---------------------------------------------------------------- Coq printing
func CoqDmg(g Dmg) string {
	switch g.K {
	case "good":
		return "KGood"
	case "missing":
		return "KMissing"
	case "trunc":
		return fmt.Sprintf("KTrunc %d", g.N)
	case "flipdata":
		return "KFlipData"
	case "flipsum":
		return "KFlipSum"
	case "flippad":
		return fmt.Sprintf("KFlipPad %d", g.N)
	}
	return "KGood"
}

// CoqDmgs prints the damage list; flippad needs the resulting pad byte, so the true pad is passed.
func CoqDmgs(gs []Dmg, truePad int) string {
	xs := make([]string, len(gs))
	for i, g := range gs {
		if g.K == "flippad" {
			xs[i] = fmt.Sprintf("KFlipPad %d", truePad^g.N)
		} else {
			xs[i] = CoqDmg(g)
		}
	}
	return hx.CoqList(xs)
}

func TruePad(d, size int) int {
	if size%d == 0 {
		return 0
	}
	return d - size%d
}

func CoqBools(bs []bool) string {
	xs := make([]string, len(bs))
	for i, b := range bs {
		xs[i] = hx.CoqBool(b)
	}
	return hx.CoqList(xs)
}

func Damaged(gs []Dmg) (all, data int) {
	for _, g := range gs {
		if g.K != "good" {
			all++
		}
		if g.K == "missing" || g.K == "trunc" || g.K == "flipdata" {
			data++
		}
	}
	return
}

// FirstReadablePadFlipped: the lowest-index shard the reader can use (file longer than the metadata) carries a flipped pad count.
func FirstReadablePadFlipped(c Case, gs []Dmg) bool {
	for _, g := range gs {
		if g.K == "missing" || (g.K == "trunc" && g.N <= Meta) {
			continue
		}
		return g.K == "flippad"
	}
	return false
}

func WorkRoot(cfg *hx.RunCfg, name string) string {
	base := os.Getenv("VERIF_WORK")
	if base == "" {
		base = cfg.Out
	}
	if base == "" {
		base = filepath.Join("/var/tmp", "C25", "adhoc")
	}
	return filepath.Join(base, name)
}

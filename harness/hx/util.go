// Package hx holds what every property harness shares: the PRNG, Coq term
// printers, the result/evidence record and the command-line entry point.
package hx

import (
	"encoding/json"
	"fmt"
	"os"
	"path/filepath"
	"sort"
	"strings"
)

// ---------------------------------------------------------------- PRNG

// Rng is splitmix64; every random choice of a run derives from one state.
type Rng struct{ s uint64 }

func NewRng(seed uint64) *Rng { return &Rng{s: seed*0x9E3779B97F4A7C15 + 0x1234567} }
func (r *Rng) U64() uint64 {
	r.s += 0x9E3779B97F4A7C15
	z := r.s
	z = (z ^ (z >> 30)) * 0xBF58476D1CE4E5B9
	z = (z ^ (z >> 27)) * 0x94D049BB133111EB
	return z ^ (z >> 31)
}
func (r *Rng) Intn(n int) int {
	if n <= 0 {
		return 0
	}
	return int(r.U64() % uint64(n))
}
func (r *Rng) Bool() bool          { return r.U64()&1 == 1 }
func (r *Rng) Chance(pct int) bool { return r.Intn(100) < pct }
func (r *Rng) Bytes(n int) []byte {
	b := make([]byte, n)
	for i := range b {
		b[i] = byte(r.U64())
	}
	return b
}
func Pick[T any](r *Rng, xs []T) T { return xs[r.Intn(len(xs))] }

// ---------------------------------------------------------------- Coq printers
// cases.v opens N_scope; Z and nat literals carry explicit scope keys.

func CoqN(v uint64) string { return fmt.Sprintf("%d", v) }
func CoqZ(v int64) string {
	if v < 0 {
		return fmt.Sprintf("(%d)%%Z", v)
	}
	return fmt.Sprintf("%d%%Z", v)
}
func CoqNat(v int) string { return fmt.Sprintf("%d%%nat", v) }
func CoqBool(b bool) string {
	if b {
		return "true"
	}
	return "false"
}
func CoqBytes(b []byte) string {
	var sb strings.Builder
	sb.WriteString("[")
	for i, x := range b {
		if i > 0 {
			sb.WriteString(";")
		}
		fmt.Fprintf(&sb, "%d", x)
	}
	sb.WriteString("]")
	return sb.String()
}
func CoqList(xs []string) string { return "[" + strings.Join(xs, "; ") + "]" }
func CoqOpt(s string, ok bool) string {
	if ok {
		return "(Some " + s + ")"
	}
	return "None"
}

// CoqString renders a Go string as a list of byte values (list N).
func CoqString(s string) string { return CoqBytes([]byte(s)) }

// ---------------------------------------------------------------- run result

// Failure is one violation of the property itself observed on the implementation.
type Failure struct {
	Signature string `json:"signature"` // canonical class, matched against KNOWN_FINDINGS.json
	What      string `json:"what"`
	Input     any    `json:"input"` // enough to replay
}

// Result is what a property runner hands back to the driver.
type Result struct {
	Property           string         `json:"property"`
	Evaluations        int            `json:"evaluations"`
	DistinctNontrivial int            `json:"distinct_nontrivial"`
	Rule               string         `json:"rule"`
	Samples            []any          `json:"samples"`
	Distribution       map[string]int `json:"distribution"`
	OracleFailures     []Failure      `json:"oracle_failures"`
	CorrCases          int            `json:"corr_cases"`  // number of cases written to cases.v
	CaseInputs         []any          `json:"case_inputs"` // per cases.v index: replayable description
	Notes              []string       `json:"notes"`
	Imports            []string       `json:"-"`
	CaseType           string         `json:"-"`
	Checker            string         `json:"-"`
	cases              []string
	distinct           map[string]bool
}

func NewResult(prop string) *Result {
	return &Result{Property: prop, Distribution: map[string]int{}, distinct: map[string]bool{}, OracleFailures: []Failure{}, Samples: []any{}, CaseInputs: []any{}, Notes: []string{}}
}
func (r *Result) Count(key string) { r.Distribution[key]++ }

// AddCase appends one correspondence case (a Coq term of type CaseType).
func (r *Result) AddCase(term string, input any) {
	r.cases = append(r.cases, term)
	r.CaseInputs = append(r.CaseInputs, input)
}

func (r *Result) NumCases() int { return len(r.cases) }

// Seen records a canonical form; nontrivial ones count toward distinct_nontrivial.
func (r *Result) Seen(canon string, nontrivial bool) {
	r.Evaluations++
	if nontrivial && !r.distinct[canon] {
		r.distinct[canon] = true
		r.DistinctNontrivial++
	}
}
func (r *Result) Fail(sig, what string, input any) {
	r.OracleFailures = append(r.OracleFailures, Failure{sig, what, input})
}
func (r *Result) Sample(x any) {
	if len(r.Samples) < 6 {
		r.Samples = append(r.Samples, x)
	}
}

// Write emits cases.v (sharded so that one coqc call stays small) and result.json.
func (r *Result) Write(outDir string, shard int) error {
	if err := os.MkdirAll(outDir, 0o755); err != nil {
		return err
	}
	old, _ := filepath.Glob(filepath.Join(outDir, "cases_*.v"))
	for _, f := range old {
		os.Remove(f)
	}
	r.CorrCases = len(r.cases)
	if shard <= 0 {
		shard = 500
	}
	for s, k := 0, 0; s < len(r.cases); s, k = s+shard, k+1 {
		e := s + shard
		if e > len(r.cases) {
			e = len(r.cases)
		}
		var sb strings.Builder
		sb.WriteString("(* written by the harness: inputs and the implementation's observed outputs *)\n")
		sb.WriteString("From Coq Require Import List ZArith NArith String.\nImport ListNotations.\n")
		for _, im := range r.Imports {
			fmt.Fprintf(&sb, "From SopVerif Require Import %s.\n", im)
		}
		sb.WriteString("Local Open Scope N_scope.\n")
		fmt.Fprintf(&sb, "Definition cases : list %s := [\n", r.CaseType)
		sb.WriteString(strings.Join(r.cases[s:e], ";\n"))
		sb.WriteString("\n].\n")
		fmt.Fprintf(&sb, "Definition M := Eval vm_compute in mismatches %s cases.\nPrint M.\n", r.Checker)
		fmt.Fprintf(&sb, "Definition BASE := %d%%nat.\n", s)
		if err := os.WriteFile(filepath.Join(outDir, fmt.Sprintf("cases_%03d.v", k)), []byte(sb.String()), 0o644); err != nil {
			return err
		}
	}
	js, err := json.MarshalIndent(r, "", " ")
	if err != nil {
		return err
	}
	return os.WriteFile(filepath.Join(outDir, "result.json"), js, 0o644)
}

func SortedKeys(m map[string]int) []string {
	var ks []string
	for k := range m {
		ks = append(ks, k)
	}
	sort.Strings(ks)
	return ks
}

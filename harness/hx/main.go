package hx

import (
	"flag"
	"fmt"
	"os"
	"strings"
)

type RunCfg struct {
	Seed   uint64
	N      int
	Out    string
	Replay string
	Tier   string
	Args   []string
}

type Runner func(cfg *RunCfg) (*Result, error)

// Children are entry points for re-executing the harness binary as a fresh OS
// process (cold-cache reads, crash children): `<binary> child:NAME args...`.
var Children = map[string]func(args []string) int{}

// Main is the entry point of a property harness binary:
//
//	<binary> -seed S -n N -out DIR [-replay FILE] [-tier quick|thorough]
//
// It writes DIR/cases_*.v (inputs + observed outputs, for evaluation by the Coq
// model) and DIR/result.json (coverage counts and oracle failures).
func Main(name string, r Runner) {
	cmd := name
	if len(os.Args) > 1 && strings.HasPrefix(os.Args[1], "child:") {
		f, ok := Children[strings.TrimPrefix(os.Args[1], "child:")]
		if !ok {
			fmt.Fprintln(os.Stderr, "unknown child", os.Args[1])
			os.Exit(2)
		}
		os.Exit(f(os.Args[2:]))
	}
	fs := flag.NewFlagSet(cmd, flag.ExitOnError)
	cfg := &RunCfg{}
	fs.Uint64Var(&cfg.Seed, "seed", 1, "PRNG seed")
	fs.IntVar(&cfg.N, "n", 0, "case budget (0 = property default for the tier)")
	fs.StringVar(&cfg.Out, "out", "", "output directory")
	fs.StringVar(&cfg.Replay, "replay", "", "replay file")
	fs.StringVar(&cfg.Tier, "tier", "quick", "quick|thorough")
	fs.Parse(os.Args[1:])
	cfg.Args = fs.Args()
	res, err := r(cfg)
	if err != nil {
		fmt.Fprintln(os.Stderr, "harness error:", err)
		os.Exit(3)
	}
	if cfg.Out != "" {
		if err := res.Write(cfg.Out, 0); err != nil {
			fmt.Fprintln(os.Stderr, "harness error:", err)
			os.Exit(3)
		}
	}
	fmt.Printf("harness %s: evaluations=%d distinct_nontrivial=%d corr_cases=%d oracle_failures=%d\n",
		cmd, res.Evaluations, res.DistinctNontrivial, res.NumCases(), len(res.OracleFailures))
}

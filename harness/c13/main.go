package main

import (
	"bytes"
	"context"
	"encoding/json"
	"fmt"
	"os"
	"os/exec"
	"path/filepath"
	"reflect"
	"strings"
	"time"
	"unicode/utf8"

	"github.com/sharedcode/sop"
	"github.com/sharedcode/sop/cache"
	"github.com/sharedcode/sop/fs"
	"github.com/sharedcode/sop/infs"

	"verif/harness/hx"
)

// C13: committing never alters or corrupts a store's configuration.
//   K1  fs.patchJSONNumericField, json.Marshal(StoreInfo), json string escaping, utf8.Valid
//   K1' StoreRepository.Update on a real folder (fast path and fallback) vs update_bytes
//   E2E stores created through infs with hostile names/descriptions/options, k commits,
//       reopened in a fresh OS process; every StoreInfo field compared (direct oracle).

func main() { hx.Main("c13", runC13) }

func init() {
	sop.RegisterL2CacheFactory(sop.InMemory, func(sop.TransactionOptions) sop.L2Cache { return cache.NewL2InMemoryCache() })
	hx.Children["reopen"] = childReopen
}

// ---------------------------------------------------------------- Coq printing

// coqStoreInfo prints a StoreInfo as the generated record, field by field in declaration
// order with the same kind mapping as tools/gen/storeinfo.go (a struct change that the
// translator does not follow makes the cases ill-typed).
func coqStruct(v reflect.Value, ctor string) string {
	var sb strings.Builder
	sb.WriteString("(" + ctor)
	for i := 0; i < v.NumField(); i++ {
		f := v.Field(i)
		sb.WriteString(" ")
		switch {
		case f.Type() == reflect.TypeOf(sop.UUID{}):
			u := f.Interface().(sop.UUID)
			sb.WriteString(hx.CoqBytes(u[:]))
		case f.Kind() == reflect.String:
			sb.WriteString(hx.CoqString(f.String()))
		case f.Kind() == reflect.Int || f.Kind() == reflect.Int64 || f.Kind() == reflect.Int32:
			sb.WriteString(hx.CoqZ(f.Int()))
		case f.Kind() == reflect.Bool:
			sb.WriteString(hx.CoqBool(f.Bool()))
		case f.Kind() == reflect.Struct:
			sb.WriteString(coqStruct(f, "mkStoreCacheConfig"))
		case f.Kind() == reflect.Slice || f.Kind() == reflect.Map:
			if f.Len() == 0 {
				sb.WriteString("[]")
			} else {
				raw, err := json.Marshal(f.Interface())
				if err != nil {
					panic(err)
				}
				sb.WriteString(hx.CoqBytes(raw))
			}
		default:
			panic("unsupported field kind " + f.Kind().String())
		}
	}
	sb.WriteString(")")
	return sb.String()
}
func coqStoreInfo(si sop.StoreInfo) string { return coqStruct(reflect.ValueOf(si), "mkStoreInfo") }

func coqOptBytes(b []byte, ok bool) string { return hx.CoqOpt(hx.CoqBytes(b), ok) }

// ---------------------------------------------------------------- generators

var hostile = []string{
	"count", "timestamp", `"count"`, `"timestamp"`, `"count":`, `"count":7`, `x"count":7,"y`, `count":`, `"count`,
	`\`, `a\`, `\"`, `\\"count\":`, `","count":99,"timestamp":1,"x":"`, `{"count":5}`, `[1,2]`, `}`, `{`, `,`, `:`, ` `,
	"\n", "\t", "a\"\\", "<&>", "\u2028", "\u2029", "\u2028count", "é", "日本", "\U0001F600", "\x7f", "\x01", "\b\f",
	"slot_length", "name", `"name":"count"`, "is_unique", "count ", " count", "Count", "counts", "\"count\" :", "timestamp\":0",
}

func genText(r *hx.Rng, max int) string {
	var sb strings.Builder
	n := 1 + r.Intn(4)
	for i := 0; i < n; i++ {
		switch r.Intn(10) {
		case 0, 1, 2, 3:
			sb.WriteString(hx.Pick(r, hostile))
		case 4:
			sb.WriteString(hx.Pick(r, []string{"s1", "store", "a", "x_y", "orders-2024", "K"}))
		case 5:
			sb.WriteRune(rune(hx.Pick(r, []int{0x22, 0x5c, 0x2c, 0x3a, 0x7b, 0x7d, 0x5b, 0x5d, 0x20, 0x09, 0x0a, 0x0d, 0x3c, 0x3e, 0x26, 0x08, 0x0c, 0x1f, 0x7f, 0x80, 0x7ff, 0x800, 0x2027, 0x2028, 0x2029, 0x202a, 0xe2, 0xfffd, 0xffff, 0x10000, 0x10ffff})))
		case 6:
			sb.WriteRune(rune(r.Intn(0x250)))
		default:
			for k := r.Intn(6); k >= 0; k-- {
				const al = "abcdefghijklmnopqrstuvwxyz0123456789_\"\\:,{}"
				sb.WriteByte(al[r.Intn(len(al))])
			}
		}
	}
	s := strings.ToValidUTF8(sb.String(), "?")
	for len(s) > max {
		_, sz := utf8.DecodeLastRuneInString(s)
		s = s[:len(s)-sz]
	}
	return s
}

// genName: any valid UTF-8 text that is a valid single folder name on Linux.
func genName(r *hx.Rng) string {
	for {
		s := genText(r, 80)
		s = strings.NewReplacer("/", "_", "\x00", "_").Replace(s)
		if s == "" || s == "." || s == ".." {
			continue
		}
		return s
	}
}

var edgeI64 = []int64{0, 1, -1, 7, 9, 10, 99, 100, 12345, 1790036301493, 1<<63 - 1, -1 << 63, 1 << 32, -(1 << 40)}

func genI64(r *hx.Rng) int64 {
	if r.Chance(60) {
		return hx.Pick(r, edgeI64)
	}
	return int64(r.U64()) >> uint(r.Intn(64))
}

func genCustom(r *hx.Rng) map[string]any {
	if r.Chance(55) {
		return nil
	}
	m := map[string]any{}
	for i := r.Intn(3); i >= 0; i-- {
		k := hx.Pick(r, []string{"count", "timestamp", "k", `"count":`, "a\"b", "nested"})
		switch r.Intn(4) {
		case 0:
			m[k] = float64(r.Intn(1000))
		case 1:
			m[k] = genText(r, 20)
		case 2:
			m[k] = map[string]any{"count": float64(r.Intn(9)), "timestamp": "x"}
		default:
			m[k] = []any{float64(1), "count", true}
		}
	}
	return m
}

func genStoreInfo(r *hx.Rng) sop.StoreInfo {
	si := sop.StoreInfo{
		Name: genName(r), SlotLength: int(genI64(r) % 20001), IsUnique: r.Bool(), Description: genText(r, 200),
		RegistryTable: genText(r, 60), BlobTable: genText(r, 60), Count: genI64(r), CountDelta: genI64(r) % 1000, Timestamp: genI64(r),
		IsValueDataInNodeSegment: r.Bool(), IsValueDataActivelyPersisted: r.Bool(), IsValueDataGloballyCached: r.Bool(), LeafLoadBalancing: r.Bool(),
		IsPrimitiveKey: r.Bool(), NeedsMetaDataSave: r.Chance(20),
		CacheConfig: sop.StoreCacheConfig{RegistryCacheDuration: time.Duration(genI64(r)), IsRegistryCacheTTL: r.Bool(), NodeCacheDuration: time.Duration(genI64(r)),
			IsNodeCacheTTL: r.Bool(), ValueDataCacheDuration: time.Duration(genI64(r)), IsValueDataCacheTTL: r.Bool(), StoreInfoCacheDuration: time.Duration(genI64(r)), IsStoreInfoCacheTTL: r.Bool()},
	}
	copy(si.RootNodeID[:], r.Bytes(16))
	if r.Chance(20) {
		si.RootNodeID = sop.NilUUID
	}
	if r.Chance(40) {
		si.MapKeyIndexSpecification = genText(r, 40)
	}
	if r.Chance(40) {
		si.CELexpression = genText(r, 40)
	}
	if r.Chance(70) {
		si.Version = hx.Pick(r, []string{"2.3.3", "count", `"count":1`})
	}
	if r.Chance(40) {
		si.Relations = []sop.Relation{{SourceFields: []string{"count", genText(r, 10)}, TargetStore: genName(r), TargetFields: []string{"timestamp"}}}
	}
	if r.Chance(40) {
		si.Schema = map[string]string{"count": "number", genText(r, 8): "string"}
	}
	if r.Chance(40) {
		si.KeyFields = []string{"count", "timestamp"}
	}
	if r.Chance(40) {
		si.ValueFields = []string{genText(r, 10)}
	}
	si.CustomData = genCustom(r)
	return si
}

// ---------------------------------------------------------------- inputs (replayable)

type storeSpec struct {
	Name, Description        string
	SlotLength               int
	IsUnique, InNode, Active bool
	Global, LeafLB           bool
	CacheMinutes             int
	CustomData               map[string]any
	Relations                []sop.Relation
}

type c13Input struct {
	Kind    string         `json:"kind"`
	Data    []byte         `json:"data,omitempty"`
	Field   string         `json:"field,omitempty"`
	Value   int64          `json:"value,omitempty"`
	Text    []byte         `json:"text,omitempty"`
	Info    *sop.StoreInfo `json:"info,omitempty"`
	Extra   map[string]int64 `json:"extra,omitempty"` // json:"-" fields of Info
	Store   *storeSpec     `json:"store,omitempty"`
	Commits []int          `json:"commits,omitempty"` // e2e: items added (+) / removed (-) per commit
	Steps   []repoStep     `json:"steps,omitempty"`   // repo: Update calls
}

type repoStep struct {
	Delta     int64  `json:"delta"`
	Timestamp int64  `json:"ts"`
	NeedsSave bool   `json:"needs_save"`
	Damage    string `json:"damage,omitempty"` // how the file is altered before this step (forces the fallback)
}

// ---------------------------------------------------------------- K1 cases

func c13Patch(res *hx.Result, data []byte, field string, v int64) {
	in := c13Input{Kind: "patch", Data: data, Field: field, Value: v}
	out, err := func() (o []byte, e error) {
		defer func() {
			if p := recover(); p != nil {
				e = fmt.Errorf("panic: %v", p)
			}
		}()
		return fs.VerifPatchJSONNumericField(data, field, v)
	}()
	res.Seen("patch:"+field+":"+string(data)+fmt.Sprint(v), len(data) > 2)
	if err != nil {
		res.Count("patch.error")
	} else {
		res.Count("patch.ok")
	}
	res.AddCase(fmt.Sprintf("PatchCase %s %s %s %s", hx.CoqBytes(data), hx.CoqString(field), hx.CoqZ(v), coqOptBytes(out, err == nil)), in)
}

// configJSON is the canonical form of everything but count and timestamp.
func configJSON(si sop.StoreInfo) string {
	si.Count, si.Timestamp, si.CountDelta, si.NeedsMetaDataSave = 0, 0, 0, false
	b, _ := json.Marshal(si)
	return string(b)
}

func mentions(si sop.StoreInfo) string {
	for _, w := range []string{"count", "timestamp"} {
		if si.Name == w || si.Description == w || si.RegistryTable == w || si.BlobTable == w {
			return "equals-field-name"
		}
	}
	for _, w := range []string{"count", "timestamp"} {
		if strings.Contains(si.Name+si.Description+si.RegistryTable+si.BlobTable, w) {
			return "mentions-field-name"
		}
	}
	return "plain"
}

// c13Ser: json.Marshal(StoreInfo) vs ser; then the patch of count and timestamp on those bytes
// (direct oracle: re-parsing gives the same configuration with the new numbers).
func c13Ser(res *hx.Result, si sop.StoreInfo, c, t int64) {
	in := c13Input{Kind: "ser", Info: &si, Value: c, Extra: map[string]int64{"ts": t, "delta": si.CountDelta}}
	if si.NeedsMetaDataSave {
		in.Extra["needs"] = 1
	}
	b, err := json.Marshal(si)
	if err != nil {
		res.Notes = append(res.Notes, "marshal failed: "+err.Error())
		return
	}
	res.Seen("ser:"+string(b), true)
	res.Count("ser." + mentions(si))
	res.AddCase(fmt.Sprintf("SerCase %s %s", coqStoreInfo(si), hx.CoqBytes(b)), in)
	p1, e1 := fs.VerifPatchJSONNumericField(b, fs.VerifFieldCount, c)
	res.AddCase(fmt.Sprintf("PatchCase %s %s %s %s", hx.CoqBytes(b), hx.CoqString(fs.VerifFieldCount), hx.CoqZ(c), coqOptBytes(p1, e1 == nil)), in)
	var p2 []byte
	var e2 error
	if e1 == nil {
		p2, e2 = fs.VerifPatchJSONNumericField(p1, fs.VerifFieldTimestamp, t)
		res.AddCase(fmt.Sprintf("PatchCase %s %s %s %s", hx.CoqBytes(p1), hx.CoqString(fs.VerifFieldTimestamp), hx.CoqZ(t), coqOptBytes(p2, e2 == nil)), in)
	}
	// direct oracle
	if e1 != nil || e2 != nil {
		// an error is safe (the caller falls back to a full re-marshal) but on Marshal output it must not happen
		res.Fail("patch-refuses-marshal-output", fmt.Sprintf("patch of a freshly marshalled StoreInfo %q failed: %v %v", si.Name, e1, e2), in)
		return
	}
	var back sop.StoreInfo
	if err := json.Unmarshal(p2, &back); err != nil {
		res.Fail(sigFor(si, "patch-corrupts-json"), fmt.Sprintf("store %q: patched storeinfo no longer parses: %v", si.Name, err), in)
		return
	}
	var orig sop.StoreInfo
	json.Unmarshal(b, &orig)
	if configJSON(back) != configJSON(orig) || back.Count != c || back.Timestamp != t {
		res.Fail(sigFor(si, "patch-alters-config"), fmt.Sprintf("store %q description %q: after patching count=%d timestamp=%d the record reads count=%d timestamp=%d slot_length=%d (was %d), config changed=%v",
			si.Name, si.Description, c, t, back.Count, back.Timestamp, back.SlotLength, orig.SlotLength, configJSON(back) != configJSON(orig)), in)
	}
}

// sigFor gives the failure class: the S4 pattern (a string VALUE in front of the real member
// equals a patched member name) gets its own signature; anything else is a different violation.
func sigFor(si sop.StoreInfo, base string) string {
	if mentions(si) == "equals-field-name" {
		return "S4-string-value-equals-field-name"
	}
	return base
}

func c13Str(res *hx.Result, s string) {
	b, _ := json.Marshal(s)
	res.Seen("str:"+s, len(s) > 0)
	res.Count("str")
	res.AddCase(fmt.Sprintf("StrCase %s %s", hx.CoqString(s), hx.CoqBytes(b)), c13Input{Kind: "str", Text: []byte(s)})
}

func c13Utf8(res *hx.Result, b []byte) {
	res.Seen(fmt.Sprintf("utf8:%x", b), len(b) > 0)
	res.Count("utf8")
	res.AddCase(fmt.Sprintf("Utf8Case %s %s", hx.CoqBytes(b), hx.CoqBool(utf8.Valid(b))), c13Input{Kind: "utf8", Text: b})
}

// ---------------------------------------------------------------- StoreRepository.Update on a real folder

func workDir(tag string) string {
	base := os.Getenv("VERIF_WORK")
	if base == "" {
		base = os.TempDir()
	}
	d, err := os.MkdirTemp(base, tag)
	if err != nil {
		panic(err)
	}
	return d
}

func c13Repo(res *hx.Result, si sop.StoreInfo, steps []repoStep) {
	in := c13Input{Kind: "repo", Info: &si, Steps: steps}
	ctx := context.Background()
	dir := workDir("repo")
	defer os.RemoveAll(dir)
	l2 := cache.NewL2InMemoryCache()
	rt, err := fs.NewReplicationTracker(ctx, []string{dir}, false, l2)
	if err != nil {
		panic(err)
	}
	sr, err := fs.NewStoreRepository(ctx, rt, nil, l2, 0)
	if err != nil {
		panic(err)
	}
	si.CountDelta, si.NeedsMetaDataSave = 0, false
	si.CacheConfig.StoreInfoCacheDuration = 10 * time.Minute // GetWithTTL is always served from the cache
	if err := sr.Add(ctx, si); err != nil {
		res.Notes = append(res.Notes, fmt.Sprintf("repo Add(%q) failed: %v", si.Name, err))
		res.Count("repo.add_error")
		return
	}
	path := filepath.Join(dir, si.Name, fs.StoreInfoFilename)
	file, _ := os.ReadFile(path)
	want, _ := json.Marshal(si)
	if !bytes.Equal(file, want) {
		res.Fail("add-writes-other-bytes", fmt.Sprintf("store %q: Add wrote %q", si.Name, file), in)
	}
	res.Seen("repo:"+string(want)+fmt.Sprint(steps), true)
	count := si.Count
	for _, st := range steps {
		switch st.Damage {
		case "drop-count":
			file = bytes.Replace(file, []byte(`"count":`), []byte(`"kount":`), 1)
			os.WriteFile(path, file, 0o644)
		case "truncate":
			file = file[:len(file)/2]
			os.WriteFile(path, file, 0o644)
		case "spaces":
			var v map[string]json.RawMessage
			if json.Unmarshal(file, &v) == nil {
				if ind, err := json.MarshalIndent(json.RawMessage(file), "", "  "); err == nil {
					file = ind
					os.WriteFile(path, file, 0o644)
				}
			}
		}
		caller := si
		caller.Count, caller.CountDelta, caller.Timestamp, caller.NeedsMetaDataSave = 12345, st.Delta, st.Timestamp, st.NeedsSave
		cur := sop.StoreInfo{Name: si.Name, Count: count}
		arg := []sop.StoreInfo{caller}
		if _, err := sr.Update(ctx, arg); err != nil {
			res.Notes = append(res.Notes, fmt.Sprintf("repo Update(%q) failed: %v", si.Name, err))
			res.Count("repo.update_error")
			return
		}
		after, _ := os.ReadFile(path)
		res.Count("repo.update." + map[bool]string{true: "needs_save", false: "fast"}[st.NeedsSave] + map[bool]string{true: ".damaged", false: ""}[st.Damage != ""])
		res.AddCase(fmt.Sprintf("UpdCase %s %s %s %s", hx.CoqBytes(file), coqStoreInfo(cur), coqStoreInfo(caller), hx.CoqBytes(after)), in)
		count += st.Delta
		// direct oracle: the file parses to the same configuration with the new count and timestamp
		var back sop.StoreInfo
		if err := json.Unmarshal(after, &back); err != nil && (st.Damage == "truncate" || st.Damage == "drop-count") {
			return // the harness broke the file itself; only the correspondence case applies
		}
		if err := json.Unmarshal(after, &back); err != nil {
			res.Fail(sigFor(si, "update-corrupts-json"), fmt.Sprintf("store %q: storeinfo.txt no longer parses after Update: %v", si.Name, err), in)
			return
		}
		var orig sop.StoreInfo
		json.Unmarshal(want, &orig)
		if configJSON(back) != configJSON(orig) || back.Count != count || back.Timestamp != st.Timestamp {
			res.Fail(sigFor(si, "update-alters-config"), fmt.Sprintf("store %q description %q: after Update(delta=%d, ts=%d) storeinfo.txt has count=%d (want %d) timestamp=%d slot_length=%d (created with %d)",
				si.Name, si.Description, st.Delta, st.Timestamp, back.Count, count, back.Timestamp, back.SlotLength, orig.SlotLength), in)
			return
		}
		file = after
	}
}

// ---------------------------------------------------------------- end to end through infs

func (s storeSpec) options() sop.StoreOptions {
	so := sop.StoreOptions{Name: s.Name, Description: s.Description, SlotLength: s.SlotLength, IsUnique: s.IsUnique,
		IsValueDataInNodeSegment: s.InNode, IsValueDataActivelyPersisted: s.Active, IsValueDataGloballyCached: s.Global,
		LeafLoadBalancing: s.LeafLB, CustomData: s.CustomData, Relations: s.Relations}
	if s.CacheMinutes > 0 {
		so.CacheConfig = sop.NewStoreCacheConfig(time.Duration(s.CacheMinutes)*time.Minute, s.CacheMinutes%2 == 0)
	}
	return so
}

func genSpec(r *hx.Rng) storeSpec {
	s := storeSpec{Name: genName(r), Description: genText(r, 120), SlotLength: hx.Pick(r, []int{2, 4, 8, 8, 10, 50, 100, 2000, 7, 0}),
		IsUnique: r.Bool(), InNode: r.Bool(), Active: r.Chance(30), Global: r.Chance(30), LeafLB: r.Chance(30), CustomData: genCustom(r)}
	if r.Chance(40) {
		s.CacheMinutes = 5 + r.Intn(30)
	}
	if r.Chance(25) {
		s.Relations = []sop.Relation{{SourceFields: []string{"count"}, TargetStore: "timestamp", TargetFields: []string{"count"}}}
	}
	return s
}

func childReopen(args []string) int {
	// args: dir name -> prints {"repo":<StoreInfo via OpenBtree>, "file":<raw storeinfo.txt parsed>}
	ctx := context.Background()
	dir, name := args[0], args[1]
	t, err := infs.NewTransaction(ctx, sop.TransactionOptions{StoresFolders: []string{dir}, Mode: sop.ForReading, MaxTime: -1, CacheType: sop.InMemory})
	if err != nil {
		fmt.Println(`{"error":"` + err.Error() + `"}`)
		return 0
	}
	if err := t.Begin(ctx); err != nil {
		fmt.Println(`{"error":"begin"}`)
		return 0
	}
	out := map[string]any{}
	b3, err := infs.OpenBtree[int, string](ctx, name, t, nil)
	if err != nil {
		out["error"] = "open: " + err.Error()
	} else {
		out["repo"] = b3.GetStoreInfo()
		n := 0
		if ok, _ := b3.First(ctx); ok {
			for {
				n++
				if ok, _ := b3.Next(ctx); !ok {
					break
				}
			}
		}
		out["items"] = n
	}
	t.Commit(ctx)
	js, _ := json.Marshal(out)
	fmt.Println(string(js))
	return 0
}

func c13E2E(res *hx.Result, spec storeSpec, commits []int) {
	in := c13Input{Kind: "e2e", Store: &spec, Commits: commits}
	ctx := context.Background()
	dir := workDir("e2e")
	defer os.RemoveAll(dir)
	opts := sop.TransactionOptions{StoresFolders: []string{dir}, Mode: sop.ForWriting, MaxTime: -1, CacheType: sop.InMemory}
	path := filepath.Join(dir, spec.Name, fs.StoreInfoFilename)
	var created sop.StoreInfo
	next, items := 0, 0
	res.Seen(fmt.Sprintf("e2e:%+v:%v", spec, commits), true)
	for k, n := range commits {
		before, _ := os.ReadFile(path)
		t, err := infs.NewTransaction(ctx, opts)
		if err != nil {
			panic(err)
		}
		if err := t.Begin(ctx); err != nil {
			panic(err)
		}
		b3, err := infs.NewBtree[int, string](ctx, spec.options(), t, nil)
		if err != nil {
			t.Rollback(ctx)
			if k > 0 {
				res.Fail(sigForSpec(spec, "reopen-fails"), fmt.Sprintf("store %q: opening the store again for commit %d failed: %v", spec.Name, k, err), in)
				return
			}
			res.Notes = append(res.Notes, fmt.Sprintf("e2e NewBtree(%q) failed: %v", spec.Name, err))
			res.Count("e2e.create_error")
			return
		}
		if n >= 0 {
			for i := 0; i < n; i++ {
				b3.Add(ctx, next, "v")
				next++
				items++
			}
		} else {
			for i := 0; i < -n && items > 0; i++ {
				if ok, _ := b3.First(ctx); ok {
					if ok, _ := b3.RemoveCurrentItem(ctx); ok {
						items--
					}
				}
			}
		}
		items = int(b3.Count()) // what this transaction itself sees; item bookkeeping of removals is C06/C17 territory
		if err := t.Commit(ctx); err != nil {
			res.Notes = append(res.Notes, fmt.Sprintf("e2e Commit(%q) failed: %v", spec.Name, err))
			res.Count("e2e.commit_error")
			return
		}
		after, _ := os.ReadFile(path)
		if k == 0 {
			created = b3.GetStoreInfo()
			// the created record reflects the options
			if created.Name != spec.Name || created.Description != spec.Description || created.IsUnique != spec.IsUnique {
				res.Fail("create-ignores-options", fmt.Sprintf("created %+v from %+v", created, spec), in)
			}
		} else if len(before) > 0 {
			// correspondence: this commit's Update, replayed by the model on the bytes found before it
			var cur, aft sop.StoreInfo
			if json.Unmarshal(before, &cur) == nil && json.Unmarshal(after, &aft) == nil {
				caller := created
				caller.CountDelta, caller.Timestamp = aft.Count-cur.Count, aft.Timestamp
				res.AddCase(fmt.Sprintf("UpdCase %s %s %s %s", hx.CoqBytes(before), coqStoreInfo(sop.StoreInfo{Name: cur.Name, Count: cur.Count}), coqStoreInfo(caller), hx.CoqBytes(after)), in)
			}
		}
		res.Count("e2e.commit")
	}
	// reopen in a fresh OS process
	cmd := exec.Command(os.Args[0], "child:reopen", dir, spec.Name)
	outb, err := cmd.Output()
	if err != nil {
		res.Notes = append(res.Notes, "reopen child failed: "+err.Error())
		return
	}
	var got struct {
		Error string         `json:"error"`
		Repo  *sop.StoreInfo `json:"repo"`
		Items int            `json:"items"`
	}
	if err := json.Unmarshal(bytes.TrimSpace(outb), &got); err != nil || got.Repo == nil {
		res.Fail(sigForSpec(spec, "reopen-fails"), fmt.Sprintf("store %q: reopen in a fresh process failed: %s %v", spec.Name, got.Error, err), in)
		return
	}
	res.Count("e2e.reopen." + mentions(sop.StoreInfo{Name: spec.Name, Description: spec.Description, RegistryTable: spec.Name, BlobTable: spec.Name}))
	var want sop.StoreInfo
	cj, _ := json.Marshal(created)
	json.Unmarshal(cj, &want) // same JSON normalisation of custom data as the reopened record
	if got.Items != items {
		// not a C13 matter (the stored count and the stored items agree or the oracle below fails): recorded for the owners of C01/C06
		res.Notes = append(res.Notes, fmt.Sprintf("store %q (%+v) commits %v: last transaction saw %d items before commit, a fresh process scans %d", spec.Name, spec, commits, items, got.Items))
		res.Count("e2e.items_differ_from_last_transaction_view")
	}
	if configJSON(*got.Repo) != configJSON(want) || got.Repo.Count != int64(got.Items) {
		res.Fail(sigForSpec(spec, "reopen-differs"), fmt.Sprintf("store %q description %q after %d commits: reopened slot_length=%d count=%d items=%d; created slot_length=%d, expected count=%d; config equal=%v",
			spec.Name, spec.Description, len(commits), got.Repo.SlotLength, got.Repo.Count, got.Items, created.SlotLength, got.Items, configJSON(*got.Repo) == configJSON(want)), in)
	}
	res.Sample(map[string]any{"kind": "e2e", "name": spec.Name, "description": spec.Description, "commits": commits, "reopened_count": got.Repo.Count})
}

func sigForSpec(s storeSpec, base string) string {
	return sigFor(sop.StoreInfo{Name: s.Name, Description: s.Description, RegistryTable: s.Name, BlobTable: s.Name}, base)
}

// ---------------------------------------------------------------- hand-made JSON for the patcher

func genJSONDoc(r *hx.Rng) []byte {
	f := hx.Pick(r, []string{"count", "timestamp"})
	docs := []string{
		`{"count":1}`, `{"count" : 1 , "timestamp":2}`, `{"a":"count","count":5}`, `{"a":{"count":1},"count":2}`, `{"a":[{"count":1}],"count":2,"timestamp":3}`,
		`{"a":"\"count\":9","count":2}`, `{"a":"x\\","count":2}`, `{"count":"str"}`, `{"count":}`, `{"count"`, `{"count":`, `{"count":1`, `count`, ``, `{}`, `"count":1`,
		`[{"count":1}]`, `{"a":"count"}`, `{"a":"count" }`, `{"a":"count":3}`, `{"x":"\`, `{"x":"abc`, `{"x":"a\"`, `{ "count"` + "\n\t:\r 12 }", `{"count":-5,"timestamp":-9223372036854775808}`,
		`{"Count":1,"count":2}`, `{"count":1,"count":2}`, `{"timestamp":1,"count":2}`, `{"a":"}","count":2}`, `{"a":"{","count":2}`, `{"a":"[","count":2}`, `}{"count":1}`, `{{"count":1}}`, `{"a":]"count":1}`,
		`{"count":1.5e3}`, `{"count":null}`, `{"count":[1,2]}`, `{"count":{"a":1}}`, `{"\u0063ount":1,"count":2}`,
	}
	d := hx.Pick(r, docs)
	if r.Chance(30) {
		d = strings.Replace(d, "count", f, -1)
	}
	b := []byte(d)
	if r.Chance(25) && len(b) > 0 { // byte-level damage
		switch r.Intn(3) {
		case 0:
			b = b[:r.Intn(len(b))]
		case 1:
			b[r.Intn(len(b))] = "\"\\:,{}[] c"[r.Intn(10)]
		default:
			i := r.Intn(len(b))
			b = append(b[:i:i], append([]byte{"\"\\:,{}[] c"[r.Intn(10)]}, b[i:]...)...)
		}
	}
	return b
}

// ---------------------------------------------------------------- run

// corpus: runs first on every run, includes the S4 inputs (kept forever).
func corpus(res *hx.Result) {
	base := sop.StoreInfo{Name: "count", SlotLength: 8, Description: "d", RegistryTable: "count", BlobTable: "count", Count: 3, Timestamp: 1790036301493, Version: "2.3.3"}
	c13Ser(res, base, 6, 1790036301495)
	ts := base
	ts.Name, ts.RegistryTable, ts.BlobTable = "timestamp", "timestamp", "timestamp"
	c13Ser(res, ts, 6, 1790036301495)
	d := base
	d.Name, d.RegistryTable, d.BlobTable, d.Description = "s1", "s1", "s1", "count"
	c13Ser(res, d, 6, 1790036301495)
	q := d
	q.Description = `he said "count": 5, "timestamp": 6 \`
	c13Ser(res, q, 7, 8)
	c13Repo(res, base, []repoStep{{Delta: 3, Timestamp: 1790036301495}, {Delta: 3, Timestamp: 1790036301508}})
	c13E2E(res, storeSpec{Name: "count", Description: "d", SlotLength: 8}, []int{3, 3, 3})
	c13E2E(res, storeSpec{Name: "s1", Description: "timestamp", SlotLength: 8}, []int{3, 3})
	c13E2E(res, storeSpec{Name: "s2", Description: `"count":1,"timestamp":2`, SlotLength: 8, CustomData: map[string]any{"count": float64(4)}}, []int{3, -1, 2})
}

func runC13(cfg *hx.RunCfg) (*hx.Result, error) {
	res := hx.NewResult("C13")
	res.Imports = []string{"Lib.Bytes", "StoreInfoPatchLib", "Gen.StoreInfoFields", "StoreInfoPatch", "Corr.C13"}
	res.CaseType = "c13case"
	res.Checker = "c13_check"
	res.Rule = "corpus (S4 inputs) then seeded generation: StoreInfo records whose name/description/table names are built from fragments mentioning the patched member names, quotes, backslashes, JSON punctuation, control and multi-byte characters (valid UTF-8, valid folder names), all option flags, relations/schema/custom data; hand-made and damaged JSON documents for the patcher; StoreRepository.Update programs on a real folder incl. forced fallback; end-to-end infs stores with k commits reopened in a fresh process. distinct = distinct serialised input; non-trivial = non-empty document / string"
	if cfg.Replay != "" {
		raw, err := os.ReadFile(cfg.Replay)
		if err != nil {
			return nil, err
		}
		var rp struct {
			Input c13Input `json:"input"`
		}
		if err := json.Unmarshal(raw, &rp); err != nil {
			return nil, err
		}
		in := rp.Input
		switch in.Kind {
		case "patch":
			c13Patch(res, in.Data, in.Field, in.Value)
		case "ser":
			in.Info.CountDelta, in.Info.NeedsMetaDataSave = in.Extra["delta"], in.Extra["needs"] == 1
			c13Ser(res, *in.Info, in.Value, in.Extra["ts"])
		case "str":
			c13Str(res, string(in.Text))
		case "utf8":
			c13Utf8(res, in.Text)
		case "repo":
			c13Repo(res, *in.Info, in.Steps)
		case "e2e":
			c13E2E(res, *in.Store, in.Commits)
		}
		return res, nil
	}
	nK1, nRepo, nE2E := 700, 60, 24
	if cfg.Tier == "thorough" {
		nK1, nRepo, nE2E = 8000, 600, 200
	}
	if cfg.N > 0 {
		nK1, nRepo, nE2E = cfg.N, cfg.N/10, cfg.N/30
	}
	r := hx.NewRng(cfg.Seed)
	corpus(res)
	for _, h := range hostile {
		c13Str(res, h)
	}
	for i := 0; i < nK1; i++ {
		switch k := r.Intn(10); {
		case k < 4:
			c13Ser(res, genStoreInfo(r), genI64(r), genI64(r))
		case k < 7:
			c13Patch(res, genJSONDoc(r), hx.Pick(r, []string{"count", "timestamp", "a", ""}), genI64(r))
		case k < 9:
			c13Str(res, genText(r, 60))
		default:
			b := []byte(genText(r, 12))
			if r.Chance(60) && len(b) > 0 {
				b[r.Intn(len(b))] = byte(hx.Pick(r, []int{0x80, 0xbf, 0xc0, 0xc2, 0xe0, 0xed, 0xa0, 0xf0, 0xf4, 0x90, 0xf5, 0xff}))
			}
			c13Utf8(res, b)
		}
	}
	damages := []string{"", "", "", "drop-count", "truncate", "spaces"}
	for i := 0; i < nRepo; i++ {
		si := genStoreInfo(r)
		si.CELexpression = ""
		si.Count /= 4 // the running count stays inside int64 (wrap-around is outside the model, see cfg assumptions)
		var steps []repoStep
		for k := 1 + r.Intn(4); k > 0; k-- {
			steps = append(steps, repoStep{Delta: int64(r.Intn(2000)) - 500, Timestamp: genI64(r), NeedsSave: r.Chance(15), Damage: hx.Pick(r, damages)})
		}
		c13Repo(res, si, steps)
	}
	for i := 0; i < nE2E; i++ {
		var commits []int
		for k := 2 + r.Intn(3); k > 0; k-- {
			commits = append(commits, r.Intn(6)-1)
		}
		commits[0] = 1 + r.Intn(4)
		c13E2E(res, genSpec(r), commits)
	}
	return res, nil
}

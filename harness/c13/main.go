package main

import (
	"context"
	"encoding/json"
	"fmt"
	"os"
	"path/filepath"

	"github.com/sharedcode/sop"
	"github.com/sharedcode/sop/cache"
	"github.com/sharedcode/sop/common"
	"github.com/sharedcode/sop/infs"
)

func init() {
	sop.RegisterL2CacheFactory(sop.InMemory, func(sop.TransactionOptions) sop.L2Cache { return cache.NewL2InMemoryCache() })
}

func main() {
	ctx := context.Background()
	dir, _ := os.MkdirTemp("/var/tmp/C13", "probe")
	defer os.RemoveAll(dir)
	name := os.Args[1]
	opts := sop.TransactionOptions{StoresFolders: []string{dir}, Mode: sop.ForWriting, MaxTime: -1, CacheType: sop.InMemory}
	for k := 0; k < 3; k++ {
		t, err := infs.NewTransaction(ctx, opts)
		if err != nil {
			panic(err)
		}
		if err := t.Begin(ctx); err != nil {
			panic(err)
		}
		b3, err := infs.NewBtree[int, string](ctx, sop.StoreOptions{Name: name, SlotLength: 8, Description: "d"}, t, nil)
		if err != nil {
			panic(err)
		}
		for i := 0; i < 3; i++ {
			b3.Add(ctx, k*10+i, "v")
		}
		if err := t.Commit(ctx); err != nil {
			panic(err)
		}
		ba, _ := os.ReadFile(filepath.Join(dir, name, "storeinfo.txt"))
		fmt.Println(string(ba))
		_ = common.Transaction{}
		_ = json.Marshal
	}
}

package main

import (
	"fmt"
	"os"
	"sort"

	"github.com/sharedcode/sop"

	"verif/harness/sopx"
)

// RunRec is everything recorded of one Input: the phases' events renumbered into one sequence.
type RunRec struct {
	Events  []*sopx.Event
	Snaps   map[int]Snap // by (renumbered) event seq
	Marks   []EnvMark    // AfterSeq renumbered
	Order   []int        // completion order over the renumbered events; -(k+1) = Marks[k]
	Writers map[string]*Writer
	Results map[string]string
	Init    []sopx.H // registry of the store before the first phase
	InitBl  []int    // blob ids present before the first phase
	Final   []sopx.H
	FinalBl []int
	PLogs   int
	Canon   *sopx.Canon
}

func readState(folder string, c *sopx.Canon) ([]sopx.H, []int, int, error) {
	raw, err := sopx.ReadRaw(folder)
	if err != nil {
		return nil, nil, 0, err
	}
	rs := raw.Stores[storeName]
	if rs == nil {
		return nil, nil, 0, fmt.Errorf("store folder missing")
	}
	hs := append([]sop.Handle(nil), rs.Handles...)
	sort.Slice(hs, func(i, j int) bool { return hs[i].LogicalID.Compare(hs[j].LogicalID) < 0 })
	var out []sopx.H
	for _, h := range hs {
		out = append(out, c.Handle(storeName, h))
	}
	bl := append([]sop.UUID(nil), rs.Blobs...)
	sort.Slice(bl, func(i, j int) bool { return bl[i].Compare(bl[j]) < 0 })
	var ids []int
	for _, b := range bl {
		ids = append(ids, c.ID(b))
	}
	return out, ids, len(raw.PLogs), nil
}

func execute(scratch string, k int, in *Input) (*RunRec, error) {
	folder := fmt.Sprintf("%s/db%d", scratch, k)
	os.RemoveAll(folder)
	if err := setupStore(folder, in.Slot, in.Init); err != nil {
		return nil, fmt.Errorf("setup: %v", err)
	}
	run := &RunRec{Snaps: map[int]Snap{}, Results: map[string]string{}, Writers: map[string]*Writer{}}
	canon := sopx.NewCanon()
	var err error
	if run.Init, run.InitBl, _, err = readState(folder, canon); err != nil {
		return nil, err
	}
	ids := canon.Export()
	clock := 0
	for pi := range in.Phases {
		ph := &in.Phases[pi]
		var out *PhaseOut
		// every phase is its own OS process: fresh L1/L2 caches, natural crash injection
		ph.Child = true
		out, err = runChildPhase(scratch, folder, ph, ids, clock)
		if err != nil {
			return nil, err
		}
		if out.Fatal != "" {
			return nil, fmt.Errorf("phase %d: %s", pi, out.Fatal)
		}
		base := len(run.Events)
		for _, ev := range out.Events {
			old := ev.Seq
			ev.Seq = base + old
			run.Events = append(run.Events, ev)
		}
		for _, sn := range out.Snaps {
			sn.Seq += base
			run.Snaps[sn.Seq] = sn
		}
		mbase := len(run.Marks)
		for _, m := range out.Marks {
			m.AfterSeq += base
			run.Marks = append(run.Marks, m)
		}
		for _, o := range out.Order {
			if o >= 0 {
				run.Order = append(run.Order, o+base)
			} else {
				run.Order = append(run.Order, o-mbase)
			}
		}
		// the in-memory lock table died with the process
		run.Marks = append(run.Marks, EnvMark{AfterSeq: len(run.Events), Kind: "process-end"})
		run.Order = append(run.Order, -len(run.Marks))
		for wi := range ph.Writers {
			run.Writers[ph.Writers[wi].Label] = &ph.Writers[wi]
		}
		for l, r := range out.Results {
			run.Results[l] = r
		}
		ids = out.CanonIDs
		clock = out.ClockMin
	}
	setClock(0)
	run.Canon = sopx.ImportCanon(ids)
	if run.Final, run.FinalBl, run.PLogs, err = readState(folder, run.Canon); err != nil {
		return nil, err
	}
	return run, nil
}

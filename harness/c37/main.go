package main

import (
	"encoding/json"
	"fmt"
	"os"

	"verif/harness/hx"
	"verif/harness/sopx"
)

func main() { hx.Main("c37", runC37) }

func evLine(ev *sopx.Event) string {
	s := fmt.Sprintf("%3d %-6s %s", ev.Seq, ev.Txn, ev.Key())
	if ev.Bool != nil {
		s += fmt.Sprintf(" ok=%v", *ev.Bool)
	}
	if ev.Step != 0 {
		s += fmt.Sprintf(" step=%d", ev.Step)
	}
	if len(ev.IDs) > 0 {
		s += fmt.Sprintf(" ids=%v", ev.IDs)
	}
	for _, h := range ev.Handles {
		s += fmt.Sprintf(" {l%d a%d b%d B%v v%d w%d d%v}", h.Lid, h.A, h.B, h.ActiveB, h.Ver, h.Wip, h.Deleted)
	}
	if len(ev.Names) > 0 && ev.Iface == "l2" {
		s += fmt.Sprintf(" keys=%d", len(ev.Names))
	}
	if ev.Err != "" {
		e := ev.Err
		if len(e) > 80 {
			e = e[:80]
		}
		s += " ERR=" + e
	}
	return s
}

func runC37(cfg *hx.RunCfg) (*hx.Result, error) {
	res := hx.NewResult("C37")
	res.Imports = []string{"Lib.Bytes", "Proto", "HandleProto", "Corr.C37"}
	res.CaseType = "c37case"
	res.Checker = "c37_check"
	res.Rule = "a run is non-trivial when at least two commit attempts locked a common node; distinct = distinct (scenario kind, projected observation sequence)"
	scratch := fmt.Sprintf("/var/tmp/C37/run-%d-%d", os.Getpid(), cfg.Seed)
	os.MkdirAll(scratch, 0o755)
	defer os.RemoveAll(scratch)

	debug := len(cfg.Args) > 0 && cfg.Args[0] == "dbg"
	var inputs []Input
	if cfg.Replay != "" {
		b, err := os.ReadFile(cfg.Replay)
		if err != nil {
			return nil, err
		}
		var rp struct {
			Input Input `json:"input"`
		}
		if err := json.Unmarshal(b, &rp); err != nil {
			return nil, err
		}
		inputs = []Input{rp.Input}
	} else {
		inputs = append(inputs, corpus()...)
		inputs = append(inputs, generate(cfg)...)
	}
	for k := range inputs {
		in := &inputs[k]
		run, err := execute(scratch, k, in)
		if err != nil {
			return nil, fmt.Errorf("%s: %v", in.Name, err)
		}
		if debug {
			fmt.Println("=====", in.Name, run.Results)
			for _, ev := range run.Events {
				fmt.Println(evLine(ev))
			}
			for _, m := range run.Marks {
				fmt.Println("  mark", m)
			}
		}
		evaluate(res, in, run, debug)
	}
	return res, nil
}

package main

import (
	"fmt"

	"verif/harness/hx"
)

func seqKeys(a, b int) []int {
	var o []int
	for k := a; k <= b; k++ {
		o = append(o, k)
	}
	return o
}

// corpus: deterministic scenarios run first on every run; one per finding.
func corpus() []Input {
	return []Input{
		{Kind: "corpus", Name: "solo-update", Slot: 4, Init: seqKeys(1, 3),
			Phases: []Phase{{Writers: []Writer{{Label: "A", Ops: []Op{{"upd", 1}}}}, Schedule: []string{"A*"}}}},
		{Kind: "corpus", Name: "two-updaters-serial-commits", Slot: 4, Init: seqKeys(1, 3),
			Phases: []Phase{{Writers: []Writer{{Label: "A", Ops: []Op{{"upd", 1}}}, {Label: "B", Ops: []Op{{"upd", 2}}}}, Schedule: []string{"A*", "B*"}}}},
		{Kind: "corpus", Name: "second-locks-while-first-holds", Slot: 4, Init: seqKeys(1, 3),
			Phases: []Phase{{Writers: []Writer{{Label: "A", Ops: []Op{{"upd", 1}}}, {Label: "B", Ops: []Op{{"upd", 2}}}},
				Schedule: []string{"A@plog.Add", "B#6", "A*", "B*"}}}},
		{Kind: "corpus", Name: "claim-conflict-after-unlock-race", Slot: 4, Init: seqKeys(1, 3),
			Phases: []Phase{{Writers: []Writer{{Label: "A", Ops: []Op{{"upd", 1}}}, {Label: "B", Ops: []Op{{"add", 4}}}},
				Schedule: []string{"B@l2.Lock", "A*", "B*"}}}},
		{Kind: "corpus", Name: "crash-before-flip-then-updater", Slot: 4, Init: seqKeys(1, 3),
			Phases: []Phase{
				{Writers: []Writer{{Label: "A", Ops: []Op{{"upd", 1}}}}, Schedule: []string{"A!tlog.Add:step11"}},
				{Writers: []Writer{{Label: "B", Ops: []Op{{"upd", 2}}, MaxTimeMs: 250}}, Schedule: []string{"B*", "prio"}}}},
		{Kind: "corpus", Name: "crash-torn-flip-then-priority-rollback", Slot: 2, Init: seqKeys(1, 7),
			Phases: []Phase{
				{Writers: []Writer{{Label: "A", Ops: []Op{{"upd", 1}, {"upd", 7}}}}, Schedule: []string{"A!plog.Remove"}},
				{Writers: nil, Schedule: []string{"prio"}}}},
		// the last lock check finds the locks gone and somebody else holding them: re-lock fails, rollback() undoes the claim
		{Kind: "corpus", Name: "relock-fails-rollback-undoes-claim", Slot: 4, Init: seqKeys(1, 3),
			Phases: []Phase{{Writers: []Writer{{Label: "A", Ops: []Op{{"upd", 1}}, MaxTimeMs: 150}, {Label: "B", Ops: []Op{{"upd", 2}}}},
				Schedule: []string{"A@plog.Add", "sleep:400", "B@tlog.Add:step5", "A*", "B*"}}}},
		// ---- findings
		{Kind: "corpus", Name: "lock-expiry-two-successors", Slot: 4, Init: seqKeys(1, 3), Expect: "two-successors-of-one-version:lock-expired-mid-commit",
			Phases: []Phase{{Writers: []Writer{{Label: "A", Ops: []Op{{"upd", 1}}, MaxTimeMs: 150}, {Label: "B", Ops: []Op{{"upd", 2}}}},
				Schedule: []string{"A@tlog.Add:step11", "sleep:400", "clock:+120", "B*", "A*"}}}},
		{Kind: "corpus", Name: "stale-priority-log-restored-over-successor", Slot: 4, Init: seqKeys(1, 3), Expect: "active-blob-missing:priority-rollback-over-later-successor",
			Phases: []Phase{
				{Writers: []Writer{{Label: "A", Ops: []Op{{"upd", 1}}}}, Schedule: []string{"A!tlog.Add:step11"}},
				{Writers: []Writer{{Label: "B", Ops: []Op{{"upd", 2}}}}, Schedule: []string{"clock:+120", "B*", "prio"}}}},
		{Kind: "corpus", Name: "removal-over-dead-claim-then-priority-rollback", Slot: 2, Init: seqKeys(1, 7), Expect: "priority-rollback-panics:logged-node-no-longer-registered",
			Phases: []Phase{
				{Writers: []Writer{{Label: "A", Ops: []Op{{"upd", 1}}}}, Schedule: []string{"A!tlog.Add:step11"}},
				{Writers: []Writer{{Label: "B", Ops: []Op{{"rem", 1}, {"rem", 2}}, MaxTimeMs: 600}}, Schedule: []string{"B*", "prio"}}}},
	}
}

var crashSpecs = []string{"reg.UpdateNoLocks:false", "blob.Add", "tlog.Add:step7", "plog.Add", "tlog.Add:step11", "reg.UpdateNoLocks:true", "plog.Remove", "l2.Unlock", "blob.Remove", "reg.Remove"}

// writer w of nw takes keys congruent to w modulo nw (mostly): different items, shared nodes
func genOps(r *hx.Rng, n int, structural bool, w, nw int) []Op {
	var ops []Op
	k := 1 + r.Intn(2)
	used := map[int]bool{}
	for tries := 0; len(ops) < k && tries < 50; tries++ {
		key := 1 + r.Intn(n)
		if key%nw != w && r.Chance(90) {
			continue
		}
		if used[key] {
			continue
		}
		used[key] = true
		kind := "upd"
		if structural && r.Chance(25) {
			kind = "rem"
		} else if structural && r.Chance(15) {
			kind = "add"
			key = n + 1 + r.Intn(4)
		}
		ops = append(ops, Op{kind, key})
	}
	return ops
}

// generate: random schedules / unscheduled races / crash-and-recover runs over writers that share nodes
// (slot length 2-4, 3-9 keys: the root and the leaves are common to all writers).
func generate(cfg *hx.RunCfg) []Input {
	r := hx.NewRng(cfg.Seed)
	n := cfg.N
	if n == 0 {
		n = 22
		if cfg.Tier == "thorough" {
			n = 600
		}
	}
	labels := []string{"A", "B", "C"}
	var out []Input
	for i := 0; i < n; i++ {
		slot := 2 + 2*r.Intn(2)
		nk := 3 + r.Intn(7)
		if slot == 4 && r.Chance(50) {
			nk = 3 // a single node: every writer updates the root
		}
		structural := r.Chance(30)
		in := Input{Slot: slot, Init: seqKeys(1, nk), Seed: cfg.Seed}
		nw := 2 + r.Intn(2)
		var ws []Writer
		for w := 0; w < nw; w++ {
			ws = append(ws, Writer{Label: labels[w], Ops: genOps(r, nk, structural, w, nw)})
		}
		switch c := r.Intn(10); {
		case c < 5:
			in.Kind = "sched"
			var sch []string
			for k := 0; k < 4+r.Intn(10); k++ {
				sch = append(sch, fmt.Sprintf("%s#%d", labels[r.Intn(nw)], 1+r.Intn(9)))
			}
			in.Phases = []Phase{{Writers: ws, Schedule: sch}}
		case c < 7:
			in.Kind = "stress"
			in.Phases = []Phase{{Writers: ws, Free: true}}
		default:
			in.Kind = "crash"
			var sch []string
			if nw > 2 || r.Chance(50) {
				sch = append(sch, fmt.Sprintf("B#%d", 1+r.Intn(12)))
			}
			sch = append(sch, "A!"+hx.Pick(r, crashSpecs))
			p2 := Phase{Writers: []Writer{{Label: "D", Ops: genOps(r, nk, false, 0, 1), MaxTimeMs: 500}}}
			switch r.Intn(3) {
			case 0:
				p2.Schedule = []string{"prio", "D*"}
			case 1:
				p2.Schedule = []string{"D*", "prio"}
			default:
				p2.Schedule = []string{"D*"}
			}
			in.Phases = []Phase{{Writers: ws, Schedule: sch}, p2}
		}
		in.Name = fmt.Sprintf("%s-%d-%d", in.Kind, cfg.Seed, i)
		out = append(out, in)
	}
	return out
}

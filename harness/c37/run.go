package main

import (
	"context"
	"encoding/json"
	"fmt"
	"os"
	"os/exec"
	"sort"
	"strings"
	"sync"
	"time"

	"github.com/sharedcode/sop"
	"github.com/sharedcode/sop/common"

	"verif/harness/hx"
	"verif/harness/sopx"
)

// ---------------------------------------------------------------- replayable input

// Op is one B-tree call of a writer.
type Op struct {
	Kind string `json:"k"` // add | upd | rem
	Key  int    `json:"key"`
}

// Writer is one transaction: its own goroutine, its own store handle.
type Writer struct {
	Label     string `json:"label"`
	Ops       []Op   `json:"ops"`
	MaxTimeMs int    `json:"max_time_ms,omitempty"` // 0 = 20 s
}

// Phase is one OS process worth of work on the database folder. The in-memory L2 cache (and with it every
// node lock) lives and dies with the process.
//
// Schedule entries (L = writer label):
//
//	"L@spec"     run L until it is parked in front of its next call matching spec (iface.Method, optionally
//	             ":true"/":false" for the bool argument of UpdateNoLocks, ":stepN" for a tlog.Add of commit step N)
//	"L#n"        let L perform n more gated calls
//	"L*"         run L until its Commit has returned
//	"sleep:MS"   real sleep (lets lock TTLs of tiny maxTime expire; locks use time.Now)
//	"clock:+MIN" move sop.Now forward by MIN minutes from here on (the one-hour expiry of handle timestamps uses sop.Now)
//	"prio"       run the priority-rollback sweep exactly as a restarted process does (onIdle with the start-up flag)
//	"L!spec"     run L to spec as with @, then kill the process (os.Exit): only in a child phase
//
// When the schedule is exhausted every gate opens.
type Phase struct {
	Child    bool     `json:"child,omitempty"`
	Writers  []Writer `json:"writers"`
	Schedule []string `json:"schedule"`
	Free     bool     `json:"free,omitempty"` // no gating: the goroutines race
}

// Input is one replayable run.
type Input struct {
	Kind   string  `json:"kind"` // corpus | sched | stress | crash
	Name   string  `json:"name"`
	Slot   int     `json:"slot"`
	Init   []int   `json:"init"` // keys inserted (in this order) by one set-up transaction
	Phases []Phase `json:"phases"`
	Expect string  `json:"expect,omitempty"` // corpus: the oracle signature this scenario must produce ("" = none)
	Seed   uint64  `json:"seed,omitempty"`
}

// ---------------------------------------------------------------- recorded data

// Snap is the classification of a writer's nodes (VerifClassify), canonicalised, taken when a node-key lock call returned.
type Snap struct {
	Seq     int      `json:"seq"`     // the event it belongs to
	Updated [][2]int `json:"updated"` // lid, version read
	Removed [][2]int `json:"removed"`
}

// EnvMark is something the scheduler did between calls.
type EnvMark struct {
	AfterSeq int    `json:"after_seq"` // number of events recorded when it happened
	Kind     string `json:"kind"`      // expire-locks | clock | crash
	Label    string `json:"label,omitempty"`
}

// PhaseOut is what one phase recorded.
type PhaseOut struct {
	Events   []*sopx.Event     `json:"events"`
	Snaps    []Snap            `json:"snaps"`
	Marks    []EnvMark         `json:"marks"`
	Order    []int             `json:"order"`   // completion order: seq >= 0 an event that returned, -(k+1) = Marks[k]
	Results  map[string]string `json:"results"` // label -> "" (committed) | error text | "crashed" | "unfinished"
	CanonIDs []string          `json:"canon_ids"`
	Crashed  bool              `json:"crashed,omitempty"`
	ClockMin int               `json:"clock_min"`
	Fatal    string            `json:"fatal,omitempty"`
}

const storeName = "c37"

// ---------------------------------------------------------------- scheduler

type ticket struct {
	ev      *sopx.Event
	release chan struct{}
}

type wstate struct {
	w        *Writer
	gateMu   sync.Mutex
	parked   chan *ticket
	done     chan struct{}
	pending  *ticket
	finished bool
	inCommit bool
	two      *common.Transaction
}

type runner struct {
	env     *sopx.Env
	ws      map[string]*wstate
	freeCh  chan struct{}
	callMu  sync.Mutex   // see serialize
	held    map[int]bool // events that hold callMu
	once    sync.Once
	mu      sync.Mutex
	out     *PhaseOut
	child   bool
	partial string
}

func (r *runner) isFree() bool {
	select {
	case <-r.freeCh:
		return true
	default:
		return false
	}
}

func matches(ev *sopx.Event, spec string) bool {
	parts := strings.Split(spec, ":")
	if ev.Key() != parts[0] {
		return false
	}
	for _, q := range parts[1:] {
		switch {
		case q == "true":
			if ev.Bool == nil || !*ev.Bool {
				return false
			}
		case q == "false":
			if ev.Bool == nil || *ev.Bool {
				return false
			}
		case strings.HasPrefix(q, "step"):
			var n int
			fmt.Sscanf(q, "step%d", &n)
			if ev.Step != n {
				return false
			}
		}
	}
	return true
}

func nodeKeys(names []string) bool {
	if len(names) == 0 {
		return false
	}
	for _, n := range names {
		if !strings.HasPrefix(n, "lock:") {
			return false
		}
		if _, err := sop.ParseUUID(strings.TrimPrefix(n, "lock:")); err != nil {
			return false
		}
	}
	return true
}

// serialize: while the goroutines race freely, every recorded storage call runs under one mutex from its start to
// the moment it is appended to the order (after): the recorded order is then the order of the calls' effects, which
// is what the trace checker needs; the interleaving BETWEEN calls stays arbitrary. (Gated phases need nothing: one
// writer runs at a time.) The inner registry/blob store use the undecorated cache, so recorded calls never nest.
func (r *runner) serialize(ev *sopx.Event) {
	r.callMu.Lock()
	r.mu.Lock()
	r.held[ev.Seq] = true
	r.mu.Unlock()
}

func (r *runner) before(ev *sopx.Event) sopx.Action {
	ws := r.ws[ev.Txn]
	if ws == nil || !ws.inCommit {
		return sopx.Proceed
	}
	if r.isFree() {
		r.serialize(ev)
		return sopx.Proceed
	}
	ws.gateMu.Lock()
	defer ws.gateMu.Unlock()
	if r.isFree() {
		r.serialize(ev)
		return sopx.Proceed
	}
	t := &ticket{ev: ev, release: make(chan struct{})}
	select {
	case ws.parked <- t:
	case <-r.freeCh:
		r.serialize(ev)
		return sopx.Proceed
	}
	select {
	case <-t.release:
	case <-r.freeCh:
		r.serialize(ev)
	}
	return sopx.Proceed
}

func (r *runner) after(ev *sopx.Event) {
	r.mu.Lock()
	r.out.Order = append(r.out.Order, ev.Seq)
	held := r.held[ev.Seq]
	delete(r.held, ev.Seq)
	r.mu.Unlock()
	if held {
		defer r.callMu.Unlock()
	}
	ws := r.ws[ev.Txn]
	if ws == nil || ws.two == nil || ev.Iface != "l2" || (ev.Method != "Lock" && ev.Method != "DualLock") || !nodeKeys(ev.Names) {
		return
	}
	vs := ws.two.VerifClassify()
	sn := Snap{Seq: ev.Seq}
	c := r.env.Rec.Canon
	for _, n := range vs.Updated {
		sn.Updated = append(sn.Updated, [2]int{c.ID(n.ID), int(n.Version)})
	}
	for _, n := range vs.Removed {
		sn.Removed = append(sn.Removed, [2]int{c.ID(n.ID), int(n.Version)})
	}
	r.mu.Lock()
	r.out.Snaps = append(r.out.Snaps, sn)
	r.mu.Unlock()
}

// wait until label is parked or finished; returns the ticket (nil when finished)
func (r *runner) wait(ws *wstate) *ticket {
	if ws.pending != nil {
		return ws.pending
	}
	if ws.finished {
		return nil
	}
	select {
	case t := <-ws.parked:
		ws.pending = t
		return t
	case <-ws.done:
		ws.finished = true
		return nil
	case <-time.After(30 * time.Second):
		return nil
	}
}

func (r *runner) release(ws *wstate) {
	if ws.pending != nil {
		close(ws.pending.release)
		ws.pending = nil
	}
}

func (r *runner) mark(kind, label string) {
	r.mu.Lock()
	r.out.Marks = append(r.out.Marks, EnvMark{AfterSeq: len(r.env.Rec.Snapshot()), Kind: kind, Label: label})
	r.out.Order = append(r.out.Order, -len(r.out.Marks))
	r.mu.Unlock()
}

var clockOffset time.Duration

func setClock(min int) {
	clockOffset = time.Duration(min) * time.Minute
	sop.Now = func() time.Time { return time.Now().Add(clockOffset) }
}

func (r *runner) runTo(ws *wstate, spec string) bool {
	// bounded: a writer that spins on a lock another (parked) writer holds never gets to spec
	fails := 0
	for {
		t := r.wait(ws)
		if t == nil {
			return false
		}
		if matches(t.ev, spec) {
			return true
		}
		if t.ev.Key() == "l2.Unlock" {
			fails++
			if fails > 12 {
				return false
			}
		}
		r.release(ws)
	}
}

func (r *runner) exitCrashed(label string) {
	r.mark("crash", label)
	r.out.Crashed = true
	r.out.Events = r.env.Rec.Snapshot()
	r.out.CanonIDs = r.env.Rec.Canon.Export()
	for l, ws := range r.ws {
		if _, ok := r.out.Results[l]; !ok {
			if ws.finished {
				continue
			}
			r.out.Results[l] = "crashed"
		}
	}
	b, _ := json.Marshal(r.out)
	os.WriteFile(r.partial, b, 0o644)
	os.Exit(77)
}

// prioSweep runs the priority rollback of every priority log, the way the first transaction of a restarted
// standalone process does (onIdle with the start-up flag set; the public Begin never gets there because no B-tree
// is open yet: known finding of C09).
func (r *runner) prioSweep(ctx context.Context) (err error) {
	defer func() {
		if p := recover(); p != nil {
			r.mu.Lock()
			r.out.Results["agent"] = fmt.Sprintf("panic: %v", p)
			r.mu.Unlock()
			err = nil
		}
	}()
	t, err := r.env.NewTxn(ctx, sop.ForWriting, 20*time.Second, "agent", false)
	if err != nil {
		return err
	}
	if err := t.Begin(ctx); err != nil {
		return err
	}
	if _, err := t.OpenStore(ctx, storeName); err != nil {
		return err
	}
	g := common.VerifGetMaint()
	g.OnStartUpFlag = true
	common.VerifSetMaint(g)
	t.Two.VerifOnIdle(ctx)
	return t.Rollback(ctx)
}

func runPhase(folder string, ph *Phase, canon []string, clockMin int, partial string) *PhaseOut {
	out := &PhaseOut{Results: map[string]string{}, ClockMin: clockMin}
	ctx := context.Background()
	e, err := sopx.NewEnv(folder, 2)
	if err != nil {
		out.Fatal = err.Error()
		return out
	}
	if len(canon) > 0 {
		e.Rec.Canon = sopx.ImportCanon(canon)
	}
	setClock(clockMin)
	// never let the maintenance of a Begin interfere
	g := common.VerifGetMaint()
	g.OnStartUpFlag = false
	g.LastPriorityOnIdleTime = sop.Now().Add(24 * time.Hour).UnixMilli()
	g.LastOnIdleRunTime = sop.Now().Add(24 * time.Hour).UnixMilli()
	common.VerifSetMaint(g)
	for _, k := range []string{"l2.SetStruct", "l2.GetStruct", "l2.GetStructEx", "l2.Delete", "sr", "blob.GetOne", "reg.Replicate"} {
		e.Rec.Mute[k] = true
	}
	r := &runner{env: e, ws: map[string]*wstate{}, held: map[int]bool{}, freeCh: make(chan struct{}), out: out, child: ph.Child, partial: partial}
	if ph.Free {
		r.once.Do(func() { close(r.freeCh) })
	}
	e.Rec.Before = r.before
	e.Rec.After = r.after
	e.Rec.Arm()
	var wg sync.WaitGroup
	var resMu sync.Mutex
	for i := range ph.Writers {
		w := &ph.Writers[i]
		ws := &wstate{w: w, parked: make(chan *ticket), done: make(chan struct{})}
		r.ws[w.Label] = ws
	}
	for i := range ph.Writers {
		w := &ph.Writers[i]
		ws := r.ws[w.Label]
		mt := time.Duration(w.MaxTimeMs) * time.Millisecond
		if mt == 0 {
			mt = 20 * time.Second
		}
		// the operations run before any gate: sequentially, writer by writer, so that every writer starts from the same committed state
		t, err := e.NewTxn(ctx, sop.ForWriting, mt, w.Label, false)
		if err != nil {
			out.Fatal = err.Error()
			return out
		}
		ws.two = t.Two
		if err := t.Begin(ctx); err != nil {
			out.Fatal = err.Error()
			return out
		}
		b, err := t.OpenStore(ctx, storeName)
		if err != nil {
			out.Fatal = "open: " + err.Error()
			return out
		}
		for _, op := range w.Ops {
			var err error
			switch op.Kind {
			case "add":
				_, err = b.Add(ctx, op.Key, fmt.Sprintf("%s-%d", w.Label, op.Key))
			case "upd":
				_, err = b.Update(ctx, op.Key, fmt.Sprintf("%s-%d", w.Label, op.Key))
			case "rem":
				_, err = b.Remove(ctx, op.Key)
			}
			if err != nil {
				// an operation that cannot read its nodes is an observation, not a harness failure
				out.Results[w.Label] = fmt.Sprintf("op-error: %v %v", op, err)
				break
			}
		}
		if _, bad := out.Results[w.Label]; bad {
			close(ws.done)
			continue
		}
		wg.Add(1)
		go func() {
			defer wg.Done()
			defer close(ws.done)
			ws.inCommit = true
			err := t.Commit(ctx)
			resMu.Lock()
			if err != nil {
				out.Results[w.Label] = "error: " + err.Error()
			} else {
				out.Results[w.Label] = ""
			}
			resMu.Unlock()
		}()
	}
	for _, d := range ph.Schedule {
		switch {
		case strings.HasPrefix(d, "sleep:"):
			var ms int
			fmt.Sscanf(d, "sleep:%d", &ms)
			time.Sleep(time.Duration(ms) * time.Millisecond)
			r.mark("sleep", fmt.Sprint(ms))
		case strings.HasPrefix(d, "clock:+"):
			var m int
			fmt.Sscanf(d, "clock:+%d", &m)
			out.ClockMin += m
			setClock(out.ClockMin)
			r.mark("clock", "")
		case d == "prio":
			r.mark("prio-begin", "")
			if err := r.prioSweep(ctx); err != nil {
				out.Fatal = "prio: " + err.Error()
			}
			r.mark("prio-end", "")
		case strings.Contains(d, "!"):
			p := strings.SplitN(d, "!", 2)
			ws := r.ws[p[0]]
			if ws != nil && r.runTo(ws, p[1]) && r.child {
				r.exitCrashed(p[0])
			}
		case strings.Contains(d, "@"):
			p := strings.SplitN(d, "@", 2)
			if ws := r.ws[p[0]]; ws != nil {
				r.runTo(ws, p[1])
			}
		case strings.Contains(d, "#"):
			p := strings.SplitN(d, "#", 2)
			var n int
			fmt.Sscanf(p[1], "%d", &n)
			if ws := r.ws[p[0]]; ws != nil {
				for k := 0; k < n; k++ {
					if r.wait(ws) == nil {
						break
					}
					r.release(ws)
				}
				r.wait(ws)
			}
		case strings.HasSuffix(d, "*"):
			if ws := r.ws[strings.TrimSuffix(d, "*")]; ws != nil {
				for r.wait(ws) != nil {
					r.release(ws)
				}
			}
		}
	}
	r.once.Do(func() { close(r.freeCh) })
	for _, ws := range r.ws {
		r.release(ws)
	}
	fin := make(chan struct{})
	go func() { wg.Wait(); close(fin) }()
	select {
	case <-fin:
	case <-time.After(60 * time.Second):
		for l := range r.ws {
			resMu.Lock()
			if _, ok := out.Results[l]; !ok {
				out.Results[l] = "unfinished"
			}
			resMu.Unlock()
		}
	}
	e.Rec.Disarm()
	out.Events = e.Rec.Snapshot()
	out.CanonIDs = e.Rec.Canon.Export()
	sort.Slice(out.Snaps, func(i, j int) bool { return out.Snaps[i].Seq < out.Snaps[j].Seq })
	return out
}

// ---------------------------------------------------------------- child entry point

type childIn struct {
	Folder   string   `json:"folder"`
	Phase    Phase    `json:"phase"`
	Canon    []string `json:"canon"`
	ClockMin int      `json:"clock_min"`
}

func childPhase(args []string) int {
	var in childIn
	raw, err := os.ReadFile(args[0])
	if err == nil {
		err = json.Unmarshal(raw, &in)
	}
	if err != nil {
		fmt.Fprintln(os.Stderr, "input:", err)
		return 2
	}
	out := runPhase(in.Folder, &in.Phase, in.Canon, in.ClockMin, args[0]+".partial")
	b, _ := json.Marshal(out)
	os.Stdout.Write(b)
	return 0
}

func init() { hx.Children["c37phase"] = childPhase }

func runChildPhase(scratch, folder string, ph *Phase, canon []string, clockMin int) (*PhaseOut, error) {
	f, err := os.CreateTemp(scratch, "phase-*.json")
	if err != nil {
		return nil, err
	}
	b, _ := json.Marshal(childIn{Folder: folder, Phase: *ph, Canon: canon, ClockMin: clockMin})
	f.Write(b)
	f.Close()
	defer os.Remove(f.Name())
	defer os.Remove(f.Name() + ".partial")
	cmd := exec.Command(os.Args[0], "child:c37phase", f.Name())
	var stderr strings.Builder
	cmd.Stderr = &stderr
	outb, err := cmd.Output()
	out := &PhaseOut{}
	if ee, ok := err.(*exec.ExitError); ok && ee.ExitCode() == 77 {
		pb, perr := os.ReadFile(f.Name() + ".partial")
		if perr != nil {
			return nil, perr
		}
		if err := json.Unmarshal(pb, out); err != nil {
			return nil, err
		}
		return out, nil
	}
	if err != nil {
		s := stderr.String()
		if len(s) > 1500 {
			s = s[:700] + " … " + s[len(s)-700:]
		}
		return nil, fmt.Errorf("phase child: %v: %s", err, s)
	}
	if err := json.Unmarshal(outb, out); err != nil {
		return nil, fmt.Errorf("phase child output: %v", err)
	}
	return out, nil
}

// setup creates the store and inserts the initial keys in one transaction (plain, unrecorded), in a child process
// so that the L1 cache of the measuring process starts cold.
func setupStore(folder string, slot int, keys []int) error {
	ctx := context.Background()
	e, err := sopx.NewEnv(folder, 2)
	if err != nil {
		return err
	}
	t, err := e.NewTxn(ctx, sop.ForWriting, 20*time.Second, "setup", true)
	if err != nil {
		return err
	}
	if err := t.Begin(ctx); err != nil {
		return err
	}
	b, err := t.NewStore(ctx, sopx.StoreOpts{Name: storeName, Slot: slot, Unique: true, InNode: true})
	if err != nil {
		return err
	}
	for _, k := range keys {
		if _, err := b.Add(ctx, k, fmt.Sprintf("init-%d", k)); err != nil {
			return err
		}
	}
	return t.Commit(ctx)
}

package main

import (
	"fmt"
	"sort"
	"strconv"
	"strings"

	"github.com/sharedcode/sop"

	"verif/harness/hx"
	"verif/harness/sopx"
)

func parseUUID(s string) (sop.UUID, error) { return sop.ParseUUID(s) }

// An attempt is one pass of the phase-1 loop of a writer that got its node locks: one transaction of the model.
type attempt struct {
	idx     int
	label   string
	upd     [][3]int // lid, version read, physical id allocated (filled in from the recorded claim)
	rem     [][2]int
	stage   int // see st* below
	locked  bool
	hasPlog bool
	// rollback collection
	rbBlobs []int
	rbH     []sopx.H
	claimedOK, markedOK bool
	sawClaimGet         *sopx.Event
	sawMarkGet          *sopx.Event
	relocked            bool
	pendingCheck        bool
	step12              bool
	saw5, saw7, needsFlush bool
	checked             bool
}

const (
	stLocked = iota
	stClaimed
	stStaged
	stMarked
	stLogged
	stFlipped
	stPlogRm
	stUnlocked
	stCleanedBlobs
	stDone
	stRolling
	stAborted
	stCrashed
)

type builder struct {
	run      *RunRec
	atts     []*attempt
	cur      map[string]*attempt // label -> current attempt
	tidLabel map[int]string
	obs      []string
	regTrack map[int]sopx.H // harness-side mirror of the registry (for ageing and lock bookkeeping)
	aged     map[int]bool
	locks    map[int]int // lid -> attempt idx
	envUsed  map[string]bool
	problems []string
	installs []installEv
	chron    []chronEv // installs and restores in the order they were performed
	nextFake int
}

type chronEv struct {
	kind          string // install | undo
	att, lid, ver int
}

type installEv struct {
	att, lid, ver, pid int
	remove             bool
	undone             bool
}

func coqH(h sopx.H) string {
	return fmt.Sprintf("(mkH %d %d %d %s %s %d %s)", h.Lid, h.A, h.B, hx.CoqBool(h.ActiveB), hx.CoqZ(int64(h.Ver)), h.Wip, hx.CoqBool(h.Deleted))
}
func coqHs(hs []sopx.H) string {
	s := make([]string, len(hs))
	for i, h := range hs {
		s[i] = coqH(h)
	}
	return hx.CoqList(s)
}
func coqIDs(ids []int) string {
	s := make([]string, len(ids))
	for i, x := range ids {
		s[i] = strconv.Itoa(x)
	}
	return hx.CoqList(s)
}

func lidOfKey(c *sopx.Canon, name string) int {
	u, err := parseUUID(strings.TrimPrefix(name, "lock:"))
	if err != nil {
		return 0
	}
	return c.ID(u)
}

func (b *builder) emit(s string) { b.obs = append(b.obs, s) }

func inactiveOf(h sopx.H) int {
	if h.ActiveB {
		return h.A
	}
	return h.B
}
func activeOf(h sopx.H) int {
	if h.ActiveB {
		return h.B
	}
	return h.A
}

// handles as the model must see them when READ from the registry: a timestamp that the clock shift made older than an hour reads as 1
func (b *builder) asRead(hs []sopx.H) []sopx.H {
	out := make([]sopx.H, len(hs))
	for i, h := range hs {
		if h.Wip == 2 && b.aged[h.Lid] {
			h.Wip = 1
		}
		out[i] = h
	}
	return out
}

func (b *builder) wrote(hs []sopx.H) {
	for _, h := range hs {
		b.regTrack[h.Lid] = h
		delete(b.aged, h.Lid)
	}
}

func sameIDSet(a, c []int) bool {
	if len(a) != len(c) {
		return false
	}
	x := append([]int(nil), a...)
	y := append([]int(nil), c...)
	sort.Ints(x)
	sort.Ints(y)
	for i := range x {
		if x[i] != y[i] {
			return false
		}
	}
	return true
}

func (a *attempt) updLids() []int {
	var o []int
	for _, u := range a.upd {
		o = append(o, u[0])
	}
	return o
}
func (a *attempt) remLids() []int {
	var o []int
	for _, u := range a.rem {
		o = append(o, u[0])
	}
	return o
}

// close an attempt that never got past its lock (the loop restarted, or the commit gave up)
func (b *builder) closeLockedOnly(a *attempt) {
	if a.stage == stLocked {
		b.emit(fmt.Sprintf("ORollback %d%%nat", a.idx))
		b.emit(fmt.Sprintf("OUnlock %d%%nat", a.idx))
		b.unlockAll(a)
		a.stage = stAborted
	}
}

func (b *builder) unlockAll(a *attempt) {
	for l, o := range b.locks {
		if o == a.idx {
			delete(b.locks, l)
		}
	}
}

func (b *builder) flushRollback(a *attempt) {
	b.emit(fmt.Sprintf("OWrites %d%%nat %s", a.idx, coqHs(a.rbH)))
	a.rbBlobs, a.rbH = nil, nil
	a.needsFlush = false
}

// fill vacuous protocol steps of the model (no updated / no removed nodes) so that the model transaction advances
func (b *builder) advanceTo(a *attempt, stage int) {
	for a.stage < stage && a.stage < stLogged {
		switch a.stage {
		case stLocked:
			if len(a.upd) != 0 {
				return
			}
			b.emit(fmt.Sprintf("OClaim %d%%nat [] (Some [])", a.idx))
			a.stage = stClaimed
		case stClaimed:
			if len(a.upd) != 0 {
				return
			}
			b.emit(fmt.Sprintf("OBlob %d%%nat []", a.idx))
			a.stage = stStaged
		case stStaged:
			if len(a.rem) != 0 {
				return
			}
			b.emit(fmt.Sprintf("OMark %d%%nat [] (Some [])", a.idx))
			a.stage = stMarked
		case stMarked:
			return
		}
	}
}

func (b *builder) newAttempt(ev *sopx.Event, label string) *attempt {
	sn, ok := b.run.Snaps[ev.Seq]
	a := &attempt{idx: len(b.atts), label: label, stage: stLocked, locked: true}
	if ok {
		// order: as the lock keys are sorted by UUID this is not the order of the registry calls; fixed up at the claim / mark read
		for _, u := range sn.Updated {
			a.upd = append(a.upd, [3]int{u[0], u[1], 0})
		}
		a.rem = append(a.rem, sn.Removed...)
	} else {
		b.problems = append(b.problems, fmt.Sprintf("no classification snapshot for lock event %d", ev.Seq))
	}
	for i := range a.upd {
		b.nextFake++
		a.upd[i][2] = 900000 + b.nextFake
	}
	b.atts = append(b.atts, a)
	return a
}

func reorderUpd(a *attempt, ids []int) bool {
	if !sameIDSet(a.updLids(), ids) {
		return false
	}
	m := map[int][3]int{}
	for _, u := range a.upd {
		m[u[0]] = u
	}
	a.upd = a.upd[:0]
	for _, l := range ids {
		a.upd = append(a.upd, m[l])
	}
	return true
}
func reorderRem(a *attempt, ids []int) bool {
	if !sameIDSet(a.remLids(), ids) {
		return false
	}
	m := map[int][2]int{}
	for _, u := range a.rem {
		m[u[0]] = u
	}
	a.rem = a.rem[:0]
	for _, l := range ids {
		a.rem = append(a.rem, m[l])
	}
	return true
}

// build walks the recorded calls in completion order and produces the observation list of the model.
func build(run *RunRec) *builder {
	b := &builder{run: run, cur: map[string]*attempt{}, tidLabel: map[int]string{}, regTrack: map[int]sopx.H{}, aged: map[int]bool{}, locks: map[int]int{}, envUsed: map[string]bool{}}
	for _, h := range run.Init {
		b.regTrack[h.Lid] = h
	}
	inPrio := false
	var prioGet *sopx.Event
	var prioWrote bool
	var prioTid int
	bySeq := map[int]*sopx.Event{}
	for _, ev := range run.Events {
		bySeq[ev.Seq] = ev
	}
	inCommit := map[string]bool{}
	finishPrio := func() {
		// the sweep handled one priority log: Get (version check) then, when it passed, UpdateNoLocks(false)
		if prioGet == nil {
			return
		}
		c := -1
		if l, ok := b.tidLabel[prioTid]; ok {
			for _, a := range b.atts {
				if a.label == l && a.hasPlog {
					c = a.idx
				}
			}
		}
		if c < 0 {
			// identify by the logged lids
			for _, a := range b.atts {
				if a.hasPlog && sameIDSet(append(a.updLids(), a.remLids()...), prioGet.IDs) {
					c = a.idx
				}
			}
		}
		if c >= 0 {
			b.emit(fmt.Sprintf("OEnv (LPrio %d%%nat)", c))
			b.envUsed["prio"] = true
			a := b.atts[c]
			if prioWrote {
				a.hasPlog = false
				for k := range b.installs {
					if b.installs[k].att == c {
						b.installs[k].undone = true
					}
				}
			}
			for _, l := range prioGet.IDs {
				delete(b.locks, l)
			}
		} else {
			b.problems = append(b.problems, "priority rollback of an unknown transaction")
		}
		prioGet, prioWrote, prioTid = nil, false, 0
	}
	for _, o := range run.Order {
		if o < 0 {
			m := run.Marks[-o-1]
			switch m.Kind {
			case "sleep":
				ms, _ := strconv.Atoi(m.Label)
				var ls []int
				for l, ai := range b.locks {
					w := run.Writers[b.atts[ai].label]
					if w != nil && w.MaxTimeMs > 0 && w.MaxTimeMs < ms {
						ls = append(ls, l)
					}
				}
				sort.Ints(ls)
				for _, l := range ls {
					b.emit(fmt.Sprintf("OEnv (LLockExpire %d)", l))
					b.envUsed["lock-expired-live"] = true
					delete(b.locks, l)
				}
			case "clock":
				var ls []int
				for l, h := range b.regTrack {
					if h.Wip == 2 && !b.aged[l] {
						ls = append(ls, l)
					}
				}
				sort.Ints(ls)
				for _, l := range ls {
					b.emit(fmt.Sprintf("OEnv (LAge %d)", l))
					b.aged[l] = true
					b.envUsed["aged"] = true
					for _, a := range b.atts {
						if a.hasPlog && (containsInt(a.updLids(), l) || containsInt(a.remLids(), l)) {
							b.envUsed["aged-under-plog"] = true
						}
					}
				}
			case "process-end":
				// every writer of the process that has not finished is dead; the in-memory lock table is gone
				var as []*attempt
				for _, a := range b.cur {
					as = append(as, a)
				}
				sort.Slice(as, func(i, j int) bool { return as[i].idx < as[j].idx })
				for _, a := range as {
					if a.stage != stDone && a.stage != stAborted && a.stage != stCrashed {
						if a.stage == stRolling && (len(a.rbH) > 0 || len(a.rbBlobs) > 0) {
							b.flushRollback(a)
						}
						b.emit(fmt.Sprintf("OCrash %d%%nat 0%%nat", a.idx))
						a.stage = stCrashed
					}
				}
				var ls []int
				for l := range b.locks {
					ls = append(ls, l)
				}
				sort.Ints(ls)
				for _, l := range ls {
					b.emit(fmt.Sprintf("OEnv (LLockExpire %d)", l))
					delete(b.locks, l)
				}
				b.cur = map[string]*attempt{}
				inCommit = map[string]bool{}
			case "prio-begin":
				inPrio = true
			case "prio-end":
				finishPrio()
				inPrio = false
			}
			continue
		}
		ev := bySeq[o]
		if ev == nil {
			continue
		}
		if ev.Iface == "tlog" && ev.Method == "Add" && len(ev.IDs) == 1 {
			b.tidLabel[ev.IDs[0]] = ev.Txn
		}
		if ev.Txn == "agent" {
			if !inPrio {
				continue
			}
			switch ev.Key() {
			case "reg.Get":
				finishPrio()
				prioGet = ev
			case "reg.UpdateNoLocks":
				if ev.Err == "" {
					prioWrote = true
					b.wrote(ev.Handles)
					for _, h := range ev.Handles {
						b.chron = append(b.chron, chronEv{"undo", -1, h.Lid, h.Ver})
					}
				}
			case "plog.Remove":
				if len(ev.IDs) == 1 {
					prioTid = ev.IDs[0]
				}
				finishPrio()
			}
			continue
		}
		label := ev.Txn
		if ev.Iface == "tlog" && ev.Method == "Add" && ev.Step == 2 {
			inCommit[label] = true
		}
		if !inCommit[label] {
			continue
		}
		a := b.cur[label]
		failed := ev.Err != ""
		switch ev.Key() {
		case "l2.Lock", "l2.DualLock":
			if !nodeKeys(ev.Names) || ev.Bool == nil {
				continue
			}
			if a != nil && a.stage == stLogged && a.pendingCheck && !a.checked {
				// the re-lock of nodesKeysNilOrLocked
				a.checked = true
				b.emit(fmt.Sprintf("OCheck %d%%nat true", a.idx))
				if *ev.Bool {
					for _, n := range ev.Names {
						b.locks[lidOfKey(run.Canon, n)] = a.idx
					}
				} else {
					a.stage = stRolling
					a.needsFlush = true
				}
				continue
			}
			if !*ev.Bool {
				continue // a failed try-lock changes nothing
			}
			if a != nil {
				b.closeLockedOnly(a)
			}
			a = b.newAttempt(ev, label)
			b.cur[label] = a
			if len(a.upd) == 0 && len(a.rem) == 0 {
				a.stage = stAborted // nothing of the node protocol to follow
				b.atts = b.atts[:len(b.atts)-1]
				b.cur[label] = nil
				continue
			}
			// a lock the model still attributes to another attempt has expired in reality (TTL = maxTime)
			for _, n := range ev.Names {
				l := lidOfKey(run.Canon, n)
				if o, held := b.locks[l]; held && o != a.idx {
					b.emit(fmt.Sprintf("OEnv (LLockExpire %d)", l))
					b.envUsed["lock-expired-live"] = true
					delete(b.locks, l)
				}
			}
			b.emit(fmt.Sprintf("OLock %d%%nat true", a.idx))
			for _, n := range ev.Names {
				b.locks[lidOfKey(run.Canon, n)] = a.idx
			}
		case "l2.IsLocked":
			if a != nil && a.stage == stLogged && nodeKeys(ev.Names) && ev.Bool != nil {
				a.pendingCheck = true
				if !*ev.Bool {
					// the locks were lost: expired
					for _, n := range ev.Names {
						l := lidOfKey(run.Canon, n)
						if o, held := b.locks[l]; held && o == a.idx {
							b.emit(fmt.Sprintf("OEnv (LLockExpire %d)", l))
							b.envUsed["lock-expired-live"] = true
							delete(b.locks, l)
						}
					}
				}
				if *ev.Bool {
					a.checked = true
					b.emit(fmt.Sprintf("OCheck %d%%nat false", a.idx))
				}
			}
		case "reg.Get":
			if a == nil {
				continue
			}
			switch {
			case a.stage == stLocked && a.saw5 && len(a.upd) > 0 && reorderUpd(a, ev.IDs):
				a.sawClaimGet = ev
			case a.stage == stStaged && len(a.rem) > 0 && reorderRem(a, ev.IDs) && a.step7():
				a.sawMarkGet = ev
			case a.stage >= stClaimed && a.stage <= stLogged && (sameIDSet(ev.IDs, a.updLids()) || sameIDSet(ev.IDs, a.remLids())):
				// a read of rollback()
				b.enterRollback(a)
			}
		case "reg.UpdateNoLocks", "reg.Update":
			if a == nil {
				continue
			}
			allOrNothing := ev.Bool != nil && *ev.Bool
			switch {
			case a.stage == stLocked && a.sawClaimGet != nil && !allOrNothing:
				// the claim
				for i := range a.upd {
					if i < len(ev.Handles) {
						a.upd[i][2] = inactiveOf(ev.Handles[i])
					}
				}
				if failed {
					b.problems = append(b.problems, "claim write failed: "+ev.Err)
				}
				b.emit(fmt.Sprintf("OClaim %d%%nat %s (Some %s)", a.idx, coqHs(b.asRead(a.sawClaimGet.Handles)), coqHs(ev.Handles)))
				b.wrote(ev.Handles)
				a.stage = stClaimed
				a.sawClaimGet = nil
			case a.stage == stStaged && a.sawMarkGet != nil && !allOrNothing:
				for _, h := range b.asRead(a.sawMarkGet.Handles) {
					if inactiveOf(h) != 0 && h.Wip == 2 && !h.Deleted {
						b.envUsed["mark-over-claim"] = true
					}
				}
				b.emit(fmt.Sprintf("OMark %d%%nat %s (Some %s)", a.idx, coqHs(b.asRead(a.sawMarkGet.Handles)), coqHs(ev.Handles)))
				b.wrote(ev.Handles)
				a.stage = stMarked
				a.sawMarkGet = nil
			case a.stage == stLogged && allOrNothing:
				b.emit(fmt.Sprintf("OFlip %d%%nat %s", a.idx, coqHs(ev.Handles)))
				b.wrote(ev.Handles)
				nu := len(a.upd)
				for _, h := range ev.Handles {
					// the version this attempt READ (classification snapshot), not the one it writes
					rv := h.Ver - 1
					for _, u := range a.upd {
						if u[0] == h.Lid {
							rv = u[1]
						}
					}
					for _, u := range a.rem {
						if u[0] == h.Lid {
							rv = u[1]
						}
					}
					b.chron = append(b.chron, chronEv{"install", a.idx, h.Lid, rv})
				}
				for i, h := range ev.Handles {
					if i < nu {
						b.installs = append(b.installs, installEv{att: a.idx, lid: h.Lid, ver: h.Ver - 1, pid: activeOf(h)})
					} else {
						b.installs = append(b.installs, installEv{att: a.idx, lid: h.Lid, ver: h.Ver - 1, remove: true})
					}
				}
				a.stage = stFlipped
			case a.stage == stRolling:
				a.rbH = append(a.rbH, ev.Handles...)
				b.wrote(ev.Handles)
			default:
				b.problems = append(b.problems, fmt.Sprintf("unexpected registry write of %s at stage %d (event %d)", label, a.stage, ev.Seq))
			}
		case "blob.Add":
			if a == nil {
				continue
			}
			if a.stage == stClaimed && len(a.upd) > 0 {
				var pids []int
				for _, u := range a.upd {
					pids = append(pids, u[2])
				}
				if sameIDSet(pids, ev.IDs) {
					b.emit(fmt.Sprintf("OBlob %d%%nat %s", a.idx, coqIDs(ev.IDs)))
					a.stage = stStaged
				}
			}
		case "tlog.Add":
			if a == nil {
				continue
			}
			switch ev.Step {
			case 5:
				a.saw5 = true
			case 6:
				if a.stage == stLocked && a.sawClaimGet != nil {
					// conflict: the registry was read, nothing was written
					b.emit(fmt.Sprintf("OClaim %d%%nat %s None", a.idx, coqHs(b.asRead(a.sawClaimGet.Handles))))
					a.sawClaimGet = nil
					a.stage = stRolling
				} else {
					b.advanceTo(a, stStaged)
				}
			case 7:
				a.saw7 = true
			case 8:
				if a.stage == stStaged && a.sawMarkGet != nil {
					b.problems = append(b.problems, "mark conflict followed by commitAddedNodes")
				}
				b.advanceTo(a, stMarked)
			case 12:
				a.step12 = true
			}
		case "plog.Add":
			if a == nil {
				continue
			}
			b.advanceTo(a, stMarked)
			if a.stage == stMarked {
				b.emit(fmt.Sprintf("OPlog %d%%nat", a.idx))
				a.stage = stLogged
				a.hasPlog = true
			}
		case "plog.Remove":
			if a == nil {
				continue
			}
			if a.stage == stFlipped {
				b.emit(fmt.Sprintf("OPlogRm %d%%nat", a.idx))
				a.stage = stPlogRm
				a.hasPlog = false
			} else if a.stage >= stClaimed && a.stage <= stLogged {
				b.enterRollback(a)
			}
		case "l2.Unlock":
			if a == nil || !nodeKeys(ev.Names) {
				continue
			}
			switch a.stage {
			case stPlogRm:
				b.emit(fmt.Sprintf("OUnlock %d%%nat", a.idx))
				b.unlockAll(a)
				a.stage = stUnlocked
			case stRolling:
				if a.needsFlush {
					b.flushRollback(a)
				}
				b.emit(fmt.Sprintf("OUnlock %d%%nat", a.idx))
				b.unlockAll(a)
				a.stage = stAborted
			case stLocked:
				// unlock without having done anything (lock retry path, or the commit gave up)
				b.closeLockedOnly(a)
			case stClaimed, stStaged, stMarked, stLogged:
				b.enterRollback(a)
				b.flushRollback(a)
				b.emit(fmt.Sprintf("OUnlock %d%%nat", a.idx))
				b.unlockAll(a)
				a.stage = stAborted
			}
		case "blob.Remove":
			if a == nil {
				continue
			}
			if a.stage == stRolling {
				a.rbBlobs = append(a.rbBlobs, ev.IDs...)
			} else if a.stage == stUnlocked && a.step12 {
				b.emit(fmt.Sprintf("OCleanBlobs %d%%nat %s", a.idx, coqIDs(ev.IDs)))
				a.stage = stCleanedBlobs
			}
		case "reg.Remove":
			if a == nil {
				continue
			}
			if a.stage == stCleanedBlobs {
				b.emit(fmt.Sprintf("OCleanReg %d%%nat %s", a.idx, coqIDs(ev.IDs)))
				for _, l := range ev.IDs {
					delete(b.regTrack, l)
				}
				a.stage = stDone
			}
		case "reg.Add":
			// brand-new nodes (a split): the model learns the handles as environment steps
			if failed {
				continue
			}
			for _, h := range ev.Handles {
				if _, ok := b.regTrack[h.Lid]; !ok {
					b.emit(fmt.Sprintf("OEnv (LAddNode %d)", h.Lid))
					b.regTrack[h.Lid] = h
					b.envUsed["added-node"] = true
				}
			}
		}
	}
	return b
}

func (a *attempt) step7() bool { return a.saw7 }

func (b *builder) enterRollback(a *attempt) {
	if a.stage == stRolling {
		return
	}
	if a.stage == stStaged && a.sawMarkGet != nil {
		// conflict at the deletion marks: the model's LMark itself starts the rollback
		b.emit(fmt.Sprintf("OMark %d%%nat %s None", a.idx, coqHs(b.asRead(a.sawMarkGet.Handles))))
		a.sawMarkGet = nil
	} else {
		b.advanceToForRollback(a)
		b.emit(fmt.Sprintf("ORollback %d%%nat", a.idx))
	}
	a.stage = stRolling
	a.needsFlush = true
}

// a rollback can start while the model transaction still has vacuous steps to take
func (b *builder) advanceToForRollback(a *attempt) {
	b.advanceTo(a, stStaged)
}

func containsInt(xs []int, x int) bool {
	for _, y := range xs {
		if y == x {
			return true
		}
	}
	return false
}

package main

import (
	"fmt"
	"strings"

	"verif/harness/hx"
	"verif/harness/sopx"
)

func coqSpecs(atts []*attempt) string {
	var ss []string
	for _, a := range atts {
		var us, rs []string
		for _, u := range a.upd {
			us = append(us, fmt.Sprintf("(%d, %s, %d)", u[0], hx.CoqZ(int64(u[1])), u[2]))
		}
		for _, r := range a.rem {
			rs = append(rs, fmt.Sprintf("(%d, %s)", r[0], hx.CoqZ(int64(r[1]))))
		}
		ss = append(ss, fmt.Sprintf("(%s, %s)", hx.CoqList(us), hx.CoqList(rs)))
	}
	return hx.CoqList(ss)
}

func contains(xs []int, x int) bool {
	for _, y := range xs {
		if y == x {
			return true
		}
	}
	return false
}

// evaluate: direct oracles on the implementation's observables, then the correspondence case.
func evaluate(res *hx.Result, in *Input, run *RunRec, debug bool) {
	b := build(run)
	res.Count("kind:" + in.Kind)
	res.Count(fmt.Sprintf("attempts:%d", min(len(b.atts), 9)))
	for k := range b.envUsed {
		res.Count("env:" + k)
	}
	for _, r := range run.Results {
		switch {
		case r == "":
			res.Count("result:committed")
		case r == "crashed":
			res.Count("result:crashed")
		case strings.Contains(r, "timed out"):
			res.Count("result:timed-out")
		default:
			res.Count("result:error")
		}
	}
	for _, o := range b.obs {
		res.Count("obs:" + strings.SplitN(o, " ", 2)[0])
	}

	// ---- oracle 1: no two commits that read the same version of a node both got their phase-2 write of it performed
	single := true
	var sig1, what1 string
	for i, e1 := range b.chron {
		if e1.kind != "install" {
			continue
		}
		for _, e2 := range b.chron[i+1:] {
			if e2.kind == "undo" && e2.lid == e1.lid {
				break
			}
			if e2.kind == "install" && e2.lid == e1.lid && e2.ver == e1.ver && e2.att != e1.att {
				single = false
				cause := "other"
				if b.envUsed["lock-expired-live"] {
					cause = "lock-expired-mid-commit"
				}
				sig1 = "two-successors-of-one-version:" + cause
				what1 = fmt.Sprintf("node %d: commit attempts %d (%s) and %d (%s) both read version %d and both had their phase-2 registry write of the node performed (no restore of a logged image in between); results %v",
					e1.lid, e1.att, b.atts[e1.att].label, e2.att, b.atts[e2.att].label, e1.ver, run.Results)
			}
		}
	}
	if !single {
		res.Fail(sig1, what1, in)
	}
	// ---- oracle 2: every handle that is not marked deleted has its active blob on disk after the run
	data := true
	for _, h := range run.Final {
		if h.Deleted {
			continue
		}
		if !contains(run.FinalBl, activeOf(h)) {
			data = false
			cause := "other"
			if b.envUsed["prio"] && b.envUsed["aged"] {
				cause = "priority-rollback-over-later-successor"
			} else if b.envUsed["prio"] && b.envUsed["mark-over-claim"] {
				cause = "priority-rollback-over-removal"
			}
			res.Fail("active-blob-missing:"+cause, fmt.Sprintf("after the run node %d (version %d) has active id %d whose blob file does not exist; results %v", h.Lid, h.Ver, activeOf(h), run.Results), in)
			break
		}
	}
	// ---- oracle 3: recovery itself must not blow up
	if r, ok := run.Results["agent"]; ok && strings.HasPrefix(r, "panic:") {
		cause := "other"
		if b.envUsed["mark-over-claim"] {
			cause = "logged-node-no-longer-registered"
		}
		res.Fail("priority-rollback-panics:"+cause, fmt.Sprintf("the priority-rollback sweep (doPriorityRollbacks, as run by onIdle of a restarted process) panicked: %s; results %v", r, run.Results), in)
	}
	if in.Kind == "corpus" && in.Expect != "" {
		hit := false
		for _, f := range res.OracleFailures {
			if f.Signature == in.Expect {
				hit = true
			}
		}
		if !hit {
			res.Notes = append(res.Notes, fmt.Sprintf("corpus scenario %s did not reproduce %s", in.Name, in.Expect))
			res.Count("corpus-expectation-missed")
		}
	}
	for _, p := range b.problems {
		res.Notes = append(res.Notes, in.Name+": "+p)
		res.Count("trace-problem")
	}

	// ---- correspondence case
	hy := fmt.Sprintf("(mkHy %s %s %s)", hx.CoqBool(!b.envUsed["lock-expired-live"]), hx.CoqBool(!b.envUsed["aged-under-plog"]), hx.CoqBool(!b.envUsed["mark-over-claim"]))
	var initBl, finBl []int
	initBl = run.InitBl
	finBl = run.FinalBl
	// final registry restricted to what the model knows (initial handles and nodes it saw being added)
	var fin []sopx.H
	for _, h := range run.Final {
		fin = append(fin, h)
	}
	term := fmt.Sprintf("C37Case %s %s %s\n  %s\n  %s\n  %s %s %s %s",
		hy, coqHs(run.Init), coqIDs(initBl), coqSpecs(b.atts), hx.CoqList(b.obs), coqHs(fin), coqIDs(finBl), hx.CoqBool(single), hx.CoqBool(data))
	res.AddCase(term, in)
	shared := false
	seen := map[int]int{}
	for _, a := range b.atts {
		for _, l := range append(a.updLids(), a.remLids()...) {
			seen[l]++
			if seen[l] > 1 {
				shared = true
			}
		}
	}
	var proj []string
	for _, o := range b.obs {
		f := strings.Fields(o)
		proj = append(proj, f[0]+f[1])
	}
	res.Seen(in.Kind+"|"+strings.Join(proj, ","), shared)
	res.Sample(map[string]any{"name": in.Name, "results": run.Results, "obs": len(b.obs), "attempts": len(b.atts)})
	if debug {
		fmt.Println("--- specs", coqSpecs(b.atts))
		for _, o := range b.obs {
			fmt.Println("   ", o)
		}
		fmt.Println("--- single", single, "data", data, "hy", hy, "problems", b.problems)
	}
}

package main

import (
	"context"
	"encoding/json"
	"fmt"
	"os"
	"path/filepath"
	"sort"
	"strings"
	"sync"
	"time"

	"github.com/sharedcode/sop"
	"github.com/sharedcode/sop/cache"
	"github.com/sharedcode/sop/common"
	"github.com/sharedcode/sop/fs"

	"verif/harness/hx"
	"verif/harness/sopx"
)

// ---------------------------------------------------------------- classification of a crash state

func lastStep(t TLog) int {
	if len(t.Entries) == 0 {
		return 0
	}
	return t.Entries[len(t.Entries)-1].Step
}

// classify names the recovery-logic defect class a crash state falls into (computed from the
// decoded logs only), "" when the log-driven rollback is expected to restore the old state.
//
//	commit-point       : last logged step is finalizeCommit and the priority log is gone, i.e. the
//	                     registry flip of phase 2 is durable; rollback() undoes it as if uncommitted
//	last-step-ambiguity: steps are logged BEFORE they run and undone only when a LATER step was
//	                     logged (`last > step`), so a crash right after the step leaves it in place
//	new-root-handle-left: rollbackNewRootNodes returns early (it tests the maintenance
//	                     transaction's committedState), the root handle stays registered
//	count-not-restored : the commitStoreInfo payload has lost CountDelta (json:"-")
func classify(s *Snap) string {
	cls := ""
	rank := map[string]int{"": 0, "count-not-restored": 1, "new-root-handle-left": 2, "last-step-ambiguity": 3, "commit-point": 4}
	for _, t := range s.TLogs {
		c := ""
		last := lastStep(t)
		hasPlog := false
		for _, p := range s.PLogs {
			if p.Tid == t.Tid {
				hasPlog = true
			}
		}
		root, store9 := false, false
		for _, e := range t.Entries {
			if e.Step == 4 && len(e.Vids) > 0 {
				root = true
			}
			if e.Step == 9 && e.Has {
				store9 = true
			}
		}
		switch {
		case last == 11 && !hasPlog:
			c = "commit-point"
		case last == 4 || last == 7 || last == 8 || last == 9:
			c = "last-step-ambiguity"
		case root && last > 4:
			c = "new-root-handle-left"
		case store9 && last > 9:
			c = "count-not-restored"
		}
		if rank[c] > rank[cls] {
			cls = c
		}
	}
	return cls
}

func dumpProblem(d *sopx.Dump) string {
	if d == nil {
		return "no dump"
	}
	if d.Err != "" && !strings.Contains(d.Err, "reader commit") {
		return "dump: " + d.Err
	}
	for _, n := range d.Names {
		s := d.Stores[n]
		if s.Err != "" && !strings.Contains(s.Err, "has not started") {
			return fmt.Sprintf("store %s unreadable: %s", n, s.Err)
		}
	}
	for _, n := range d.Names {
		s := d.Stores[n]
		if s.Err == "" && s.Count != int64(len(s.Keys)) {
			return fmt.Sprintf("store %s count %d but %d items", n, s.Count, len(s.Keys))
		}
	}
	return ""
}

func stripPaths(s string) string {
	if i := strings.Index(s, "/var/tmp/"); i >= 0 {
		return s[:i] + "<path>"
	}
	return s
}

// ---------------------------------------------------------------- scenario -> oracle + cases

func coqGlobals(g common.VerifMaintGlobals, hbp bool) string {
	hour := "None"
	if g.HourBeingProcessed != "" {
		t, err := time.Parse(fs.DateHourLayout, g.HourBeingProcessed)
		if err == nil {
			hour = fmt.Sprintf("(Some %s)", hx.CoqZ(t.UnixMilli()/hourMs))
		}
	}
	return fmt.Sprintf("(mkMaint %s %s %s %s %s %s)", hx.CoqZ(g.LastPriorityOnIdleTime), hx.CoqZ(g.LastOnIdleRunTime), hour,
		hx.CoqBool(g.PriorityLogFound), hx.CoqBool(g.OnStartUpFlag), hx.CoqBool(hbp))
}

var resMu sync.Mutex

func record(res *hx.Result, o *outcome) {
	resMu.Lock()
	defer resMu.Unlock()
	sc := o.Sc
	if o.Err != "" {
		res.Fail("harness-error", o.Err, sc)
		return
	}
	leftover := len(o.S0.TLogs)+len(o.S0.PLogs) > 0
	cls := classify(o.S0)
	canonS := fmt.Sprintf("%s|%v|%s|%d", sc.shapes(), sc.Crashes, logSummary(o.S0), sc.Entries)
	res.Seen(canonS, leftover)
	res.Count("shape." + sc.shapes())
	for _, t := range o.S0.TLogs {
		res.Count(fmt.Sprintf("crash.last_step.%02d", lastStep(t)))
	}
	if len(o.S0.PLogs) > 0 {
		res.Count("crash.with_priority_log")
	}
	if !leftover {
		res.Count("crash.nothing_left")
	}
	res.Count("class." + cls)
	res.Sample(map[string]any{"scenario": sc, "after_crash": logSummary(o.S0), "after_public": logSummary(o.SPublic), "after_hook": logSummary(o.SHook),
		"next_writer_public": o.NextPub.Writer.Err, "next_writer_hook": o.NextHook.Writer.Err})

	// ---- public path: the property itself
	if leftover && sc.OffMs >= 3*hourMs {
		if n := len(o.SPublic.TLogs) + len(o.SPublic.PLogs); n > 0 {
			res.Fail("public-path:logs-not-removed",
				fmt.Sprintf("maintenance never runs: onIdle returns before any B-tree can be open (btrees at Begin = %v); after %d later transactions with the clock %d ms ahead still present: %s",
					o.Later.BtreesAtBegin, sc.Later, sc.OffMs, logSummary(o.SPublic)), sc)
		}
		if o.NextPub.Writer.Err != "" {
			res.Fail("public-path:next-writer-blocked",
				fmt.Sprintf("maintenance never runs: the next writer on the crashed transaction's nodes fails after %d later transactions: %s", sc.Later, stripPaths(o.NextPub.Writer.Err)), sc)
		}
	}
	for i, e := range o.Later.Errs {
		if e != "" {
			res.Fail("public-path:later-transaction-failed", fmt.Sprintf("later transaction %d: %s", i, stripPaths(e)), sc)
		}
	}
	if o.Later.Foreign > 0 {
		res.Fail("frame:later-transaction-touched-foreign-log", fmt.Sprintf("%d tlog/plog calls on a foreign transaction id", o.Later.Foreign), sc)
	}
	// ---- hook path: the recovery logic behind the guard
	fresh := sc.Globals == nil
	aged := sc.OffMs >= 3*hourMs
	if sc.Entries > 0 && fresh && aged {
		// one crashed transaction: its logs must be gone; several: at least the priority logs and one
		// transaction log (the hour-bucket cap of GetOneOfHour and the hour lock slow the rest down; the
		// exact set is checked against the model)
		if n := len(o.SHook.TLogs); n > 0 && (len(o.S0.TLogs) == 1 || n >= len(o.S0.TLogs)) {
			res.Fail("hook:logs-not-removed", fmt.Sprintf("after %d maintenance entries behind the guard still present: %s", sc.Entries, logSummary(o.SHook)), sc)
		}
		if len(o.SHook.PLogs) > 0 {
			res.Fail("hook:priority-logs-not-removed", fmt.Sprintf("after %d maintenance entries behind the guard still present: %s", sc.Entries, logSummary(o.SHook)), sc)
		}
		prob := dumpProblem(o.NextHook.Dump)
		if prob == "" && o.NextHook.Writer.Err != "" {
			prob = "next writer: " + o.NextHook.Writer.Err
		}
		if prob != "" {
			sig := "hook:" + cls
			if cls == "" {
				sig = "hook:unclassified-damage"
			}
			res.Fail(sig, fmt.Sprintf("recovery behind the guard (crash state %s): %s", logSummary(o.S0), stripPaths(prob)), sc)
			res.Count("hook.damage." + cls)
		} else {
			res.Count("hook.recovered_clean")
		}
	}
	// ---- correspondence cases
	var nows []string
	for _, n := range o.Later.NowMs {
		nows = append(nows, hx.CoqZ(n))
	}
	var bt []string
	for _, n := range o.Later.BtreesAtBegin {
		bt = append(bt, hx.CoqNat(n))
	}
	res.AddCase(fmt.Sprintf("PublicCase %s %s %s %s", coqSnap(o.S0.withoutStore(4)), hx.CoqList(bt), hx.CoqList(nows), coqSnap(o.SPublic.withoutStore(4))), sc)
	g0 := common.VerifMaintGlobals{OnStartUpFlag: true}
	if sc.Globals != nil {
		g0 = *sc.Globals
	}
	if len(o.Hook.NowMs) == sc.Entries && len(o.Hook.Globals) == sc.Entries && sc.Entries > 0 {
		var hn []string
		for _, n := range o.Hook.NowMs {
			hn = append(hn, hx.CoqZ(n))
		}
		gl := o.Hook.Globals[len(o.Hook.Globals)-1]
		res.AddCase(fmt.Sprintf("HookCase %s %s %s %s %s %s", hx.CoqNat(o.Hook.Btrees), coqSnap(o.S0), coqGlobals(g0, false), hx.CoqList(hn), coqSnap(o.SHook), coqGlobals(gl, false)), sc)
	}
}

// ---------------------------------------------------------------- K1: the age filters

type ageIn struct {
	NowMs   int64 `json:"now_ms"`
	MtimeMs int64 `json:"mtime_ms"`
}

func runAge(res *hx.Result, in ageIn) {
	sc := scenario{Kind: "age", Age: &in}
	dir := filepath.Join(scratch, fmt.Sprintf("age-%d", os.Getpid()))
	os.RemoveAll(dir)
	defer os.RemoveAll(dir)
	os.MkdirAll(filepath.Join(dir, "translogs"), 0o755)
	tid := sop.NewUUID()
	mt := time.UnixMilli(in.MtimeMs)
	for _, ext := range []string{".log", ".plg"} {
		p := filepath.Join(dir, "translogs", tid.String()+ext)
		os.WriteFile(p, []byte{}, 0o644)
		os.Chtimes(p, mt, mt)
	}
	old := sop.Now
	sop.Now = func() time.Time { return time.UnixMilli(in.NowMs) }
	defer func() { sop.Now = old }()
	ctx := context.Background()
	c := cache.NewL2InMemoryCache() // a new lock table: the "HBP" hour lock of a previous pair must not leak into this one
	rt, err := fs.NewReplicationTracker(ctx, []string{dir}, false, c)
	if err != nil {
		res.Fail("harness-error", err.Error(), sc)
		return
	}
	tl := fs.NewTransactionLog(c, rt)
	got, _, _, _ := tl.GetOne(ctx)
	implT := !got.IsNil()
	batch, berr := tl.PriorityLog().GetBatch(ctx, 20)
	implP := len(batch) > 0 || berr != nil
	res.Seen(fmt.Sprintf("age:%d:%d", in.NowMs, in.MtimeMs), true)
	res.Count("age")
	age := in.NowMs - in.MtimeMs
	// direct oracle on the documented ages: a log older than 3 h is always picked, one younger than 0 never
	if age >= 3*hourMs && (!implT || !implP) {
		res.Fail("age:old-log-not-eligible", fmt.Sprintf("age %d ms: tlog %v plog %v", age, implT, implP), sc)
	}
	if age < 0 && (implT || implP) {
		res.Fail("age:future-log-eligible", fmt.Sprintf("age %d ms: tlog %v plog %v", age, implT, implP), sc)
	}
	res.AddCase(fmt.Sprintf("AgeCase %s %s %s %s", hx.CoqZ(in.NowMs), hx.CoqZ(in.MtimeMs), hx.CoqBool(implT), hx.CoqBool(implP)), sc)
}

// ---------------------------------------------------------------- driver

var allShapes = []string{"upd", "add", "rem", "newroot", "create", "svupd", "svadd", "two"}

func std(crashes ...crashSpec) scenario {
	return scenario{Kind: "crash", Crashes: crashes, OffMs: 5 * hourMs, Later: 3, StepMs: 6 * 60 * 1000, Entries: 2}
}

func runAll(cfg *hx.RunCfg, res *hx.Result) (*hx.Result, error) {
	res.Imports = []string{"Lib.Bytes", "Maintenance", "Corr.C09"}
	res.CaseType = "c09case"
	res.Checker = "c09_check"
	res.Rule = "scenario = writer shape(s) x crash index (os.Exit before the k-th storage call of the commit, in a child process) x clock offsets x maintenance globals; each scenario is followed in NEW processes by (a) later public-path transactions, (b) maintenance entered behind the guard through the verif export, (c) a fresh read and the next writer on the same nodes. evaluation = one scenario or one (now, mtime) age pair; distinct = distinct (shapes, crash indices, decoded log steps left behind); non-trivial = the crash left a .log/.plg behind (age pairs: always)"
	if cfg.Replay != "" {
		raw, err := os.ReadFile(cfg.Replay)
		if err != nil {
			return nil, err
		}
		var rp struct {
			Input scenario `json:"input"`
		}
		if err := json.Unmarshal(raw, &rp); err != nil {
			return nil, err
		}
		if rp.Input.Kind == "age" {
			runAge(res, *rp.Input.Age)
		} else {
			record(res, runScenario(rp.Input))
		}
		return res, nil
	}
	r := hx.NewRng(cfg.Seed)
	var scs []scenario
	counts := map[string]int{}
	for _, sh := range allShapes {
		n, err := events(sh)
		if err != nil {
			return nil, err
		}
		counts[sh] = n
	}
	// deterministic corpus: one scenario per known finding class (crash indices are relative to
	// the end of the commit because the early part depends on the shape)
	corpus := []scenario{
		std(crashSpec{"upd", 6}),                     // leftover .log only: public-path:logs-not-removed
		std(crashSpec{"rem", 19}),                    // crashed remove: next writer blocked on the public path
		std(crashSpec{"rem", 18}),                    // last logged step = commitRemovedNodes: last-step-ambiguity
		std(crashSpec{"upd", 17}),                    // .plg + .log left
		std(crashSpec{"upd", counts["upd"] - 6}),     // after the phase-2 flip, before step 12: commit-point
		std(crashSpec{"upd", counts["upd"] - 5}),     //
		std(crashSpec{"newroot", 10}),                // last-step-ambiguity on commitNewRootNodes
		std(crashSpec{"newroot", 17}),                // new-root-handle-left
		std(crashSpec{"add", counts["add"] - 11}),    // count-not-restored
		std(crashSpec{"create", 12}),                 // createStore logged: rollback removes the store
		std(crashSpec{"upd", 12}, crashSpec{"newroot", 8}), // two crashed transactions, drained one per entry
	}
	scs = append(scs, corpus...)
	if cfg.Tier == "thorough" {
		for _, sh := range allShapes {
			for k := 0; k <= counts[sh]; k++ {
				scs = append(scs, std(crashSpec{sh, k}))
			}
		}
		for i := 0; i < 40; i++ { // multi-crash and non-default globals / clock offsets
			a, b := hx.Pick(r, allShapes), hx.Pick(r, []string{"newroot", "create", "svupd"})
			sc := std(crashSpec{a, r.Intn(counts[a])}, crashSpec{b, r.Intn(counts[b])})
			sc.Entries = 1 + r.Intn(3)
			sc.OffMs = hx.Pick(r, []int64{0, 30 * 60 * 1000, 2 * hourMs, 3 * hourMs, 5 * hourMs, 30 * hourMs})
			sc.StepMs = hx.Pick(r, []int64{60 * 1000, 4 * 60 * 1000, 6 * 60 * 1000, 5 * hourMs})
			if r.Chance(40) {
				now := time.Now().UnixMilli() + sc.OffMs
				sc.Globals = &common.VerifMaintGlobals{OnStartUpFlag: r.Bool(), PriorityLogFound: r.Bool(),
					LastPriorityOnIdleTime: now - hx.Pick(r, []int64{0, 100 * 1000, 200 * 1000, 400 * 1000}),
					LastOnIdleRunTime:      now - hx.Pick(r, []int64{0, 4 * 60 * 1000, 6 * 60 * 1000, 5 * hourMs})}
			}
			scs = append(scs, sc)
		}
	} else {
		n := cfg.N
		if n == 0 {
			n = 22
		}
		for i := 0; i < n; i++ {
			sh := allShapes[i%len(allShapes)]
			sc := std(crashSpec{sh, r.Intn(counts[sh] + 1)})
			if i%5 == 4 {
				sc.OffMs = hx.Pick(r, []int64{0, 30 * 60 * 1000, 2 * hourMs, 3 * hourMs})
			}
			scs = append(scs, sc)
		}
	}
	outs := make([]*outcome, len(scs))
	var wg sync.WaitGroup
	sem := make(chan bool, 12)
	for i := range scs {
		wg.Add(1)
		go func(i int) {
			defer wg.Done()
			sem <- true
			defer func() { <-sem }()
			outs[i] = runScenario(scs[i])
		}(i)
	}
	wg.Wait()
	for _, o := range outs {
		record(res, o)
	}
	// K1 age filters: hour-bucket boundaries and random pairs
	na := 150
	if cfg.Tier == "thorough" {
		na = 1500
	}
	baseT := int64(1790000000000)
	var ages []ageIn
	for _, now := range []int64{baseT, baseT - baseT%hourMs, baseT - baseT%hourMs + hourMs - 1, baseT - baseT%hourMs + 1} {
		for _, d := range []int64{-1000, 0, 1, 4 * 60000, 5 * 60000, 6 * 60000, 59 * 60000, hourMs - 1, hourMs, hourMs + 1, 69 * 60000, 70 * 60000, 71 * 60000, 2*hourMs - 1, 2 * hourMs, 2*hourMs + 1, 3*hourMs - 1, 3 * hourMs, 5 * hourMs} {
			ages = append(ages, ageIn{now, now - d})
		}
	}
	for i := 0; i < na; i++ {
		now := baseT + int64(r.Intn(int(48*hourMs)))
		ages = append(ages, ageIn{now, now - int64(r.Intn(int(4*hourMs))) + 60000})
	}
	for _, a := range ages {
		runAge(res, a)
	}
	sort.Strings(res.Notes)
	return res, nil
}

package main

// Decoding of the durable state of a database folder into the canonical form the
// Coq model (Maintenance.v) works on: registry handles, blob ids, store catalog,
// transaction logs with decoded payloads, priority logs with their handle images.

import (
	"bufio"
	"encoding/base64"
	"encoding/binary"
	"encoding/json"
	"fmt"
	"os"
	"path/filepath"
	"sort"
	"strings"

	"github.com/sharedcode/sop"

	"verif/harness/hx"
	"verif/harness/sopx"
)

type Ref struct {
	Store int `json:"s"`
	ID    int `json:"id"`
}
type HS struct { // handle
	Store   int   `json:"s"`
	Lid     int   `json:"lid"`
	A       int   `json:"a"`
	B       int   `json:"b"`
	ActiveB bool  `json:"ab"`
	Ver     int   `json:"ver"`
	Wip     int64 `json:"wip"`
	Deleted bool  `json:"del"`
}
type Delta struct {
	Store int   `json:"s"`
	D     int64 `json:"d"`
}
type Entry struct {
	Step   int     `json:"step"`
	Has    bool    `json:"has"`
	Name   int     `json:"name,omitempty"`
	Vids   []Ref   `json:"vids,omitempty"`
	Bids   []Ref   `json:"bids,omitempty"`
	TV     []Ref   `json:"tv,omitempty"`
	Deltas []Delta `json:"deltas,omitempty"`
}
type TLog struct {
	Tid     int     `json:"tid"`
	Mtime   int64   `json:"mtime"`
	Entries []Entry `json:"entries"`
}
type PLog struct {
	Tid     int   `json:"tid"`
	Mtime   int64 `json:"mtime"`
	Handles []HS  `json:"handles"`
	Bad     bool  `json:"bad,omitempty"`
}
type StoreS struct {
	Store  int   `json:"s"`
	Count  int64 `json:"count"`
	InList bool  `json:"in_list"`
	Info   bool  `json:"info"`
	Folder bool  `json:"folder"`
}
type Snap struct {
	Handles []HS     `json:"handles"`
	Blobs   []Ref    `json:"blobs"`
	Stores  []StoreS `json:"stores"`
	TLogs   []TLog   `json:"tlogs"`
	PLogs   []PLog   `json:"plogs"`
}

// Names maps store names to small indices (1-based, fixed for the harness).
var storeNames = []string{"s1", "sv", "s0", "other", "s2"}

func storeIdx(tbl string) int {
	b := filepath.Base(tbl)
	for i, n := range storeNames {
		if n == b {
			return i + 1
		}
	}
	return 99
}

type canon struct{ *sopx.Canon }

func (c canon) handle(s int, h sop.Handle) HS {
	return HS{Store: s, Lid: c.ID(h.LogicalID), A: c.ID(h.PhysicalIDA), B: c.ID(h.PhysicalIDB), ActiveB: h.IsActiveIDB,
		Ver: int(h.Version), Wip: h.WorkInProgressTimestamp, Deleted: h.IsDeleted}
}

type kv struct {
	Key   int
	Value *string // base64 or null
}

func (c canon) vids(p []sop.RegistryPayload[sop.UUID]) (out []Ref) {
	for _, x := range p {
		for _, id := range x.IDs {
			out = append(out, Ref{storeIdx(x.RegistryTable), c.ID(id)})
		}
	}
	return
}
func (c canon) bids(p []sop.BlobsPayload[sop.UUID]) (out []Ref) {
	for _, x := range p {
		for _, id := range x.Blobs {
			out = append(out, Ref{storeIdx(x.BlobTable), c.ID(id)})
		}
	}
	return
}
func (c canon) tvs(p []sop.Tuple[bool, sop.BlobsPayload[sop.UUID]]) (out []Ref) {
	for _, x := range p {
		for _, id := range x.Second.Blobs {
			out = append(out, Ref{storeIdx(x.Second.BlobTable), c.ID(id)})
		}
	}
	return
}

func (c canon) entry(step int, raw []byte, has bool) Entry {
	e := Entry{Step: step, Has: has}
	if !has {
		return e
	}
	switch step {
	case 1:
		var s string
		json.Unmarshal(raw, &s)
		e.Name = storeIdx(s)
	case 3:
		var v []sop.Tuple[bool, sop.BlobsPayload[sop.UUID]]
		json.Unmarshal(raw, &v)
		e.TV = c.tvs(v)
	case 4, 8:
		var v sop.Tuple[[]sop.RegistryPayload[sop.UUID], []sop.BlobsPayload[sop.UUID]]
		json.Unmarshal(raw, &v)
		e.Vids, e.Bids = c.vids(v.First), c.bids(v.Second)
	case 6:
		var v []sop.BlobsPayload[sop.UUID]
		json.Unmarshal(raw, &v)
		e.Bids = c.bids(v)
	case 7:
		var v []sop.RegistryPayload[sop.UUID]
		json.Unmarshal(raw, &v)
		e.Vids = c.vids(v)
	case 9:
		var v []sop.StoreInfo
		json.Unmarshal(raw, &v)
		for _, s := range v {
			e.Deltas = append(e.Deltas, Delta{storeIdx(s.Name), s.CountDelta})
		}
	case 11:
		var v sop.Tuple[sop.Tuple[[]sop.RegistryPayload[sop.UUID], []sop.BlobsPayload[sop.UUID]], []sop.Tuple[bool, sop.BlobsPayload[sop.UUID]]]
		json.Unmarshal(raw, &v)
		e.Vids, e.Bids, e.TV = c.vids(v.First.First), c.bids(v.First.Second), c.tvs(v.Second)
	case 99:
		var v sop.BlobsPayload[sop.UUID]
		json.Unmarshal(raw, &v)
		e.Bids = c.bids([]sop.BlobsPayload[sop.UUID]{v})
	}
	return e
}

// readSnap decodes the durable state of folder with the scenario's canonicaliser.
func readSnap(folder string, c canon) (*Snap, error) {
	raw, err := sopx.ReadRaw(folder)
	if err != nil {
		return nil, err
	}
	s := &Snap{}
	inList := map[string]bool{}
	for _, n := range raw.StoreList {
		inList[n] = true
	}
	names := map[string]bool{}
	for n := range raw.Stores {
		names[n] = true
	}
	for n := range inList {
		names[n] = true
	}
	var ns []string
	for n := range names {
		ns = append(ns, n)
	}
	sort.Strings(ns)
	// ids are canonicalised in a fixed traversal order: logs first (tids), then stores by name
	tdir := filepath.Join(folder, "translogs")
	for _, f := range raw.TLogs {
		if !strings.HasSuffix(f, ".log") {
			continue
		}
		tid, err := sop.ParseUUID(strings.TrimSuffix(f, ".log"))
		if err != nil {
			continue
		}
		st, err := os.Stat(filepath.Join(tdir, f))
		if err != nil {
			continue
		}
		tl := TLog{Tid: c.ID(tid), Mtime: st.ModTime().UnixMilli()}
		fh, err := os.Open(filepath.Join(tdir, f))
		if err != nil {
			continue
		}
		sc := bufio.NewScanner(fh)
		sc.Buffer(make([]byte, 1<<20), 1<<24)
		for sc.Scan() {
			var e kv
			if json.Unmarshal(sc.Bytes(), &e) != nil {
				continue
			}
			if e.Value == nil {
				tl.Entries = append(tl.Entries, c.entry(e.Key, nil, false))
				continue
			}
			b, _ := base64.StdEncoding.DecodeString(*e.Value)
			tl.Entries = append(tl.Entries, c.entry(e.Key, b, true))
		}
		fh.Close()
		s.TLogs = append(s.TLogs, tl)
	}
	for _, f := range raw.PLogs {
		tid, err := sop.ParseUUID(strings.TrimSuffix(f, ".plg"))
		if err != nil {
			continue
		}
		p := filepath.Join(tdir, f)
		st, err := os.Stat(p)
		if err != nil {
			continue
		}
		pl := PLog{Tid: c.ID(tid), Mtime: st.ModTime().UnixMilli()}
		b, err := os.ReadFile(p)
		if err != nil || len(b) < 4 {
			pl.Bad = true
		} else {
			_ = binary.LittleEndian
			var data []sop.RegistryPayload[sop.Handle]
			if json.Unmarshal(b[:len(b)-4], &data) != nil {
				pl.Bad = true
			}
			for _, x := range data {
				for _, h := range x.IDs {
					pl.Handles = append(pl.Handles, c.handle(storeIdx(x.RegistryTable), h))
				}
			}
		}
		s.PLogs = append(s.PLogs, pl)
	}
	for _, n := range ns {
		rs := raw.Stores[n]
		ss := StoreS{Store: storeIdx(n), InList: inList[n], Folder: rs != nil}
		if rs != nil {
			if rs.Info != nil {
				ss.Info = true
				ss.Count = rs.Info.Count
			}
			for _, h := range rs.Handles {
				s.Handles = append(s.Handles, c.handle(ss.Store, h))
			}
			for _, b := range rs.Blobs {
				s.Blobs = append(s.Blobs, Ref{ss.Store, c.ID(b)})
			}
		}
		s.Stores = append(s.Stores, ss)
	}
	s.sort()
	return s, nil
}

func (s *Snap) sort() {
	sort.Slice(s.Handles, func(i, j int) bool {
		a, b := s.Handles[i], s.Handles[j]
		if a.Store != b.Store {
			return a.Store < b.Store
		}
		return a.Lid < b.Lid
	})
	sort.Slice(s.Blobs, func(i, j int) bool {
		a, b := s.Blobs[i], s.Blobs[j]
		if a.Store != b.Store {
			return a.Store < b.Store
		}
		return a.ID < b.ID
	})
	sort.Slice(s.Stores, func(i, j int) bool { return s.Stores[i].Store < s.Stores[j].Store })
	sort.Slice(s.TLogs, func(i, j int) bool { return s.TLogs[i].Tid < s.TLogs[j].Tid })
	sort.Slice(s.PLogs, func(i, j int) bool { return s.PLogs[i].Tid < s.PLogs[j].Tid })
}

// project keeps only what the maintenance model speaks about for the stores in keep.
func (s *Snap) withoutStore(drop int) *Snap {
	o := &Snap{TLogs: s.TLogs, PLogs: s.PLogs}
	for _, h := range s.Handles {
		if h.Store != drop {
			o.Handles = append(o.Handles, h)
		}
	}
	for _, b := range s.Blobs {
		if b.Store != drop {
			o.Blobs = append(o.Blobs, b)
		}
	}
	for _, x := range s.Stores {
		if x.Store != drop {
			o.Stores = append(o.Stores, x)
		}
	}
	return o
}

// ---------------------------------------------------------------- Coq printing

func coqRef(r Ref) string { return fmt.Sprintf("(%d,%d)", r.Store, r.ID) }
func coqRefs(rs []Ref) string {
	xs := make([]string, len(rs))
	for i, r := range rs {
		xs[i] = coqRef(r)
	}
	return hx.CoqList(xs)
}
func coqH(h HS) string {
	return fmt.Sprintf("(mkMH %d %d %d %d %s %s %s %s)", h.Store, h.Lid, h.A, h.B, hx.CoqBool(h.ActiveB), hx.CoqZ(int64(h.Ver)), hx.CoqZ(h.Wip), hx.CoqBool(h.Deleted))
}
func coqHs(hs []HS) string {
	xs := make([]string, len(hs))
	for i, h := range hs {
		xs[i] = coqH(h)
	}
	return hx.CoqList(xs)
}
func coqEntry(e Entry) string {
	ds := make([]string, len(e.Deltas))
	for i, d := range e.Deltas {
		ds[i] = fmt.Sprintf("(%d,%s)", d.Store, hx.CoqZ(d.D))
	}
	return fmt.Sprintf("(mkEntry %s %s %d %s %s %s %s)", hx.CoqZ(int64(e.Step)), hx.CoqBool(e.Has), e.Name, coqRefs(e.Vids), coqRefs(e.Bids), coqRefs(e.TV), hx.CoqList(ds))
}
func coqSnap(s *Snap) string {
	var tl, pl, st []string
	for _, t := range s.TLogs {
		es := make([]string, len(t.Entries))
		for i, e := range t.Entries {
			es[i] = coqEntry(e)
		}
		tl = append(tl, fmt.Sprintf("(mkTLog %d %s %s)", t.Tid, hx.CoqZ(t.Mtime), hx.CoqList(es)))
	}
	for _, p := range s.PLogs {
		pl = append(pl, fmt.Sprintf("(mkPLog %d %s %s)", p.Tid, hx.CoqZ(p.Mtime), coqHs(p.Handles)))
	}
	for _, x := range s.Stores {
		st = append(st, fmt.Sprintf("(mkStoreS %d %s %s %s %s)", x.Store, hx.CoqZ(x.Count), hx.CoqBool(x.InList), hx.CoqBool(x.Info), hx.CoqBool(x.Folder)))
	}
	return fmt.Sprintf("(mkDisk %s %s %s %s %s)", coqHs(s.Handles), coqRefs(s.Blobs), hx.CoqList(st), hx.CoqList(tl), hx.CoqList(pl))
}

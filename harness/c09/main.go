package main

// C09: work left by a crashed transaction is recovered by later transactions.
//
// A scenario = (writer shape, crash index k, clock offsets). The writer runs in a child
// process and dies (os.Exit) right before its k-th storage call. Then, each in a NEW
// process with sop.Now advanced past the documented ages:
//   public path : n transactions Begin/OpenBtree/Add/Commit  -> what is left?  (property, direct oracle)
//   hook path   : the maintenance routine entered behind its guard (verif export) -> what is left?
//   next writer : the same writer again on the same nodes -> does it commit?
// The decoded durable state before and after goes to the Coq model (Corr/C09.v), which must
// predict exactly which log files remain and every registry handle / blob / store count.

import (
	"encoding/json"
	"fmt"
	"os"
	"os/exec"
	"path/filepath"
	"sort"
	"strings"
	"sync"

	"github.com/sharedcode/sop/common"

	"verif/harness/hx"
	"verif/harness/sopx"
)

func main() { hx.Main("c09", runC09) }

const hourMs = int64(3600 * 1000)

type crashSpec struct {
	Shape string `json:"shape"`
	K     int    `json:"k"`
}

type scenario struct {
	Kind    string                    `json:"kind"` // "crash" | "age"
	Crashes []crashSpec               `json:"crashes,omitempty"`
	OffMs   int64                     `json:"off_ms,omitempty"`  // clock offset of the later processes
	Later   int                       `json:"later,omitempty"`   // number of public-path transactions
	StepMs  int64                     `json:"step_ms,omitempty"` // clock step between them / between maintenance entries
	Entries int                       `json:"entries,omitempty"` // maintenance entries on the hook path
	Globals *common.VerifMaintGlobals `json:"globals,omitempty"`
	Age     *ageIn                    `json:"age,omitempty"`
}

func (sc scenario) shapes() string {
	var xs []string
	for _, c := range sc.Crashes {
		xs = append(xs, c.Shape)
	}
	return strings.Join(xs, "+")
}

var scratch = "/var/tmp/C09"

func child(name string, args ...string) ([]byte, int, error) {
	cmd := exec.Command(os.Args[0], append([]string{"child:" + name}, args...)...)
	cmd.Stderr = os.Stderr
	out, err := cmd.Output()
	code := 0
	if ee, ok := err.(*exec.ExitError); ok {
		code = ee.ExitCode()
		err = nil
	}
	return out, code, err
}

func copyTree(src, dst string) error {
	return filepath.Walk(src, func(p string, info os.FileInfo, err error) error {
		if err != nil {
			return err
		}
		rel, _ := filepath.Rel(src, p)
		q := filepath.Join(dst, rel)
		if info.IsDir() {
			return os.MkdirAll(q, 0o755)
		}
		b, err := os.ReadFile(p)
		if err != nil {
			return err
		}
		if err := os.WriteFile(q, b, info.Mode()); err != nil {
			return err
		}
		return os.Chtimes(q, info.ModTime(), info.ModTime())
	})
}

var (
	baseOnce sync.Once
	baseDir  string
	baseErr  error
)

// base returns a folder holding the committed base state (built once per run).
func base() (string, error) {
	baseOnce.Do(func() {
		baseDir = filepath.Join(scratch, fmt.Sprintf("base-%d", os.Getpid()))
		os.RemoveAll(baseDir)
		_, code, err := child("c09setup", baseDir)
		if err != nil || code != 0 {
			baseErr = fmt.Errorf("setup child failed: code %d err %v", code, err)
		}
	})
	return baseDir, baseErr
}

var (
	evMu    sync.Mutex
	evCount = map[string]int{}
)

// events returns the number of armed storage calls of a shape's writer (run to completion once).
func events(shape string) (int, error) {
	evMu.Lock()
	defer evMu.Unlock()
	if n, ok := evCount[shape]; ok {
		return n, nil
	}
	b, err := base()
	if err != nil {
		return 0, err
	}
	d := filepath.Join(scratch, fmt.Sprintf("ev-%d-%s", os.Getpid(), shape))
	os.RemoveAll(d)
	defer os.RemoveAll(d)
	if err := copyTree(b, d); err != nil {
		return 0, err
	}
	out, code, err := child("c09crash", d, shape, "-1")
	if err != nil || code != 0 {
		return 0, fmt.Errorf("probe writer failed: code %d err %v", code, err)
	}
	var co crashOut
	json.Unmarshal(out, &co)
	if co.Err != "" {
		return 0, fmt.Errorf("probe writer of %s: %s", shape, co.Err)
	}
	evCount[shape] = co.Events
	return co.Events, nil
}

type outcome struct {
	Sc       scenario
	S0       *Snap // after the crash(es)
	SPublic  *Snap // after the public-path transactions
	SHook    *Snap // after the hook-entered maintenance (on a copy of S0)
	Later    laterOut
	Hook     hookOut
	NextPub  nextOut // fresh read + next writer after the public path
	NextHook nextOut // fresh read + next writer after the hook path
	Crashed  bool
	Err      string
}

var seq int
var seqMu sync.Mutex

func runScenario(sc scenario) *outcome {
	o := &outcome{Sc: sc}
	b, err := base()
	if err != nil {
		o.Err = err.Error()
		return o
	}
	seqMu.Lock()
	seq++
	id := seq
	seqMu.Unlock()
	d := filepath.Join(scratch, fmt.Sprintf("sc-%d-%d", os.Getpid(), id))
	dh := d + "-hook"
	os.RemoveAll(d)
	os.RemoveAll(dh)
	defer os.RemoveAll(d)
	defer os.RemoveAll(dh)
	if err := copyTree(b, d); err != nil {
		o.Err = err.Error()
		return o
	}
	for _, cs := range sc.Crashes {
		_, code, err := child("c09crash", d, cs.Shape, fmt.Sprint(cs.K))
		if err != nil || (code != 0 && code != 3) {
			o.Err = fmt.Sprintf("crash child: code %d err %v", code, err)
			return o
		}
		o.Crashed = o.Crashed || code == 3
	}
	c := canon{sopx.NewCanon()}
	if o.S0, err = readSnap(d, c); err != nil {
		o.Err = err.Error()
		return o
	}
	if err := copyTree(d, dh); err != nil {
		o.Err = err.Error()
		return o
	}
	endOff := sc.OffMs + int64(sc.Later+sc.Entries+1)*sc.StepMs
	// public path
	out, code, err := child("c09later", d, fmt.Sprint(sc.OffMs), fmt.Sprint(sc.Later), fmt.Sprint(sc.StepMs))
	if err != nil || code != 0 {
		o.Err = fmt.Sprintf("later child: code %d err %v", code, err)
		return o
	}
	json.Unmarshal(out, &o.Later)
	if o.SPublic, err = readSnap(d, c); err != nil {
		o.Err = err.Error()
		return o
	}
	out, _, _ = child("c09next", d, sc.shapes(), fmt.Sprint(endOff))
	json.Unmarshal(out, &o.NextPub)
	// hook path
	hi := hookIn{Folder: dh, Globals: sc.Globals, Open: "other"}
	for i := 0; i < sc.Entries; i++ {
		hi.OffMs = append(hi.OffMs, sc.OffMs+int64(i)*sc.StepMs)
	}
	hj, _ := json.Marshal(hi)
	out, code, err = child("c09hook", string(hj))
	if err != nil || code != 0 {
		o.Err = fmt.Sprintf("hook child: code %d err %v", code, err)
		return o
	}
	json.Unmarshal(out, &o.Hook)
	if o.SHook, err = readSnap(dh, c); err != nil {
		o.Err = err.Error()
		return o
	}
	out, _, _ = child("c09next", dh, sc.shapes(), fmt.Sprint(endOff))
	json.Unmarshal(out, &o.NextHook)
	return o
}

func logSummary(s *Snap) string {
	var xs []string
	for _, t := range s.TLogs {
		var st []string
		for _, e := range t.Entries {
			st = append(st, fmt.Sprint(e.Step))
		}
		xs = append(xs, fmt.Sprintf("log%d[%s]", t.Tid, strings.Join(st, ",")))
	}
	for _, p := range s.PLogs {
		xs = append(xs, fmt.Sprintf("plg%d(%d)", p.Tid, len(p.Handles)))
	}
	return strings.Join(xs, " ")
}

func dumpSummary(d *sopx.Dump) string {
	if d == nil {
		return "-"
	}
	var xs []string
	for _, n := range d.Names {
		s := d.Stores[n]
		if n == "other" {
			continue
		}
		x := fmt.Sprintf("%s:%d/%d", n, s.Count, len(s.Keys))
		if s.Err != "" {
			x += "!" + s.Err
		}
		xs = append(xs, x)
	}
	if d.Err != "" {
		xs = append(xs, "ERR "+d.Err)
	}
	return strings.Join(xs, " ")
}

func explore(shapes []string) {
	for _, sh := range shapes {
		n, err := events(sh)
		fmt.Println("shape", sh, "events", n, err)
		var wg sync.WaitGroup
		outs := make([]*outcome, n+1)
		sem := make(chan bool, 12)
		for k := 0; k <= n; k++ {
			wg.Add(1)
			go func(k int) {
				defer wg.Done()
				sem <- true
				defer func() { <-sem }()
				outs[k] = runScenario(scenario{Kind: "crash", Crashes: []crashSpec{{sh, k}}, OffMs: 5 * hourMs, Later: 3, StepMs: 6 * 60 * 1000, Entries: 2})
			}(k)
		}
		wg.Wait()
		for k, o := range outs {
			if o.Err != "" {
				fmt.Println(" k", k, "ERR", o.Err)
				continue
			}
			fmt.Printf(" k=%d crashed=%v class=%s\n   S0:   %s\n   pub:  %s | next=%q | %s | btrees=%v foreign=%d\n   hook: %s | next=%q | %s\n",
				k, o.Crashed, classify(o.S0), logSummary(o.S0), logSummary(o.SPublic), o.NextPub.Writer.Err, dumpSummary(o.NextPub.Dump), o.Later.BtreesAtBegin, o.Later.Foreign,
				logSummary(o.SHook), o.NextHook.Writer.Err, dumpSummary(o.NextHook.Dump))
			if os.Getenv("C09_EXPLORE") == "2" {
				a, _ := json.Marshal(o.S0)
				b, _ := json.Marshal(o.SHook)
				fmt.Println("   S0  ", string(a))
				fmt.Println("   HOOK", string(b))
			}
		}
	}
}

func runC09(cfg *hx.RunCfg) (*hx.Result, error) {
	res := hx.NewResult("C09")
	os.MkdirAll(scratch, 0o755)
	defer func() {
		if baseDir != "" {
			os.RemoveAll(baseDir)
		}
	}()
	if os.Getenv("C09_EXPLORE") != "" {
		shapes := cfg.Args
		if len(shapes) == 0 {
			shapes = []string{"upd"}
		}
		sort.Strings(shapes)
		explore(shapes)
		return res, nil
	}
	return runAll(cfg, res)
}

package main

// Child entry points of the C09 harness. Every stage of a scenario runs in its
// own OS process: the in-memory L2 cache (locks!), the L1 cache and the
// maintenance scheduling globals are process-global, and a crash is os.Exit.

import (
	"context"
	"log/slog"
	"encoding/json"
	"fmt"
	"os"
	"strconv"
	"strings"
	"time"

	"github.com/sharedcode/sop"
	"github.com/sharedcode/sop/common"

	"verif/harness/hx"
	"verif/harness/sopx"
)

const hashMod = 2

var bg = context.Background()

func storeOpts(name string) sopx.StoreOpts {
	o := sopx.StoreOpts{Name: name, Slot: 4, Unique: true, InNode: true}
	if name == "sv" { // values in their own blobs
		o.InNode = false
	}
	return o
}

// setNow makes sop.Now run offMs ahead of the wall clock.
func setNow(offMs int64) {
	sop.Now = func() time.Time { return time.Now().Add(time.Duration(offMs) * time.Millisecond) }
}

func mustTxn(e *sopx.Env, label string, plain bool, maxTime time.Duration) *sopx.Txn {
	t, err := e.NewTxn(bg, sop.ForWriting, maxTime, label, plain)
	if err != nil {
		fmt.Fprintln(os.Stderr, "NewTxn:", err)
		os.Exit(4)
	}
	if err := t.Begin(bg); err != nil {
		fmt.Fprintln(os.Stderr, "Begin:", err)
		os.Exit(4)
	}
	return t
}

// childSetup builds the committed base state every shape starts from.
func childSetup(args []string) int {
	folder := args[0]
	e, err := sopx.NewEnv(folder, hashMod)
	if err != nil {
		return 4
	}
	commit := func(f func(t *sopx.Txn) error) {
		t := mustTxn(e, "setup", true, time.Minute)
		if err := f(t); err != nil {
			fmt.Fprintln(os.Stderr, "setup ops:", err)
			os.Exit(4)
		}
		if err := t.Commit(bg); err != nil {
			fmt.Fprintln(os.Stderr, "setup commit:", err)
			os.Exit(4)
		}
	}
	for _, name := range []string{"s1", "sv"} {
		commit(func(t *sopx.Txn) error {
			b, err := t.NewStore(bg, storeOpts(name))
			if err != nil {
				return err
			}
			for i := 0; i < 3; i++ {
				if _, err := b.Add(bg, i, fmt.Sprint("v", i)); err != nil {
					return err
				}
			}
			return nil
		})
		commit(func(t *sopx.Txn) error {
			b, err := t.OpenStore(bg, name)
			if err != nil {
				return err
			}
			for i := 3; i < 12; i++ {
				if _, err := b.Add(bg, i, fmt.Sprint("v", i)); err != nil {
					return err
				}
			}
			return nil
		})
	}
	for _, name := range []string{"s0", "other"} { // empty committed stores
		commit(func(t *sopx.Txn) error {
			_, err := t.NewStore(bg, storeOpts(name))
			return err
		})
	}
	return 0
}

// writerOps performs the operations of a writer shape on t. The recorder is armed by the
// caller (for "create" before NewStore, because createStore is logged there).
var upsertMode bool

type storeOps interface {
	Add(context.Context, int, string) (bool, error)
	Update(context.Context, int, string) (bool, error)
	Upsert(context.Context, int, string) (bool, error)
	Remove(context.Context, int) (bool, error)
}
type upserting struct{ storeOps }

func (u upserting) Add(ctx context.Context, k int, v string) (bool, error) { return u.Upsert(ctx, k, v) }

func writerOps(t *sopx.Txn, shape string) error {
	open := func(name string) (storeOps, error) {
		b, err := t.OpenStore(bg, name)
		if err != nil {
			return nil, err
		}
		if upsertMode {
			return upserting{b}, nil
		}
		return b, nil
	}
	switch shape {
	case "upd", "svupd":
		name := "s1"
		if shape == "svupd" {
			name = "sv"
		}
		b, err := open(name)
		if err != nil {
			return err
		}
		_, err = b.Update(bg, 5, "changed")
		return err
	case "add", "svadd":
		name := "s1"
		if shape == "svadd" {
			name = "sv"
		}
		b, err := open(name)
		if err != nil {
			return err
		}
		for i := 12; i < 21; i++ {
			if _, err := b.Add(bg, i, fmt.Sprint("w", i)); err != nil {
				return err
			}
		}
		return nil
	case "rem":
		b, err := open("s1")
		if err != nil {
			return err
		}
		for i := 0; i < 9; i++ {
			if _, err := b.Remove(bg, i); err != nil {
				return err
			}
		}
		return nil
	case "newroot":
		b, err := open("s0")
		if err != nil {
			return err
		}
		for i := 0; i < 3; i++ {
			if _, err := b.Add(bg, i, fmt.Sprint("r", i)); err != nil {
				return err
			}
		}
		return nil
	case "create":
		b0, err := t.NewStore(bg, storeOpts("s2"))
		if err != nil {
			return err
		}
		var b storeOps = b0
		if upsertMode {
			b = upserting{b0}
		}
		for i := 0; i < 3; i++ {
			if _, err := b.Add(bg, i, fmt.Sprint("c", i)); err != nil {
				return err
			}
		}
		return nil
	case "two": // two stores in one transaction
		b, err := open("s1")
		if err != nil {
			return err
		}
		if _, err := b.Update(bg, 1, "x1"); err != nil {
			return err
		}
		c, err := open("s0")
		if err != nil {
			return err
		}
		_, err = c.Add(bg, 7, "y7")
		return err
	}
	return fmt.Errorf("unknown shape %q", shape)
}

type crashOut struct {
	Events int    `json:"events"`
	Tid    string `json:"tid"`
	Err    string `json:"err,omitempty"`
}

// childCrash runs the writer of a shape and exits with status 3 right before armed call k
// (k < 0: run to completion and report the number of armed calls).
func childCrash(args []string) int {
	folder, shape := args[0], args[1]
	k, _ := strconv.Atoi(args[2])
	e, err := sopx.NewEnv(folder, hashMod)
	if err != nil {
		return 4
	}
	e.Rec.Mute["l2.GetStruct"] = true
	e.Rec.Mute["l2.GetStructEx"] = true
	e.Rec.Mute["l2.SetStruct"] = true
	e.Rec.Mute["l2.Delete"] = true
	e.Rec.Mute["sr.Get"] = true
	e.Rec.Mute["sr.GetWithTTL"] = true
	e.Rec.Mute["blob.GetOne"] = true
	e.Rec.Before = func(ev *sopx.Event) sopx.Action {
		if k >= 0 && ev.Seq == k {
			os.Exit(3)
		}
		return sopx.Proceed
	}
	t := mustTxn(e, "w", false, time.Minute)
	e.Rec.Arm()
	out := crashOut{Tid: t.Two.GetID().String()}
	if err := writerOps(t, shape); err != nil {
		out.Err = "ops: " + err.Error()
	} else if err := t.Commit(bg); err != nil {
		out.Err = "commit: " + err.Error()
	}
	e.Rec.Disarm()
	out.Events = len(e.Rec.Snapshot())
	b, _ := json.Marshal(out)
	os.Stdout.Write(b)
	return 0
}

type laterOut struct {
	Errs     []string                 `json:"errs"`
	BtreesAtBegin []int               `json:"btrees_at_begin"`
	Foreign  int                      `json:"foreign_log_calls"` // tlog/plog calls of later transactions on a tid that is not their own
	Globals  common.VerifMaintGlobals `json:"globals"`
	NowMs    []int64                  `json:"now_ms"`
}

// childLater runs n later transactions through the public path only
// (Begin; OpenBtree; Add; Commit) on store "other", each stepMs later than the previous.
func childLater(args []string) int {
	folder := args[0]
	off, _ := strconv.ParseInt(args[1], 10, 64)
	n, _ := strconv.Atoi(args[2])
	step, _ := strconv.ParseInt(args[3], 10, 64)
	e, err := sopx.NewEnv(folder, hashMod)
	if err != nil {
		return 4
	}
	var out laterOut
	for i := 0; i < n; i++ {
		setNow(off + int64(i)*step)
		out.NowMs = append(out.NowMs, sop.Now().UnixMilli())
		t, err := e.NewTxn(bg, sop.ForWriting, time.Minute, fmt.Sprint("later", i), false)
		if err != nil {
			out.Errs = append(out.Errs, "new: "+err.Error())
			continue
		}
		own := e.Rec.Canon.ID(t.Two.GetID())
		e.Rec.Reset()
		e.Rec.Arm()
		err = t.Begin(bg)
		out.BtreesAtBegin = append(out.BtreesAtBegin, t.Two.VerifBtreeCount())
		if err == nil {
			var b interface {
				Add(context.Context, int, string) (bool, error)
			}
			b, err = t.OpenStore(bg, "other")
			if err == nil {
				_, err = b.Add(bg, 1000+int(sop.Now().UnixMilli()%1000000)*10+i, "later")
			}
			if err == nil {
				err = t.Commit(bg)
			}
		}
		e.Rec.Disarm()
		for _, ev := range e.Rec.Snapshot() {
			if (ev.Iface == "tlog" || ev.Iface == "plog") && len(ev.IDs) > 0 && ev.IDs[0] != own {
				out.Foreign++
			}
		}
		if err != nil {
			out.Errs = append(out.Errs, err.Error())
		} else {
			out.Errs = append(out.Errs, "")
		}
	}
	out.Globals = common.VerifGetMaint()
	b, _ := json.Marshal(out)
	os.Stdout.Write(b)
	return 0
}

type hookIn struct {
	Folder  string                    `json:"folder"`
	OffMs   []int64                   `json:"off_ms"`  // clock offset of each maintenance entry
	Globals *common.VerifMaintGlobals `json:"globals"` // nil: fresh-process defaults
	Open    string                    `json:"open"`    // store opened before the entry ("" = none: the guard fires)
}
type hookOut struct {
	NowMs   []int64                    `json:"now_ms"`
	Globals []common.VerifMaintGlobals `json:"globals"` // after each entry
	Btrees  int                        `json:"btrees"`
	Err     string                     `json:"err,omitempty"`
}

// childHook enters the maintenance routine (onIdle) on a begun transaction with an open
// B-tree, i.e. behind the guard, once per clock offset.
func childHook(args []string) int {
	var in hookIn
	if err := json.Unmarshal([]byte(args[0]), &in); err != nil {
		return 4
	}
	e, err := sopx.NewEnv(in.Folder, hashMod)
	if err != nil {
		return 4
	}
	var out hookOut
	if in.Globals != nil {
		common.VerifSetMaint(*in.Globals)
	}
	for _, off := range in.OffMs {
		setNow(off)
		t := mustTxn(e, "maint", true, time.Minute)
		if in.Open != "" {
			if _, err := t.OpenStore(bg, in.Open); err != nil {
				out.Err = "open: " + err.Error()
				break
			}
		}
		out.Btrees = t.Two.VerifBtreeCount()
		setNow(off) // the instant is re-read by the routines themselves; keep the offset fixed
		out.NowMs = append(out.NowMs, sop.Now().UnixMilli())
		t.Two.VerifOnIdle(bg)
		out.Globals = append(out.Globals, common.VerifGetMaint())
		t.Rollback(bg)
	}
	b, _ := json.Marshal(out)
	os.Stdout.Write(b)
	return 0
}

type nextOut struct {
	Dump   *sopx.Dump `json:"dump"`   // what a fresh process reads BEFORE the next writer
	Writer crashOut   `json:"writer"` // the next writer's result
}

// childNext: in a fresh process, first read every store (cold caches), then repeat the writer
// of the shape ("the next writer on the same nodes") with the clock offset and a short commit
// budget. Adds are upserts so that a crashed-but-committed writer does not count as a conflict.
func childNext(args []string) int {
	folder, shape := args[0], args[1]
	off, _ := strconv.ParseInt(args[2], 10, 64)
	setNow(off)
	var out nextOut
	out.Dump = sopx.DumpInProcess(bg, folder, hashMod, false)
	e, err := sopx.NewEnv(folder, hashMod)
	if err != nil {
		return 4
	}
	upsertMode = true
	for _, sh := range strings.Split(shape, "+") {
		t := mustTxn(e, "next", true, 3*time.Second)
		out.Writer.Tid = t.Two.GetID().String()
		if err := writerOps(t, sh); err != nil {
			out.Writer.Err = sh + " ops: " + err.Error()
			t.Rollback(bg)
			break
		} else if err := t.Commit(bg); err != nil {
			out.Writer.Err = sh + " commit: " + err.Error()
			break
		}
	}
	b, _ := json.Marshal(out)
	os.Stdout.Write(b)
	return 0
}

func init() {
	slog.SetLogLoggerLevel(slog.LevelError + 4)
	hx.Children["c09setup"] = childSetup
	hx.Children["c09crash"] = childCrash
	hx.Children["c09later"] = childLater
	hx.Children["c09hook"] = childHook
	hx.Children["c09next"] = childNext
}

package main

import (
	"fmt"

	"verif/harness/c04/cx"
	"verif/harness/hx"
	"verif/harness/protox"
)

func main() {
	hx.Main("c06", func(cfg *hx.RunCfg) (*hx.Result, error) {
		res, err := protox.Run(protox.Mode{Prop: "C06", Faults: true, FailAfter: true, ShapesQuick: 24, ShapesThor: 45, MaxFaults: 14}, cfg, protox.EmitCoq)
		if res != nil {
			res.Imports = []string{"Lib.Bytes", "Proto", "Corr.Proto"}
			res.CaseType = "protocase"
			res.Checker = "proto_check"
			res.Rule = "generated programs (1-3 stores x value placement x slot length 2-8 x op mix forcing new root/split/node removal/update) with a populated prefix; the subject transaction is run fault-free and once per injected failure at an interface call of its commit (fail = not performed, failafter = performed then reported failed); each run in a child process, state read back by a fresh process; plus concurrent histories: two writers adding disjoint keys to the same leaves of an existing store under random gate schedules (the loser refetches and merges), Count() vs scan length in a fresh process; distinct = distinct (program, fault) pairs / distinct concurrent programs; non-trivial = a fault is injected or the subject has > 2 ops / at least one writer merged"
		}
		if err != nil || cfg.Replay != "" {
			return res, err
		}
		// concurrent histories (the count delta must be rebased when a writer refetches and merges)
		n := 6
		if cfg.Tier == "thorough" {
			n = 80
		}
		r := hx.NewRng(hx.NewRng(cfg.Seed).U64() + 6)
		var jobs []cx.Job
		for len(jobs) < n {
			p := cx.GenDisjoint(r, "leaf")
			if len(p.Writers) != 2 {
				continue
			}
			p.Schedule = cx.RandomSchedule(r, 2)
			jobs = append(jobs, cx.Job{P: p, Bucket: "c06-conc", NoModel: true})
		}
		outs := cx.RunAll(jobs, 6, false)
		for i, o := range outs {
			p := jobs[i].P
			merged := false
			committed := 0
			for _, w := range o.W {
				if w.Merges > 0 {
					merged = true
				}
				if w.Committed {
					committed++
				}
			}
			res.Seen(fmt.Sprintf("conc:%v:%v", p.Init, p.Writers), merged)
			res.Count(fmt.Sprintf("concurrent.committed=%d", committed))
			if merged {
				res.Count("concurrent.merged")
			}
			if o.Dump == nil || o.DumpErr != "" || o.ChildErr != "" || o.SetupErr != "" || o.Stuck != "" {
				res.Count("concurrent.unusable")
				continue
			}
			if o.Dump.Err == "" && o.Dump.Count != int64(len(o.Dump.Keys)) {
				res.Fail("count-mismatch/concurrent-disjoint-adds", fmt.Sprintf("two writers adding disjoint keys to one store (one refetched and merged): Count()=%d but a scan returns %d items", o.Dump.Count, len(o.Dump.Keys)), map[string]any{"concurrent": p})
			}
		}
		return res, nil
	})
}

package main

import (
	"context"
	"encoding/json"
	"fmt"
	"os"

	"github.com/sharedcode/sop"
	"github.com/sharedcode/sop/btree"
	"github.com/sharedcode/sop/cache"
	"github.com/sharedcode/sop/database"
)

// ---------------------------------------------------------------- scenario

// A scenario is a list of process segments; every segment runs in a fresh OS
// process (empty L1 and L2 caches). Segment 0 starts with the set-up
// transaction that creates the store and commits the initial items.
type Scenario struct {
	Kind      string   `json:"kind"`      // bytes|ints|map|ptr|sws|struct|string
	Placement string   `json:"placement"` // node|medium|big
	Init      []int    `json:"init"`      // datum of key i (keys are 0..len-1)
	Fillers   int      `json:"fillers,omitempty"`    // other one-node stores, read by an "evict" step to push the node out of a small L1
	PreUpdate bool     `json:"pre_update,omitempty"` // set-up also updates every item once (separate-segment stores: node slots then carry no value)
	Segs      [][]Step `json:"segs"`
}

type Step struct {
	Op   string `json:"op"`             // setup|tx|dropl1|evict
	Mode string `json:"mode,omitempty"` // w|r
	Acts []Act  `json:"acts,omitempty"`
	End  string `json:"end,omitempty"` // commit|rollback
}

type Act struct {
	Op    string `json:"op"` // read|mut|replace|update
	Key   int    `json:"key,omitempty"`
	API   string `json:"api,omitempty"` // value|item
	H     int    `json:"h"`             // handle index (order of the reads of the scenario)
	Depth int    `json:"depth,omitempty"`
	Val   int    `json:"val,omitempty"`
}

// Obs is what one action showed: the deep content of the value at that moment.
type Obs struct {
	Seg, Step, Act int
	Found          bool
	Snap           []int
	Err            string `json:",omitempty"`
}

// ---------------------------------------------------------------- value kinds

type pT struct {
	A int
	B []byte
}
type swsT struct {
	A int
	B []byte
}
type structT struct {
	A int
	S string
}

// kind describes one TV: how a datum becomes a value, the deep content of a
// value as a chain of numbers (depth 0 = the TV itself, deeper = what it
// refers to; 0 where a level carries no data), and the in-place write at a depth.
type kind[TV any] struct {
	mk   func(d int) TV
	snap func(v TV) []int
	mut  func(p *TV, depth, val int) bool
}

func toInt(x any) int {
	switch n := x.(type) {
	case int:
		return n
	case float64:
		return int(n)
	case int64:
		return int(n)
	case json.Number:
		i, _ := n.Int64()
		return int(i)
	}
	return -999
}

var kBytes = kind[[]byte]{
	mk:   func(d int) []byte { return []byte{byte(d), 7, 7} },
	snap: func(v []byte) []int {
		if len(v) == 0 {
			return []int{0, -1}
		}
		return []int{0, int(v[0])}
	},
	mut: func(p *[]byte, depth, val int) bool {
		if depth != 1 || len(*p) == 0 {
			return false
		}
		(*p)[0] = byte(val)
		return true
	},
}
var kInts = kind[[]int]{
	mk:   func(d int) []int { return []int{d, 7} },
	snap: func(v []int) []int {
		if len(v) == 0 {
			return []int{0, -1}
		}
		return []int{0, v[0]}
	},
	mut: func(p *[]int, depth, val int) bool {
		if depth != 1 || len(*p) == 0 {
			return false
		}
		(*p)[0] = val
		return true
	},
}
var kMap = kind[map[string]any]{
	mk:   func(d int) map[string]any { return map[string]any{"x": d, "c": "k"} },
	snap: func(v map[string]any) []int { return []int{0, toInt(v["x"])} },
	mut: func(p *map[string]any, depth, val int) bool {
		if depth != 1 || *p == nil {
			return false
		}
		(*p)["x"] = val
		return true
	},
}
var kPtr = kind[*pT]{
	mk: func(d int) *pT { return &pT{A: d, B: []byte{byte(d + 1), 7}} },
	snap: func(v *pT) []int {
		if v == nil {
			return []int{0, -1, -1}
		}
		b := -1
		if len(v.B) > 0 {
			b = int(v.B[0])
		}
		return []int{0, v.A, b}
	},
	mut: func(p **pT, depth, val int) bool {
		if *p == nil {
			return false
		}
		switch depth {
		case 1:
			(*p).A = val
			return true
		case 2:
			if len((*p).B) == 0 {
				return false
			}
			(*p).B[0] = byte(val)
			return true
		}
		return false
	},
}
var kSws = kind[swsT]{
	mk: func(d int) swsT { return swsT{A: d, B: []byte{byte(d + 1), 7}} },
	snap: func(v swsT) []int {
		b := -1
		if len(v.B) > 0 {
			b = int(v.B[0])
		}
		return []int{v.A, b}
	},
	mut: func(p *swsT, depth, val int) bool {
		switch depth {
		case 0:
			p.A = val
			return true
		case 1:
			if len(p.B) == 0 {
				return false
			}
			p.B[0] = byte(val)
			return true
		}
		return false
	},
}
var kStruct = kind[structT]{
	mk:   func(d int) structT { return structT{A: d, S: "s"} },
	snap: func(v structT) []int { return []int{v.A} },
	mut: func(p *structT, depth, val int) bool {
		if depth != 0 {
			return false
		}
		p.A = val
		return true
	},
}
var kString = kind[string]{
	mk: func(d int) string { return fmt.Sprintf("%d", d) },
	snap: func(v string) []int {
		n := 0
		fmt.Sscanf(v, "%d", &n)
		return []int{n}
	},
	mut: func(p *string, depth, val int) bool {
		if depth != 0 {
			return false
		}
		*p = fmt.Sprintf("%d", val) // strings are immutable: the only "mutation" is assignment
		return true
	},
}

// chainLen: number of levels of the kind's value chain.
func chainLen(kindName string) int {
	switch kindName {
	case "struct", "string":
		return 1
	case "ptr":
		return 3
	}
	return 2
}

// dataOf: the chain a datum d is stored as (what mk(d) snapshots to).
func dataOf(kindName string, d int) []int {
	switch kindName {
	case "struct", "string":
		return []int{d}
	case "ptr":
		return []int{0, d, (d + 1) & 255}
	case "sws":
		return []int{d, (d + 1) & 255}
	}
	return []int{0, d}
}

// mutDepths: depths at which an in-place write is meaningful for the kind.
func mutDepths(kindName string) []int {
	switch kindName {
	case "struct", "string":
		return []int{0}
	case "ptr":
		return []int{1, 2}
	case "sws":
		return []int{0, 1}
	}
	return []int{1}
}

// ---------------------------------------------------------------- execution (child process)

func dbOpts(dir string) sop.DatabaseOptions {
	return sop.DatabaseOptions{Type: sop.Standalone, StoresFolders: []string{dir}}
}

func storeOpts(placement string) sop.StoreOptions {
	sz := sop.SmallData
	switch placement {
	case "medium":
		sz = sop.MediumData
	case "big":
		sz = sop.BigData
	}
	so := sop.ConfigureStore("c38", true, 8, "C38", sz, "")
	so.IsPrimitiveKey = true
	return so
}

func runSegment[TV any](k kind[TV], dir string, sc *Scenario, seg int, handles map[int]*TV) ([]Obs, error) {
	ctx := context.Background()
	var out []Obs
	for si, st := range sc.Segs[seg] {
		switch st.Op {
		case "dropl1":
			cache.VerifDropL1Nodes()
		case "setup":
			tx, err := database.BeginTransaction(ctx, dbOpts(dir), sop.ForWriting)
			if err != nil {
				return out, err
			}
			b, err := database.NewBtree[int, TV](ctx, dbOpts(dir), "c38", tx, nil, storeOpts(sc.Placement))
			if err != nil {
				return out, err
			}
			for key, d := range sc.Init {
				if ok, err := b.Add(ctx, key, k.mk(d)); err != nil || !ok {
					return out, fmt.Errorf("setup add: %v %v", ok, err)
				}
			}
			for f := 0; f < sc.Fillers; f++ {
				so := sop.ConfigureStore(fmt.Sprintf("fill%d", f), true, 8, "C38 filler", sop.SmallData, "")
				so.IsPrimitiveKey = true
				fb, err := database.NewBtree[int, int](ctx, dbOpts(dir), so.Name, tx, nil, so)
				if err != nil {
					return out, err
				}
				if ok, err := fb.Add(ctx, 1, f); err != nil || !ok {
					return out, fmt.Errorf("setup filler add: %v %v", ok, err)
				}
			}
			if err := tx.Commit(ctx); err != nil {
				return out, err
			}
			if sc.PreUpdate {
				tx, err := database.BeginTransaction(ctx, dbOpts(dir), sop.ForWriting)
				if err != nil {
					return out, err
				}
				b, err := database.OpenBtree[int, TV](ctx, dbOpts(dir), "c38", tx, nil)
				if err != nil {
					return out, err
				}
				for key, d := range sc.Init {
					if found, err := b.Find(ctx, key, false); err != nil || !found {
						return out, fmt.Errorf("setup update find: %v %v", found, err)
					}
					if ok, err := b.UpdateCurrentValue(ctx, k.mk(d)); err != nil || !ok {
						return out, fmt.Errorf("setup update: %v %v", ok, err)
					}
				}
				if err := tx.Commit(ctx); err != nil {
					return out, err
				}
			}
		case "evict":
			// natural eviction: the process runs with a tiny L1 (public capacity knobs, see childSeg);
			// reading the filler stores' nodes pushes the scenario's node out of the MRU while it stays in L2
			tx, err := database.BeginTransaction(ctx, dbOpts(dir), sop.ForReading)
			if err != nil {
				return out, err
			}
			for f := 0; f < sc.Fillers; f++ {
				fb, err := database.OpenBtree[int, int](ctx, dbOpts(dir), fmt.Sprintf("fill%d", f), tx, nil)
				if err != nil {
					return out, err
				}
				if ok, err := fb.First(ctx); err != nil || !ok {
					return out, fmt.Errorf("evict: filler %d: %v %v", f, ok, err)
				}
				if _, err := fb.GetCurrentValue(ctx); err != nil {
					return out, err
				}
			}
			if err := tx.Commit(ctx); err != nil {
				return out, err
			}
		case "tx":
			mode := sop.ForWriting
			if st.Mode == "r" {
				mode = sop.ForReading
			}
			tx, err := database.BeginTransaction(ctx, dbOpts(dir), mode)
			if err != nil {
				return out, err
			}
			var b btree.BtreeInterface[int, TV]
			b, err = database.OpenBtree[int, TV](ctx, dbOpts(dir), "c38", tx, nil)
			if err != nil {
				return out, err
			}
			for ai, a := range st.Acts {
				o := Obs{Seg: seg, Step: si, Act: ai}
				switch a.Op {
				case "read":
					found, err := b.Find(ctx, a.Key, false)
					if err != nil {
						return out, err
					}
					o.Found = found
					if found {
						if a.API == "item" {
							it, err := b.GetCurrentItem(ctx)
							if err != nil {
								return out, err
							}
							if it.Value == nil {
								o.Err = "nil value"
							} else {
								handles[a.H] = it.Value
								o.Snap = k.snap(*it.Value)
							}
						} else {
							v, err := b.GetCurrentValue(ctx)
							if err != nil {
								return out, err
							}
							p := new(TV)
							*p = v
							handles[a.H] = p
							o.Snap = k.snap(v)
						}
					}
				case "mut":
					if p := handles[a.H]; p != nil {
						o.Found = k.mut(p, a.Depth, a.Val)
						o.Snap = k.snap(*p)
					}
				case "replace":
					if p := handles[a.H]; p != nil {
						*p = k.mk(a.Val)
						o.Found = true
						o.Snap = k.snap(*p)
					}
				case "update":
					if p := handles[a.H]; p != nil {
						found, err := b.Find(ctx, a.Key, false)
						if err != nil {
							return out, err
						}
						if found {
							ok, err := b.UpdateCurrentValue(ctx, *p)
							if err != nil {
								return out, err
							}
							o.Found = ok
						}
						o.Snap = k.snap(*p)
					}
				}
				out = append(out, o)
			}
			if st.End == "commit" {
				if err := tx.Commit(ctx); err != nil {
					return out, fmt.Errorf("commit: %v", err)
				}
			} else {
				if err := tx.Rollback(ctx); err != nil {
					return out, fmt.Errorf("rollback: %v", err)
				}
			}
		}
	}
	return out, nil
}

func runSegmentKind(dir string, sc *Scenario, seg int) ([]Obs, error) {
	switch sc.Kind {
	case "bytes":
		return runSegment(kBytes, dir, sc, seg, map[int]*[]byte{})
	case "ints":
		return runSegment(kInts, dir, sc, seg, map[int]*[]int{})
	case "map":
		return runSegment(kMap, dir, sc, seg, map[int]*map[string]any{})
	case "ptr":
		return runSegment(kPtr, dir, sc, seg, map[int]**pT{})
	case "sws":
		return runSegment(kSws, dir, sc, seg, map[int]*swsT{})
	case "struct":
		return runSegment(kStruct, dir, sc, seg, map[int]*structT{})
	case "string":
		return runSegment(kString, dir, sc, seg, map[int]*string{})
	}
	return nil, fmt.Errorf("unknown kind %q", sc.Kind)
}

// BatchItem is one scenario of a batch with its database folder.
type BatchItem struct {
	Dir string   `json:"dir"`
	Sc  Scenario `json:"sc"`
}

type SegResult struct {
	Obs []Obs
	Err string
}

// childSeg: `child:seg SPECFILE SEG` runs segment SEG of every scenario of the batch that has one
// (one after the other, each on its own database folder) and prints the observations as JSON.
func childSeg(args []string) int {
	if len(args) != 2 {
		return 2
	}
	raw, err := os.ReadFile(args[0])
	if err != nil {
		fmt.Fprintln(os.Stderr, err)
		return 2
	}
	var batch []BatchItem
	if err := json.Unmarshal(raw, &batch); err != nil {
		fmt.Fprintln(os.Stderr, err)
		return 2
	}
	seg := 0
	fmt.Sscanf(args[1], "%d", &seg)
	if os.Getenv("VERIF_C38_SMALL_L1") != "" {
		// public capacity knobs of the process-wide L1 (read when the first transaction creates it)
		cache.DefaultStandaloneMinCapacity, cache.DefaultStandaloneMaxCapacity = 2, 4
		cache.DefaultMinCapacity, cache.DefaultMaxCapacity = 2, 4
	}
	out := map[int]SegResult{}
	for i := range batch {
		if seg >= len(batch[i].Sc.Segs) {
			continue
		}
		var r SegResult
		func() {
			defer func() {
				if p := recover(); p != nil {
					r.Err = fmt.Sprint("panic: ", p)
				}
			}()
			obs, err := runSegmentKind(batch[i].Dir, &batch[i].Sc, seg)
			r.Obs = obs
			if err != nil {
				r.Err = err.Error()
			}
		}()
		out[i] = r
	}
	js, _ := json.Marshal(out)
	fmt.Println("C38OBS " + string(js))
	return 0
}

package main

import (
	"encoding/json"
	"fmt"
	"os"
	"os/exec"
	"path/filepath"
	"strings"

	"verif/harness/hx"
)

// C38: values returned by reads are private to the caller.
// K2 correspondence: every scenario (read / mutate in place / write back /
// commit or roll back / cache events / process restarts) is executed on the
// real store in child processes; every read's deep content is recorded and
// compared (a) with the property itself (direct oracle: a read returns the
// committed value) and (b) with the heap model of Alias.v inside Coq.

func main() {
	hx.Children["seg"] = childSeg
	hx.Main("c38", runC38)
}

func scratchRoot() string {
	if w := os.Getenv("VERIF_WORK"); w != "" {
		return filepath.Join(w, "scratch")
	}
	return "/var/tmp/C38/scratch"
}

// execBatch runs the scenarios segment by segment: one fresh OS process per segment index
// executes that segment of every scenario (sequentially, each on its own database folder).
// A scenario therefore sees empty L1/L2 caches at the start of each of its segments.
func execBatch(scs []*Scenario, base int, smallL1 bool) ([][]Obs, []error) {
	root := scratchRoot()
	batch := make([]BatchItem, len(scs))
	maxSeg := 0
	for i, sc := range scs {
		dir := filepath.Join(root, fmt.Sprintf("db%d", base+i))
		os.RemoveAll(dir)
		os.MkdirAll(dir, 0o755)
		batch[i] = BatchItem{Dir: dir, Sc: *sc}
		if len(sc.Segs) > maxSeg {
			maxSeg = len(sc.Segs)
		}
	}
	defer func() {
		for _, b := range batch {
			os.RemoveAll(b.Dir)
		}
	}()
	spec := filepath.Join(root, fmt.Sprintf("batch%d.json", base))
	js, _ := json.Marshal(batch)
	os.WriteFile(spec, js, 0o644)
	defer os.Remove(spec)
	obs := make([][]Obs, len(scs))
	errs := make([]error, len(scs))
	for s := 0; s < maxSeg; s++ {
		cmd := exec.Command(selfExe(), "child:seg", spec, fmt.Sprint(s))
		cmd.Dir = root
		if smallL1 {
			cmd.Env = append(os.Environ(), "VERIF_C38_SMALL_L1=1")
		}
		outb, err := cmd.CombinedOutput()
		var line string
		for _, l := range strings.Split(string(outb), "\n") {
			if strings.HasPrefix(l, "C38OBS ") {
				line = strings.TrimPrefix(l, "C38OBS ")
			}
		}
		res := map[int]SegResult{}
		if line == "" || json.Unmarshal([]byte(line), &res) != nil {
			for i := range scs {
				if s < len(scs[i].Segs) && errs[i] == nil {
					errs[i] = fmt.Errorf("segment %d: no result (%v): %s", s, err, tail(string(outb), 600))
				}
			}
			continue
		}
		for i := range scs {
			if s >= len(scs[i].Segs) || errs[i] != nil {
				continue
			}
			r, ok := res[i]
			if !ok {
				errs[i] = fmt.Errorf("segment %d: missing result", s)
				continue
			}
			obs[i] = append(obs[i], r.Obs...)
			if r.Err != "" {
				errs[i] = fmt.Errorf("segment %d: %s", s, r.Err)
			}
		}
	}
	return obs, errs
}

func selfExe() string {
	if e, err := os.Executable(); err == nil {
		return e
	}
	a, _ := filepath.Abs(os.Args[0])
	return a
}

func tail(s string, n int) string {
	if len(s) > n {
		return s[len(s)-n:]
	}
	return s
}

// ---------------------------------------------------------------- direct oracle

// expectation of the property: every read returns the committed value of the
// key (initial datum, or the content written back by the last committed
// Update), a transaction's own Update being visible to its later reads.

func eqInts(a, b []int) bool {
	if len(a) != len(b) {
		return false
	}
	for i := range a {
		if a[i] != b[i] {
			return false
		}
	}
	return true
}

// oracle walks the scenario with the observations and reports reads that differ
// from the committed value. The class of a deviation is
//   alias/<how the offending in-place write reached shared storage>/<where the later read was served from>
// how:  ref-value    write through a reference-typed value returned by GetCurrentValue (depth >= 1)
//       item-pointer write through the Value pointer of the Item returned by GetCurrentItem
//       value-copy   write to the caller's own copy (must never be visible)
//       unexplained  no in-place write explains the content
// where: same-tx | l1 (later transaction, node from the L1 MRU) | durable (after an L1 drop or in a fresh process:
//        the write was serialised with the node by a later commit)
func oracle(sc *Scenario, obs []Obs) (fails []string, whats []string) {
	committed := map[int][]int{}
	for k, d := range sc.Init {
		committed[k] = dataOf(sc.Kind, d)
	}
	type hinfo struct {
		key   int
		api   string
		l2hit bool // read in a transaction whose node came through the L1-miss / L2-hit branch of L1Cache.GetNode
	}
	handles := map[int]hinfo{}
	type write struct {
		api       string
		depth     int
		val       int
		replace   bool
		seg, txid int
		drops     int
		l2hit     bool
	}
	// where the value of a separate-segment store really lives: a freshly created node blob carries the
	// values too; once the items were updated the slots carry no value and every transaction fetches its own
	// (observed on the unchanged code: true for actively persisted "big" stores; a "medium" store's node keeps
	// handing out the shared value after an update as well, so it stays in the in-node class)
	pclass := "in-node-blob"
	if sc.Placement == "big" && sc.PreUpdate {
		pclass = "separate"
	}
	writes := map[int][]write{}
	oi := 0
	txid := 0
	for si, seg := range sc.Segs {
		// L1-miss/L2-hit with a usable version: the node was loaded off the blob store by this process (which puts
		// a copy with the right version into L2), then left L1, and no commit of this process has rewritten it since
		segFetched, segDirty, dropped := false, false, false
		for _, st := range seg {
			switch st.Op {
			case "setup":
				segDirty = true
			case "dropl1", "evict":
				dropped = true
				for k := range writes {
					for i := range writes[k] {
						writes[k][i].drops++
					}
				}
			case "tx":
				txid++
				txL2hit := segFetched && dropped && !segDirty
				segFetched, dropped = true, false
				hasUpdate := false
				own := map[int][]int{}
				absorbed := map[int]int{} // key -> number of in-place writes made before its write-back
				for _, a := range st.Acts {
					if oi >= len(obs) {
						return
					}
					o := obs[oi]
					oi++
					switch a.Op {
					case "read":
						handles[a.H] = hinfo{a.Key, a.API, txL2hit}
						want := committed[a.Key]
						if w, ok := own[a.Key]; ok {
							want = w
						}
						if !o.Found || !eqInts(o.Snap, want) {
							how, where := "unexplained", "none"
							ws := writes[a.Key]
							for i := len(ws) - 1; i >= 0; i-- {
								w := ws[i]
								match := false
								if w.replace {
									match = eqInts(o.Snap, dataOf(sc.Kind, w.val))
								} else if w.depth < len(o.Snap) {
									match = o.Snap[w.depth] == w.val || (sc.Kind != "ints" && sc.Kind != "map" && o.Snap[w.depth] == w.val&255)
								}
								if !match {
									continue
								}
								switch {
								case w.api == "item":
									how = "item-pointer"
								case w.depth >= 1 && !w.replace:
									how = "ref-value"
								default:
									how = "value-copy"
								}
								switch {
								case w.seg != si || w.drops > 0:
									where = "durable" // served from the L2 cache or the blob store: the write was persisted
								case w.txid == txid:
									where = "same-tx"
								case w.l2hit:
									// the writer's node came through the L2-hit branch: its own signature class, split by
									// where the store keeps the value (privacy HOLDS there for separate value segments)
									where = "l2-hit/" + pclass
								default:
									where = "l1"
								}
								break
							}
							sig := fmt.Sprintf("alias/%s/%s", how, where)
							fails = append(fails, sig)
							whats = append(whats, fmt.Sprintf("kind %s, placement %s: read of key %d (segment %d, %s API) returned %v found=%v, the committed value is %v", sc.Kind, sc.Placement, a.Key, si, a.API, o.Snap, o.Found, want))
						}
					case "mut", "replace":
						h, ok := handles[a.H]
						if !ok || !o.Found {
							continue
						}
						writes[h.key] = append(writes[h.key], write{api: h.api, depth: a.Depth, val: a.Val, replace: a.Op == "replace", seg: si, txid: txid, l2hit: h.l2hit})
					case "update":
						if o.Found {
							own[a.Key] = o.Snap
							absorbed[a.Key] = len(writes[a.Key])
							hasUpdate = true
						}
					}
				}
				if st.End == "commit" {
					for k, v := range own {
						committed[k] = v
						writes[k] = writes[k][absorbed[k]:] // later in-place writes were not written back
					}
					if hasUpdate {
						segDirty = true
					}
				}
			}
		}
	}
	return
}

// ---------------------------------------------------------------- Coq printing

func coqInts(xs []int) string {
	var p []string
	for _, x := range xs {
		if x < 0 {
			x = 9999
		}
		p = append(p, fmt.Sprint(x))
	}
	return "[" + strings.Join(p, ";") + "]"
}

func coqAct(kindName string, a Act) string {
	api := "ApiValue"
	if a.API == "item" {
		api = "ApiItem"
	}
	switch a.Op {
	case "read":
		return fmt.Sprintf("ARead %d %s", a.Key, api)
	case "mut":
		return fmt.Sprintf("AMut %s %s %d", hx.CoqNat(a.H), hx.CoqNat(a.Depth), a.Val)
	case "replace":
		return fmt.Sprintf("AReplace %s %s", hx.CoqNat(a.H), coqInts(dataOf(kindName, a.Val)))
	case "update":
		return fmt.Sprintf("AUpdate %d %s", a.Key, hx.CoqNat(a.H))
	}
	return "ARead 0 ApiValue"
}

func coqScenario(sc *Scenario, obs []Obs) string {
	var evs []string
	for si, seg := range sc.Segs {
		if si > 0 {
			evs = append(evs, "ERestart")
		}
		for _, st := range seg {
			switch st.Op {
			case "dropl1", "evict":
				evs = append(evs, "EDropL1")
			case "tx":
				var as []string
				for _, a := range st.Acts {
					as = append(as, coqAct(sc.Kind, a))
				}
				evs = append(evs, fmt.Sprintf("ETx %s %s", hx.CoqList(as), hx.CoqBool(st.End == "commit")))
			}
		}
	}
	var os_ []string
	for _, o := range obs {
		os_ = append(os_, fmt.Sprintf("(%s, %s)", hx.CoqBool(o.Found), coqInts(o.Snap)))
	}
	var init []string
	for _, d := range sc.Init {
		init = append(init, coqInts(dataOf(sc.Kind, d)))
	}
	return fmt.Sprintf("AliasCase %s %s %s %s", hx.CoqBool(sc.Placement == "node"), hx.CoqList(init), hx.CoqList(evs), hx.CoqList(os_))
}

// ---------------------------------------------------------------- one case

type pending struct {
	sc  *Scenario
	tag string
}

var queue []pending
var caseSeq int

func c38Case(res *hx.Result, sc *Scenario, tag string) { queue = append(queue, pending{sc, tag}) }

func flush(res *hx.Result) {
	// scenarios that rely on natural eviction run in processes with a tiny L1 (public capacity knobs)
	var normal, small []pending
	for _, p := range queue {
		if p.sc.Fillers > 0 {
			small = append(small, p)
		} else {
			normal = append(normal, p)
		}
	}
	queue = nil
	flushPart(res, normal, false)
	flushPart(res, small, true)
}

func flushPart(res *hx.Result, q []pending, smallL1 bool) {
	const B = 250
	for len(q) > 0 {
		n := len(q)
		if n > B {
			n = B
		}
		part := q[:n]
		q = q[n:]
		scs := make([]*Scenario, n)
		for i := range part {
			scs[i] = part[i].sc
		}
		obs, errs := execBatch(scs, caseSeq, smallL1)
		caseSeq += n
		for i := range part {
			record(res, part[i].sc, part[i].tag, obs[i], errs[i])
		}
	}
}

func record(res *hx.Result, sc *Scenario, tag string, obs []Obs, err error) {
	js, _ := json.Marshal(sc)
	nMut := 0
	for _, seg := range sc.Segs {
		for _, st := range seg {
			for _, a := range st.Acts {
				if a.Op == "mut" || a.Op == "replace" {
					nMut++
				}
			}
		}
	}
	res.Seen(string(js), nMut > 0)
	res.Count("kind." + sc.Kind)
	res.Count("placement." + sc.Placement)
	res.Count(fmt.Sprintf("segments.%d", len(sc.Segs)))
	res.Count("src." + tag)
	if err != nil {
		res.Fail("harness-error", "scenario could not be executed: "+err.Error(), sc)
		return
	}
	sigs, whats := oracle(sc, obs)
	seen := map[string]bool{}
	for i, s := range sigs {
		if !seen[s] {
			seen[s] = true
			res.Fail(s, whats[i], sc)
			res.Count("deviation." + s)
		}
	}
	if len(sigs) == 0 {
		res.Count("deviation.none")
	}
	if sc.Placement == "node" {
		// the heap model covers values kept in the node segment; for the other placements the
		// node blob may or may not carry the value (it does for a freshly created root), so
		// only the direct oracle is applied there
		res.AddCase(coqScenario(sc, obs), sc)
	}
	res.Sample(map[string]any{"scenario": sc, "observations": obs, "deviations": sigs})
}

// ---------------------------------------------------------------- generators

var kinds = []string{"bytes", "map", "ints", "ptr", "sws", "struct", "string"}
var placements = []string{"node", "medium", "big"}

func setupStep() Step { return Step{Op: "setup"} }

// matrix scenario: read key 0 with api, write in place at depth, end the transaction, then read again
// (same transaction first, then a later one reached through `path`).
func matrixScenario(kindName, placement, api string, depth int, replace bool, coldFirst bool, end string, mode string, path string) *Scenario {
	sc := &Scenario{Kind: kindName, Placement: placement, Init: []int{11, 22, 33}}
	mutAct := Act{Op: "mut", H: 0, Depth: depth, Val: 99}
	if replace {
		mutAct = Act{Op: "replace", H: 0, Val: 99}
	}
	tx1 := Step{Op: "tx", Mode: mode, End: end, Acts: []Act{
		{Op: "read", Key: 0, API: api, H: 0},
		mutAct,
		{Op: "read", Key: 0, API: "value", H: 1},
		{Op: "read", Key: 1, API: "value", H: 2},
	}}
	tx2 := Step{Op: "tx", Mode: "r", End: "commit", Acts: []Act{{Op: "read", Key: 0, API: "value", H: 3}, {Op: "read", Key: 1, API: "value", H: 4}}}
	seg0 := []Step{setupStep()}
	var segs [][]Step
	cur := seg0
	if coldFirst {
		segs = append(segs, cur)
		cur = nil
	}
	cur = append(cur, tx1)
	switch path {
	case "l1":
		cur = append(cur, tx2)
	case "l2":
		cur = append(cur, Step{Op: "dropl1"}, tx2)
	case "disk":
		segs = append(segs, cur)
		cur = []Step{tx2}
	}
	segs = append(segs, cur)
	sc.Segs = segs
	return sc
}

// durableScenario: an in-place write that is never written back (the transaction is rolled back) is
// persisted when another transaction of the same process updates a different key of the same node.
func durableScenario(kindName, api string, depth int) *Scenario {
	return &Scenario{Kind: kindName, Placement: "node", Init: []int{11, 22, 33}, Segs: [][]Step{
		{setupStep()},
		{
			{Op: "tx", Mode: "w", End: "rollback", Acts: []Act{{Op: "read", Key: 0, API: api, H: 0}, {Op: "mut", H: 0, Depth: depth, Val: 99}}},
			{Op: "tx", Mode: "w", End: "commit", Acts: []Act{{Op: "read", Key: 1, API: "value", H: 1}, {Op: "replace", H: 1, Val: 77}, {Op: "update", Key: 1, H: 1}}},
		},
		{{Op: "tx", Mode: "r", End: "commit", Acts: []Act{{Op: "read", Key: 0, API: "value", H: 2}, {Op: "read", Key: 1, API: "value", H: 3}, {Op: "read", Key: 2, API: "value", H: 4}}}},
	}}
}

// l2hitScenario drives the L1-miss / L2-hit branch of L1Cache.GetNode with a version that matches the handle:
// fresh process (empty L2) -> a transaction loads the node off the blob store (copy with the right version goes
// to L2) -> the node leaves L1 (natural eviction from a tiny L1, or the drop hook) -> reader R1 fetches the node
// through L2, reads key 0, writes to what it got in place (and, in-node, writes key 2 back) and rolls back ->
// R2 (same process), R3 (after another eviction) and a fresh process must read the committed values.
func l2hitScenario(kindName, placement string, preUpdate bool, api string, depth int, natural bool) *Scenario {
	sc := &Scenario{Kind: kindName, Placement: placement, Init: []int{11, 22, 33}, PreUpdate: preUpdate}
	out := Step{Op: "dropl1"}
	if natural {
		sc.Fillers = 6
		out = Step{Op: "evict"}
	}
	r1 := Step{Op: "tx", Mode: "w", End: "rollback", Acts: []Act{
		{Op: "read", Key: 0, API: api, H: 1},
		{Op: "mut", H: 1, Depth: depth, Val: 99},
	}}
	if placement == "node" {
		// a rolled-back write-back must not reach the shared entry either
		r1.Acts = append(r1.Acts, Act{Op: "read", Key: 2, API: "value", H: 2}, Act{Op: "replace", H: 2, Val: 77}, Act{Op: "update", Key: 2, H: 2})
	}
	look := func(h int) Step {
		return Step{Op: "tx", Mode: "r", End: "commit", Acts: []Act{{Op: "read", Key: 0, API: "value", H: h}, {Op: "read", Key: 2, API: "value", H: h + 1}, {Op: "read", Key: 1, API: "value", H: h + 2}}}
	}
	sc.Segs = [][]Step{
		{setupStep()},
		{{Op: "tx", Mode: "r", End: "commit", Acts: []Act{{Op: "read", Key: 1, API: "value", H: 0}}}, out, r1, look(3), out, look(6)},
		{look(9)},
	}
	return sc
}

func genScenario(r *hx.Rng) *Scenario {
	kindName := hx.Pick(r, kinds)
	placement := "node"
	if r.Chance(20) {
		placement = hx.Pick(r, placements)
	}
	nkeys := 2 + r.Intn(3)
	sc := &Scenario{Kind: kindName, Placement: placement}
	for i := 0; i < nkeys; i++ {
		sc.Init = append(sc.Init, 10+r.Intn(80))
	}
	h := 0
	cur := []Step{setupStep()}
	if r.Chance(30) {
		sc.Segs = append(sc.Segs, cur)
		cur = nil
	}
	val := 99
	nextVal := func() int { val++; return 100 + (val-100)%150 } // distinct values, so that a deviation names its write
	var live []int          // handles of this process segment (a caller may keep a value after its transaction ended)
	keyOf := map[int]int{}  // handle -> key it was read from
	ntx := 2 + r.Intn(3)
	for t := 0; t < ntx; t++ {
		st := Step{Op: "tx", Mode: "w", End: "rollback"}
		if r.Chance(50) {
			st.End = "commit"
		}
		updated := map[int]bool{} // handles written back in this tx are not mutated again before its end
		var mine []int            // handles read in this tx (only these are written back)
		hasUpdate := false
		na := 1 + r.Intn(5)
		for i := 0; i < na; i++ {
			switch c := r.Intn(10); {
			case c < 4 || len(live) == 0:
				api := "value"
				if r.Chance(35) {
					api = "item"
				}
				k := r.Intn(nkeys)
				st.Acts = append(st.Acts, Act{Op: "read", Key: k, API: api, H: h})
				live = append(live, h)
				mine = append(mine, h)
				keyOf[h] = k
				h++
			case c < 8:
				hh := hx.Pick(r, live)
				if updated[hh] {
					continue
				}
				st.Acts = append(st.Acts, Act{Op: "mut", H: hh, Depth: hx.Pick(r, mutDepths(kindName)), Val: nextVal()})
			case c < 9:
				hh := hx.Pick(r, live)
				if updated[hh] {
					continue
				}
				st.Acts = append(st.Acts, Act{Op: "replace", H: hh, Val: nextVal()})
			default:
				if len(mine) == 0 || placement != "node" {
					continue
				}
				hh := hx.Pick(r, mine)
				st.Acts = append(st.Acts, Act{Op: "update", Key: keyOf[hh], H: hh})
				updated[hh] = true
				hasUpdate = true
			}
		}
		if !hasUpdate && r.Chance(40) {
			st.Mode = "r"
		}
		cur = append(cur, st)
		switch c := r.Intn(10); {
		case c < 2:
			cur = append(cur, Step{Op: "dropl1"})
		case c < 4:
			sc.Segs = append(sc.Segs, cur)
			cur = nil
			live = nil
		}
	}
	// final observation of every key, in this process and once more from disk
	for pass := 0; pass < 2; pass++ {
		fin := Step{Op: "tx", Mode: "r", End: "commit"}
		for k := 0; k < nkeys; k++ {
			fin.Acts = append(fin.Acts, Act{Op: "read", Key: k, API: "value", H: h})
			h++
		}
		cur = append(cur, fin)
		sc.Segs = append(sc.Segs, cur)
		cur = nil
	}
	return sc
}

func runC38(cfg *hx.RunCfg) (*hx.Result, error) {
	res := hx.NewResult("C38")
	res.Imports = []string{"Lib.Bytes", "Alias", "Corr.C38"}
	res.CaseType = "c38case"
	res.Checker = "c38_check"
	res.Rule = "scenario = value kind x value placement x process segments of transactions (read via GetCurrentValue/GetCurrentItem, in-place write at a depth, replace, write back, commit/rollback) with L1 drops and process restarts; corpus = the full matrix kind x api x depth x {warm, cold first read} x {rollback, commit} x {same tx, L1, L2, fresh process}; distinct = distinct scenario JSON; non-trivial = at least one in-place write"
	os.MkdirAll(scratchRoot(), 0o755)
	defer os.RemoveAll(scratchRoot())
	if cfg.Replay != "" {
		raw, err := os.ReadFile(cfg.Replay)
		if err != nil {
			return nil, err
		}
		var rp struct {
			Input Scenario `json:"input"`
		}
		if err := json.Unmarshal(raw, &rp); err != nil {
			return nil, err
		}
		c38Case(res, &rp.Input, "replay")
		flush(res)
		return res, nil
	}
	thorough := cfg.Tier == "thorough"
	// corpus: the matrix
	for _, kn := range kinds {
		for _, pl := range placements {
			if pl != "node" && !thorough && kn != "bytes" && kn != "ptr" {
				continue
			}
			for _, api := range []string{"value", "item"} {
				for _, d := range mutDepths(kn) {
					for _, path := range []string{"l1", "l2", "disk"} {
						for _, cold := range []bool{false, true} {
							for _, end := range []string{"rollback", "commit"} {
								if !thorough && (cold && path != "l1" || end == "commit" && path == "disk") {
									continue
								}
								mode := "w"
								if end == "commit" && path == "l2" {
									mode = "r"
								}
								c38Case(res, matrixScenario(kn, pl, api, d, false, cold, end, mode, path), "matrix")
							}
						}
					}
				}
				if api == "item" {
					c38Case(res, matrixScenario(kn, pl, api, 0, true, false, "rollback", "w", "l1"), "matrix")
				}
			}
		}
	}
	for _, kn := range kinds {
		for _, d := range mutDepths(kn) {
			if d > 0 {
				c38Case(res, durableScenario(kn, "value", d), "corpus-durable")
			}
			c38Case(res, durableScenario(kn, "item", d), "corpus-durable")
		}
	}
	// corpus: the L1-miss / L2-hit path, per kind, placement state and API
	type pst struct {
		placement string
		pre       bool
	}
	for _, ps := range []pst{{"node", false}, {"big", true}, {"medium", true}, {"big", false}, {"medium", false}} {
		for _, kn := range kinds {
			if ps.placement != "node" && !ps.pre && kn != "bytes" && kn != "ptr" {
				continue
			}
			for _, api := range []string{"value", "item"} {
				if !thorough && api == "item" && kn != "bytes" && kn != "string" {
					continue
				}
				for _, d := range mutDepths(kn) {
					c38Case(res, l2hitScenario(kn, ps.placement, ps.pre, api, d, false), "corpus-l2hit")
					if thorough || (kn == "bytes" && api == "value") || (kn == "string" && api == "item") {
						c38Case(res, l2hitScenario(kn, ps.placement, ps.pre, api, d, true), "corpus-l2hit-evict")
					}
				}
			}
		}
	}
	n := cfg.N
	if n == 0 {
		n = 150
		if thorough {
			n = 2500
		}
	}
	r := hx.NewRng(cfg.Seed)
	for i := 0; i < n; i++ {
		c38Case(res, genScenario(r), "random")
	}
	flush(res)
	return res, nil
}

package main

// C14: transaction modes and lifecycle are enforced.
//
// K2 correspondence: call sequences over {Begin, Commit, Rollback, Phase1Commit, Phase2Commit,
// Close, Add, Find, Update, Remove, NewBtree, OpenBtree} x 3 modes x {store absent, store holding
// one item} are executed on the real API (infs transaction, filesystem store directory, in-memory
// L2 cache), exhaustively up to a length, plus longer random ones. Every sequence gets its own
// fresh directory. The calls run in worker child processes; the stored data is read back by other
// fresh child processes (the L1 cache is process-global). The result class of every call and the
// final stored data go to cases_*.v where the Coq model (Lifecycle.v) must agree, and the
// property itself is checked directly on what the implementation did.

import (
	"context"
	"encoding/json"
	"fmt"
	"os"
	"os/exec"
	"path/filepath"
	"runtime"
	"strconv"
	"strings"
	"sync"
	"time"

	"verif/harness/hx"
)

func main() { hx.Main("c14", runC14) }

type callSpec struct {
	C int `json:"c"`           // call kind
	K int `json:"k,omitempty"` // key (store operations)
	V int `json:"v,omitempty"` // value (Add/Update)
}

type seqSpec struct {
	Mode  int        `json:"mode"`  // index into modes
	Init  int        `json:"init"`  // 0: store absent, 1: store "s" holds {1:10}
	Calls []callSpec `json:"calls"` //
	Tag   string     `json:"tag,omitempty"`
	Fault *faultSpec `json:"fault,omitempty"` // one armed storage failure (writers)
}

func (s seqSpec) String() string {
	var w []string
	for _, c := range s.Calls {
		switch c.C {
		case cAdd, cUpdate:
			w = append(w, fmt.Sprintf("%s(%d,%d)", callNames[c.C], c.K, c.V))
		case cFind, cRemove:
			w = append(w, fmt.Sprintf("%s(%d)", callNames[c.C], c.K))
		default:
			w = append(w, callNames[c.C])
		}
	}
	f := ""
	if s.Fault != nil {
		f = fmt.Sprintf(" fault(%s)@%d", s.Fault.Kind, s.Fault.At)
	}
	return fmt.Sprintf("%s init=%d [%s]%s", modeNames[s.Mode], s.Init, strings.Join(w, ","), f)
}

type execOut struct {
	Res   []int  `json:"res"`
	Panic string `json:"panic,omitempty"`
	Fired bool   `json:"fired,omitempty"` // the armed failure was injected
	Phase int    `json:"phase,omitempty"` // ... 0 before phase 2 / in Rollback, 1 in phase 2 before the commit point, 2 after it
}

func mkCall(kind, pos int) callSpec {
	c := callSpec{C: kind}
	switch kind {
	case cAdd, cUpdate:
		c.K, c.V = theKey, valueOfStep(pos)
	case cFind, cRemove:
		c.K = theKey
	}
	return c
}

// key variants of the exhaustive sets (the alphabet has one Add, one Find, one Update, one Remove):
//
//	0: every store operation acts on key 1 (on the seeded store Add(1) is a duplicate)
//	1: seeded store: Add inserts the NEW key 2, Find/Update/Remove act on the stored key 1
//	2: seeded store only: Add inserts key 2 and Find/Update/Remove act on that new key
func variantKeys(variant, init int) (addKey, opKey int, ok bool) {
	switch {
	case variant == 0 || init == 0 && variant == 1:
		return theKey, theKey, true
	case variant == 1:
		return 2, theKey, true
	case variant == 2 && init == 1:
		return 2, 2, true
	}
	return 0, 0, false
}

// allSeqs appends every sequence prefix ++ w for w over the alphabet with |w| in [lo,hi], for the given modes and both initial disks.
func allSeqs(plan []seqSpec, prefix []int, lo, hi int, ms []int, tag string, variant int) []seqSpec {
	// Begin,OpenBtree on the absent store only rolls the transaction back (covered by the unprefixed sets)
	skipAbsent := len(prefix) == 2 && prefix[1] == cOpenBtree && lo >= 3
	var rec func(cur []int)
	rec = func(cur []int) {
		n := len(cur) - len(prefix)
		if n >= lo {
			for _, m := range ms {
				for init := 0; init < 2; init++ {
					addKey, opKey, ok := variantKeys(variant, init)
					if !ok || skipAbsent && init == 0 {
						continue
					}
					s := seqSpec{Mode: m, Init: init, Tag: tag}
					for i, k := range cur {
						c := mkCall(k, i)
						if k == cAdd {
							c.K = addKey
						} else if c.K != 0 {
							c.K = opKey
						}
						s.Calls = append(s.Calls, c)
					}
					plan = append(plan, s)
				}
			}
		}
		if n == hi {
			return
		}
		for k := 0; k < nCalls; k++ {
			rec(append(append([]int(nil), cur...), k))
		}
	}
	rec(append([]int(nil), prefix...))
	return plan
}

func corpus() []seqSpec {
	mk := func(mode, init int, tag string, ks ...int) seqSpec {
		s := seqSpec{Mode: mode, Init: init, Tag: tag}
		for i, k := range ks {
			s.Calls = append(s.Calls, mkCall(k, i))
		}
		return s
	}
	var out []seqSpec
	// known finding: a read-only / no-check transaction creates a store
	out = append(out, mk(2, 0, "corpus", cBegin, cNewBtree, cCommit))
	out = append(out, mk(0, 0, "corpus", cBegin, cNewBtree, cCommit))
	out = append(out, mk(2, 0, "corpus", cBegin, cNewBtree))
	out = append(out, mk(2, 0, "corpus", cBegin, cNewBtree, cP1, cP2, cRollback))
	// Phase1Commit run again (directly or through Commit) over work it already persisted: with only
	// added items tracked it "succeeds" and drops them; with updates/removes or a created store it fails
	mk2 := func(init int, cs ...callSpec) seqSpec { return seqSpec{Mode: 1, Init: init, Tag: "corpus", Calls: cs} }
	A := func(k, v int) callSpec { return callSpec{C: cAdd, K: k, V: v} }
	U := func(k, v int) callSpec { return callSpec{C: cUpdate, K: k, V: v} }
	D := func(k int) callSpec { return callSpec{C: cRemove, K: k} }
	F := func(k int) callSpec { return callSpec{C: cFind, K: k} }
	L := func(c int) callSpec { return callSpec{C: c} }
	out = append(out,
		mk2(1, L(cBegin), L(cNewBtree), A(2, 102), L(cP1), L(cP1), L(cRollback), F(3), F(1)), // minimised thorough-tier mismatch
		mk2(1, L(cBegin), L(cNewBtree), A(2, 102), L(cP1), L(cCommit)),
		mk2(1, L(cBegin), L(cNewBtree), A(2, 102), L(cP1), L(cP1), F(2), F(1), A(2, 107), L(cP2)),
		mk2(1, L(cBegin), L(cOpenBtree), A(2, 102), A(3, 103), L(cP1), D(3), L(cP1), L(cP1), L(cP2)),
		mk2(1, L(cBegin), L(cOpenBtree), A(2, 102), L(cP1), A(3, 104), L(cP1), A(2, 106), L(cRollback)),
		mk2(1, L(cBegin), L(cOpenBtree), A(2, 102), U(2, 103), L(cP1), L(cP1), L(cP2)),
		mk2(1, L(cBegin), L(cOpenBtree), A(2, 102), L(cP1), D(2), L(cP1), L(cP2)),
		mk2(1, L(cBegin), L(cOpenBtree), A(2, 102), U(1, 103), L(cP1), L(cP1), L(cP2)),
		mk2(1, L(cBegin), L(cOpenBtree), A(2, 102), L(cP1), U(1, 104), L(cP1), L(cP2)),
		mk2(1, L(cBegin), L(cOpenBtree), A(2, 102), D(1), L(cP1), L(cP1)),
		mk2(1, L(cBegin), L(cOpenBtree), D(1), A(1, 103), L(cP1), L(cP1), L(cP2)),
		mk2(0, L(cBegin), L(cNewBtree), A(1, 102), A(2, 103), L(cP1), L(cP1), L(cP2)),
	)
	// ordinary life cycles
	for m := 0; m < 3; m++ {
		for init := 0; init < 2; init++ {
			out = append(out, mk(m, init, "corpus", cBegin, cNewBtree, cAdd, cFind, cUpdate, cCommit, cRollback, cBegin, cCommit))
			out = append(out, mk(m, init, "corpus", cBegin, cOpenBtree, cFind, cRemove, cFind, cAdd, cP1, cP2, cP2, cRollback))
			out = append(out, mk(m, init, "corpus", cBegin, cNewBtree, cUpdate, cP1, cP1, cP2))
			out = append(out, mk(m, init, "corpus", cBegin, cNewBtree, cRemove, cP1, cAdd, cP2, cFind))
			out = append(out, mk(m, init, "corpus", cBegin, cNewBtree, cAdd, cP1, cRollback, cCommit, cBegin))
			out = append(out, mk(m, init, "corpus", cBegin, cNewBtree, cClose, cAdd, cClose, cCommit, cClose))
			out = append(out, mk(m, init, "corpus", cP2, cCommit, cRollback, cBegin, cBegin, cP2, cNewBtree, cAdd, cCommit))
		}
	}
	return out
}

func randomSeq(r *hx.Rng) seqSpec {
	s := seqSpec{Mode: r.Intn(3), Init: r.Intn(2), Tag: "random"}
	if r.Chance(55) {
		s.Mode = 1 // writers have the richest behaviour
	}
	n := 5 + r.Intn(6)
	for i := 0; i < n; i++ {
		var k int
		switch {
		case i == 0 && r.Chance(85):
			k = cBegin
		case i == 1 && r.Chance(75):
			k = hx.Pick(r, []int{cNewBtree, cNewBtree, cOpenBtree})
		case r.Chance(60):
			k = hx.Pick(r, []int{cAdd, cFind, cUpdate, cRemove})
		case r.Chance(20): // malformed stream: lifecycle calls out of order
			k = hx.Pick(r, []int{cBegin, cP2, cRollback, cClose, cCommit})
		default:
			k = r.Intn(nCalls)
		}
		c := mkCall(k, i)
		if c.K != 0 {
			c.K = 1 + r.Intn(3)
		}
		s.Calls = append(s.Calls, c)
	}
	if s.Mode == 1 && r.Chance(35) {
		var pos []int
		for j, c := range s.Calls {
			if c.C == cCommit || c.C == cRollback || c.C == cP1 || c.C == cP2 {
				pos = append(pos, j)
			}
		}
		pos = append(pos, len(s.Calls)) // the closing Rollback
		at := hx.Pick(r, pos)
		kinds := []string{"sr", "reg", "tlog"}
		if at == len(s.Calls) || s.Calls[at].C == cRollback {
			kinds = kinds[:2]
		}
		s.Fault = &faultSpec{At: at, Kind: hx.Pick(r, kinds)}
		s.Tag = "random+fault"
	}
	return s
}

var allModes = []int{0, 1, 2}
var writerOnly = []int{1}
var nonWriters = []int{0, 2}

// sample appends n members of pool chosen by r
func sample(plan, pool []seqSpec, n int, r *hx.Rng, tag string) []seqSpec {
	for i := 0; i < n && len(pool) > 0; i++ {
		s := pool[r.Intn(len(pool))]
		s.Tag = tag
		plan = append(plan, s)
	}
	return plan
}

// withFaults returns, for every sequence, one copy per (lifecycle call position, fault kind): the
// positions holding Commit / Rollback / Phase1Commit / Phase2Commit and the closing Rollback the
// driver appends (index len(Calls)).
func withFaults(seqs []seqSpec, tag string, closing bool) []seqSpec {
	var out []seqSpec
	for _, s := range seqs {
		for j := 0; j <= len(s.Calls); j++ {
			if j == len(s.Calls) && !closing {
				continue
			}
			k := cRollback
			if j < len(s.Calls) {
				k = s.Calls[j].C
			}
			var kinds []string
			switch k {
			case cRollback:
				kinds = []string{"sr", "reg"}
			case cCommit, cP1, cP2:
				kinds = []string{"sr", "reg", "tlog"}
			}
			for _, kd := range kinds {
				c := s
				c.Tag = tag
				c.Fault = &faultSpec{At: j, Kind: kd}
				out = append(out, c)
			}
		}
	}
	return out
}

// faultBase: writer sequences Begin,NewBtree|OpenBtree + w with |w| in [lo,hi]; OpenBtree only on the
// seeded store; firstWrite: w starts with Add/Update/Remove
func faultBase(lo, hi int, firstWrite bool) []seqSpec {
	var out []seqSpec
	for _, pre := range []int{cNewBtree, cOpenBtree} {
		for _, s := range allSeqs(nil, []int{cBegin, pre}, lo, hi, writerOnly, "", 1) {
			if pre == cOpenBtree && s.Init == 0 {
				continue
			}
			if firstWrite && !(s.Calls[2].C == cAdd || s.Calls[2].C == cUpdate || s.Calls[2].C == cRemove) {
				continue
			}
			out = append(out, s)
		}
	}
	return out
}

func faultCorpus() []seqSpec {
	mk := func(init, at int, kind string, ks ...int) seqSpec {
		s := seqSpec{Mode: 1, Init: init, Tag: "corpus", Fault: &faultSpec{At: at, Kind: kind}}
		for i, k := range ks {
			c := mkCall(k, i)
			if k == cAdd && init == 1 {
				c.K = 2
			}
			s.Calls = append(s.Calls, c)
		}
		return s
	}
	return []seqSpec{
		// Rollback whose undo fails (removing the store created by the transaction), then the same object is used again
		mk(0, 3, "sr", cBegin, cNewBtree, cAdd, cRollback, cFind, cAdd, cCommit, cBegin),
		mk(0, 2, "sr", cBegin, cNewBtree, cRollback, cNewBtree, cAdd, cCommit),
		mk(1, 4, "sr", cBegin, cOpenBtree, cAdd, cP1, cRollback, cFind, cCommit),
		mk(1, 4, "reg", cBegin, cOpenBtree, cUpdate, cP1, cRollback, cUpdate, cCommit),
		// commit phases meeting a failure, then the same object is used again
		mk(1, 3, "tlog", cBegin, cOpenBtree, cAdd, cCommit, cFind, cAdd, cCommit, cRollback),
		mk(1, 3, "sr", cBegin, cOpenBtree, cAdd, cCommit, cFind, cCommit),
		mk(1, 3, "reg", cBegin, cOpenBtree, cUpdate, cP1, cP2, cUpdate, cCommit),
		mk(1, 4, "reg", cBegin, cOpenBtree, cUpdate, cP1, cP2, cUpdate, cCommit),
		mk(1, 4, "tlog", cBegin, cOpenBtree, cRemove, cP1, cP2, cFind, cCommit),
		mk(0, 3, "reg", cBegin, cNewBtree, cAdd, cCommit, cAdd, cCommit),
		mk(0, 4, "tlog", cBegin, cNewBtree, cAdd, cP1, cP2, cAdd, cCommit),
		// known finding: Commit of a writer that opened no store panics when the finalizeCommit log write fails
		mk(1, 1, "tlog", cBegin, cCommit, cBegin),
	}
}

func buildPlan(cfg *hx.RunCfg) []seqSpec {
	plan := corpus()
	plan = append(plan, faultCorpus()...)
	r := hx.NewRng(cfg.Seed)
	if cfg.Tier == "thorough" {
		plan = allSeqs(plan, nil, 1, 4, allModes, "all<=4", 0)
		plan = allSeqs(plan, []int{cBegin, cNewBtree}, 3, 3, nonWriters, "nonwriter:Begin,NewBtree+3", 1)
		plan = allSeqs(plan, []int{cBegin, cOpenBtree}, 3, 3, nonWriters, "nonwriter:Begin,OpenBtree+3", 1)
		plan = allSeqs(plan, []int{cBegin, cNewBtree}, 3, 4, writerOnly, "writer:Begin,NewBtree+3..4", 1)
		plan = allSeqs(plan, []int{cBegin, cOpenBtree}, 3, 4, writerOnly, "writer:Begin,OpenBtree+3..4", 1)
		plan = allSeqs(plan, []int{cBegin, cOpenBtree}, 1, 4, writerOnly, "writer:Begin,OpenBtree+1..4 (ops on the added key)", 2)
		plan = append(plan, withFaults(faultBase(1, 3, false), "fault:Begin,New|OpenBtree+1..3", true)...)
		plan = append(plan, withFaults(faultBase(4, 4, true), "fault:Begin,New|OpenBtree+write+3 (explicit lifecycle calls)", false)...)
		n := cfg.N
		if n == 0 {
			n = 8000
		}
		for i := 0; i < n; i++ {
			plan = append(plan, randomSeq(r))
		}
		return plan
	}
	plan = allSeqs(plan, nil, 1, 2, allModes, "all<=2", 0)
	plan = allSeqs(plan, []int{cBegin}, 2, 2, allModes, "Begin+2", 0)
	plan = allSeqs(plan, []int{cBegin, cNewBtree}, 1, 2, allModes, "Begin,NewBtree+1..2", 1)
	plan = allSeqs(plan, []int{cBegin, cOpenBtree}, 1, 2, allModes, "Begin,OpenBtree+1..2", 1)
	plan = allSeqs(plan, []int{cBegin, cNewBtree}, 3, 3, writerOnly, "writer:Begin,NewBtree+3", 1)
	plan = allSeqs(plan, []int{cBegin, cOpenBtree}, 3, 3, writerOnly, "writer:Begin,OpenBtree+3", 1)
	plan = allSeqs(plan, []int{cBegin, cOpenBtree}, 1, 3, writerOnly, "writer:Begin,OpenBtree+1..3 (ops on the added key)", 2)
	plan = append(plan, withFaults(faultBase(1, 2, false), "fault:Begin,New|OpenBtree+1..2", true)...)
	// the rest of the small scope is sampled in the quick tier (all of it runs in the thorough tier)
	n := cfg.N
	if n == 0 {
		n = 1000
	}
	plan = sample(plan, withFaults(faultBase(3, 3, true), "", true), n+n/2, r, "sampled fault:Begin,New|OpenBtree+write+2")
	pool := allSeqs(nil, []int{cBegin, cNewBtree}, 3, 3, nonWriters, "", 1)
	pool = allSeqs(pool, []int{cBegin, cOpenBtree}, 3, 3, nonWriters, "", 1)
	plan = sample(plan, pool, n/2, r, "sampled nonwriter:Begin,New/OpenBtree+3")
	pool = allSeqs(nil, nil, 3, 4, allModes, "", 0)
	plan = sample(plan, pool, n/4, r, "sampled all 3..4")
	pool = allSeqs(nil, []int{cBegin, cOpenBtree}, 4, 4, writerOnly, "", 1)
	pool = allSeqs(pool, []int{cBegin, cOpenBtree}, 4, 4, writerOnly, "", 2)
	plan = sample(plan, pool, n/4, r, "sampled writer:Begin,OpenBtree+4")
	for i := 0; i < n; i++ {
		plan = append(plan, randomSeq(r))
	}
	return plan
}

// ---------------------------------------------------------------- children

// shardOf spreads the plan over the workers independently of the position in the enumeration
func shardOf(i, n int) int {
	z := uint64(i)*0x9E3779B97F4A7C15 + 0x1234567
	z = (z ^ (z >> 30)) * 0xBF58476D1CE4E5B9
	z = (z ^ (z >> 27)) * 0x94D049BB133111EB
	return int((z ^ (z >> 31)) % uint64(n))
}

func seqDir(base string, i int) string {
	return filepath.Join(base, fmt.Sprintf("%03d", i/1000), strconv.Itoa(i))
}

func loadPlan(path string) ([]seqSpec, error) {
	raw, err := os.ReadFile(path)
	if err != nil {
		return nil, err
	}
	var plan []seqSpec
	return plan, json.Unmarshal(raw, &plan)
}

// child:exec PLAN BASE SHARD NSHARDS OUT — run every sequence i with i % NSHARDS == SHARD
func childExec(args []string) int {
	plan, err := loadPlan(args[0])
	if err != nil {
		fmt.Fprintln(os.Stderr, err)
		return 2
	}
	base := args[1]
	shard, _ := strconv.Atoi(args[2])
	n, _ := strconv.Atoi(args[3])
	ctx := context.Background()
	out := map[int]execOut{}
	for i, s := range plan {
		if shardOf(i, n) != shard {
			continue
		}
		dir := seqDir(base, i)
		if err := os.MkdirAll(dir, 0o755); err != nil {
			fmt.Fprintln(os.Stderr, err)
			return 2
		}
		if s.Init == 1 {
			if err := seedStore(ctx, dir); err != nil {
				fmt.Fprintln(os.Stderr, "seed:", err)
				return 2
			}
		}
		seq := make([]int, len(s.Calls))
		for j, c := range s.Calls {
			seq[j] = c.C
		}
		t0 := time.Now()
		res, fired, p2, pm := runSequenceSpec(ctx, dir, modes[s.Mode], s.Calls, s.Fault)
		if dt := time.Since(t0); dt > 20*time.Millisecond && os.Getenv("VERIF_C14_SLOW") != "" {
			fmt.Fprintln(os.Stderr, "slow", dt, s.String())
		}
		out[i] = execOut{Res: res, Panic: pm, Fired: fired, Phase: p2}
	}
	js, _ := json.Marshal(out)
	if err := os.WriteFile(args[4], js, 0o644); err != nil {
		fmt.Fprintln(os.Stderr, err)
		return 2
	}
	return 0
}

// child:read PLAN BASE SHARD NSHARDS OUT — read the stored data of every directory of the shard
func childRead(args []string) int {
	plan, err := loadPlan(args[0])
	if err != nil {
		fmt.Fprintln(os.Stderr, err)
		return 2
	}
	base := args[1]
	shard, _ := strconv.Atoi(args[2])
	n, _ := strconv.Atoi(args[3])
	ctx := context.Background()
	out := map[int]diskState{}
	for i := range plan {
		if shardOf(i, n) != shard {
			continue
		}
		out[i] = readDisk(ctx, seqDir(base, i))
	}
	js, _ := json.Marshal(out)
	if err := os.WriteFile(args[4], js, 0o644); err != nil {
		fmt.Fprintln(os.Stderr, err)
		return 2
	}
	return 0
}

func init() {
	hx.Children["exec"] = childExec
	hx.Children["read"] = childRead
}

func spawnAll(kind, planFile, base, outPrefix string, n int) error {
	var wg sync.WaitGroup
	errs := make([]error, n)
	for k := 0; k < n; k++ {
		wg.Add(1)
		go func(k int) {
			defer wg.Done()
			cmd := exec.Command(os.Args[0], "child:"+kind, planFile, base, strconv.Itoa(k), strconv.Itoa(n), fmt.Sprintf("%s_%d.json", outPrefix, k))
			cmd.Env = append(os.Environ(), "SOP_LOG_LEVEL=error")
			ob, err := cmd.CombinedOutput()
			if os.Getenv("VERIF_C14_ERRS") != "" {
				for _, l := range strings.Split(string(ob), "\n") {
					if strings.HasPrefix(l, "ERR:") {
						fmt.Fprintln(os.Stderr, l)
					}
				}
			}
			if os.Getenv("VERIF_C14_SLOW") != "" {
				for _, l := range strings.Split(string(ob), "\n") {
					if strings.HasPrefix(l, "slow") {
						fmt.Fprintln(os.Stderr, l)
					}
				}
			}
			if err != nil {
				tail := string(ob)
				if len(tail) > 1500 {
					tail = tail[len(tail)-1500:]
				}
				errs[k] = fmt.Errorf("child %s shard %d: %v: %s", kind, k, err, tail)
			}
		}(k)
	}
	wg.Wait()
	for _, e := range errs {
		if e != nil {
			return e
		}
	}
	return nil
}

// ---------------------------------------------------------------- Coq printing

// coqCall prints call i; fired/p2 describe the armed failure if this is the armed call
func coqCall(c callSpec, armed bool, kind string, fired bool, phase int) string {
	f := armed && fired && phase < 2
	p2 := phase == 1
	b := func(x bool) string {
		if x {
			return "true"
		}
		return "false"
	}
	pf := "PNone"
	if f && !p2 {
		pf = "PFail"
		if kind == "sr" {
			pf = "PFailStore"
		}
	}
	switch c.C {
	case cCommit:
		return fmt.Sprintf("CCommit %s %s", pf, b(f && p2))
	case cRollback:
		switch {
		case f && kind == "sr":
			return "(CRollback RbStore)"
		case f:
			return "(CRollback RbOther)"
		}
		return "(CRollback RbNone)"
	case cP1:
		return "CP1 " + pf
	case cP2:
		return "CP2 " + b(f)
	case cAdd:
		return fmt.Sprintf("CAdd %d %d false", c.K, c.V)
	case cUpdate:
		return fmt.Sprintf("CUpdate %d %d false", c.K, c.V)
	case cFind:
		return fmt.Sprintf("CFind %d false", c.K)
	case cRemove:
		return fmt.Sprintf("CRemove %d false", c.K)
	}
	return coqCallNames[c.C]
}

func faultKind(s seqSpec) string {
	if s.Fault == nil {
		return ""
	}
	return s.Fault.Kind
}

func coqDisk(d diskState) string {
	if !d.Exists {
		return "None"
	}
	var it []string
	for _, x := range d.Items {
		it = append(it, fmt.Sprintf("(%d,%d)", x[0], x[1]))
	}
	return "(Some (" + hx.CoqZ(d.Count) + ", " + hx.CoqList(it) + "))"
}

func initDisk(init int) diskState {
	if init == 1 {
		return diskState{Exists: true, Count: 1, Items: [][2]int{{theKey, 10}}}
	}
	return diskState{}
}

// ---------------------------------------------------------------- oracle

// checkProperty evaluates C14 directly on what the implementation did.
func checkProperty(res *hx.Result, s seqSpec, out execOut, d diskState) {
	armed := -1
	if s.Fault != nil {
		armed = cRollback
		if s.Fault.At < len(s.Calls) {
			armed = s.Calls[s.Fault.At].C
		}
	}
	// The injected failure hit the undo inside Rollback itself: the caller is told ("rollback
	// failed") and the stored data may stay partially undone (count not put back, created store not
	// removed). That is not held against the lifecycle; the model predicts the exact leftover and
	// every call after it is still checked.
	undoFailed := armed == cRollback && out.Fired
	if out.Panic != "" {
		opened := false
		for i, c := range s.Calls {
			if (c.C == cNewBtree || c.C == cOpenBtree) && i < len(out.Res) && out.Res[i] == rOk {
				opened = true
			}
		}
		if !opened && out.Fired && s.Fault.Kind == "tlog" && (armed == cCommit || armed == cP2) && strings.Contains(out.Panic, "index out of range [0] with length 0") {
			res.Fail("commit-without-store-panics-on-log-failure", s.String()+": "+out.Panic, s)
		} else {
			res.Fail("panic", s.String()+": "+out.Panic, s)
		}
		return
	}
	if d.Err != "" && !undoFailed {
		res.Fail("stored-data-unreadable", s.String()+": stored data cannot be read back afterwards: "+d.Err, s)
	}
	begun, ended, committed := false, false, false
	createdByNew := false
	for i, c := range s.Calls {
		if i >= len(out.Res) {
			break
		}
		r := out.Res[i]
		isOp := c.C >= cAdd
		if isOp && (r == rOk || r == rFalse) {
			if !begun {
				res.Fail("op-before-begin", fmt.Sprintf("%s: call %d (%s) succeeded although no Begin had succeeded", s, i, callNames[c.C]), s)
			} else if ended {
				res.Fail("op-after-end", fmt.Sprintf("%s: call %d (%s) succeeded after the transaction had ended", s, i, callNames[c.C]), s)
			}
		}
		switch c.C {
		case cBegin:
			if r == rOk {
				if ended {
					res.Fail("begin-after-end", fmt.Sprintf("%s: call %d Begin succeeded on a finished transaction", s, i), s)
				} else if begun {
					res.Fail("begin-twice", fmt.Sprintf("%s: call %d Begin succeeded on a begun transaction", s, i), s)
				}
				begun = true
			}
		case cCommit, cP2:
			if r == rOk {
				if !begun {
					res.Fail("commit-before-begin", fmt.Sprintf("%s: call %d %s succeeded although no Begin had succeeded", s, i, callNames[c.C]), s)
				}
				if ended && !committed {
					res.Fail("commit-after-rollback", fmt.Sprintf("%s: call %d %s succeeded on a rolled back transaction", s, i, callNames[c.C]), s)
				}
				ended, committed = true, true
			} else if r == rErr && c.C == cCommit && begun {
				// Commit ends a begun transaction also when it fails (phase 1 or 2 failed: rolled back)
				ended = true
			}
		case cP1:
			if r == rErr && begun {
				ended = true // a failing Phase1Commit has rolled the transaction back
			}
		case cRollback:
			if r == rOk && committed {
				res.Fail("rollback-after-commit", fmt.Sprintf("%s: call %d Rollback succeeded on a committed transaction", s, i), s)
			}
			if begun && (r == rOk || r == rErr) {
				// Rollback ends a begun transaction whatever it returns (also when the undo failed)
				ended = true
			}
		case cNewBtree:
			if r == rOk && s.Init == 0 {
				createdByNew = true
			}
		}
	}
	d0 := initDisk(s.Init)
	if d.Err != "" || undoFailed {
		return
	}
	// known defect class: a writer whose Phase1Commit succeeded goes on working (store operation,
	// Phase1Commit or Commit again) before the transaction ends
	workAfterP1 := false
	if s.Mode == 1 {
		p1 := false
		for i, c := range s.Calls {
			if i >= len(out.Res) {
				break
			}
			r := out.Res[i]
			if p1 && ((c.C == cAdd || c.C == cUpdate || c.C == cRemove) && r == rOk || c.C == cP1 || c.C == cCommit) {
				workAfterP1 = true
			}
			if c.C == cP1 && r == rOk {
				p1 = true
			}
		}
	}
	if d.Exists && d.Count != int64(len(d.Items)) {
		if workAfterP1 {
			res.Fail("work-after-phase1-corrupts-count", fmt.Sprintf("%s: afterwards the store records %d items but holds %d", s, d.Count, len(d.Items)), s)
		} else {
			res.Fail("count-differs-from-items", fmt.Sprintf("%s: afterwards the store records %d items but holds %d", s, d.Count, len(d.Items)), s)
		}
		return
	}
	if s.Mode != 1 && d.String() != d0.String() {
		if createdByNew && s.Init == 0 && d.Exists && len(d.Items) == 0 {
			res.Fail("readonly-creates-store", fmt.Sprintf("%s: a %s transaction left a new (empty) store on disk", s, modeNames[s.Mode]), s)
		} else {
			res.Fail("readonly-changed-data", fmt.Sprintf("%s: a %s transaction changed the stored data from %s to %s", s, modeNames[s.Mode], d0, d), s)
		}
	}
	if s.Mode == 1 && !committed && d.String() != d0.String() {
		// a writer that never committed: only a store it created (and did not roll back) may remain
		if !(createdByNew && d.Exists && len(d.Items) == 0) {
			if workAfterP1 {
				res.Fail("work-after-phase1-corrupts-count", fmt.Sprintf("%s: no commit succeeded but the stored data changed from %s to %s", s, d0, d), s)
			} else {
				res.Fail("uncommitted-changed-data", fmt.Sprintf("%s: no commit succeeded but the stored data changed from %s to %s", s, d0, d), s)
			}
		}
	}
}

// ---------------------------------------------------------------- driver

func runC14(cfg *hx.RunCfg) (*hx.Result, error) {
	res := hx.NewResult("C14")
	res.Imports = []string{"Lib.Bytes", "Lifecycle", "Corr.C14"}
	res.CaseType = "c14case"
	res.Checker = "c14_check"
	res.Rule = "call sequences over the 12-call alphabet x 3 modes x {store absent, store with one item}, each followed by a closing Rollback. Quick: exhaustively all of length <= 2, Begin+2, Begin,NewBtree|OpenBtree + all of length 1..2, and for writers Begin,NewBtree|OpenBtree + all of length 3; a seeded sample of the remaining length 3..5 scope; a fixed corpus; random sequences of length 5-10 over keys 1-3. Thorough: exhaustively all of length <= 4, Begin,NewBtree|OpenBtree + all of length 3 (every mode) and of length 4 (writers). distinct = distinct (mode, initial disk, call list); non-trivial = a Begin succeeded in the sequence"
	var plan []seqSpec
	if cfg.Replay != "" {
		raw, err := os.ReadFile(cfg.Replay)
		if err != nil {
			return nil, err
		}
		var rp struct {
			Input struct {
				seqSpec
				Batch []seqSpec `json:"batch"`
			} `json:"input"`
		}
		if err := json.Unmarshal(raw, &rp); err != nil {
			return nil, err
		}
		if len(rp.Input.Batch) > 0 {
			plan = rp.Input.Batch
		} else {
			plan = []seqSpec{rp.Input.seqSpec}
		}
	} else {
		plan = buildPlan(cfg)
		// Every program ends by rolling back whatever it left open (the usual `defer t.Rollback(ctx)`):
		// the stored data is compared at a point where no commit is in flight. What other
		// transactions can see while a commit is between its phases is the subject of C02/C03.
		for i := range plan {
			plan[i].Calls = append(plan[i].Calls, callSpec{C: cRollback})
		}
	}
	out := cfg.Out
	if out == "" {
		out = filepath.Join("/var/tmp/C14", fmt.Sprintf("run%d", os.Getpid()))
	}
	if err := os.MkdirAll(out, 0o755); err != nil {
		return nil, err
	}
	base := filepath.Join(out, "fs")
	if v := os.Getenv("VERIF_C14_FS"); v != "" {
		base = filepath.Join(v, fmt.Sprintf("verif-c14-%d", os.Getpid()))
	} else if st, err := os.Stat("/dev/shm"); err == nil && st.IsDir() {
		// tens of thousands of short-lived store folders: keep them off the disk when a memory filesystem is there
		base = filepath.Join("/dev/shm", fmt.Sprintf("verif-c14-%d", os.Getpid()))
	}
	os.RemoveAll(base)
	defer os.RemoveAll(base)
	planFile := filepath.Join(out, "plan.json")
	js, _ := json.Marshal(plan)
	if err := os.WriteFile(planFile, js, 0o644); err != nil {
		return nil, err
	}
	defer os.Remove(planFile)
	nw := runtime.NumCPU()
	if nw > 12 {
		nw = 12
	}
	if nw > len(plan) {
		nw = len(plan)
	}
	if err := spawnAll("exec", planFile, base, filepath.Join(out, "exec"), nw); err != nil {
		return nil, err
	}
	if err := spawnAll("read", planFile, base, filepath.Join(out, "disk"), nw); err != nil {
		return nil, err
	}
	execs := map[int]execOut{}
	disks := map[int]diskState{}
	for k := 0; k < nw; k++ {
		var e map[int]execOut
		var d map[int]diskState
		f1, f2 := fmt.Sprintf("%s_%d.json", filepath.Join(out, "exec"), k), fmt.Sprintf("%s_%d.json", filepath.Join(out, "disk"), k)
		raw, err := os.ReadFile(f1)
		if err != nil {
			return nil, err
		}
		if err := json.Unmarshal(raw, &e); err != nil {
			return nil, err
		}
		raw, err = os.ReadFile(f2)
		if err != nil {
			return nil, err
		}
		if err := json.Unmarshal(raw, &d); err != nil {
			return nil, err
		}
		for i, v := range e {
			execs[i] = v
		}
		for i, v := range d {
			disks[i] = v
		}
		os.Remove(f1)
		os.Remove(f2)
	}
	// Thorough tier: the exhaustive sets go to Coq ten sequences per case. A coqc start-up costs
	// about as much as evaluating 2000 sequences, so 500-case shards of single sequences would spend
	// nearly all their time starting up. A mismatching batch is replayed sequence by sequence with
	// `./check C14 --replay` (the replay input of a batch is {"batch":[...]}).
	batchSize := 1
	if cfg.Tier == "thorough" && cfg.Replay == "" {
		batchSize = 10
	}
	var batchTerms []string
	var batchSeqs []seqSpec
	nSeqCases := 0
	flushBatch := func() {
		if len(batchTerms) == 0 {
			return
		}
		res.AddCase("BatchCase "+hx.CoqList(batchTerms), map[string]any{"batch": batchSeqs})
		batchTerms, batchSeqs = nil, nil
	}
	for i, s := range plan {
		eo, d := execs[i], disks[i]
		begun := false
		for j, c := range s.Calls {
			if c.C == cBegin && j < len(eo.Res) && eo.Res[j] == rOk {
				begun = true
			}
		}
		res.Seen(s.String(), begun)
		res.Count("mode." + modeNames[s.Mode])
		res.Count("len." + strconv.Itoa(len(s.Calls)))
		res.Count("set." + s.Tag)
		if s.Fault != nil {
			k := cRollback
			if s.Fault.At < len(s.Calls) {
				k = s.Calls[s.Fault.At].C
			}
			res.Count(fmt.Sprintf("fault.%s.%s.%s", callNames[k], s.Fault.Kind, map[bool]string{true: "injected", false: "no-such-write"}[eo.Fired]+map[bool]string{true: ".after-commit-point", false: ""}[eo.Fired && eo.Phase == 2]))
		}
		for j, c := range s.Calls {
			if j < len(eo.Res) && eo.Res[j] < len(resNames) {
				res.Count("call." + callNames[c.C] + "." + resNames[eo.Res[j]])
			}
		}
		res.Count("final." + map[bool]string{true: "store-present", false: "store-absent"}[d.Exists])
		checkProperty(res, s, eo, d)
		var cs, rs []string
		for j, c := range s.Calls {
			cs = append(cs, coqCall(c, s.Fault != nil && s.Fault.At == j, faultKind(s), eo.Fired, eo.Phase))
		}
		for _, r := range eo.Res {
			if r < len(coqResNames) {
				rs = append(rs, coqResNames[r])
			}
		}
		if eo.Panic == "" && d.Err == "" {
			term := fmt.Sprintf("SeqCase %s %s %s %s %s", coqModeNames[s.Mode], coqDisk(initDisk(s.Init)), hx.CoqList(cs), hx.CoqList(rs), coqDisk(d))
			nSeqCases++
			if batchSize > 1 && s.Tag != "corpus" && s.Tag != "random" && s.Tag != "random+fault" {
				batchTerms = append(batchTerms, term)
				batchSeqs = append(batchSeqs, s)
				if len(batchTerms) == batchSize {
					flushBatch()
				}
			} else {
				res.AddCase(term, s)
			}
		}
		if i%997 == 0 {
			res.Sample(map[string]any{"sequence": s.String(), "results": eo.Res, "stored_data_after": d.String()})
		}
	}
	flushBatch()
	if batchSize > 1 {
		res.Notes = append(res.Notes, fmt.Sprintf("%d call sequences were compared with the model, packed into %d correspondence cases (batches of %d for the exhaustive sets)", nSeqCases, res.NumCases(), batchSize))
	}
	return res, nil
}

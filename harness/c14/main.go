package main

import (
	"context"
	"fmt"
	"os"
	"strings"
	"time"

	"verif/harness/hx"
)

func main() {
	if len(os.Args) > 1 && os.Args[1] == "probe" {
		probe(os.Args[2:])
		return
	}
	hx.Main("c14", nil)
}

// probe MODE INIT seq...   e.g. probe 2 0 Begin,NewBtree,Commit
func probe(args []string) {
	ctx := context.Background()
	base, _ := os.MkdirTemp("/var/tmp", "c14probe")
	defer os.RemoveAll(base)
	var mode, init int
	fmt.Sscan(args[0], &mode)
	fmt.Sscan(args[1], &init)
	for k, s := range args[2:] {
		var seq []int
		for _, w := range strings.Split(s, ",") {
			for i, n := range callNames {
				if n == w {
					seq = append(seq, i)
				}
			}
		}
		dir := fmt.Sprintf("%s/d%d", base, k)
		os.MkdirAll(dir, 0o755)
		if init == 1 {
			if err := seedStore(ctx, dir); err != nil {
				fmt.Println("seed:", err)
			}
		}
		t0 := time.Now()
		out, pm := runSequence(ctx, dir, modes[mode], seq)
		dt := time.Since(t0)
		var rs []string
		for _, r := range out {
			if r < len(resNames) {
				rs = append(rs, resNames[r])
			} else {
				rs = append(rs, fmt.Sprint(r))
			}
		}
		fmt.Printf("%s init=%d %s -> %s disk=%s %s (%v)\n", modeNames[mode], init, s, strings.Join(rs, ","), readDisk(ctx, dir), pm, dt)
	}
}

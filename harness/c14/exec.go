package main

import (
	"context"
	"sync"
	"fmt"
	"os"
	"path/filepath"
	"sort"
	"strings"

	"github.com/sharedcode/sop"
	"github.com/sharedcode/sop/btree"
	"github.com/sharedcode/sop/common"
	"github.com/sharedcode/sop/fs"
	"github.com/sharedcode/sop/infs"

	"verif/harness/sopx"
)

// faultSpec arms ONE storage failure for the lifecycle call at index At: the first write of the
// chosen kind issued while that call runs returns an error without being performed.
//
//	sr:   StoreRepository.Remove / Update   (removing a created store, count updates)
//	reg:  Registry.Add / Update / UpdateNoLocks / Remove
//	tlog: TransactionLog.Add                (commit phases only)
type faultSpec struct {
	At   int    `json:"at"`
	Kind string `json:"kind"`
}

func faultMatches(ev *sopx.Event, kind string) bool {
	switch kind {
	case "sr":
		return ev.Iface == "sr" && (ev.Method == "Remove" || ev.Method == "Update")
	case "reg":
		return ev.Iface == "reg" && (ev.Method == "Add" || ev.Method == "Update" || ev.Method == "UpdateNoLocks" || ev.Method == "Remove")
	case "tlog":
		return ev.Iface == "tlog" && ev.Method == "Add"
	}
	return false
}

const tlogFinalizeCommit = 11 // common.finalizeCommit: the first thing phase 2 logs

// The call alphabet of C14 (same numbering as Lifecycle.v / Corr/C14.v).
const (
	cBegin = iota
	cCommit
	cRollback
	cP1
	cP2
	cClose
	cAdd
	cFind
	cUpdate
	cRemove
	cNewBtree
	cOpenBtree
	nCalls
)

var callNames = []string{"Begin", "Commit", "Rollback", "Phase1Commit", "Phase2Commit", "Close", "Add", "Find", "Update", "Remove", "NewBtree", "OpenBtree"}
var coqCallNames = []string{"CBegin", "CCommit", "CRollback", "CP1", "CP2", "CClose", "CAdd", "CFind", "CUpdate", "CRemove", "CNewBtree", "COpenBtree"}

// result classes (same numbering as Lifecycle.v)
const (
	rOk       = iota // nil error (lifecycle calls, NewBtree/OpenBtree); for store ops: (true, nil)
	rFalse           // store op returned (false, nil)
	rErr             // error returned
	rNoHandle        // store op issued while the program holds no B-tree handle (nothing is called)
)

var resNames = []string{"ok", "false", "err", "nohandle"}
var coqResNames = []string{"ROk", "RFalse", "RErr", "RNoHandle"}

const storeName = "s"

// the fixed key the store operations act on, and the value written by the i-th call of a sequence
const theKey = 1

func valueOfStep(i int) int { return 100 + i }

var modes = []sop.TransactionMode{sop.NoCheck, sop.ForWriting, sop.ForReading}
var modeNames = []string{"NoCheck", "ForWriting", "ForReading"}
var coqModeNames = []string{"NoCheck", "ForWriting", "ForReading"}

func storeOptions() sop.StoreOptions {
	return sop.StoreOptions{Name: storeName, SlotLength: 8, IsUnique: true, IsValueDataInNodeSegment: true}
}

func txOptions(dir string, mode sop.TransactionMode) sop.TransactionOptions {
	return sop.TransactionOptions{StoresFolders: []string{dir}, Mode: mode, MaxTime: -1, RegistryHashModValue: fs.MinimumModValue, CacheType: sop.InMemory}
}

// seedStore creates store "s" holding {theKey: 10} with an ordinary writer transaction.
func seedStore(ctx context.Context, dir string) error {
	t, err := infs.NewTransaction(ctx, txOptions(dir, sop.ForWriting))
	if err != nil {
		return err
	}
	if err := t.Begin(ctx); err != nil {
		return err
	}
	b, err := infs.NewBtree[int, int](ctx, storeOptions(), t, nil)
	if err != nil {
		return err
	}
	if ok, err := b.Add(ctx, theKey, 10); !ok || err != nil {
		return fmt.Errorf("seed add: %v %v", ok, err)
	}
	return t.Commit(ctx)
}

// debugErr prints error texts when VERIF_C14_ERRS is set (diagnosis only; classes never depend on the text)
func debugErr(err error) {
	if err != nil && os.Getenv("VERIF_C14_ERRS") != "" {
		fmt.Fprintln(os.Stderr, "ERR:", err)
	}
}

func cls(err error) int {
	debugErr(err)
	if err != nil {
		return rErr
	}
	return rOk
}
func clsB(ok bool, err error) int {
	debugErr(err)
	if err != nil {
		return rErr
	}
	if ok {
		return rOk
	}
	return rFalse
}

// runSequence executes one call list against a fresh transaction on dir and returns the result class of every call.
// A panic inside the library is reported as class 9 for that call and ends the sequence.
// firedPhase: where the armed failure hit. 0: before phase 2 of a commit (or in a Rollback);
// 1: in phase 2 before the commit point (the finalizeCommit log record, or the registry update
// that flips the handles); 2: after the commit point (clean-up, replication: the code only logs
// such errors, the commit stands).
func runSequenceSpec(ctx context.Context, dir string, mode sop.TransactionMode, seq []callSpec, fault *faultSpec) (out []int, fired bool, firedPhase int, panicMsg string) {
	var t sop.Transaction
	var rec *sopx.Recorder
	if fault == nil {
		var err error
		t, err = infs.NewTransaction(ctx, txOptions(dir, mode))
		if err != nil {
			return nil, false, 0, "NewTransaction: " + err.Error()
		}
	} else {
		// same construction as infs.NewTwoPhaseCommitTransaction, storage interfaces decorated
		env, err := sopx.NewEnv(dir, fs.MinimumModValue)
		if err != nil {
			return nil, false, 0, "NewEnv: " + err.Error()
		}
		tx, err := env.NewTxn(ctx, mode, -1, "t", false)
		if err != nil {
			return nil, false, 0, "NewTxn: " + err.Error()
		}
		t, rec = tx.Transaction, env.Rec
	}
	newBtree := func() (btree.BtreeInterface[int, int], error) {
		if fault == nil {
			return infs.NewBtree[int, int](ctx, storeOptions(), t, nil)
		}
		so := storeOptions() // what infs.NewBtree sets, for the decorated store repository
		so.DisableRegistryStoreFormatting, so.DisableBlobStoreFormatting, so.BlobStoreBaseFolderPath = true, true, dir
		return common.NewBtree[int, int](ctx, so, t, nil)
	}
	var mu sync.Mutex
	arm := func() {
		p2, flipped := false, false
		rec.Reset()
		rec.Before = func(ev *sopx.Event) sopx.Action {
			mu.Lock()
			defer mu.Unlock()
			isFinalize := ev.Iface == "tlog" && ev.Method == "Add" && ev.Step == tlogFinalizeCommit
			isFlip := p2 && !flipped && ev.Iface == "reg" && ev.Method == "UpdateNoLocks"
			if !fired && faultMatches(ev, fault.Kind) {
				fired = true
				switch {
				case isFinalize || isFlip:
					firedPhase = 1
				case p2:
					firedPhase = 2
				}
				return sopx.Fail
			}
			if isFinalize {
				p2 = true
			}
			if isFlip {
				flipped = true
			}
			return sopx.Proceed
		}
		rec.Arm()
	}
	var b btree.BtreeInterface[int, int]
	for i, cs := range seq {
		c := cs.C
		if fault != nil && fault.At == i {
			arm()
		}
		r := func() (r int) {
			defer func() {
				if p := recover(); p != nil {
					panicMsg = fmt.Sprintf("call %d (%s): panic: %v", i, callNames[c], p)
					r = 9
				}
			}()
			switch c {
			case cBegin:
				return cls(t.Begin(ctx))
			case cCommit:
				return cls(t.Commit(ctx))
			case cRollback:
				return cls(t.Rollback(ctx))
			case cP1:
				return cls(t.GetPhasedTransaction().Phase1Commit(ctx))
			case cP2:
				return cls(t.GetPhasedTransaction().Phase2Commit(ctx))
			case cClose:
				return cls(t.Close())
			case cNewBtree:
				nb, err := newBtree()
				if err == nil {
					b = nb
				}
				return cls(err)
			case cOpenBtree:
				nb, err := infs.OpenBtree[int, int](ctx, storeName, t, nil)
				if err == nil {
					b = nb
				}
				return cls(err)
			}
			if b == nil {
				return rNoHandle
			}
			switch c {
			case cAdd:
				return clsB(b.Add(ctx, cs.K, cs.V))
			case cFind:
				return clsB(b.Find(ctx, cs.K, false))
			case cUpdate:
				return clsB(b.Update(ctx, cs.K, cs.V))
			case cRemove:
				return clsB(b.Remove(ctx, cs.K))
			}
			return 8
		}()
		out = append(out, r)
		if fault != nil && fault.At == i {
			rec.Disarm()
			rec.Before = nil
		}
		if r == 9 {
			break
		}
	}
	// a program that walks away without ending its transaction: release file handles only
	func() {
		defer func() { recover() }()
		t.Close()
	}()
	return out, fired, firedPhase, panicMsg
}

// diskState is the abstract stored data: does store "s" exist, and its items.
type diskState struct {
	Exists bool
	Count  int64 // the store's recorded item count
	Items  [][2]int
	Err    string
}

func (d diskState) String() string {
	if d.Err != "" {
		return "ERR(" + d.Err + ")"
	}
	if !d.Exists {
		return "absent"
	}
	var sb strings.Builder
	if d.Count != int64(len(d.Items)) {
		fmt.Fprintf(&sb, "count=%d", d.Count)
	}
	sb.WriteString("{")
	for i, it := range d.Items {
		if i > 0 {
			sb.WriteString(",")
		}
		fmt.Fprintf(&sb, "%d:%d", it[0], it[1])
	}
	sb.WriteString("}")
	return sb.String()
}

// storeOnDisk: is there any trace of store "s" under dir (the store folder with its storeinfo file)?
func storeOnDisk(dir string) bool {
	_, err := os.Stat(filepath.Join(dir, storeName, "storeinfo.txt"))
	return err == nil
}

// readDisk reads the stored data of dir with a fresh reader transaction. Meant to be called in a
// fresh OS process (the L1 cache is process-global).
func readDisk(ctx context.Context, dir string) (d diskState) {
	defer func() {
		if p := recover(); p != nil {
			d.Err = fmt.Sprintf("panic: %v", p)
		}
	}()
	d.Exists = storeOnDisk(dir)
	if !d.Exists {
		// nothing registered: also make sure the store list agrees
		return d
	}
	t, err := infs.NewTransaction(ctx, txOptions(dir, sop.ForReading))
	if err != nil {
		d.Err = "NewTransaction: " + err.Error()
		return d
	}
	if err := t.Begin(ctx); err != nil {
		d.Err = "Begin: " + err.Error()
		return d
	}
	defer t.Rollback(ctx)
	b, err := infs.OpenBtree[int, int](ctx, storeName, t, nil)
	if err != nil {
		d.Err = "OpenBtree: " + err.Error()
		return d
	}
	ok, err := b.First(ctx)
	if err != nil {
		d.Err = "First: " + err.Error()
		return d
	}
	for ok {
		it, err := b.GetCurrentItem(ctx)
		if err != nil {
			d.Err = "GetCurrentItem: " + err.Error()
			return d
		}
		v := 0
		if it.Value != nil {
			v = *it.Value
		}
		d.Items = append(d.Items, [2]int{it.Key, v})
		ok, err = b.Next(ctx)
		if err != nil {
			d.Err = "Next: " + err.Error()
			return d
		}
	}
	d.Count = b.Count()
	sort.Slice(d.Items, func(i, j int) bool { return d.Items[i][0] < d.Items[j][0] })
	return d
}

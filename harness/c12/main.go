package main

// C12: creating and removing stores is transactional and complete.
//   abort    : create (+populate) a store in a transaction that ends in Rollback / a failed commit /
//              a single injected fault (every call index of NewBtree and of the commit) -> the store
//              must not exist afterwards (GetStores, OpenBtree, raw folder, storelist.txt)
//   race     : two transactions create the same name; the loser's StoreRepository.Add is gated until
//              the winner's Add (and optionally its commit) is done -> exactly one store, winner intact
//   serial   : k transactions create the same name one after the other -> one store, later ones open it
//   recreate : create+populate+commit, RemoveBtree, NewBtree with other options -> no artefact in
//              between, count 0 and the new options afterwards

import (
	"context"
	"encoding/json"
	"fmt"
	"log/slog"
	"os"
	"path/filepath"
	"sort"
	"strings"
	"time"

	"github.com/sharedcode/sop"
	"github.com/sharedcode/sop/infs"

	"verif/harness/hx"
	"verif/harness/sopx"
)

func main() { hx.Main("c12", run) }

var bg = context.Background()

const scratch = "/var/tmp/C12"
const hashMod = 2

type input struct {
	Kind   string         `json:"kind"` // abort | race | serial | recreate
	Opts   sopx.StoreOpts `json:"opts"`
	Opts2  sopx.StoreOpts `json:"opts2,omitempty"`
	N      int            `json:"n"`
	End    string         `json:"end,omitempty"`   // abort: rollback | commit | fault
	Fault  int            `json:"fault,omitempty"` // abort/fault: armed call index
	After  bool           `json:"after,omitempty"` // FailAfter instead of Fail
	Commit bool           `json:"commit_first,omitempty"` // race: winner commits before the loser's Add
	K      int            `json:"k,omitempty"`
	// retry: the creator also modifies the existing store "ledger"; Rivals other writers commit on
	// "ledger" before the creator's Commit (so phase 1 does its partial rollback and retries);
	// Clash: a rival adds the creator's own key (the retry's merge fails for good)
	Rivals      int  `json:"rivals,omitempty"`
	Clash       bool `json:"clash,omitempty"`
	CreateFirst bool `json:"create_first,omitempty"`
}

var dirSeq int

func newDir() string {
	dirSeq++
	d := filepath.Join(scratch, fmt.Sprintf("d-%d-%d", os.Getpid(), dirSeq))
	os.RemoveAll(d)
	return d
}

// presence of a store as a fresh transaction and the raw folder tree see it
type presence struct {
	InGetStores, Opens, Folder, InList, Info bool
	Count                                     int64
	Slot                                      int
	InNode                                    bool
	Items                                     int
	Err                                       string
}

func (p presence) any() bool { return p.InGetStores || p.Opens || p.Folder || p.InList || p.Info }

func observe(e *sopx.Env, name string) presence {
	var p presence
	t, err := e.NewTxn(bg, sop.ForReading, time.Minute, "obs", true)
	if err == nil && t.Begin(bg) == nil {
		names, _ := t.GetStores(bg)
		for _, n := range names {
			if n == name {
				p.InGetStores = true
			}
		}
		if b, err := t.OpenStore(bg, name); err == nil {
			p.Opens = true
			p.Count = b.Count()
			si := b.GetStoreInfo()
			p.Slot, p.InNode = si.SlotLength, si.IsValueDataInNodeSegment
			ok, err := b.First(bg)
			for ok && err == nil {
				p.Items++
				ok, err = b.Next(bg)
			}
			if err != nil {
				p.Err = err.Error()
			}
			t.Commit(bg)
		} else if t.HasBegun() {
			t.Rollback(bg)
		}
	}
	raw, err := sopx.ReadRaw(e.Folder)
	if err == nil {
		if rs, ok := raw.Stores[name]; ok {
			p.Folder = true
			p.Info = rs.Info != nil
		}
		for _, n := range raw.StoreList {
			if n == name {
				p.InList = true
			}
		}
	}
	return p
}

func addItems(b interface {
	Add(context.Context, int, string) (bool, error)
}, n int) error {
	for i := 0; i < n; i++ {
		if _, err := b.Add(bg, i, fmt.Sprint("v", i)); err != nil {
			return err
		}
	}
	return nil
}

func mute(e *sopx.Env) {
	for _, k := range []string{"l2.GetStruct", "l2.GetStructEx", "l2.SetStruct", "l2.Delete", "blob.GetOne", "l2.Lock", "l2.Unlock", "l2.IsLocked", "l2.DualLock"} {
		e.Rec.Mute[k] = true
	}
}

// ---------------------------------------------------------------- abort

func runAbort(res *hx.Result, in input) int {
	e, _ := sopx.NewEnv(newDir(), hashMod)
	defer os.RemoveAll(e.Folder)
	mute(e)
	// an unrelated committed store that must stay intact
	t0, _ := e.NewTxn(bg, sop.ForWriting, time.Minute, "keep", true)
	t0.Begin(bg)
	kb, _ := t0.NewStore(bg, sopx.StoreOpts{Name: "keep", Slot: 4, Unique: true, InNode: true})
	addItems(kb, 5)
	if err := t0.Commit(bg); err != nil {
		res.Fail("harness-error", err.Error(), in)
		return 0
	}
	t, _ := e.NewTxn(bg, sop.ForWriting, 5*time.Second, "a", false)
	t.Begin(bg)
	injected := false
	e.Rec.Before = func(ev *sopx.Event) sopx.Action {
		if in.End == "fault" && ev.Seq == in.Fault && !injected {
			injected = true
			if in.After {
				return sopx.FailAfter
			}
			return sopx.Fail
		}
		return sopx.Proceed
	}
	e.Rec.Arm()
	committed := false
	stateAtEnd := -1
	phase := 0 // 0 explicit Rollback, 1 NewBtree failed, 2 an item operation failed, 3 commit failed, 4 committed
	var opErr error
	b, err := t.NewStore(bg, in.Opts)
	if err == nil {
		opErr = addItems(b, in.N)
		stateAtEnd = t.Two.VerifCommittedState()
		switch {
		case opErr != nil:
			phase = 2
			if t.HasBegun() {
				t.Rollback(bg)
			}
		case in.End == "rollback":
			t.Rollback(bg)
		default:
			opErr = t.Commit(bg)
			committed = opErr == nil
			phase = 3
			if committed {
				phase = 4
			}
		}
	} else {
		opErr = err
		phase = 1
	}
	e.Rec.Disarm()
	nEvents := len(e.Rec.Snapshot())
	p := observe(e, in.Opts.Name)
	keep := observe(e, "keep")
	ap := in.Opts.ActivelyP && !in.Opts.InNode && in.N > 0
	res.Seen(fmt.Sprintf("abort:%+v:%d:%s:%d:%v", in.Opts, in.N, in.End, in.Fault, in.After), in.End != "commit")
	res.Count("abort." + in.End)
	if injected {
		res.Count("abort.fault_injected")
	}
	if committed {
		res.Count("abort.committed")
		if !(p.InGetStores && p.Opens && p.Folder && p.InList && p.Info) || p.Items != in.N || p.Count != int64(in.N) {
			res.Fail("committed-store-incomplete", fmt.Sprintf("committed creation: %+v", p), in)
		}
	} else {
		res.Count("abort.not_committed")
		if p.any() {
			res.Fail("abort:store-survives", fmt.Sprintf("store %q created in a transaction that ended in %s (err=%v, logger state before end=%d) still exists: %+v", in.Opts.Name, in.End, opErr, stateAtEnd, p), in)
		}
	}
	if !(keep.Opens && keep.Items == 5 && keep.Count == 5) {
		res.Fail("abort:unrelated-store-damaged", fmt.Sprintf("%+v", keep), in)
	}
	res.Count(fmt.Sprintf("abort.phase.%d", phase))
	res.AddCase(fmt.Sprintf("AbortCase %s %s %s", hx.CoqBool(ap), hx.CoqNat(phase), hx.CoqBool(p.any())), in)
	return nEvents
}

// ---------------------------------------------------------------- race

func runRace(res *hx.Result, in input) {
	e, _ := sopx.NewEnv(newDir(), hashMod)
	defer os.RemoveAll(e.Folder)
	mute(e)
	t1, _ := e.NewTxn(bg, sop.ForWriting, 5*time.Second, "t1", false)
	t2, _ := e.NewTxn(bg, sop.ForWriting, 5*time.Second, "t2", false)
	t1.Begin(bg)
	t2.Begin(bg)
	atGate := make(chan bool, 1)
	release := make(chan bool)
	e.Rec.Before = func(ev *sopx.Event) sopx.Action {
		if ev.Txn == "t2" && ev.Key() == "sr.Add" {
			atGate <- true
			<-release
		}
		return sopx.Proceed
	}
	e.Rec.Arm()
	done2 := make(chan error, 1)
	go func() {
		_, err := t2.NewStore(bg, in.Opts)
		done2 <- err
	}()
	select {
	case <-atGate:
	case <-time.After(10 * time.Second):
		res.Fail("harness-error", "loser never reached StoreRepository.Add", in)
		return
	}
	// the winner: Get (none yet), log createStore, Add
	b1, err1 := t1.NewStore(bg, in.Opts)
	var commit1 error
	if err1 == nil {
		err1 = addItems(b1, in.N)
	}
	if err1 == nil && in.Commit {
		commit1 = t1.Commit(bg)
	}
	close(release)
	err2 := <-done2
	if err1 == nil && !in.Commit {
		commit1 = t1.Commit(bg)
	}
	e.Rec.Disarm()
	p := observe(e, in.Opts.Name)
	res.Seen(fmt.Sprintf("race:%+v:%d:%v", in.Opts, in.N, in.Commit), true)
	res.Count("race")
	if err2 != nil {
		res.Count("race.loser_failed")
	} else {
		res.Count("race.loser_opened")
	}
	winnerOK := err1 == nil && commit1 == nil
	if winnerOK {
		res.Count("race.winner_commit_ok")
	} else {
		res.Count("race.winner_commit_failed")
	}
	intact := p.InGetStores && p.Opens && p.Folder && p.InList && p.Info && p.Items == in.N && p.Count == int64(in.N) && p.Err == ""
	if winnerOK && !intact {
		res.Fail("race:winner-store-destroyed-by-loser", fmt.Sprintf("same-name creation: the winner's Commit returned nil but its store is %+v (loser error: %v)", p, err2), in)
	} else if !winnerOK && p.any() && !intact {
		res.Fail("race:winner-store-destroyed-by-loser", fmt.Sprintf("same-name creation: winner failed (%v / %v) and a partial store remains: %+v (loser error: %v)", err1, commit1, p, err2), in)
	} else if !winnerOK && !p.any() {
		res.Fail("race:winner-store-destroyed-by-loser", fmt.Sprintf("same-name creation yields no store at all: winner failed (%v / %v), loser failed (%v)", err1, commit1, err2), in)
	}
	res.AddCase(fmt.Sprintf("RaceCase %s %s %s", hx.CoqBool(in.Commit), hx.CoqBool(err2 != nil), hx.CoqBool(p.InList && p.Info)), in)
}

// ---------------------------------------------------------------- retry (creator hits a conflict, retries)

func runRetry(res *hx.Result, in input) {
	e, _ := sopx.NewEnv(newDir(), hashMod)
	defer os.RemoveAll(e.Folder)
	ledger := sopx.StoreOpts{Name: "ledger", Slot: 4, Unique: true, InNode: true}
	t0, _ := e.NewTxn(bg, sop.ForWriting, time.Minute, "setup", true)
	t0.Begin(bg)
	lb, err := t0.NewStore(bg, ledger)
	if err == nil {
		_, err = lb.Add(bg, 1, "one")
	}
	if err == nil {
		err = t0.Commit(bg)
	}
	if err != nil {
		res.Fail("harness-error", "ledger setup: "+err.Error(), in)
		return
	}
	t1, _ := e.NewTxn(bg, sop.ForWriting, 8*time.Second, "creator", true)
	t1.Begin(bg)
	var opErr error
	doLedger := func() {
		if opErr != nil {
			return
		}
		b, err := t1.OpenStore(bg, "ledger")
		if err == nil {
			_, err = b.Add(bg, 100, "creator")
		}
		opErr = err
	}
	doCreate := func() {
		if opErr != nil {
			return
		}
		b, err := t1.NewStore(bg, in.Opts)
		if err == nil {
			err = addItems(b, in.N)
		}
		opErr = err
	}
	if in.CreateFirst {
		doCreate()
		doLedger()
	} else {
		doLedger()
		doCreate()
	}
	if opErr != nil {
		res.Fail("harness-error", "creator ops: "+opErr.Error(), in)
		return
	}
	rivalOK := 0
	for i := 0; i < in.Rivals; i++ {
		t2, _ := e.NewTxn(bg, sop.ForWriting, 8*time.Second, fmt.Sprint("rival", i), true)
		t2.Begin(bg)
		b, err := t2.OpenStore(bg, "ledger")
		key := 200 + i
		if in.Clash && i == 0 {
			key = 100
		}
		if err == nil {
			_, err = b.Add(bg, key, "rival")
		}
		if err == nil {
			err = t2.Commit(bg)
		}
		if err == nil {
			rivalOK++
		}
	}
	cerr := t1.Commit(bg)
	p := observe(e, in.Opts.Name)
	l := observe(e, "ledger")
	res.Seen(fmt.Sprintf("retry:%+v:%d:%d:%v:%v", in.Opts, in.N, in.Rivals, in.Clash, in.CreateFirst), true)
	res.Count("retry")
	res.Count(fmt.Sprintf("retry.rivals.%d", in.Rivals))
	if cerr == nil {
		res.Count("retry.creator_committed")
		if !(p.InGetStores && p.Opens && p.Folder && p.InList && p.Info) || p.Items != in.N || p.Count != int64(in.N) || p.Err != "" {
			res.Fail("retry:committed-store-incomplete", fmt.Sprintf("creator's Commit returned nil after %d rival commits but its store is %+v", in.Rivals, p), in)
		}
		if l.Items != 2+rivalOK {
			res.Fail("retry:ledger-wrong", fmt.Sprintf("ledger has %d items, want %d", l.Items, 2+rivalOK), in)
		}
	} else {
		res.Count("retry.creator_failed")
		if p.any() {
			res.Fail("abort:store-survives", fmt.Sprintf("store %q created in a transaction whose Commit failed after a conflict retry (%d rival commits, clash=%v): %v; still exists: %+v", in.Opts.Name, in.Rivals, in.Clash, cerr, p), in)
		}
		if l.Items != 1+rivalOK || l.Count != int64(1+rivalOK) {
			res.Fail("retry:ledger-wrong", fmt.Sprintf("ledger has %d items (count %d), want %d", l.Items, l.Count, 1+rivalOK), in)
		}
		if in.Rivals > 0 && !in.Clash {
			addNote(res, "a creator whose commit needs a retry fails although the conflict is mergeable: "+stripPath(cerr.Error()))
		}
	}
	res.AddCase(fmt.Sprintf("RetryCase %s %s %s %s", hx.CoqNat(in.Rivals), hx.CoqBool(in.Clash), hx.CoqBool(cerr == nil), hx.CoqBool(p.any())), in)
}

func addNote(res *hx.Result, n string) {
	for _, x := range res.Notes {
		if x == n {
			return
		}
	}
	res.Notes = append(res.Notes, n)
}

func stripPath(s string) string {
	if i := strings.Index(s, "/var/tmp/"); i >= 0 {
		return s[:i] + "<path>"
	}
	return s
}

// ---------------------------------------------------------------- serial

func runSerial(res *hx.Result, in input) {
	e, _ := sopx.NewEnv(newDir(), hashMod)
	defer os.RemoveAll(e.Folder)
	fails := 0
	for i := 0; i < in.K; i++ {
		t, _ := e.NewTxn(bg, sop.ForWriting, 5*time.Second, fmt.Sprint("s", i), true)
		t.Begin(bg)
		b, err := t.NewStore(bg, in.Opts)
		if err == nil {
			_, err = b.Add(bg, i, fmt.Sprint("v", i))
		}
		if err == nil {
			err = t.Commit(bg)
		}
		if err != nil {
			fails++
		}
	}
	p := observe(e, in.Opts.Name)
	raw, _ := sopx.ReadRaw(e.Folder)
	cnt := 0
	for _, n := range raw.StoreList {
		if n == in.Opts.Name {
			cnt++
		}
	}
	res.Seen(fmt.Sprintf("serial:%+v:%d", in.Opts, in.K), true)
	res.Count("serial")
	if cnt != 1 || !p.Opens || p.Items != in.K || fails != 0 {
		res.Fail("serial:not-one-store", fmt.Sprintf("%d sequential creators: %d list entries, %d failures, %+v", in.K, cnt, fails, p), in)
	}
	res.AddCase(fmt.Sprintf("SerialCase %s %s", hx.CoqNat(in.K), hx.CoqNat(cnt)), in)
}

// ---------------------------------------------------------------- recreate

func runRecreate(res *hx.Result, in input) {
	e, _ := sopx.NewEnv(newDir(), hashMod)
	defer os.RemoveAll(e.Folder)
	mk := func(o sopx.StoreOpts, n int, base int) error {
		t, _ := e.NewTxn(bg, sop.ForWriting, 5*time.Second, "c", true)
		t.Begin(bg)
		b, err := t.NewStore(bg, o)
		if err != nil {
			return err
		}
		if b.Count() != 0 {
			return fmt.Errorf("new store starts with count %d", b.Count())
		}
		for i := 0; i < n; i++ {
			if _, err := b.Add(bg, base+i, fmt.Sprint("w", base+i)); err != nil {
				return err
			}
		}
		return t.Commit(bg)
	}
	if err := mk(in.Opts, in.N, 0); err != nil {
		res.Fail("harness-error", "first creation: "+err.Error(), in)
		return
	}
	rerr := infs.RemoveBtree(bg, in.Opts.Name, []string{e.Folder}, nil, sop.InMemory)
	mid := observe(e, in.Opts.Name)
	res.Seen(fmt.Sprintf("recreate:%+v:%+v:%d", in.Opts, in.Opts2, in.N), true)
	res.Count("recreate")
	if rerr != nil || mid.any() {
		res.Fail("remove:artefact-left", fmt.Sprintf("after RemoveBtree (err=%v): %+v", rerr, mid), in)
	}
	// leftovers under the folder (any file mentioning the store)
	left := 0
	filepath.Walk(e.Folder, func(p string, info os.FileInfo, err error) error {
		if err == nil && strings.Contains(p, string(os.PathSeparator)+in.Opts.Name+string(os.PathSeparator)) {
			left++
		}
		return nil
	})
	if left > 0 {
		res.Fail("remove:artefact-left", fmt.Sprintf("%d files of the removed store remain", left), in)
	}
	o2 := in.Opts2
	o2.Name = in.Opts.Name
	err := mk(o2, 2, 100)
	if err != nil {
		res.Fail("recreate:failed", err.Error(), in)
	}
	d := sopx.DumpFresh(e.Folder, hashMod, false)
	sd := d.Stores[in.Opts.Name]
	after := observe(e, in.Opts.Name)
	okc := sd != nil && sd.Err == "" && sd.Count == 2 && len(sd.Keys) == 2 && sd.Keys[0] == 100 && after.Slot == o2.Slot && after.InNode == o2.InNode
	if err == nil && !okc {
		res.Fail("recreate:old-state-visible", fmt.Sprintf("recreated store: dump %+v presence %+v want 2 items [100 101] slot %d in_node %v", sd, after, o2.Slot, o2.InNode), in)
	}
	res.AddCase(fmt.Sprintf("RecreateCase %s %s %s %s %s", hx.CoqNat(in.N), hx.CoqZ(int64(o2.Slot)), hx.CoqBool(mid.any()), hx.CoqZ(after.Count), hx.CoqZ(int64(after.Slot))), in)
}

// ---------------------------------------------------------------- driver

func dispatch(res *hx.Result, in input) {
	defer func() {
		if r := recover(); r != nil {
			res.Fail("panic", fmt.Sprint(r), in)
		}
	}()
	switch in.Kind {
	case "abort":
		runAbort(res, in)
	case "race":
		runRace(res, in)
	case "retry":
		runRetry(res, in)
	case "serial":
		runSerial(res, in)
	case "recreate":
		runRecreate(res, in)
	}
}

func run(cfg *hx.RunCfg) (*hx.Result, error) {
	slog.SetLogLoggerLevel(slog.LevelError + 4)
	res := hx.NewResult("C12")
	res.Imports = []string{"Lib.Bytes", "StoreCatalog", "Corr.C12"}
	res.CaseType = "c12case"
	res.Checker = "c12_check"
	res.Rule = "evaluation = one program: abort (options x items x {Rollback, clean commit, single injected fault at every armed call index of NewBtree+commit, Fail and FailAfter}), race (two same-name creators, loser gated at StoreRepository.Add, winner commits before/after), serial (k sequential creators), recreate (options x new options); distinct = distinct program text; non-trivial = everything but the clean commit"
	os.MkdirAll(scratch, 0o755)
	if cfg.Replay != "" {
		raw, err := os.ReadFile(cfg.Replay)
		if err != nil {
			return nil, err
		}
		var rp struct {
			Input input `json:"input"`
		}
		if err := json.Unmarshal(raw, &rp); err != nil {
			return nil, err
		}
		dispatch(res, rp.Input)
		return res, nil
	}
	r := hx.NewRng(cfg.Seed)
	thorough := cfg.Tier == "thorough"
	optsList := []sopx.StoreOpts{
		{Name: "x", Slot: 4, Unique: true, InNode: true},
		{Name: "x", Slot: 4, Unique: true, InNode: false},
		{Name: "x", Slot: 6, Unique: false, InNode: false, ActivelyP: true},
		{Name: "x", Slot: 8, Unique: true, InNode: false, ActivelyP: true, GlobalCache: true},
	}
	// corpus: the known finding and the minimised past failures first (the first case is the former
	// "actively persisted add, then Rollback" defect, fixed; it stays as a regression case)
	dispatch(res, input{Kind: "abort", Opts: optsList[2], N: 3, End: "rollback"})
	dispatch(res, input{Kind: "race", Opts: optsList[0], N: 3, Commit: true})
	dispatch(res, input{Kind: "race", Opts: optsList[0], N: 3, Commit: false})
	// creator + concurrent committed conflicting writer: the demo history first (clash on key 100)
	audit := func(o sopx.StoreOpts) sopx.StoreOpts { o.Name = "audit"; return o }
	dispatch(res, input{Kind: "retry", Opts: audit(optsList[0]), N: 3, Rivals: 1, Clash: true})
	dispatch(res, input{Kind: "retry", Opts: audit(optsList[0]), N: 3, Rivals: 1, Clash: false})
	dispatch(res, input{Kind: "retry", Opts: audit(optsList[0]), N: 3, Rivals: 0})
	for _, o := range optsList {
		for _, cf := range []bool{false, true} {
			dispatch(res, input{Kind: "retry", Opts: audit(o), N: hx.Pick(r, []int{0, 1, 4, 9}), Rivals: 1 + r.Intn(2), Clash: true, CreateFirst: cf})
			dispatch(res, input{Kind: "retry", Opts: audit(o), N: hx.Pick(r, []int{0, 1, 4, 9}), Rivals: 1 + r.Intn(3), Clash: false, CreateFirst: cf})
		}
	}
	nretry := 4
	if thorough {
		nretry = 40
	}
	for i := 0; i < nretry; i++ {
		dispatch(res, input{Kind: "retry", Opts: audit(hx.Pick(r, optsList)), N: r.Intn(10), Rivals: r.Intn(4), Clash: r.Bool(), CreateFirst: r.Bool()})
	}
	for _, o := range optsList {
		for _, n := range []int{0, 1, 5, 12} {
			dispatch(res, input{Kind: "abort", Opts: o, N: n, End: "rollback"})
			if !thorough && (n == 5 || n == 0) {
				continue
			}
			// clean commit tells how many armed calls there are; then every single fault position
			nEv := runAbort(res, input{Kind: "abort", Opts: o, N: n, End: "commit"})
			for f := 0; f < nEv; f++ {
				if !thorough && n > 1 && r.Intn(5) != 0 {
					continue
				}
				dispatch(res, input{Kind: "abort", Opts: o, N: n, End: "fault", Fault: f})
				if thorough || r.Intn(3) == 0 {
					dispatch(res, input{Kind: "abort", Opts: o, N: n, End: "fault", Fault: f, After: true})
				}
			}
		}
		dispatch(res, input{Kind: "race", Opts: o, N: 4, Commit: true})
		dispatch(res, input{Kind: "race", Opts: o, N: 4, Commit: false})
		dispatch(res, input{Kind: "serial", Opts: o, K: 1 + r.Intn(4)})
	}
	slots := []int{2, 4, 6, 16}
	nrec := 6
	if thorough {
		nrec = 40
	}
	for i := 0; i < nrec; i++ {
		o1 := hx.Pick(r, optsList)
		o2 := sopx.StoreOpts{Slot: hx.Pick(r, slots), Unique: r.Bool(), InNode: r.Bool()}
		dispatch(res, input{Kind: "recreate", Opts: o1, Opts2: o2, N: hx.Pick(r, []int{0, 3, 14})})
	}
	ks := hx.SortedKeys(res.Distribution)
	sort.Strings(ks)
	return res, nil
}

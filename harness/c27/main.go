package main

// C27: the passive copy stays a faithful replica and can be reinstated.
// Histories of store creations, commits, rollbacks, store drops on a replicated
// (two folders + EC drives) database, passive-side faults, drive replacement and
// ReinstateFailedDrives.  Direct oracle: raw decoded state of both folders, the
// replication status file, operation results, fresh-process dumps of the active
// side and of the passive side after fs.TriggerFailover.  Correspondence: the
// model Repl.v is run on the same history (with the phase-2 payloads the
// implementation handed to Replicate) inside Coq.

import (
	"context"
	"encoding/json"
	"fmt"
	"os"
	"os/exec"
	"path/filepath"
	"sort"
	"strings"
	"time"

	"github.com/sharedcode/sop"
	"github.com/sharedcode/sop/fs"

	"verif/harness/hx"
	"verif/harness/sopx"
)

func main() { hx.Main("c27", runC27) }

type histOp struct {
	Kind  string `json:"kind"`            // create | write | rollback | drop | reinstate
	Store string `json:"store,omitempty"` // s0..s3
	Adds  []int  `json:"adds,omitempty"`
	Rems  []int  `json:"rems,omitempty"`
	Upds  []int  `json:"upds,omitempty"`
	// Fault: "" | dead (passive root becomes a file and stays so) | regwrite:K (K-th and later passive
	// registry block writes of this operation fail) | sinfo (passive storeinfo.txt unwritable during this
	// operation) | slist (passive storelist.txt unwritable during this operation)
	Fault string `json:"fault,omitempty"`
	Drive string `json:"drive,omitempty"` // reinstate: empty | stale
}
type history struct {
	Name    string   `json:"name"`
	HashMod int      `json:"hash_mod"`
	Slot    int      `json:"slot"`
	Ops     []histOp `json:"ops"`
}

var storeNames = []string{"s0", "s1", "s2", "s3"}

func storeIdx(n string) int {
	for i, s := range storeNames {
		if s == n {
			return i + 1
		}
	}
	return 99
}

// ---------------------------------------------------------------- child: logical dump (active / after failover)

type storeDump = sopx.StoreDump
type dbDump = sopx.Dump

func dumpReplicated(ctx context.Context, e *REnv) *dbDump {
	d := &dbDump{Stores: map[string]*storeDump{}}
	t, err := e.NewTxn(ctx, sop.ForReading, time.Minute, "dump")
	if err != nil {
		d.Err = "newtxn: " + err.Error()
		return d
	}
	if err := t.Begin(ctx); err != nil {
		d.Err = err.Error()
		return d
	}
	names, err := t.GetStores(ctx)
	if err != nil {
		d.Err = err.Error()
	}
	sort.Strings(names)
	d.Names = names
	for _, n := range names {
		sd := &storeDump{}
		d.Stores[n] = sd
		b, err := t.OpenStore(ctx, n)
		if err != nil {
			sd.Err = "open: " + err.Error()
			continue
		}
		sd.Count = b.Count()
		ok, err := b.First(ctx)
		for ok && err == nil {
			k := b.GetCurrentKey().Key
			v, verr := b.GetCurrentValue(ctx)
			if verr != nil {
				sd.Err = fmt.Sprintf("value of key %d: %v", k, verr)
				break
			}
			sd.Keys = append(sd.Keys, k)
			sd.Vals = append(sd.Vals, v)
			ok, err = b.Next(ctx)
		}
		if err != nil {
			sd.Err = "scan: " + err.Error()
		}
	}
	if err := t.Commit(ctx); err != nil && d.Err == "" {
		d.Err = "reader commit: " + err.Error()
	}
	return d
}

func copyTree(src, dst string) error {
	return filepath.Walk(src, func(p string, info os.FileInfo, err error) error {
		if err != nil {
			return err
		}
		rel, _ := filepath.Rel(src, p)
		q := filepath.Join(dst, rel)
		if info.IsDir() {
			return os.MkdirAll(q, 0o755)
		}
		b, err := os.ReadFile(p)
		if err != nil {
			return err
		}
		return os.WriteFile(q, b, 0o644)
	})
}

func init() {
	hx.Children["c27dump"] = func(args []string) int {
		// args: root mode hashmod ; mode = active | failover
		ctx := context.Background()
		sop.RetryStartDuration = time.Millisecond
		root, mode := args[0], args[1]
		var hm int
		fmt.Sscan(args[2], &hm)
		e, err := NewREnv(root, hm)
		out := func(d *dbDump) int {
			b, _ := json.Marshal(d)
			os.Stdout.Write(b)
			return 0
		}
		if err != nil {
			return out(&dbDump{Err: err.Error()})
		}
		if mode == "failover" {
			fo := filepath.Join(root, "fo")
			os.RemoveAll(fo)
			for _, x := range []string{"a", "b"} {
				if err := copyTree(filepath.Join(root, x), filepath.Join(fo, x)); err != nil {
					return out(&dbDump{Err: "copy: " + err.Error()})
				}
			}
			e.Folders = []string{filepath.Join(fo, "a"), filepath.Join(fo, "b")}
			before, _ := fs.NewReplicationTracker(ctx, e.Folders, true, e.Cache)
			_ = before
			if err := fs.TriggerFailover(ctx, e.Folders, true, e.Cache); err != nil {
				return out(&dbDump{Err: "failover: " + err.Error()})
			}
			if fs.GlobalReplicationDetails == nil || fs.GlobalReplicationDetails.ActiveFolderToggler {
				return out(&dbDump{Err: "failover did not switch the active folder"})
			}
		}
		return out(dumpReplicated(ctx, e))
	}
}

func dumpChild(root, mode string, hm int) *dbDump {
	cmd := exec.Command(os.Args[0], "child:c27dump", root, mode, fmt.Sprint(hm))
	outb, err := cmd.Output()
	d := &dbDump{}
	if err != nil {
		d.Err = fmt.Sprintf("dump child failed: %v", err)
		return d
	}
	if err := json.Unmarshal(outb, d); err != nil {
		d.Err = "dump child output: " + err.Error()
	}
	return d
}

// ---------------------------------------------------------------- raw comparison of the two folders

type rawSide struct {
	List    []string
	Infos   map[string]string // raw storeinfo.txt
	Handles map[string][]sop.Handle
	HashMod string
	Err     string
}

func readSide(folder string) *rawSide {
	rs := &rawSide{Infos: map[string]string{}, Handles: map[string][]sop.Handle{}}
	st, err := os.Stat(folder)
	if err != nil || !st.IsDir() {
		rs.Err = "not a directory"
		return rs
	}
	raw, err := sopx.ReadRaw(folder)
	if err != nil {
		rs.Err = err.Error()
		return rs
	}
	rs.List = append([]string(nil), raw.StoreList...)
	sort.Strings(rs.List)
	for n, s := range raw.Stores {
		if n == "commitlogs" || n == "fo" {
			continue
		}
		if s.InfoRaw != "" {
			rs.Infos[n] = s.InfoRaw
		}
		hs := append([]sop.Handle(nil), s.Handles...)
		sort.Slice(hs, func(i, j int) bool { return hs[i].LogicalID.String() < hs[j].LogicalID.String() })
		if len(hs) > 0 {
			rs.Handles[n] = hs
		}
	}
	b, _ := os.ReadFile(filepath.Join(folder, "reghashmod.txt"))
	rs.HashMod = string(b)
	return rs
}

// diffSides returns "" when equal, else a short class and a detail.
func diffSides(a, p *rawSide) (string, string) {
	if a.Err != "" || p.Err != "" {
		return "unreadable", a.Err + "/" + p.Err
	}
	if strings.Join(a.List, ",") != strings.Join(p.List, ",") {
		return "storelist", fmt.Sprintf("active %v passive %v", a.List, p.List)
	}
	for _, n := range a.List {
		ai, pi := a.Infos[n], p.Infos[n]
		if ai != pi {
			if pi == "" {
				return "storeinfo-missing", n
			}
			return "storeinfo-differs", fmt.Sprintf("%s: active %.120s passive %.120s", n, tail(ai), tail(pi))
		}
		ah, ph := a.Handles[n], p.Handles[n]
		if len(ah) != len(ph) {
			if len(ph) == 0 {
				return "registry-missing", fmt.Sprintf("%s: active %d handles passive none", n, len(ah))
			}
			return "registry-differs", fmt.Sprintf("%s: active %d handles passive %d", n, len(ah), len(ph))
		}
		for i := range ah {
			if ah[i] != ph[i] {
				return "registry-differs", fmt.Sprintf("%s: %+v vs %+v", n, ah[i], ph[i])
			}
		}
	}
	if a.HashMod != p.HashMod {
		return "reghashmod", fmt.Sprintf("active %q passive %q", a.HashMod, p.HashMod)
	}
	return "", ""
}
func tail(s string) string {
	if i := strings.Index(s, `"root_node_id"`); i >= 0 {
		s = s[i:]
	}
	return s
}
func contains(l []string, x string) bool {
	for _, y := range l {
		if y == x {
			return true
		}
	}
	return false
}

// ---------------------------------------------------------------- Coq printers

func coqHandle(c *sopx.Canon, h sop.Handle) string {
	w := h.WorkInProgressTimestamp
	if w > 1 {
		w = 2
	}
	return fmt.Sprintf("(mkH %d %d %d %s %s %d %s)", c.ID(h.LogicalID), c.ID(h.PhysicalIDA), c.ID(h.PhysicalIDB), hx.CoqBool(h.IsActiveIDB), hx.CoqZ(int64(h.Version)), w, hx.CoqBool(h.IsDeleted))
}
func coqPayload(c *sopx.Canon, p []sop.RegistryPayload[sop.Handle]) string {
	var parts []string
	for _, x := range p {
		var hs []string
		for _, h := range x.IDs {
			hs = append(hs, coqHandle(c, h))
		}
		parts = append(parts, fmt.Sprintf("(%d, %s)", storeIdx(x.RegistryTable), hx.CoqList(hs)))
	}
	return hx.CoqList(parts)
}
func coqSinfo(c *sopx.Canon, s sop.StoreInfo) string {
	return fmt.Sprintf("(mkSI %d %s %d %d)", storeIdx(s.Name), hx.CoqZ(s.Count), c.ID(s.RootNodeID), s.Timestamp)
}
func coqBools(b []bool) string {
	var p []string
	for _, x := range b {
		p = append(p, hx.CoqBool(x))
	}
	return hx.CoqList(p)
}
func falses(n int) []bool { return make([]bool, n) }

func coqObs(c *sopx.Canon, folder string) string {
	raw, err := sopx.ReadRaw(folder)
	if err != nil {
		return "(mkObs [] [] [])"
	}
	var list, infos, regs []string
	sl := append([]string(nil), raw.StoreList...)
	sort.Strings(sl)
	for _, n := range sl {
		list = append(list, fmt.Sprint(storeIdx(n)))
	}
	var names []string
	for n := range raw.Stores {
		if n != "commitlogs" && n != "fo" {
			names = append(names, n)
		}
	}
	sort.Strings(names)
	for _, n := range names {
		s := raw.Stores[n]
		if s.Info != nil {
			infos = append(infos, coqSinfo(c, *s.Info))
		}
		for _, h := range s.Handles {
			regs = append(regs, fmt.Sprintf("(%d, %s)", storeIdx(n), coqHandle(c, h)))
		}
	}
	return fmt.Sprintf("(mkObs %s %s %s)", hx.CoqList(list), hx.CoqList(infos), hx.CoqList(regs))
}

func payloadCount(p []sop.RegistryPayload[sop.Handle]) int {
	n := 0
	for _, x := range p {
		n += len(x.IDs)
	}
	return n
}

// ---------------------------------------------------------------- running one history

type runner struct {
	res     *hx.Result
	h       history
	e       *REnv
	ctx     context.Context
	ref     map[string]map[int]string // expected logical content of the active side
	dead    bool                      // passive root currently replaced by a file
	insync  bool                      // no passive fault since the last successful sync
	cops    []string
	okRes   []bool
	failed  []bool
	applied []appliedOp // what was actually committed / dropped, with the exact B-tree calls issued
	c21     bool        // a passive registry write failed with the hashmap's displaced-slot error (C21's defect), no fault injected
	snapDup bool
	snap    string // correspondence case frozen at the first divergent reinstate (later passive states depend on file-level leftovers the model does not track)
	tainted bool   // a reinstate already left the folders different: later reinstates inherit that
	quiet   bool   // after a known divergence: keep running for the correspondence, stop comparing folders
}

func (r *runner) active() string  { return r.e.Folders[0] }
func (r *runner) passive() string { return r.e.Folders[1] }

func (r *runner) fail(sig, what string) {
	r.res.Fail(sig, fmt.Sprintf("history %s: %s", r.h.Name, what), r.h)
}

func (r *runner) flag() bool {
	st, _ := readStatus(r.active())
	return st.FailedToReplicate
}

// installFault prepares a passive-side fault; the returned func removes a transient one.
func (r *runner) installFault(op histOp) (func(), bool) {
	p := r.passive()
	switch {
	case op.Fault == "dead":
		if !r.dead {
			os.RemoveAll(p + ".dead")
			os.Rename(p, p+".dead")
			os.WriteFile(p, []byte("x"), 0o644)
			r.dead = true
		}
		return func() {}, true
	case strings.HasPrefix(op.Fault, "regwrite:"):
		var k int
		fmt.Sscanf(op.Fault, "regwrite:%d", &k)
		theDIO.arm(p+string(os.PathSeparator), k)
		return func() {}, true
	case op.Fault == "sinfo" && !r.dead:
		f := filepath.Join(p, op.Store, "storeinfo.txt")
		b, err := os.ReadFile(f)
		if err != nil {
			return func() {}, false
		}
		os.Remove(f)
		os.MkdirAll(f, 0o755)
		return func() { os.RemoveAll(f); os.WriteFile(f, b, 0o644) }, true
	case op.Fault == "slist" && !r.dead:
		f := filepath.Join(p, "storelist.txt")
		b, err := os.ReadFile(f)
		had := err == nil
		os.Remove(f)
		os.MkdirAll(f, 0o755)
		return func() {
			os.RemoveAll(f)
			if had {
				os.WriteFile(f, b, 0o644)
			}
		}, true
	}
	return func() {}, false
}

func (r *runner) runOp(i int, op histOp) {
	ctx := r.ctx
	res := r.res
	res.Count("op." + op.Kind)
	if op.Fault != "" {
		res.Count("fault." + strings.SplitN(op.Fault, ":", 2)[0])
	}
	if op.Kind == "reinstate" {
		r.reinstate(op)
		return
	}
	if op.Kind == "drop" {
		r.drop(op)
		return
	}
	if op.Kind != "create" && r.ref[op.Store] == nil {
		res.Count("op.skipped_no_store")
		return
	}
	undo, installed := r.installFault(op)
	faulty := op.Fault != "" || r.dead
	label := fmt.Sprintf("t%d", i)
	t, err := r.e.NewTxn(ctx, sop.ForWriting, time.Minute, label)
	if err != nil {
		undo()
		theDIO.disarm()
		r.fail("unexpected-error:newtxn", err.Error())
		return
	}
	t.Begin(ctx)
	var opErr error
	created := false
	existed := r.ref[op.Store] != nil
	var b interface {
		Add(context.Context, int, string) (bool, error)
		Remove(context.Context, int) (bool, error)
		Update(context.Context, int, string) (bool, error)
	}
	if op.Kind == "create" {
		bt, err := t.NewStore(ctx, op.Store, r.h.Slot)
		opErr = err
		if err == nil {
			b = bt
			created = !existed
		}
	} else {
		bt, err := t.OpenStore(ctx, op.Store)
		opErr = err
		if err == nil {
			b = bt
		}
	}
	var calls []btCall
	newRef := map[int]string{}
	for k, v := range r.ref[op.Store] {
		newRef[k] = v
	}
	if opErr == nil {
		for _, k := range op.Adds {
			if _, ok := newRef[k]; ok {
				continue
			}
			v := fmt.Sprintf("v%d.%d", k, i)
			calls = append(calls, btCall{"add", k, v})
			if ok, err := b.Add(ctx, k, v); err == nil && ok {
				newRef[k] = v
			} else if err != nil {
				opErr = err
			}
		}
		for _, k := range op.Upds {
			if _, ok := newRef[k]; !ok {
				continue
			}
			v := fmt.Sprintf("u%d.%d", k, i)
			calls = append(calls, btCall{"upd", k, v})
			if ok, err := b.Update(ctx, k, v); err == nil && ok {
				newRef[k] = v
			} else if err != nil {
				opErr = err
			}
		}
		for _, k := range op.Rems {
			if _, ok := newRef[k]; !ok {
				continue
			}
			calls = append(calls, btCall{"rem", k, ""})
			if ok, err := b.Remove(ctx, k); err == nil && ok {
				delete(newRef, k)
			} else if err != nil {
				opErr = err
			}
		}
	}
	committed := false
	if opErr == nil {
		if op.Kind == "rollback" {
			opErr = t.Rollback(ctx)
		} else {
			opErr = t.Commit(ctx)
			committed = opErr == nil
		}
	}
	undo()
	hits := theDIO.disarm()
	cap := t.Cap
	failedNow := r.flag()

	// ---- model operations for this step
	if op.Kind == "create" && !existed {
		// StoreRepository.Add happened (or failed) inside NewBtree
		fl, d := []bool{}, false
		switch {
		case r.dead:
			d = true
		case op.Fault == "slist" && installed:
			fl, d = []bool{true, false, false, false, true}, false
		}
		si := sop.StoreInfo{Name: op.Store}
		ok := len(cap.SrAddErr) > 0 && cap.SrAddErr[0] == ""
		if len(cap.SrAddSI) > 0 {
			si = cap.SrAddSI[0] // exactly what StoreRepository.Add wrote (count 0, creation timestamp)
		}
		r.cops = append(r.cops, fmt.Sprintf("CCreate %d %s %s %s", storeIdx(op.Store), coqSinfo(r.e.Canon, si), coqBools(fl), hx.CoqBool(d)))
		r.okRes = append(r.okRes, ok)
		prev := false
		if len(r.failed) > 0 {
			prev = r.failed[len(r.failed)-1]
		}
		if ok {
			r.failed = append(r.failed, prev) // Add never touches the flag; the commit's flag is recorded with CCommit
		} else {
			r.failed = append(r.failed, failedNow)
		}
		if !ok {
			// direct oracle: a passive-side fault must not fail the creation
			if faulty {
				cls := "passive-down"
				if op.Fault == "slist" {
					cls = "slist"
				}
				r.fail("create-store-fails-on-passive-fault:"+cls, fmt.Sprintf("op %d: creating store %s failed because of the passive side: %v (FailedToReplicate=%v)", i, op.Store, opErr, failedNow))
			} else {
				r.fail("unexpected-error:create", fmt.Sprint(opErr))
			}
			if op.Fault != "" && op.Fault != "dead" {
				r.insync = false
			}
			return
		}
	}
	_ = created
	if committed && cap.RegDone {
		R := payloadCount(cap.Roots) + payloadCount(cap.Added) + payloadCount(cap.Updated) + payloadCount(cap.Removed)
		fl, d, gl, gd := []bool{}, false, []bool{}, false
		late := false
		switch {
		case r.dead:
			d, gd = true, true
		case strings.HasPrefix(op.Fault, "regwrite:") && hits > 0:
			var k int
			fmt.Sscanf(op.Fault, "regwrite:%d", &k)
			if k >= R {
				k = R - 1
			}
			fl, d = falses(k), true
			// did StoreRepository.Replicate still write the passive store info?
			ai, _ := os.ReadFile(filepath.Join(r.active(), op.Store, "storeinfo.txt"))
			pi, _ := os.ReadFile(filepath.Join(r.passive(), op.Store, "storeinfo.txt"))
			late = string(ai) != string(pi)
		case op.Fault == "sinfo" && installed:
			gd = true
		}
		var sis []string
		for _, s := range cap.Stores {
			sis = append(sis, coqSinfo(r.e.Canon, s))
		}
		c := fmt.Sprintf("(mkC %s %s %s %s %s)", coqPayload(r.e.Canon, cap.Roots), coqPayload(r.e.Canon, cap.Added), coqPayload(r.e.Canon, cap.Updated), coqPayload(r.e.Canon, cap.Removed), hx.CoqList(sis))
		r.cops = append(r.cops, fmt.Sprintf("CCommit %s %s %s %s %s %s", c, hx.CoqBool(late), coqBools(fl), hx.CoqBool(d), coqBools(gl), hx.CoqBool(gd)))
		r.okRes = append(r.okRes, true)
		r.failed = append(r.failed, failedNow)
		res.Count(fmt.Sprintf("commit.handles.%d", bucket(R)))
	}

	// ---- direct oracle
	if opErr != nil {
		if faulty {
			r.fail("fault-changed-result:"+op.Kind, fmt.Sprintf("op %d (%s, fault %q, passive dead=%v): %v", i, op.Kind, op.Fault, r.dead, opErr))
		} else {
			r.fail("unexpected-error:"+op.Kind, fmt.Sprintf("op %d: %v", i, opErr))
		}
		return
	}
	if committed {
		r.ref[op.Store] = newRef
		r.applied = append(r.applied, appliedOp{Store: op.Store, Calls: calls})
	} else if op.Kind == "rollback" && !existed {
		delete(r.ref, op.Store)
	}
	wroteToPassive := committed && (payloadCount(cap.Roots)+payloadCount(cap.Added)+payloadCount(cap.Updated)+payloadCount(cap.Removed)+len(cap.Stores) > 0)
	hit := (r.dead && wroteToPassive) || hits > 0 || (op.Fault == "sinfo" && installed && committed && len(cap.Stores) > 0)
	if !hit && committed && failedNow && isDisplacedSlotError(cap.RegErr) {
		// No injected fault, yet the passive-side registry write failed with the hashmap's own "item not found /
		// different item" error: C21's open finding (findOneFileRegion(forWriting) stops at the first empty slot, so a
		// displaced id whose earlier slot was vacated cannot be removed / is written twice).  The active side does an
		// extra UpdateNoLocks of the removed handles before its Remove, which hides the same defect there.  Replication
		// was switched off correctly; the history leaves the model's "registry is a map" assumption here.
		res.Count("passive.c21_displaced_slot_error")
		r.c21 = true
		r.insync = false
	}
	if hit {
		r.insync = false
		if !failedNow {
			r.fail("fault-not-flagged:"+op.Kind, fmt.Sprintf("op %d: a passive write failed (fault %q) but FailedToReplicate is still false", i, op.Fault))
		}
	}
	r.compare(i, op.Kind)
}

// isDisplacedSlotError: the message text is the only discriminator the registry map offers.
func isDisplacedSlotError(msg string) bool {
	return strings.Contains(msg, "can't delete a missing item") || strings.Contains(msg, "is different (source lid")
}

func bucket(n int) int {
	switch {
	case n <= 1:
		return 1
	case n <= 3:
		return 3
	case n <= 8:
		return 8
	}
	return 9
}

// compare: when the folders are supposed to be in sync they must be identical.
func (r *runner) compare(i int, kind string) {
	if !r.insync || r.quiet {
		return
	}
	if r.flag() {
		r.fail("flagged-without-fault:"+kind, fmt.Sprintf("op %d: FailedToReplicate set although no passive write failed", i))
		r.insync = false
		return
	}
	cls, detail := diffSides(readSide(r.active()), readSide(r.passive()))
	if cls != "" {
		r.fail("replica-diverged:"+cls+":"+kind, fmt.Sprintf("op %d: passive folder differs from the active one with replication on: %s", i, detail))
		r.quiet = true
	}
}

func (r *runner) drop(op histOp) {
	ctx := r.ctx
	if r.ref[op.Store] == nil {
		r.res.Count("op.skipped_no_store")
		return
	}
	undo, installed := r.installFault(op)
	// as infs.RemoveBtree with an erasure config: StoreRepository.Remove (error only logged), then the EC blob folders
	rt, err := fs.NewReplicationTracker(ctx, r.e.Folders, true, r.e.Cache)
	var rmErr error
	if err == nil {
		sr, err2 := fs.NewStoreRepository(ctx, rt, fs.NewManageStoreFolder(fs.NewFileIO()), r.e.Cache, fs.MinimumModValue)
		if err2 == nil {
			rmErr = sr.Remove(ctx, op.Store)
		} else {
			err = err2
		}
	}
	if bs, e2 := fs.NewBlobStoreWithEC(fs.DefaultToFilePath, nil, r.e.EC); e2 == nil {
		if b, ok := bs.(*fs.BlobStoreWithEC); ok {
			b.RemoveStore(ctx, op.Store)
		}
	}
	undo()
	theDIO.disarm()
	failedNow := r.flag()
	fl, d := []bool{}, false
	switch {
	case r.dead:
		d = true
	case op.Fault == "slist" && installed:
		fl = []bool{false, true}
	}
	r.cops = append(r.cops, fmt.Sprintf("CDrop %d %s %s", storeIdx(op.Store), coqBools(fl), hx.CoqBool(d)))
	r.okRes = append(r.okRes, true)
	r.failed = append(r.failed, failedNow)
	if err != nil {
		r.fail("unexpected-error:drop", err.Error())
		return
	}
	delete(r.ref, op.Store)
	r.applied = append(r.applied, appliedOp{Store: op.Store, Drop: true})
	if rmErr != nil && (r.dead || op.Fault != "") {
		r.res.Count("drop.replicate_error")
		if !failedNow && !r.dead {
			// the passive store list still names the store although replication stays on
			r.insync = false
			r.fail("drop-store-passive-fault-not-flagged:"+op.Fault, fmt.Sprintf("dropping %s: passive write failed (%v), FailedToReplicate stays false and the passive folder still lists the store", op.Store, rmErr))
			r.quiet = true
		}
	}
	r.compare(-1, "drop")
}

func (r *runner) reinstate(op histOp) {
	ctx := r.ctx
	p := r.passive()
	if !r.flag() {
		return // nothing to reinstate (the implementation refuses)
	}
	if r.dead {
		os.Remove(p)
		if op.Drive == "stale" {
			os.Rename(p+".dead", p)
		} else {
			os.RemoveAll(p + ".dead")
			os.MkdirAll(p, 0o755)
			r.cops = append(r.cops, "CReplaceDrive")
			r.okRes = append(r.okRes, true)
			r.failed = append(r.failed, true)
		}
		r.dead = false
	} else if op.Drive == "empty" {
		os.RemoveAll(p)
		os.MkdirAll(p, 0o755)
		r.cops = append(r.cops, "CReplaceDrive")
		r.okRes = append(r.okRes, true)
		r.failed = append(r.failed, true)
	}
	r.res.Count("reinstate." + op.Drive)
	t0 := time.Now()
	err := r.e.Reinstate(ctx)
	if time.Since(t0) > 20*time.Second {
		r.fail("reinstate-slow", fmt.Sprintf("ReinstateFailedDrives took %v", time.Since(t0)))
	}
	r.cops = append(r.cops, "CReinstate false")
	r.okRes = append(r.okRes, err == nil)
	r.failed = append(r.failed, r.flag())
	if err != nil {
		r.fail("reinstate-failed:"+op.Drive, err.Error())
		return
	}
	if r.flag() {
		r.fail("reinstate-left-flag:"+op.Drive, "ReinstateFailedDrives returned nil but FailedToReplicate is still true")
		return
	}
	r.insync = true
	r.quiet = false
	cls, detail := diffSides(readSide(r.active()), readSide(r.passive()))
	if cls != "" && r.tainted {
		r.res.Count("reinstate.diverged_after_taint")
		r.quiet = true
	} else if cls != "" {
		r.tainted = true
		r.snap = r.caseTerm()
		r.snapDup = hasDupLids(r.active()) || hasDupLids(r.passive())
		r.fail("reinstate-diverged:"+op.Drive+":"+cls, fmt.Sprintf("after ReinstateFailedDrives (%s drive) the passive folder differs from the active one, replication is on: %s", op.Drive, detail))
		r.quiet = true
	}
}

// hasDupLids: a registry table holds two records with the same logical id (C21's displaced-slot defect:
// an update written to another slot than the stale copy).  The model takes the registry as a map, so such a
// state is outside its stated assumption; the raw / failover oracles still judge the history.
func hasDupLids(folder string) bool {
	raw, err := sopx.ReadRaw(folder)
	if err != nil {
		return false
	}
	for _, s := range raw.Stores {
		seen := map[sop.UUID]bool{}
		for _, h := range s.Handles {
			if seen[h.LogicalID] {
				return true
			}
			seen[h.LogicalID] = true
		}
	}
	return false
}

func (r *runner) caseTerm() string {
	return fmt.Sprintf("ReplCase %s %s %s %s %s", hx.CoqList(r.cops), coqBools(r.okRes), coqBools(r.failed), coqObs(r.e.Canon, r.active()), coqObs(r.e.Canon, r.passive()))
}

func runHistory(res *hx.Result, h history, idx int) {
	ctx := context.Background()
	root := filepath.Join("/var/tmp/C27", fmt.Sprintf("h%d-%d", os.Getpid(), idx))
	os.RemoveAll(root)
	defer os.RemoveAll(root)
	e, err := NewREnv(root, h.HashMod)
	if err != nil {
		res.Fail("harness", err.Error(), h)
		return
	}
	r := &runner{res: res, h: h, e: e, ctx: ctx, ref: map[string]map[int]string{}, insync: true}
	for i, op := range h.Ops {
		r.runOp(i, op)
	}
	js, _ := json.Marshal(h)
	res.Seen(string(js), len(h.Ops) >= 2)
	res.Count(fmt.Sprintf("history.ops.%d", bucket(len(h.Ops))))

	// fresh-process dumps: the active side shows the reference content; after failover the passive side shows the same
	if r.dead {
		os.Remove(r.passive())
		os.Rename(r.passive()+".dead", r.passive())
	}
	ad := dumpChild(root, "active", h.HashMod)
	if msg := dumpVsRef(ad, r.ref); msg != "" {
		// The naive key->value reference is not the judge of B-tree behaviour (known B-tree defects, e.g. removes with
		// slot length 2, are other properties' subject).  C27's claim is that faults and replication do not change the
		// ACTIVE side: compare with an UNREPLICATED twin database on which exactly the same B-tree calls are replayed.
		res.Count("active.differs_from_naive_reference")
		td := twinDump(root, h, r.applied)
		if !td.Equal(ad) {
			a, _ := json.Marshal(ad)
			t, _ := json.Marshal(td)
			r.fail("active-content-wrong", fmt.Sprintf("%s; replicated active side %.300s / unreplicated twin with the same calls %.300s", msg, a, t))
		} else {
			res.Count("active.same_as_unreplicated_twin")
		}
	}
	if r.insync && !r.quiet && !r.flag() {
		res.Count("failover.dump")
		fd := dumpChild(root, "failover", h.HashMod)
		if !fd.Equal(ad) {
			a, _ := json.Marshal(ad)
			f, _ := json.Marshal(fd)
			r.fail("failover-dump-differs", fmt.Sprintf("active %.300s / after failover %.300s", a, f))
		}
	}
	term := r.caseTerm()
	dup := hasDupLids(r.active()) || hasDupLids(r.passive())
	if r.snap != "" {
		term = r.snap
		dup = r.snapDup
		res.Count("case.frozen_at_divergent_reinstate")
	}
	if r.c21 && r.snap == "" {
		res.Count("case.skipped_c21_displaced_slot_error")
	} else if dup {
		res.Count("case.skipped_c21_duplicate_lid")
	} else {
		res.AddCase(term, h)
	}
	res.Sample(map[string]any{"history": h, "results": r.okRes, "failed_after": r.failed})
}

type btCall struct {
	Op string
	K  int
	V  string
}
type appliedOp struct {
	Store string
	Drop  bool
	Calls []btCall
}

// twinDump replays the committed operations (the very same Add/Update/Remove calls) on a plain, unreplicated
// database with the same slot length and hash modulus and returns its fresh-process dump.
func twinDump(root string, h history, ops []appliedOp) *dbDump {
	ctx := context.Background()
	dir := filepath.Join(root, "twin")
	os.RemoveAll(dir)
	e, err := sopx.NewEnv(dir, h.HashMod)
	if err != nil {
		return &dbDump{Err: err.Error()}
	}
	for _, op := range ops {
		if op.Drop {
			// same effect as the replicated drop on the logical content: the store disappears
			t, _ := e.NewTxn(ctx, sop.ForWriting, time.Minute, "twin", true)
			t.Begin(ctx)
			t.Two.GetStoreRepository().Remove(ctx, op.Store)
			t.Rollback(ctx)
			continue
		}
		t, err := e.NewTxn(ctx, sop.ForWriting, time.Minute, "twin", true)
		if err != nil {
			return &dbDump{Err: err.Error()}
		}
		t.Begin(ctx)
		b, err := t.NewStore(ctx, sopx.StoreOpts{Name: op.Store, Slot: h.Slot, Unique: true, InNode: true})
		if err != nil {
			return &dbDump{Err: "twin open: " + err.Error()}
		}
		for _, c := range op.Calls {
			switch c.Op {
			case "add":
				b.Add(ctx, c.K, c.V)
			case "upd":
				b.Update(ctx, c.K, c.V)
			case "rem":
				b.Remove(ctx, c.K)
			}
		}
		if err := t.Commit(ctx); err != nil {
			return &dbDump{Err: "twin commit: " + err.Error()}
		}
	}
	return sopx.DumpFresh(dir, h.HashMod, false)
}

func dumpVsRef(d *dbDump, ref map[string]map[int]string) string {
	if d.Err != "" {
		return "dump error: " + d.Err
	}
	var names []string
	for n := range ref {
		names = append(names, n)
	}
	sort.Strings(names)
	if strings.Join(names, ",") != strings.Join(d.Names, ",") {
		return fmt.Sprintf("stores %v, expected %v", d.Names, names)
	}
	for _, n := range names {
		sd := d.Stores[n]
		if sd.Err != "" {
			return n + ": " + sd.Err
		}
		var keys []int
		for k := range ref[n] {
			keys = append(keys, k)
		}
		sort.Ints(keys)
		if int(sd.Count) != len(keys) || len(sd.Keys) != len(keys) {
			return fmt.Sprintf("%s: count %d keys %d, expected %d", n, sd.Count, len(sd.Keys), len(keys))
		}
		for i, k := range keys {
			if sd.Keys[i] != k || sd.Vals[i] != ref[n][k] {
				return fmt.Sprintf("%s: key %d=%q, expected %d=%q", n, sd.Keys[i], sd.Vals[i], k, ref[n][k])
			}
		}
	}
	return ""
}

// ---------------------------------------------------------------- generation

func genKeys(r *hx.Rng, n, max int) []int {
	var out []int
	for i := 0; i < n; i++ {
		out = append(out, r.Intn(max))
	}
	return out
}

func genHistory(r *hx.Rng, idx int, faults bool) history {
	h := history{Name: fmt.Sprintf("gen%d", idx), HashMod: hx.Pick(r, []int{1, 2, 3, 5}), Slot: hx.Pick(r, []int{2, 4, 4, 8})}
	n := 4 + r.Intn(7)
	exists := map[string]bool{}
	failedSince := false
	for i := 0; i < n; i++ {
		var op histOp
		s := hx.Pick(r, storeNames[:3])
		switch k := r.Intn(20); {
		case !exists[s] || k < 2:
			op = histOp{Kind: "create", Store: s, Adds: genKeys(r, 1+r.Intn(12), 40)}
			exists[s] = true
		case k < 13:
			op = histOp{Kind: "write", Store: s, Adds: genKeys(r, r.Intn(14), 40), Rems: genKeys(r, r.Intn(10), 40), Upds: genKeys(r, r.Intn(4), 40)}
		case k < 15:
			op = histOp{Kind: "rollback", Store: s, Adds: genKeys(r, 1+r.Intn(5), 40)}
		case k < 17:
			op = histOp{Kind: "drop", Store: s}
			exists[s] = false
		default:
			if failedSince {
				op = histOp{Kind: "reinstate", Drive: hx.Pick(r, []string{"stale", "stale", "empty"})}
				failedSince = false
			} else {
				op = histOp{Kind: "write", Store: s, Adds: genKeys(r, 6, 40), Rems: genKeys(r, 6, 40)}
			}
		}
		if faults && op.Kind == "write" && r.Chance(25) {
			op.Fault = hx.Pick(r, []string{"dead", "regwrite:0", "regwrite:1", "regwrite:2", "sinfo"})
			failedSince = true
		}
		h.Ops = append(h.Ops, op)
	}
	if faults && failedSince {
		h.Ops = append(h.Ops, histOp{Kind: "reinstate", Drive: "stale"})
		h.Ops = append(h.Ops, histOp{Kind: "write", Store: "s0", Adds: genKeys(r, 5, 40), Rems: genKeys(r, 5, 40)})
	}
	return h
}

func seq(a, b int) []int {
	var o []int
	for i := a; i < b; i++ {
		o = append(o, i)
	}
	return o
}

// corpus: deterministic histories run first (edge grid, one per open finding, regression cases of repaired defects).
func corpus() []history {
	return []history{
		{Name: "plain", HashMod: 2, Slot: 4, Ops: []histOp{
			{Kind: "create", Store: "s0", Adds: seq(0, 3)}, {Kind: "write", Store: "s0", Adds: seq(3, 14)},
			{Kind: "write", Store: "s0", Rems: seq(0, 9), Upds: []int{10}}, {Kind: "create", Store: "s1", Adds: seq(0, 20)},
			{Kind: "rollback", Store: "s1", Adds: seq(30, 33)}, {Kind: "drop", Store: "s0"}, {Kind: "write", Store: "s1", Rems: seq(0, 20)}}},
		{Name: "dead-then-stale-reinstate", HashMod: 2, Slot: 4, Ops: []histOp{
			{Kind: "create", Store: "s0", Adds: seq(0, 6)}, {Kind: "write", Store: "s0", Adds: seq(6, 12), Fault: "dead"},
			{Kind: "write", Store: "s0", Rems: seq(0, 4)}, {Kind: "reinstate", Drive: "stale"},
			{Kind: "write", Store: "s0", Adds: seq(20, 26), Rems: seq(4, 8)}}},
		{Name: "regwrite-fault", HashMod: 1, Slot: 2, Ops: []histOp{
			{Kind: "create", Store: "s0", Adds: seq(0, 8)}, {Kind: "write", Store: "s0", Adds: seq(8, 16), Rems: seq(0, 3), Fault: "regwrite:1"},
			{Kind: "write", Store: "s0", Adds: seq(16, 20)}}},
		{Name: "sinfo-fault", HashMod: 2, Slot: 4, Ops: []histOp{
			{Kind: "create", Store: "s0", Adds: seq(0, 5)}, {Kind: "write", Store: "s0", Adds: seq(5, 9), Fault: "sinfo"},
			{Kind: "write", Store: "s0", Adds: seq(9, 12)}}},
		// open findings (store create / drop replicate through fileIOWithReplication)
		{Name: "kf-create-while-passive-down", HashMod: 2, Slot: 4, Ops: []histOp{
			{Kind: "create", Store: "s0", Adds: seq(0, 4)}, {Kind: "write", Store: "s0", Adds: seq(4, 8), Fault: "dead"},
			{Kind: "create", Store: "s1", Adds: seq(0, 3)}}},
		{Name: "kf-drop-slist-fault", HashMod: 2, Slot: 4, Ops: []histOp{
			{Kind: "create", Store: "s0", Adds: seq(0, 4)}, {Kind: "create", Store: "s1", Adds: seq(0, 4)},
			{Kind: "drop", Store: "s0", Fault: "slist"}}},
		// regression cases of the repaired CopyToPassiveFolders (former findings reinstate-diverged:*): reinstate onto
		// an empty replacement drive, onto a stale copy, with no store listed (reghashmod.txt), and twice within the
		// store-info cache TTL; each followed by commits that add and remove nodes, and by the failover dump
		{Name: "reg-reinstate-empty-drive", HashMod: 2, Slot: 4, Ops: []histOp{
			{Kind: "create", Store: "s0", Adds: seq(0, 10)}, {Kind: "write", Store: "s0", Adds: seq(10, 14), Fault: "dead"},
			{Kind: "reinstate", Drive: "empty"}, {Kind: "write", Store: "s0", Adds: seq(20, 24), Rems: seq(0, 9)}}},
		{Name: "reg-reinstate-stale-storeinfo", HashMod: 2, Slot: 4, Ops: []histOp{
			{Kind: "create", Store: "s0", Adds: seq(0, 5)}, {Kind: "write", Store: "s0", Adds: seq(5, 9), Fault: "sinfo"},
			{Kind: "reinstate", Drive: "stale"}, {Kind: "write", Store: "s0", Adds: seq(9, 12), Rems: seq(0, 5)}}},
		{Name: "reg-reinstate-empty-nostores", HashMod: 2, Slot: 4, Ops: []histOp{
			{Kind: "create", Store: "s0", Adds: seq(0, 3)}, {Kind: "write", Store: "s0", Adds: seq(3, 6), Fault: "dead"},
			{Kind: "drop", Store: "s0"}, {Kind: "reinstate", Drive: "empty"}, {Kind: "create", Store: "s1", Adds: seq(0, 6)}}},
		{Name: "reg-reinstate-twice", HashMod: 2, Slot: 4, Ops: []histOp{
			{Kind: "create", Store: "s0", Adds: seq(0, 5)}, {Kind: "write", Store: "s0", Adds: seq(5, 9), Fault: "sinfo"},
			{Kind: "reinstate", Drive: "stale"}, {Kind: "write", Store: "s0", Adds: seq(9, 14)},
			{Kind: "write", Store: "s0", Adds: seq(14, 18), Rems: seq(0, 4), Fault: "regwrite:0"},
			{Kind: "reinstate", Drive: "stale"}, {Kind: "write", Store: "s0", Adds: seq(30, 34), Rems: seq(4, 9)}}},
	}
}

func runC27(cfg *hx.RunCfg) (*hx.Result, error) {
	res := hx.NewResult("C27")
	res.Imports = []string{"Lib.Bytes", "Repl", "Corr.C27"}
	res.CaseType = "c27case"
	res.Checker = "c27_check"
	res.Rule = "one evaluation = one history (4-12 operations: create / write / rollback / drop / passive fault / reinstate) run on a replicated database with raw, status-file and fresh-process failover oracles; distinct = distinct operation lists; non-trivial = at least two operations"
	sop.RetryStartDuration = time.Millisecond
	os.MkdirAll("/var/tmp/C27", 0o755)
	if cfg.Replay != "" {
		raw, err := os.ReadFile(cfg.Replay)
		if err != nil {
			return nil, err
		}
		var rp struct {
			Input history `json:"input"`
		}
		if err := json.Unmarshal(raw, &rp); err != nil {
			return nil, err
		}
		runHistory(res, rp.Input, 0)
		return res, nil
	}
	n := cfg.N
	if n == 0 {
		n = 28
		if cfg.Tier == "thorough" {
			n = 300
		}
	}
	idx := 0
	for _, h := range corpus() {
		runHistory(res, h, idx)
		idx++
	}
	r := hx.NewRng(cfg.Seed)
	for i := 0; i < n; i++ {
		runHistory(res, genHistory(r, i, i%3 != 0), idx)
		idx++
	}
	return res, nil
}

package main

// Replicated database environment for C27: mirrors
// infs.NewTwoPhaseCommitTransactionWithReplication (two stores folders,
// replicate=true, erasure-coded blob store) with thin capturing decorators
// around Registry and StoreRepository so that the phase-2 Replicate payloads
// are visible, plus passive-side fault injection.

import (
	"context"
	"fmt"
	"os"
	"path/filepath"
	"strings"
	"sync"
	"time"

	"github.com/sharedcode/sop"
	"github.com/sharedcode/sop/btree"
	"github.com/sharedcode/sop/cache"
	"github.com/sharedcode/sop/common"
	"github.com/sharedcode/sop/encoding"
	"github.com/sharedcode/sop/fs"

	"verif/harness/sopx"
)

// REnv is one replicated database: folders[0], folders[1] and three EC drives.
type REnv struct {
	Root    string
	Folders []string
	EC      map[string]sop.ErasureCodingConfig
	HashMod int
	Cache   sop.L2Cache
	Canon   *sopx.Canon
	// Captured phase-2 payloads of the transaction that committed last.
	mu   sync.Mutex
	Caps []*Capture
}

// Capture is what one transaction handed to Registry.Replicate / StoreRepository.Replicate.
type Capture struct {
	Txn      string
	Roots    []sop.RegistryPayload[sop.Handle]
	Added    []sop.RegistryPayload[sop.Handle]
	Updated  []sop.RegistryPayload[sop.Handle]
	Removed  []sop.RegistryPayload[sop.Handle]
	Stores   []sop.StoreInfo
	RegErr   string
	SrErr    string
	RegDone  bool
	SrDone   bool
	SrAdds   []string // StoreRepository.Add names (with result)
	SrAddSI  []sop.StoreInfo
	SrAddErr []string
	SrRems   []string
	SrRemErr []string
}

func NewREnv(root string, hashMod int) (*REnv, error) {
	e := &REnv{Root: root, HashMod: hashMod, Canon: sopx.NewCanon()}
	e.Folders = []string{filepath.Join(root, "a"), filepath.Join(root, "b")}
	drives := []string{filepath.Join(root, "d1"), filepath.Join(root, "d2"), filepath.Join(root, "d3")}
	for _, d := range append(append([]string{}, e.Folders...), drives...) {
		if err := os.MkdirAll(d, 0o755); err != nil {
			return nil, err
		}
	}
	e.EC = map[string]sop.ErasureCodingConfig{"": {DataShardsCount: 2, ParityShardsCount: 1, BaseFolderPathsAcrossDrives: drives, RepairCorruptedShards: false}}
	e.Cache = cache.NewL2InMemoryCache()
	// the replication status is process-global: forget what an earlier history left
	fs.GlobalReplicationDetails = nil
	return e, nil
}

// regCap / srCap capture the arguments of the replication entry points.
type regCap struct {
	sop.Registry
	c *Capture
}

func (r *regCap) Replicate(ctx context.Context, a, b, c, d []sop.RegistryPayload[sop.Handle]) error {
	r.c.Roots, r.c.Added, r.c.Updated, r.c.Removed = clonePayload(a), clonePayload(b), clonePayload(c), clonePayload(d)
	err := r.Registry.Replicate(ctx, a, b, c, d)
	r.c.RegDone = true
	if err != nil {
		r.c.RegErr = err.Error()
	}
	return err
}
func (r *regCap) Close() error {
	if c, ok := r.Registry.(interface{ Close() error }); ok {
		return c.Close()
	}
	return nil
}

type srCap struct {
	sop.StoreRepository
	c *Capture
}

func (s *srCap) Replicate(ctx context.Context, st []sop.StoreInfo) error {
	s.c.Stores = append([]sop.StoreInfo(nil), st...)
	err := s.StoreRepository.Replicate(ctx, st)
	s.c.SrDone = true
	if err != nil {
		s.c.SrErr = err.Error()
	}
	return err
}
func (s *srCap) Add(ctx context.Context, st ...sop.StoreInfo) error {
	err := s.StoreRepository.Add(ctx, st...)
	for _, x := range st {
		s.c.SrAdds = append(s.c.SrAdds, x.Name)
		s.c.SrAddSI = append(s.c.SrAddSI, x)
		s.c.SrAddErr = append(s.c.SrAddErr, errStr(err))
	}
	return err
}
func (s *srCap) Remove(ctx context.Context, names ...string) error {
	err := s.StoreRepository.Remove(ctx, names...)
	for _, x := range names {
		s.c.SrRems = append(s.c.SrRems, x)
		s.c.SrRemErr = append(s.c.SrRemErr, errStr(err))
	}
	return err
}

func errStr(err error) string {
	if err == nil {
		return ""
	}
	return err.Error()
}

func clonePayload(p []sop.RegistryPayload[sop.Handle]) []sop.RegistryPayload[sop.Handle] {
	out := make([]sop.RegistryPayload[sop.Handle], len(p))
	for i := range p {
		out[i] = p[i]
		out[i].IDs = append([]sop.Handle(nil), p[i].IDs...)
	}
	return out
}

// RTxn is one transaction on the replicated database.
type RTxn struct {
	sop.Transaction
	Two *common.Transaction
	Cap *Capture
	Env *REnv
	rt  interface {
		ReinstateFailedDrives(ctx context.Context) error
	}
}

// NewTxn mirrors infs.NewTwoPhaseCommitTransactionWithReplication.
func (e *REnv) NewTxn(ctx context.Context, mode sop.TransactionMode, maxTime time.Duration, label string) (*RTxn, error) {
	fio := fs.NewFileIO()
	rt, err := fs.NewReplicationTracker(ctx, e.Folders, true, e.Cache)
	if err != nil {
		return nil, err
	}
	mbsf := fs.NewManageStoreFolder(fio)
	sr, err := fs.NewStoreRepository(ctx, rt, mbsf, e.Cache, e.HashMod)
	if err != nil {
		return nil, err
	}
	hm := e.HashMod
	if i, err := sr.GetRegistryHashModValue(ctx); err != nil {
		return nil, err
	} else if i > 0 {
		hm = i
	}
	tl := fs.NewTransactionLog(e.Cache, rt)
	bs, err := fs.NewBlobStoreWithEC(nil, fio, e.EC)
	if err != nil {
		return nil, err
	}
	c := &Capture{Txn: label}
	reg := &regCap{Registry: fs.NewRegistry(mode == sop.ForWriting, hm, rt, e.Cache), c: c}
	srC := &srCap{StoreRepository: sr, c: c}
	two, err := common.NewTwoPhaseCommitTransaction(mode, maxTime, bs, srC, reg, e.Cache, tl)
	if err != nil {
		return nil, err
	}
	two.HandleReplicationRelatedError = rt.HandleReplicationRelatedError
	rt.SetTransactionID(two.GetID())
	t, err := sop.NewTransaction(mode, two)
	if err != nil {
		return nil, err
	}
	e.mu.Lock()
	e.Caps = append(e.Caps, c)
	e.mu.Unlock()
	return &RTxn{Transaction: t, Two: two, Cap: c, Env: e, rt: rt}, nil
}

func storeOptions(name string, slot int) sop.StoreOptions {
	// as infs.NewBtreeWithReplication: table names are the store name
	return sop.StoreOptions{Name: name, SlotLength: slot, IsUnique: true, IsValueDataInNodeSegment: true,
		DisableRegistryStoreFormatting: true, DisableBlobStoreFormatting: true}
}

func (t *RTxn) NewStore(ctx context.Context, name string, slot int) (btree.BtreeInterface[int, string], error) {
	return common.NewBtree[int, string](ctx, storeOptions(name, slot), t.Transaction, nil)
}
func (t *RTxn) OpenStore(ctx context.Context, name string) (btree.BtreeInterface[int, string], error) {
	return common.OpenBtree[int, string](ctx, name, t.Transaction, nil)
}

// Reinstate runs ReinstateFailedDrives the way an operator tool would: on a new tracker.
func (e *REnv) Reinstate(ctx context.Context) error {
	rt, err := fs.NewReplicationTracker(ctx, e.Folders, true, e.Cache)
	if err != nil {
		return err
	}
	return rt.ReinstateFailedDrives(ctx)
}

// Status reads replstat.txt of a folder ("" when absent).
func readStatus(folder string) (fs.ReplicationTrackedDetails, bool) {
	var d fs.ReplicationTrackedDetails
	b, err := os.ReadFile(filepath.Join(folder, "replstat.txt"))
	if err != nil {
		return d, false
	}
	if err := encoding.DefaultMarshaler.Unmarshal(b, &d); err != nil {
		return d, false
	}
	return d, true
}

// ---------------------------------------------------------------- passive-side faults

// faultDIO fails direct-I/O writes (or opens) under a path prefix from the n-th one on.
type faultDIO struct {
	inner  fs.DirectIO
	mu     sync.Mutex
	prefix string
	after  int // fail writes with index >= after (counted under prefix); -1 = never
	count  int
	hits   int
}

var errFault = fmt.Errorf("verif: injected passive-side I/O failure")

func (d *faultDIO) Open(ctx context.Context, filename string, flag int, perm os.FileMode) (*os.File, error) {
	return d.inner.Open(ctx, filename, flag, perm)
}
func (d *faultDIO) WriteAt(ctx context.Context, f *os.File, block []byte, off int64) (int, error) {
	d.mu.Lock()
	if d.after >= 0 && d.prefix != "" && strings.HasPrefix(f.Name(), d.prefix) {
		k := d.count
		d.count++
		if k >= d.after {
			d.hits++
			d.mu.Unlock()
			return 0, errFault
		}
	}
	d.mu.Unlock()
	return d.inner.WriteAt(ctx, f, block, off)
}
func (d *faultDIO) ReadAt(ctx context.Context, f *os.File, block []byte, off int64) (int, error) {
	return d.inner.ReadAt(ctx, f, block, off)
}
func (d *faultDIO) Close(f *os.File) error { return d.inner.Close(f) }

var theDIO = &faultDIO{inner: fs.NewDirectIO(), after: -1}

func init() { fs.DirectIOSim = theDIO }

func (d *faultDIO) arm(prefix string, after int) {
	d.mu.Lock()
	d.prefix, d.after, d.count, d.hits = prefix, after, 0, 0
	d.mu.Unlock()
}
func (d *faultDIO) disarm() (hits int) {
	d.mu.Lock()
	hits = d.hits
	d.prefix, d.after, d.count, d.hits = "", -1, 0, 0
	d.mu.Unlock()
	return
}

package protox

import (
	"encoding/json"
	"fmt"
	"os"
	"path/filepath"
	"sync"

	"verif/harness/hx"
	"verif/harness/sopx"
)

// CrashOutcome is what was observed after the subject transaction's process died at a chosen point.
type CrashOutcome struct {
	Case     *Case
	Site     string
	Dump     *sopx.Dump
	Class    string // before | after | mixed | unreadable
	Findings []Finding
	NCalls   int
	Follow   string
	Out      *ChildOut // the crashed child's partial output (sets, pre-state, events so far, canon)
	Post     *State    // the durable state left behind, in the child's canonical numbering
}

// RunCrashCase kills the subject transaction at the fault, then observes with fresh processes: the contents must be
// the state before or after the transaction (items, values and counts), and a following writer must be able to commit.
func (r *Runner) RunCrashCase(c *Case, prefixFolder string, ref Ref, created []bool, base *ChildOut) (*CrashOutcome, error) {
	p := c.Program
	folder := r.dir("crash")
	if err := CopyDir(prefixFolder, folder); err != nil {
		return nil, err
	}
	defer os.RemoveAll(folder)
	spec := p.Txns[c.Subject]
	spec.Fault = c.Fault
	in := &ChildIn{Folder: folder, HashMod: p.HashMod, Stores: p.Stores, Txn: spec, Label: fmt.Sprintf("t%d", c.Subject), MaxTime: r.MaxTime}
	out, err := RunTxn(in, r.Root)
	if err != nil {
		return nil, err
	}
	o := &CrashOutcome{Case: c, NCalls: len(base.Events)}
	o.Site = faultSite(base, Fault{Index: c.Fault.Index, Mode: "fail"})
	if c.Fault.Mode == "crashtorn" {
		o.Site += fmt.Sprintf("+torn")
	}
	if !out.Crashed {
		// the chosen call was not reached in this run (Go map order can move calls): nothing to judge
		o.Class = "not-reached"
		return o, nil
	}
	o.Out = out
	if raw, err := sopx.ReadRaw(folder); err == nil && len(out.CanonIDs) > 0 {
		o.Post = canonState(sopx.ImportCanon(out.CanonIDs), raw)
	}
	after := ref.Clone()
	after.Apply(spec.Ops)
	crAfter := append([]bool(nil), created...)
	for _, op := range spec.Ops {
		crAfter[op.Store] = true
	}
	before, afterD := ref.Expect(p, created), after.Expect(p, crAfter)
	o.Dump = sopx.DumpFresh(folder, p.HashMod, false)
	add := func(sig, what string) { o.Findings = append(o.Findings, Finding{"C08", sig, what}) }
	okB, whyB := dumpsEqualItems(o.Dump, before)
	okA, whyA := dumpsEqualItems(o.Dump, afterD)
	switch {
	case o.Dump.Err != "" || anyStoreErr(o.Dump):
		o.Class = "unreadable"
		add("unreadable-after-crash", fmt.Sprintf("after a crash at %s a fresh process cannot read the stores: %s %s", o.Site, o.Dump.Err, firstStoreErr(o.Dump)))
	case okB:
		o.Class = "before"
	case okA:
		o.Class = "after"
	default:
		o.Class = "mixed"
		if hidden := hiddenByZeroCount(o.Dump, before); len(hidden) > 0 {
			// every store that departs from the before-state reads EMPTY with a persisted Count of 0: the count
			// was written ahead of the flip, and First/Find/Next answer false on Count == 0 without looking at the tree
			add("items-hidden-by-zero-count", fmt.Sprintf("after a crash at %s store(s) %v read empty (persisted Count=0, B-tree calls short-circuit on Count == 0) although their nodes still hold the pre-transaction items; the other stores show the state before the transaction", o.Site, hidden))
		} else {
			add("neither-all-nor-nothing", fmt.Sprintf("after a crash at %s the stores show neither the state before (%s) nor after (%s) the transaction", o.Site, whyB, whyA))
		}
	}
	if o.Class == "before" || o.Class == "after" || o.Class == "mixed" {
		for _, n := range o.Dump.Names {
			sd := o.Dump.Stores[n]
			if sd.Err == "" && sd.Count != int64(len(sd.Keys)) {
				add("count-differs-from-items", fmt.Sprintf("after a crash at %s store %s reports Count=%d but holds %d items (items are in the %s state)", o.Site, n, sd.Count, len(sd.Keys), o.Class))
			}
		}
	}
	// the stores remain writable: a new transaction adds a fresh key to every store the crashed one touched, and updates one it touched
	var ops []Op
	seen := map[int]bool{}
	for _, op := range spec.Ops {
		if !seen[op.Store] && (created[op.Store] || o.Class == "after") {
			seen[op.Store] = true
			ops = append(ops, Op{Store: op.Store, Kind: "add", Key: 100000 + op.Store, Val: "after-crash"})
		}
	}
	for _, op := range spec.Ops {
		if op.Kind != "get" && (created[op.Store] || o.Class == "after") {
			ops = append(ops, Op{Store: op.Store, Kind: "upd", Key: op.Key, Val: "after-crash-upd"})
			break
		}
	}
	if len(ops) > 0 && o.Class != "unreadable" {
		fin := &ChildIn{Folder: folder, HashMod: p.HashMod, Stores: p.Stores, Txn: TxnSpec{Ops: ops, End: "commit", Fault: Fault{Index: -1}}, Label: "follow", MaxTime: 4000}
		fout, ferr := RunTxn(fin, r.Root)
		switch {
		case ferr != nil:
			o.Follow = "crashed"
			add("next-writer-crashes", fmt.Sprintf("after a crash at %s the next writer's process dies: %v", o.Site, ferr))
		case fout.EndErr != "":
			o.Follow = "refused"
			add("next-writer-refused", fmt.Sprintf("after a crash at %s the next writer on the same stores cannot commit: %s", o.Site, fout.EndErr))
		default:
			o.Follow = "ok"
		}
	}
	return o, nil
}

func anyStoreErr(d *sopx.Dump) bool { return firstStoreErr(d) != "" }
func firstStoreErr(d *sopx.Dump) string {
	for _, n := range d.Names {
		if d.Stores[n].Err != "" {
			return n + ": " + d.Stores[n].Err
		}
	}
	return ""
}

// crashClass groups crash points by what the protocol has made durable so far.
func crashClass(site string, kind string) string {
	return kind + "@" + site
}

// RunCrash is the entry point of the C08 harness.
func RunCrash(cfg *hx.RunCfg, shapesQuick, shapesThor, maxPoints int) (*hx.Result, error) {
	res := hx.NewResult("C08")
	work := os.Getenv("VERIF_WORK")
	if work == "" {
		work = cfg.Out
	}
	root := filepath.Join(work, "scratch")
	os.RemoveAll(root)
	os.MkdirAll(root, 0o755)
	defer os.RemoveAll(root)
	rn := &Runner{Root: root, MaxTime: 8000}
	record := func(o *CrashOutcome) {
		canon, _ := json.Marshal(o.Case)
		res.Seen(string(canon), o.Class != "not-reached")
		res.Count("crash@" + o.Site)
		res.Count("class=" + o.Class)
		if o.Follow != "" {
			res.Count("next-writer=" + o.Follow)
		}
		for _, f := range o.Findings {
			res.Fail(classifyCrash(f.Sig, o), f.What, o.Case)
		}
		if term, why := CoqCrashCase(o); term != "" {
			res.Count("model-scope.in")
			res.AddCase(term, o.Case)
		} else if o.Class != "not-reached" {
			res.Count("model-scope.out: " + why)
		}
		res.Sample(map[string]any{"stores": o.Case.Program.Stores, "subject_ops": o.Case.Program.Txns[o.Case.Subject].Ops, "crash": o.Case.Fault, "site": o.Site, "class": o.Class, "next_writer": o.Follow})
	}
	if cfg.Replay != "" {
		raw, err := os.ReadFile(cfg.Replay)
		if err != nil {
			return nil, err
		}
		var rp struct {
			Input Case `json:"input"`
		}
		if err := json.Unmarshal(raw, &rp); err != nil {
			return nil, err
		}
		c := rp.Input
		folder, ref, created, err := rn.Prefix(c.Program, c.Subject)
		if err != nil {
			return nil, err
		}
		base, err := rn.RunCase(&Case{Program: c.Program, Subject: c.Subject, Fault: Fault{Index: -1}}, folder, ref, created)
		if err != nil {
			return nil, err
		}
		o, err := rn.RunCrashCase(&c, folder, ref, created, base.Out)
		if err != nil {
			return nil, err
		}
		record(o)
		return res, nil
	}
	type job struct {
		c       *Case
		folder  string
		ref     Ref
		created []bool
		base    *ChildOut
	}
	var jobs []job
	var folders []string
	plan := func(p *Program, all bool, r *hx.Rng) error {
		subject := len(p.Txns) - 1
		if p.Txns[subject].End != "commit" {
			return nil
		}
		folder, ref, created, err := rn.Prefix(p, subject)
		if err != nil {
			return err
		}
		folders = append(folders, folder)
		base, err := rn.RunCase(&Case{Program: p, Subject: subject, Fault: Fault{Index: -1}}, folder, ref, created)
		if err != nil {
			return err
		}
		var idx []int
		for i, ev := range base.Out.Events {
			if ev.Iface == "l2" || ev.Key() == "reg.Get" || ev.Key() == "sr.Get" || ev.Key() == "sr.GetWithTTL" || ev.Key() == "plog.Get" || ev.Key() == "reg.Replicate" {
				continue // dying before a read or a cache call leaves the same durable state as dying before the next write
			}
			idx = append(idx, i)
		}
		if !all && maxPoints > 0 && len(idx) > maxPoints {
			for i := len(idx) - 1; i > 0; i-- {
				j := r.Intn(i + 1)
				idx[i], idx[j] = idx[j], idx[i]
			}
			idx = idx[:maxPoints]
		}
		for _, i := range idx {
			jobs = append(jobs, job{&Case{Program: p, Subject: subject, Fault: Fault{Index: i, Mode: "crash"}}, folder, ref, created, base.Out})
			ev := base.Out.Events[i]
			if ev.Key() == "reg.UpdateNoLocks" && len(ev.Handles) >= 2 {
				js := []int{1}
				if len(ev.Handles) > 2 {
					js = append(js, len(ev.Handles)-1)
				}
				for _, j := range js {
					jobs = append(jobs, job{&Case{Program: p, Subject: subject, Fault: Fault{Index: i, Mode: "crashtorn", Torn: j}}, folder, ref, created, base.Out})
				}
			}
		}
		return nil
	}
	r := hx.NewRng(hx.NewRng(cfg.Seed).U64())
	for _, ce := range Corpus() {
		if err := plan(ce.Program, true, r); err != nil {
			return nil, fmt.Errorf("corpus %s: %v", ce.Name, err)
		}
	}
	shapes := shapesQuick
	if cfg.Tier == "thorough" {
		shapes = shapesThor
	}
	if cfg.N > 0 {
		shapes = cfg.N
	}
	for sh := 0; sh < shapes; sh++ {
		p := GenProgram(r, sh*3+1+sh%2) // shapes with a populated prefix
		if err := plan(p, cfg.Tier == "thorough", r); err != nil {
			return nil, fmt.Errorf("shape %d: %v", sh, err)
		}
	}
	outs := make([]*CrashOutcome, len(jobs))
	errs := make([]error, len(jobs))
	var wg sync.WaitGroup
	sem := make(chan struct{}, 8)
	for i := range jobs {
		wg.Add(1)
		sem <- struct{}{}
		go func(i int) {
			defer wg.Done()
			defer func() { <-sem }()
			outs[i], errs[i] = rn.RunCrashCase(jobs[i].c, jobs[i].folder, jobs[i].ref, jobs[i].created, jobs[i].base)
		}(i)
	}
	wg.Wait()
	for i := range jobs {
		if errs[i] != nil {
			return nil, fmt.Errorf("crash case %+v: %v", jobs[i].c.Fault, errs[i])
		}
		record(outs[i])
	}
	for _, f := range folders {
		os.RemoveAll(f)
	}
	return res, nil
}

// classifyCrash keys a crash finding by what kind of state the crash left, derived from the crash site.
func classifyCrash(sig string, o *CrashOutcome) string {
	c := o.Case
	spec := c.Program.Txns[c.Subject]
	for _, op := range spec.Ops {
		if c.Program.Stores[op.Store].ActivelyP {
			return sig + "/actively-persisted-values"
		}
	}
	w := crashWindow(o.Site)
	if sig == "items-hidden-by-zero-count" {
		// one defect wherever the process dies between the count update and the completion of the flip
		switch w {
		case "during-count-update", "after-count-update-before-flip", "after-count-update-before-flip-or-just-after-flip", "torn-phase2-flip":
			w = "count-written-flip-not-complete"
		}
	}
	return sig + "/" + w
}

// crashWindow names the window of the commit the process died in.
func crashWindow(site string) string {
	var step int
	var rest string
	if n, _ := fmt.Sscanf(site, "log(step %d)", &step); n == 1 {
		// dying before the log write of step k = dying after everything of step k-1
		switch {
		case step <= 4:
			return "before-any-node-write"
		case step == 5:
			return "after-new-root-registered"
		case step <= 9:
			return "during-phase1-node-staging"
		case step <= 11:
			return "after-count-update-before-flip"
		default:
			return "after-flip-during-cleanup"
		}
	}
	if n, _ := fmt.Sscanf(site, "step%d:%s", &step, &rest); n >= 1 {
		switch {
		case step <= 3:
			return "before-any-node-write"
		case step == 4:
			return "during-new-root-creation"
		case step <= 8:
			return "during-phase1-node-staging"
		case step == 9:
			return "during-count-update"
		case step == 10:
			return "after-count-update-before-flip"
		case step == 11:
			if len(site) > 5 && site[len(site)-5:] == "+torn" {
				return "torn-phase2-flip"
			}
			return "after-count-update-before-flip-or-just-after-flip"
		default:
			return "after-flip-during-cleanup"
		}
	}
	return "at:" + site
}

// hiddenByZeroCount: the stores of got that differ from want are exactly stores that read empty with Count 0 while
// want holds items in them; every other store equals want. Returns their names (nil if that is not the situation).
func hiddenByZeroCount(got, want *sopx.Dump) []string {
	if got.Err != "" || fmt.Sprint(got.Names) != fmt.Sprint(want.Names) {
		return nil
	}
	var hidden []string
	for _, n := range got.Names {
		x, y := got.Stores[n], want.Stores[n]
		if x.Err != "" {
			return nil
		}
		same := len(x.Keys) == len(y.Keys)
		for i := 0; same && i < len(x.Keys); i++ {
			same = x.Keys[i] == y.Keys[i] && x.Vals[i] == y.Vals[i]
		}
		if same {
			continue
		}
		if len(x.Keys) == 0 && x.Count == 0 && len(y.Keys) > 0 {
			hidden = append(hidden, n)
			continue
		}
		return nil
	}
	return hidden
}

package protox

import (
	"fmt"

	"verif/harness/hx"
	"verif/harness/sopx"
)

// placement variants of a store
var placements = []struct {
	name                   string
	inNode, active, global bool
}{
	{"innode", true, false, false},
	{"segment", false, false, false},
	{"active", false, true, false},
	{"gcache", false, false, true},
}

// GenProgram draws a program: 1-3 stores with varied options, a populated prefix, and a subject transaction
// whose op mix forces new roots / splits / node removal / updates depending on shape.
func GenProgram(r *hx.Rng, shape int) *Program {
	p := &Program{HashMod: hx.Pick(r, []int{1, 2, 3})}
	ns := 1
	if shape%3 == 1 {
		ns = 2
	} else if shape%7 == 6 {
		ns = 3
	}
	for i := 0; i < ns; i++ {
		pl := placements[(shape/3+i)%len(placements)]
		p.Stores = append(p.Stores, sopx.StoreOpts{Name: fmt.Sprintf("st%d", i), Slot: hx.Pick(r, []int{2, 4, 4, 6, 8}), Unique: true,
			InNode: pl.inNode, ActivelyP: pl.active, GlobalCache: pl.global})
	}
	val := func(k int) string { return fmt.Sprintf("v%d-%d", k, r.Intn(1000)) }
	// prefix: 0..2 committed transactions populating the stores
	npre := shape % 3
	keyspace := 8 + r.Intn(24)
	for t := 0; t < npre; t++ {
		var ops []Op
		n := 3 + r.Intn(14)
		for i := 0; i < n; i++ {
			k := r.Intn(keyspace)
			ops = append(ops, Op{Store: r.Intn(ns), Kind: "add", Key: k, Val: val(k)})
		}
		if t == 0 { // make sure every store exists after the first prefix transaction
			for s := 0; s < ns; s++ {
				ops = append(ops, Op{Store: s, Kind: "add", Key: keyspace + s, Val: val(keyspace + s)})
			}
		}
		p.Txns = append(p.Txns, TxnSpec{Ops: ops, End: "commit", Fault: Fault{Index: -1}})
	}
	// subject transaction
	var ops []Op
	n := 2 + r.Intn(16)
	mix := shape % 5
	for i := 0; i < n; i++ {
		k := r.Intn(keyspace + 4)
		s := r.Intn(ns)
		var kind string
		switch x := r.Intn(10); {
		case mix == 0: // add-heavy (splits)
			kind = "add"
		case mix == 1 && x < 6: // delete-heavy (node removal)
			kind = "rem"
		case mix == 2 && x < 6:
			kind = "upd"
		case x < 4:
			kind = "add"
		case x < 6:
			kind = "upd"
		case x < 8:
			kind = "rem"
		default:
			kind = "get"
		}
		ops = append(ops, Op{Store: s, Kind: kind, Key: k, Val: val(k)})
	}
	end := "commit"
	if shape%11 == 10 {
		end = "rollback"
	}
	p.Txns = append(p.Txns, TxnSpec{Ops: ops, End: end, Fault: Fault{Index: -1}})
	return p
}

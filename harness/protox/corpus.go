package protox

import (
	"fmt"

	"verif/harness/sopx"
)

// CorpusEntry is a fixed program with the fault sites to exercise in its subject transaction ("" = fault-free only).
type CorpusEntry struct {
	Name    string
	Program *Program
	Sites   []string // faultSite strings; each is resolved to the first call of the fault-free run with that site
	Modes   []string
}

func adds(store int, keys ...int) []Op {
	var ops []Op
	for _, k := range keys {
		ops = append(ops, Op{Store: store, Kind: "add", Key: k, Val: fmt.Sprintf("c%d", k)})
	}
	return ops
}

func commitTxn(ops ...[]Op) TxnSpec {
	var all []Op
	for _, o := range ops {
		all = append(all, o...)
	}
	return TxnSpec{Ops: all, End: "commit", Fault: Fault{Index: -1}}
}

// Corpus runs first on every run: minimised shapes of past failures and one case per known finding.
func Corpus() []CorpusEntry {
	one := func(name string, so sopx.StoreOpts) []sopx.StoreOpts { so.Name = name; so.Unique = true; return []sopx.StoreOpts{so} }
	var c []CorpusEntry
	// split of a full root in an existing store: updated root + added children; every leak window of the rollback
	c = append(c, CorpusEntry{
		Name: "split-innode",
		Program: &Program{HashMod: 2, Stores: one("st0", sopx.StoreOpts{Slot: 2, InNode: true}),
			Txns: []TxnSpec{commitTxn(adds(0, 10, 20)), commitTxn(adds(0, 30, 40, 50), []Op{{Store: 0, Kind: "upd", Key: 10, Val: "u10"}})}},
		Sites: []string{"", "step5:blob.Add", "log(step 6)", "step8:blob.Add", "step8:blob.Add", "step5:reg.UpdateNoLocks", "log(step 9)", "log(step 11)"},
		Modes: []string{"", "fail", "fail", "fail", "failafter", "fail", "fail", "fail"},
	})
	// node removal: delete-heavy transaction on a three-level tree
	c = append(c, CorpusEntry{
		Name: "remove-nodes",
		Program: &Program{HashMod: 1, Stores: one("st0", sopx.StoreOpts{Slot: 2, InNode: true}),
			Txns: []TxnSpec{commitTxn(adds(0, 1, 2, 3, 4, 5, 6, 7, 8, 9)), commitTxn([]Op{{Store: 0, Kind: "rem", Key: 1}, {Store: 0, Kind: "rem", Key: 2}, {Store: 0, Kind: "rem", Key: 3}, {Store: 0, Kind: "rem", Key: 4}})}},
		Sites: []string{"", "step7:reg.UpdateNoLocks", "log(step 8)", "log(step 10)", "step10:plog.Add", "step11:reg.UpdateNoLocks"},
		Modes: []string{"", "fail", "fail", "fail", "fail", "fail"},
	})
	// value placements outside the node
	for _, pl := range []struct {
		n    string
		a, g bool
	}{{"segment", false, false}, {"gcache", false, true}, {"active", true, false}} {
		c = append(c, CorpusEntry{
			Name: "values-" + pl.n,
			Program: &Program{HashMod: 2, Stores: one("st0", sopx.StoreOpts{Slot: 4, ActivelyP: pl.a, GlobalCache: pl.g}),
				Txns: []TxnSpec{commitTxn(adds(0, 1, 2, 3)), commitTxn(adds(0, 4), []Op{{Store: 0, Kind: "upd", Key: 1, Val: "u1"}})}},
			Sites: []string{"", "log(step 4)"}, Modes: []string{"", "fail"},
		})
	}
	// actively persisted values with a remove-only transaction (C19 finding: phase 1 is skipped)
	c = append(c, CorpusEntry{
		Name: "active-remove-only",
		Program: &Program{HashMod: 2, Stores: one("st0", sopx.StoreOpts{Slot: 4, ActivelyP: true}),
			Txns: []TxnSpec{commitTxn(adds(0, 1, 2, 3)), commitTxn([]Op{{Store: 0, Kind: "rem", Key: 2}})}},
		Sites: []string{""}, Modes: []string{""},
	})
	// actively persisted values: Get then Update overwrites the committed value blob in place, a rollback then
	// removes it (C19 finding); seen from C01 as a rolled-back transaction that changed committed data
	c = append(c, CorpusEntry{
		Name: "active-get-update-rollback",
		Program: &Program{HashMod: 2, Stores: one("st0", sopx.StoreOpts{Slot: 4, ActivelyP: true}),
			Txns: []TxnSpec{commitTxn(adds(0, 1, 2, 3)), {Ops: []Op{{Store: 0, Kind: "get", Key: 1}, {Store: 0, Kind: "upd", Key: 1, Val: "u1"}}, End: "rollback", Fault: Fault{Index: -1}}}},
		Sites: []string{""}, Modes: []string{""},
	})
	// two stores, one transaction
	c = append(c, CorpusEntry{
		Name: "two-stores",
		Program: &Program{HashMod: 2, Stores: []sopx.StoreOpts{{Name: "st0", Slot: 2, Unique: true, InNode: true}, {Name: "st1", Slot: 4, Unique: true, InNode: true}},
			Txns: []TxnSpec{commitTxn(adds(0, 1, 2), adds(1, 1, 2)), commitTxn(adds(0, 3, 4), adds(1, 3), []Op{{Store: 1, Kind: "rem", Key: 1}})}},
		Sites: []string{"", "step9:sr.Update", "log(step 10)", "step5:blob.Add"}, Modes: []string{"", "fail", "fail", "fail"},
	})
	return c
}

package protox

import (
	"encoding/json"
	"fmt"
	"os"
	"path/filepath"
	"sort"
	"strings"
	"sync"

	"github.com/sharedcode/sop"

	"verif/harness/hx"
	"verif/harness/sopx"
)

// Program is a history of transactions over a few stores.
type Program struct {
	Stores  []sopx.StoreOpts `json:"stores"`
	HashMod int              `json:"hash_mod"`
	Txns    []TxnSpec        `json:"txns"`
}

// Ref is the reference content: per store a key → value map.
type Ref []map[int]string

func (r Ref) Clone() Ref {
	o := make(Ref, len(r))
	for i, m := range r {
		o[i] = map[int]string{}
		for k, v := range m {
			o[i][k] = v
		}
	}
	return o
}

// Apply runs the ops on the reference (unique-key map semantics) and returns the expected op results.
func (r Ref) Apply(ops []Op) []bool {
	var res []bool
	for _, op := range ops {
		m := r[op.Store]
		_, has := m[op.Key]
		switch op.Kind {
		case "add":
			if !has {
				m[op.Key] = op.Val
			}
			res = append(res, !has)
		case "upd":
			if has {
				m[op.Key] = op.Val
			}
			res = append(res, has)
		case "rem":
			delete(m, op.Key)
			res = append(res, has)
		case "get":
			res = append(res, has)
		}
	}
	return res
}

// Expect renders the reference as the dump a fresh reader must see; a store that was never created is absent.
func (r Ref) Expect(p *Program, created []bool) *sopx.Dump {
	d := &sopx.Dump{Stores: map[string]*sopx.StoreDump{}}
	for i, so := range p.Stores {
		if !created[i] {
			continue
		}
		sd := &sopx.StoreDump{}
		ks := make([]int, 0, len(r[i]))
		for k := range r[i] {
			ks = append(ks, k)
		}
		sort.Ints(ks)
		for _, k := range ks {
			sd.Keys = append(sd.Keys, k)
			sd.Vals = append(sd.Vals, r[i][k])
		}
		sd.Count = int64(len(ks))
		d.Stores[so.Name] = sd
		d.Names = append(d.Names, so.Name)
	}
	sort.Strings(d.Names)
	return d
}

// Finding is an oracle failure attributed to a property.
type Finding struct {
	Prop, Sig, What string
}

// Outcome is everything observed for one (program prefix, faulted transaction) run.
type Outcome struct {
	Case     *Case
	Out      *ChildOut
	Dump     *sopx.Dump
	Expected *sopx.Dump
	Before   *sopx.Dump
	Orphans  *OrphanReport
	Retry    *ChildOut
	RetryDump *sopx.Dump
	Findings []Finding
	NCalls   int
}

// Case identifies a run: the program, which transaction is the subject, and the fault.
type Case struct {
	Program *Program `json:"program"`
	Subject int      `json:"subject"` // index of the faulted transaction; earlier ones run fault-free
	Fault   Fault    `json:"fault"`
}

func dumpsEqualItems(a, b *sopx.Dump) (bool, string) {
	if a.Err != "" || b.Err != "" {
		if a.Err != b.Err {
			return false, fmt.Sprintf("dump error %q vs %q", a.Err, b.Err)
		}
	}
	if fmt.Sprint(a.Names) != fmt.Sprint(b.Names) {
		return false, fmt.Sprintf("stores %v vs expected %v", a.Names, b.Names)
	}
	for _, n := range a.Names {
		x, y := a.Stores[n], b.Stores[n]
		if x.Err != "" {
			return false, fmt.Sprintf("store %s: %s", n, x.Err)
		}
		if len(x.Keys) != len(y.Keys) {
			return false, fmt.Sprintf("store %s: %d items, expected %d (keys %v vs %v)", n, len(x.Keys), len(y.Keys), x.Keys, y.Keys)
		}
		for i := range x.Keys {
			if x.Keys[i] != y.Keys[i] || x.Vals[i] != y.Vals[i] {
				return false, fmt.Sprintf("store %s: item %d is (%d,%q), expected (%d,%q)", n, i, x.Keys[i], x.Vals[i], y.Keys[i], y.Vals[i])
			}
		}
	}
	return true, ""
}

// Runner executes cases under a scratch root.
type Runner struct {
	Root    string
	MaxTime int
	seq     int
	mu      sync.Mutex
}

func (r *Runner) dir(tag string) string {
	r.mu.Lock()
	r.seq++
	n := r.seq
	r.mu.Unlock()
	return filepath.Join(r.Root, fmt.Sprintf("%s-%06d", tag, n))
}

// Prefix runs transactions [0, subject) fault-free in a new folder and returns folder, reference and created flags.
func (r *Runner) Prefix(p *Program, subject int) (string, Ref, []bool, error) {
	folder := r.dir("db")
	os.MkdirAll(folder, 0o755)
	ref := make(Ref, len(p.Stores))
	for i := range ref {
		ref[i] = map[int]string{}
	}
	created := make([]bool, len(p.Stores))
	for i := 0; i < subject; i++ {
		in := &ChildIn{Folder: folder, HashMod: p.HashMod, Stores: p.Stores, Txn: p.Txns[i], Label: fmt.Sprintf("t%d", i), MaxTime: r.MaxTime}
		in.Txn.Fault = Fault{Index: -1}
		out, err := RunTxn(in, r.Root)
		if err != nil {
			return folder, ref, created, err
		}
		for _, op := range p.Txns[i].Ops {
			created[op.Store] = true // NewStore creates the store even if the transaction later aborts? decided by the C12 owner; here stores are created by a committed first transaction
		}
		if p.Txns[i].End == "commit" && out.EndErr == "" {
			ref.Apply(p.Txns[i].Ops)
		} else if p.Txns[i].End == "commit" {
			return folder, ref, created, fmt.Errorf("fault-free prefix transaction %d failed to commit: %s", i, out.EndErr)
		}
	}
	return folder, ref, created, nil
}

// RunCase runs the subject transaction with the fault on a copy of the prefix folder and evaluates all oracles.
func (r *Runner) RunCase(c *Case, prefixFolder string, ref Ref, created []bool) (*Outcome, error) {
	p := c.Program
	folder := r.dir("run")
	if err := CopyDir(prefixFolder, folder); err != nil {
		return nil, err
	}
	defer os.RemoveAll(folder)
	o := &Outcome{Case: c}
	spec := p.Txns[c.Subject]
	spec.Fault = c.Fault
	in := &ChildIn{Folder: folder, HashMod: p.HashMod, Stores: p.Stores, Txn: spec, Label: fmt.Sprintf("t%d", c.Subject), MaxTime: r.MaxTime}
	out, err := RunTxn(in, r.Root)
	if err != nil {
		return nil, err
	}
	o.Out = out
	o.NCalls = len(out.Events)
	cr := append([]bool(nil), created...)
	o.Before = ref.Expect(p, created)
	after := ref.Clone()
	wantRes := after.Apply(spec.Ops)
	committed := spec.End == "commit" && out.EndErr == "" && !out.Crashed
	for _, op := range spec.Ops {
		if committed {
			cr[op.Store] = true
		}
	}
	exp := ref
	if committed {
		exp = after
	}
	o.Expected = exp.Expect(p, cr)
	o.Dump = sopx.DumpFresh(folder, p.HashMod, true)
	add := func(prop, sig, what string) { o.Findings = append(o.Findings, Finding{prop, sig, what}) }

	// op results against the ordered-map reference (C19 territory, reported under C01 as "visible to the transaction itself")
	if out.OpErr == "" && len(out.OpResults) == len(wantRes) {
		for i := range wantRes {
			if wantRes[i] != out.OpResults[i] {
				add("C01", "op-result", fmt.Sprintf("op %d %v returned %v, reference says %v", i, spec.Ops[i], out.OpResults[i], wantRes[i]))
				break
			}
		}
	}
	if out.Crashed {
		return o, nil // crash oracles are evaluated by the caller (recovery first)
	}
	// C01: all-or-nothing on items and values
	if ok, why := dumpsEqualItems(o.Dump, o.Expected); !ok {
		kind := "failed-commit-or-rollback-left-changes"
		if committed {
			kind = "committed-changes-not-all-visible"
		}
		add("C01", kind, fmt.Sprintf("%s (fault %+v, end=%s, err=%q)", why, c.Fault, spec.End, out.EndErr))
		if !committed && spec.End == "commit" {
			add("C07", "failed-commit-left-changes", why)
		}
	}
	// C06: count equals number of items
	for _, n := range o.Dump.Names {
		sd := o.Dump.Stores[n]
		if sd.Err == "" && sd.Count != int64(len(sd.Keys)) {
			add("C06", "count-mismatch", fmt.Sprintf("store %s reports Count=%d but a scan returns %d items (fault %+v end=%s err=%q)", n, sd.Count, len(sd.Keys), c.Fault, spec.End, out.EndErr))
		}
	}
	// C10: every reachable node and value loads; backward scan consistent
	if o.Dump.Err != "" {
		add("C10", "dump-error", o.Dump.Err)
	}
	for _, n := range o.Dump.Names {
		sd := o.Dump.Stores[n]
		if sd.Err != "" {
			add("C10", "unloadable", fmt.Sprintf("store %s: %s (fault %+v end=%s)", n, sd.Err, c.Fault, spec.End))
		} else if len(sd.Back) != len(sd.Keys) {
			add("C10", "backward-scan", fmt.Sprintf("store %s: forward %d items, backward %d", n, len(sd.Keys), len(sd.Back)))
		}
	}
	// C11: no orphans once the transaction has finished
	o.Orphans = Orphans(folder)
	// scope of C11: crash-free histories with injected COMMIT FAILURES. A fault the commit swallowed (post-commit
	// cleanup and log removal are best effort) is the failure of the very operation that would have removed the
	// artefact, so nothing can be demanded there.
	inScope := c.Fault.Index < 0 || out.EndErr != ""
	if inScope && len(o.Orphans.Problems) > 0 {
		for _, pr := range o.Orphans.Problems {
			add("C11", pr.Sig, fmt.Sprintf("%s (fault %+v at %s, end=%s, err=%q)", pr.What, c.Fault, faultSite(out, c.Fault), spec.End, out.EndErr))
		}
	}
	// C07: an immediate fault-free retry of the same changes commits, without waiting for any expiry
	if spec.End == "commit" && out.EndErr != "" {
		rin := &ChildIn{Folder: folder, HashMod: p.HashMod, Stores: p.Stores, Txn: spec, Label: "retry", MaxTime: 4000}
		rin.Txn.Fault = Fault{Index: -1}
		rout, rerr := RunTxn(rin, r.Root)
		if rerr != nil {
			// a crash of the retrying process is classified by where it dies
			cause := "other"
			if msg := rerr.Error(); strings.Contains(msg, "getCurrentItem") && strings.Contains(msg, "refetchAndMergeModifications") {
				cause = "nil-deref-in-getCurrentItem-during-refetch-and-merge"
			}
			add("C07", "retry-crashed/"+cause, rerr.Error())
		} else {
			if rout.EndErr != "" && strings.Contains(rout.EndErr, "timed out") && !leftoverClaim(out.Post) {
				// the retry runs with a short time budget so that a retry blocked by a leftover claim costs 4 s, not
				// minutes; with nothing left over, a time-out is the machine (load), not sop: repeat with a real budget
				rin.MaxTime = 60000
				if rout2, rerr2 := RunTxn(rin, r.Root); rerr2 == nil {
					rout = rout2
				}
			}
			o.Retry = rout
			if rout.EndErr != "" {
				cause := "other"
				if leftoverClaim(out.Post) {
					cause = "leftover-claimed-inactive-id"
				} else if leftoverDeletionMark(out.Post) {
					cause = "leftover-deletion-mark"
				}
				add("C07", "retry-blocked/"+cause, fmt.Sprintf("after a failed commit (fault %+v at %s) the same changes do not commit: %s", c.Fault, faultSite(out, c.Fault), rout.EndErr))
			} else {
				o.RetryDump = sopx.DumpFresh(folder, p.HashMod, false)
				cr2 := append([]bool(nil), created...)
				for _, op := range spec.Ops {
					cr2[op.Store] = true
				}
				if ok, why := dumpsEqualItems(o.RetryDump, after.Expect(p, cr2)); !ok {
					cause := "other"
					if leftoverClaim(out.Post) {
						cause = "leftover-claimed-inactive-id"
					}
					add("C07", "retry-wrong-content/"+cause, why)
				}
			}
		}
	}
	return o, nil
}

// faultSite names the failed call by the commit step in progress (last commit function logged) and the interface method.
func faultSite(out *ChildOut, f Fault) string {
	if f.Index < 0 || f.Index >= len(out.Events) {
		return "none"
	}
	step := 0
	for i := 0; i < f.Index; i++ {
		if ev := out.Events[i]; ev.Key() == "tlog.Add" {
			step = ev.Step
		}
	}
	ev := out.Events[f.Index]
	s := ev.Key()
	if s == "tlog.Add" {
		return fmt.Sprintf("log(step %d)", ev.Step)
	}
	m := ""
	if f.Mode == "failafter" {
		m = "+performed"
	}
	return fmt.Sprintf("step%d:%s%s", step, s, m)
}

// leftoverClaim reports whether a handle keeps a claimed (timestamped) inactive id.
// leftoverDeletionMark: a handle still carries the deletion mark (IsDeleted with a fresh work-in-progress
// timestamp) that commitRemovedNodes wrote: rollback undoes the marks only when the logged state is PAST
// commitRemovedNodes, so a registry write of that step that was performed and then reported failed stays.
func leftoverDeletionMark(s *State) bool {
	if s == nil {
		return false
	}
	for _, h := range s.Handles {
		if h.Deleted && h.Wip == 2 {
			return true
		}
	}
	return false
}

func leftoverClaim(s *State) bool {
	if s == nil {
		return false
	}
	for _, h := range s.Handles {
		if h.A != 0 && h.B != 0 && h.Wip == 2 && !h.Deleted {
			return true
		}
	}
	return false
}

// ---------------------------------------------------------------- orphans (C11) from the raw durable state

type Problem struct{ Sig, What string }
type OrphanReport struct {
	Problems   []Problem
	Blobs      int
	Handles    int
	Reachable  int
	ValueBlobs int
}

type rawNode struct {
	ID    sop.UUID `json:"ID"`
	Slots []struct {
		ID              sop.UUID `json:"ID"`
		ValueNeedsFetch bool     `json:"ValueNeedsFetch"`
	} `json:"Slots"`
	Count       int        `json:"Count"`
	ChildrenIDs []sop.UUID `json:"ChildrenIDs"`
}

// Orphans computes, per store, blobs not referenced by a reachable node/value, registry entries of unreachable nodes, and leftover logs.
func Orphans(folder string) *OrphanReport {
	rep := &OrphanReport{}
	raw, err := sopx.ReadRaw(folder)
	if err != nil {
		rep.Problems = append(rep.Problems, Problem{"raw-read", err.Error()})
		return rep
	}
	if len(raw.TLogs) > 0 {
		rep.Problems = append(rep.Problems, Problem{"leftover-transaction-log", fmt.Sprintf("%d transaction log file(s) remain", len(raw.TLogs))})
	}
	if len(raw.PLogs) > 0 {
		rep.Problems = append(rep.Problems, Problem{"leftover-priority-log", fmt.Sprintf("%d priority log file(s) remain", len(raw.PLogs))})
	}
	for _, o := range raw.Other {
		rep.Problems = append(rep.Problems, Problem{"leftover-file", "unexpected file " + o})
	}
	names := make([]string, 0, len(raw.Stores))
	for n := range raw.Stores {
		names = append(names, n)
	}
	sort.Strings(names)
	for _, n := range names {
		rs := raw.Stores[n]
		if rs.Info == nil {
			continue
		}
		byLid := map[sop.UUID]sop.Handle{}
		for _, h := range rs.Handles {
			byLid[h.LogicalID] = h
		}
		blobs := map[sop.UUID]bool{}
		for _, b := range rs.Blobs {
			blobs[b] = true
		}
		rep.Blobs += len(rs.Blobs)
		rep.Handles += len(rs.Handles)
		referenced := map[sop.UUID]bool{}
		reach := map[sop.UUID]bool{}
		todo := []sop.UUID{rs.Info.RootNodeID}
		for len(todo) > 0 {
			lid := todo[len(todo)-1]
			todo = todo[:len(todo)-1]
			if lid.IsNil() || reach[lid] {
				continue
			}
			h, ok := byLid[lid]
			if !ok {
				if lid != rs.Info.RootNodeID || rs.Info.Count != 0 {
					rep.Problems = append(rep.Problems, Problem{"dangling-node-reference", fmt.Sprintf("store %s: node %s is referenced but has no registry entry", n, lid)})
				}
				continue
			}
			reach[lid] = true
			pid := h.GetActiveID()
			referenced[pid] = true
			b, err := os.ReadFile(fsBlobPath(folder, n, pid))
			if err != nil {
				rep.Problems = append(rep.Problems, Problem{"dangling-active-blob", fmt.Sprintf("store %s: active blob of node %s is missing", n, lid)})
				continue
			}
			var nd rawNode
			if err := json.Unmarshal(b, &nd); err != nil {
				rep.Problems = append(rep.Problems, Problem{"corrupt-node-blob", fmt.Sprintf("store %s: node %s: %v", n, lid, err)})
				continue
			}
			for i, s := range nd.Slots {
				if i >= nd.Count {
					break
				}
				if s.ValueNeedsFetch {
					referenced[s.ID] = true
					rep.ValueBlobs++
					if !blobs[s.ID] {
						rep.Problems = append(rep.Problems, Problem{"dangling-value-blob", fmt.Sprintf("store %s: value blob of an item in node %s is missing", n, lid)})
					}
				}
			}
			todo = append(todo, nd.ChildrenIDs...)
		}
		rep.Reachable += len(reach)
		placement := "segment"
		switch {
		case rs.Info.IsValueDataInNodeSegment:
			placement = "innode"
		case rs.Info.IsValueDataActivelyPersisted:
			placement = "active"
		case rs.Info.IsValueDataGloballyCached:
			placement = "gcache"
		}
		for _, b := range rs.Blobs {
			if !referenced[b] {
				kind := "value"
				if raw, err := os.ReadFile(fsBlobPath(folder, n, b)); err == nil {
					var nd map[string]json.RawMessage
					if json.Unmarshal(raw, &nd) == nil {
						if _, ok := nd["Slots"]; ok {
							kind = "node"
						}
					}
				}
				rep.Problems = append(rep.Problems, Problem{"orphan-" + kind + "-blob/" + placement, fmt.Sprintf("store %s (%s placement): a %s blob is referenced by no reachable node or item", n, placement, kind)})
			}
		}
		for _, h := range rs.Handles {
			if !reach[h.LogicalID] {
				rep.Problems = append(rep.Problems, Problem{"orphan-registry-entry", fmt.Sprintf("store %s: registry entry (deleted=%v, ver=%d) belongs to no reachable node", n, h.IsDeleted, h.Version)})
			}
		}
	}
	// de-duplicate by signature+text
	seen := map[string]bool{}
	var out []Problem
	for _, p := range rep.Problems {
		k := p.Sig + "|" + p.What
		if !seen[k] {
			seen[k] = true
			out = append(out, p)
		}
	}
	rep.Problems = out
	return rep
}

func fsBlobPath(folder, store string, id sop.UUID) string {
	s := id.String()
	return filepath.Join(folder, store, string(s[0]), string(s[1]), string(s[2]), string(s[3]), s)
}

// keep hx imported for children registration side effects
var _ = hx.Children

package protox

import (
	"fmt"
	"sort"
	"strings"

	"verif/harness/hx"
	"verif/harness/sopx"
)

func coqH(h sopx.H) string {
	return fmt.Sprintf("(mkH %d %d %d %s %s %d %s)", h.Lid, h.A, h.B, hx.CoqBool(h.ActiveB), hx.CoqZ(int64(h.Ver)), h.Wip, hx.CoqBool(h.Deleted))
}
func coqHs(hs []sopx.H) string {
	xs := make([]string, len(hs))
	for i, h := range hs {
		xs[i] = coqH(h)
	}
	return hx.CoqList(xs)
}
func coqNs(ids []int) string {
	xs := make([]string, len(ids))
	for i, x := range ids {
		xs[i] = fmt.Sprint(x)
	}
	return hx.CoqList(xs)
}
func coqDisk(s *State, stores map[string]int) string {
	var cs []string
	names := make([]string, 0, len(s.Counts))
	for n := range s.Counts {
		names = append(names, n)
	}
	sort.Strings(names)
	for _, n := range names {
		cs = append(cs, fmt.Sprintf("(%d, %s)", stores[n], hx.CoqZ(s.Counts[n])))
	}
	pl := "None"
	if s.PLogs > 0 {
		pl = "(Some " + coqHs(s.PLogH) + ")"
	}
	return fmt.Sprintf("(mkD %s %s %s %s %s)", coqHs(s.Handles), coqNs(s.Blobs), hx.CoqList(cs), hx.CoqBool(s.TLogs > 0), pl)
}

// projected reports whether an event is part of the model's call alphabet, and renders it.
func projected(ev *sopx.Event, tid int, stores map[string]int) (string, bool) {
	switch ev.Key() {
	case "tlog.Add":
		if len(ev.IDs) == 1 && ev.IDs[0] != tid {
			return "", false
		}
		return fmt.Sprintf("TlogAdd %d", ev.Step), true
	case "tlog.Remove":
		if len(ev.IDs) == 1 && ev.IDs[0] != tid {
			return "", false
		}
		return "TlogRemove", true
	case "blob.Add":
		return "BlobAdd " + coqNs(ev.IDs), true
	case "blob.Remove":
		return "BlobRemove " + coqNs(ev.IDs), true
	case "reg.Get":
		return "RegGet " + coqNs(ev.IDs), true
	case "reg.Add":
		return "RegAdd " + coqHs(ev.Handles), true
	case "reg.UpdateNoLocks":
		return fmt.Sprintf("RegUpd %s %s", hx.CoqBool(ev.Bool != nil && *ev.Bool), coqHs(ev.Handles)), true
	case "reg.Update":
		return "RegUpd false " + coqHs(ev.Handles), true
	case "reg.Remove":
		return "RegRemove " + coqNs(ev.IDs), true
	case "sr.Update":
		var xs []string
		for i, n := range ev.Names {
			xs = append(xs, fmt.Sprintf("(%d, %s)", stores[n], hx.CoqZ(ev.Deltas[i])))
		}
		return "SrUpdate " + hx.CoqList(xs), true
	case "plog.Add":
		return "PlogAdd " + coqHs(ev.Handles), true
	case "plog.Get":
		return "PlogGet", true
	case "plog.Remove":
		return "PlogRemove", true
	}
	return "", false
}

// CoqCase renders one outcome as a Corr.Proto.protocase, or reports why it is outside the model's scope.
func CoqCase(o *Outcome) (string, string) {
	return coqCase(o.Out, o.Case, nil, "")
}

// CoqCrashCase renders a crash outcome as a Corr.Proto crash case.
func CoqCrashCase(o *CrashOutcome) (string, string) {
	if o.Out == nil || o.Post == nil || !o.Out.Crashed {
		return "", "no crash state"
	}
	return coqCase(o.Out, o.Case, o.Post, o.Class)
}

func coqCase(out *ChildOut, c *Case, crashPost *State, class string) (string, string) {
	p := c.Program
	crash := crashPost != nil
	if out.Sets == nil || out.Pre == nil || (!crash && (out.Crashed || out.Post == nil)) {
		return "", "crash-or-incomplete"
	}
	if p.Txns[c.Subject].End != "commit" {
		return "", "rollback"
	}
	if c.Fault.Mode == "failafter" {
		return "", "failafter"
	}
	stores := map[string]int{}
	for i, so := range p.Stores {
		stores[so.Name] = i
		if so.ActivelyP {
			return "", "actively-persisted placement (pre-commit value writes and a second log id)"
		}
	}
	for _, cr := range out.Sets.Created {
		if cr {
			return "", "store created in the subject transaction"
		}
	}
	// projected trace, fault index, merge detection
	var trace []string
	faultIdx := -1
	prevKey := ""
	for _, ev := range out.Events {
		term, ok := projected(ev, out.Tid, stores)
		if ev.Seq == c.Fault.Index && c.Fault.Index >= 0 {
			if !ok {
				return "", "fault at a call outside the model alphabet (" + ev.Key() + ")"
			}
			faultIdx = len(trace)
			if crash {
				break // the call at the crash point never happened
			}
		}
		if !ok {
			if ev.Iface != "l2" && ev.Iface != "sr" && ev.Key() != "reg.Replicate" && ev.Key() != "blob.GetOne" && ev.Iface != "tlog" {
				return "", "unexpected call " + ev.Key()
			}
			if ev.Key() == "blob.GetOne" || ev.Key() == "sr.Get" {
				return "", "refetch inside commit"
			}
			continue
		}
		k := ev.Key()
		if (k == "blob.Add" || k == "blob.Remove") && k == prevKey {
			return "", "per-store value-blob calls (several stores with values outside the node)"
		}
		prevKey = k
		trace = append(trace, fmt.Sprintf("(%s, %s)", term, hx.CoqBool(ev.Err == "")))
	}
	// descriptor
	s := out.Sets
	ids := func(ns []CNode) []int {
		o := make([]int, len(ns))
		for i, n := range ns {
			o[i] = n.ID
		}
		return o
	}
	pairs := func(ns []CNode) string {
		var xs []string
		for _, n := range ns {
			xs = append(xs, fmt.Sprintf("(%d, %s)", n.ID, hx.CoqZ(int64(n.Ver))))
		}
		return hx.CoqList(xs)
	}
	// value blobs and allocated physical ids are read off the trace
	var vals, rbVals, obsolete []int
	newPid := map[int]int{}
	step := 0
	for _, ev := range out.Events {
		switch ev.Key() {
		case "tlog.Add":
			if len(ev.IDs) == 1 && ev.IDs[0] == out.Tid {
				step = ev.Step
			}
		case "blob.Add":
			if step == 3 {
				vals = append(vals, ev.IDs...)
			}
		case "reg.UpdateNoLocks":
			if step == 5 {
				for _, h := range ev.Handles {
					pid := h.B
					if h.ActiveB {
						pid = h.A
					}
					newPid[h.Lid] = pid
				}
			}
		case "blob.Remove":
			if step == 13 {
				obsolete = append(obsolete, ev.IDs...)
			}
		}
	}
	// getForRollbackTrackedItemsValues: in the modelled placements these are the blobs of added/updated items = vals
	rbVals = vals
	if len(vals) == 0 && out.EndErr != "" && anyValuePlacement(p) {
		// the rollback's BlobRemove after a failure at/after step 3 names them even when they were never written:
		// it is the one BlobRemove whose ids are neither node ids nor freshly allocated physical ids
		known := map[int]bool{}
		for _, n := range append(append([]CNode{}, s.Roots...), s.Added...) {
			known[n.ID] = true
		}
		for _, pid := range newPid {
			known[pid] = true
		}
		for _, ev := range out.Events {
			if ev.Key() != "blob.Remove" {
				continue
			}
			other := len(ev.IDs) > 0
			for _, id := range ev.IDs {
				if known[id] {
					other = false
				}
			}
			if other {
				rbVals = ev.IDs
			}
		}
	}
	var upd []string
	for _, n := range s.Updated {
		upd = append(upd, fmt.Sprintf("(%d, %s, %d)", n.ID, hx.CoqZ(int64(n.Ver)), newPid[n.ID]))
	}
	var deltas, rbStores, storeIdx []string
	for i, n := range s.Stores {
		if s.Deltas[i] != 0 {
			deltas = append(deltas, fmt.Sprintf("(%d, %s)", stores[n], hx.CoqZ(s.Deltas[i])))
		}
		rbStores = append(rbStores, fmt.Sprintf("(%d, %s)", stores[n], hx.CoqZ(-s.Deltas[i])))
	}
	for i := range p.Stores {
		storeIdx = append(storeIdx, fmt.Sprint(i))
	}
	tracked := len(out.Events) > 0 && out.Events[0].Key() == "tlog.Add" && out.Events[0].Step == 2
	txn := fmt.Sprintf("(mkT %s %s %s %s %s %s %s %s %s %s %s)", hx.CoqBool(tracked), coqNs(vals), coqNs(rbVals), coqNs(obsolete), coqNs(ids(s.Roots)), pairs(s.Fetched),
		hx.CoqList(upd), pairs(s.Removed), coqNs(ids(s.Added)), hx.CoqList(deltas), hx.CoqList(rbStores))
	if crash {
		if faultIdx < 0 {
			return "", "crash point not in the projected trace"
		}
		if c.Fault.Mode == "crashtorn" {
			var written []int
			for _, ev := range out.Events {
				if ev.Seq == c.Fault.Index {
					for i, h := range ev.Handles {
						if i < c.Fault.Torn {
							written = append(written, h.Lid)
						}
					}
				}
			}
			return fmt.Sprintf("(CrashTorn %s %s %d%%nat %s %s %s)", txn, coqDisk(out.Pre, stores), faultIdx, coqNs(written), hx.CoqList(storeIdx), coqDisk(crashPost, stores)), ""
		}
		return fmt.Sprintf("(CrashAt %s %s %d%%nat %s %s)", txn, coqDisk(out.Pre, stores), faultIdx, hx.CoqList(storeIdx), coqDisk(crashPost, stores)), ""
	}
	f := "None"
	if faultIdx >= 0 {
		f = fmt.Sprintf("(Some %d%%nat)", faultIdx)
	} else if c.Fault.Index >= 0 {
		return "", "fault index beyond the calls of this run"
	}
	outc := "Committed"
	if out.EndErr != "" {
		outc = "Failed"
		if strings.Contains(out.EndErr, "retry limit") || strings.Contains(out.EndErr, "timed out") {
			outc = "Conflicted"
		}
	}
	return fmt.Sprintf("(mkCase %s %s %s %s %s %s %s)", txn, coqDisk(out.Pre, stores), f, hx.CoqList(storeIdx), hx.CoqList(trace), outc, coqDisk(out.Post, stores)), ""
}

func anyValuePlacement(p *Program) bool {
	for _, so := range p.Stores {
		if !so.InNode {
			return true
		}
	}
	return false
}

// EmitCoq is the emit hook shared by the commit-protocol harnesses.
func EmitCoq(res *hx.Result, o *Outcome) {
	term, why := CoqCase(o)
	if term == "" {
		res.Count("model-scope.out: " + why)
		return
	}
	res.Count("model-scope.in")
	res.AddCase(term, o.Case)
}

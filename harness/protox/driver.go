package protox

import (
	"encoding/json"
	"fmt"
	"os"
	"path/filepath"
	"sort"
	"strings"
	"sync"

	"verif/harness/hx"
)

// Mode says which runs a property harness performs.
type Mode struct {
	Prop        string
	Faults      bool // sweep single fault positions of the subject commit
	FailAfter   bool // also inject "performed, then reported failed"
	ShapesQuick int
	ShapesThor  int
	MaxFaults   int // per shape, quick tier (0 = all)
}

// Run is the common entry point of the C01/C06/C07/C10/C11 harnesses.
func Run(mode Mode, cfg *hx.RunCfg, emit func(res *hx.Result, o *Outcome)) (*hx.Result, error) {
	res := hx.NewResult(mode.Prop)
	work := os.Getenv("VERIF_WORK")
	if work == "" {
		work = cfg.Out
	}
	if work == "" {
		work = "/var/tmp/protox"
	}
	root := filepath.Join(work, "scratch")
	os.RemoveAll(root)
	os.MkdirAll(root, 0o755)
	defer os.RemoveAll(root)
	rn := &Runner{Root: root, MaxTime: 8000}

	record := func(o *Outcome) {
		c := o.Case
		site := faultSite(o.Out, c.Fault)
		canon, _ := json.Marshal(struct {
			P *Program
			S int
			F Fault
		}{c.Program, c.Subject, c.Fault})
		res.Seen(string(canon), c.Fault.Index >= 0 || len(c.Program.Txns[c.Subject].Ops) > 2)
		res.Count("fault@" + site)
		res.Count("end=" + c.Program.Txns[c.Subject].End)
		if o.Out.EndErr != "" {
			res.Count("outcome=error")
		} else {
			res.Count("outcome=ok")
		}
		for _, so := range c.Program.Stores {
			switch {
			case so.InNode:
				res.Count("placement=innode")
			case so.ActivelyP:
				res.Count("placement=active")
			case so.GlobalCache:
				res.Count("placement=gcache")
			default:
				res.Count("placement=segment")
			}
		}
		for _, f := range o.Findings {
			if f.Prop == mode.Prop {
				sig := classify(f.Sig, site, c)
				res.Fail(sig, f.What, c)
			}
		}
		res.Sample(map[string]any{"stores": c.Program.Stores, "subject_ops": c.Program.Txns[c.Subject].Ops, "end": c.Program.Txns[c.Subject].End,
			"fault": c.Fault, "fault_site": site, "commit_err": o.Out.EndErr, "calls": o.NCalls})
		if emit != nil {
			emit(res, o)
		}
	}

	if cfg.Replay != "" {
		raw, err := os.ReadFile(cfg.Replay)
		if err != nil {
			return nil, err
		}
		var rp struct {
			Input Case `json:"input"`
		}
		if err := json.Unmarshal(raw, &rp); err != nil {
			return nil, err
		}
		c := rp.Input
		folder, ref, created, err := rn.Prefix(c.Program, c.Subject)
		if err != nil {
			return nil, err
		}
		o, err := rn.RunCase(&c, folder, ref, created)
		if err != nil {
			return nil, err
		}
		record(o)
		return res, nil
	}

	// deterministic corpus first
	for _, ce := range Corpus() {
		subject := len(ce.Program.Txns) - 1
		folder, ref, created, err := rn.Prefix(ce.Program, subject)
		if err != nil {
			return nil, fmt.Errorf("corpus %s: %v", ce.Name, err)
		}
		base, err := rn.RunCase(&Case{Program: ce.Program, Subject: subject, Fault: Fault{Index: -1}}, folder, ref, created)
		if err != nil {
			return nil, fmt.Errorf("corpus %s: %v", ce.Name, err)
		}
		for k, site := range ce.Sites {
			if site == "" {
				record(base)
				continue
			}
			if !mode.Faults {
				continue
			}
			idx := -1
			for i := range base.Out.Events {
				if faultSite(base.Out, Fault{Index: i, Mode: "fail"}) == site {
					idx = i
					break
				}
			}
			if idx < 0 {
				res.Count("corpus-site-not-reached: " + ce.Name + " " + site)
				continue
			}
			o, err := rn.RunCase(&Case{Program: ce.Program, Subject: subject, Fault: Fault{Index: idx, Mode: ce.Modes[k]}}, folder, ref, created)
			if err != nil {
				return nil, fmt.Errorf("corpus %s %s: %v", ce.Name, site, err)
			}
			record(o)
		}
		os.RemoveAll(folder)
	}

	shapes := mode.ShapesQuick
	if cfg.Tier == "thorough" {
		shapes = mode.ShapesThor
	}
	if cfg.N > 0 {
		shapes = cfg.N
	}
	r := hx.NewRng(cfg.Seed)
	type job struct {
		c       *Case
		folder  string
		ref     Ref
		created []bool
	}
	var jobs []job
	var folders []string
	for sh := 0; sh < shapes; sh++ {
		p := GenProgram(r, sh)
		subject := len(p.Txns) - 1
		folder, ref, created, err := rn.Prefix(p, subject)
		if err != nil {
			return nil, fmt.Errorf("shape %d: %v", sh, err)
		}
		folders = append(folders, folder)
		base := &Case{Program: p, Subject: subject, Fault: Fault{Index: -1}}
		o, err := rn.RunCase(base, folder, ref, created)
		if err != nil {
			return nil, fmt.Errorf("shape %d fault-free: %v", sh, err)
		}
		record(o)
		if !mode.Faults || p.Txns[subject].End != "commit" {
			continue // faults are injected into commits only (the properties quantify over failures during commit)
		}
		idx := make([]int, o.NCalls)
		for i := range idx {
			idx[i] = i
		}
		if cfg.Tier != "thorough" && mode.MaxFaults > 0 && len(idx) > mode.MaxFaults {
			// keep a spread: shuffle deterministically, take MaxFaults
			for i := len(idx) - 1; i > 0; i-- {
				j := r.Intn(i + 1)
				idx[i], idx[j] = idx[j], idx[i]
			}
			idx = idx[:mode.MaxFaults]
			sort.Ints(idx)
		}
		for _, i := range idx {
			jobs = append(jobs, job{&Case{Program: p, Subject: subject, Fault: Fault{Index: i, Mode: "fail"}}, folder, ref, created})
			// "performed, then reported failed" is injected only at batch writes to the blob store and the registry, where a
			// partially or fully applied batch followed by an error is what a real I/O failure looks like
			if k := o.Out.Events[i].Key(); mode.FailAfter && (k == "blob.Add" || k == "blob.Remove" || k == "reg.Add" || k == "reg.UpdateNoLocks" || k == "reg.Remove") {
				jobs = append(jobs, job{&Case{Program: p, Subject: subject, Fault: Fault{Index: i, Mode: "failafter"}}, folder, ref, created})
			}
		}
	}
	outs := make([]*Outcome, len(jobs))
	errs := make([]error, len(jobs))
	var wg sync.WaitGroup
	sem := make(chan struct{}, 8)
	for i := range jobs {
		wg.Add(1)
		sem <- struct{}{}
		go func(i int) {
			defer wg.Done()
			defer func() { <-sem }()
			outs[i], errs[i] = rn.RunCase(jobs[i].c, jobs[i].folder, jobs[i].ref, jobs[i].created)
		}(i)
	}
	wg.Wait()
	for i := range jobs {
		if errs[i] != nil {
			return nil, fmt.Errorf("case %+v: %v", jobs[i].c.Fault, errs[i])
		}
		record(outs[i])
	}
	for _, f := range folders {
		os.RemoveAll(f)
	}
	return res, nil
}


// classify turns an oracle failure into a signature keyed by CAUSE where the cause is a known input class or a known
// leak window of the rollback, and by the place of the injected failure otherwise.
func classify(sig, site string, c *Case) string {
	spec := c.Program.Txns[c.Subject]
	if strings.HasPrefix(sig, "retry-crashed/") {
		return sig // classified by the place where the retrying process died
	}
	// known input class: the subject transaction touches a store with actively persisted values (C19 / C12 findings:
	// values are written before commit, Remove tracks nothing so remove-only transactions skip phase 1, Get-then-Update
	// overwrites committed blobs in place, rollback in logger state 99 returns early and keeps a created store)
	for _, op := range spec.Ops {
		if c.Program.Stores[op.Store].ActivelyP {
			return sig[:cut(sig)] + "/actively-persisted-values"
		}
	}
	if strings.HasPrefix(sig, "orphan-value-blob/") || strings.HasPrefix(sig, "retry-") {
		return sig
	}
	if strings.HasPrefix(sig, "orphan-") {
		k := sig
		if i := strings.Index(k, "/"); i >= 0 {
			k = k[:i] // the placement is irrelevant for node blobs and registry entries
		}
		return k + "/" + leakClass(site)
	}
	return sig + "@" + site
}

func cut(sig string) int {
	if i := strings.Index(sig, "/"); i >= 0 {
		return i
	}
	return len(sig)
}

// leakClass names the window of the commit in which the partial effects of the FAILING step are not rolled back
// (rollback undoes only steps that completed before it): A = commitUpdatedNodes after the registry claim,
// B = commitAddedNodes after the registry add, C = commitNewRootNodes after the root blob write.
func leakClass(site string) string {
	switch site {
	case "step5:blob.Add", "step5:blob.Add+performed", "step5:reg.UpdateNoLocks+performed", "log(step 6)":
		return "leak-A:updated-nodes-claimed-not-rolled-back"
	case "step8:blob.Add", "step8:blob.Add+performed", "step8:reg.Add+performed":
		return "leak-B:added-nodes-registered-not-rolled-back"
	case "step4:reg.Add", "step4:blob.Add+performed":
		return "leak-C:new-root-blob-not-rolled-back"
	}
	return "at:" + site
}

// Package protox runs generated transaction programs on the real filesystem
// backend, one transaction per child OS process (fresh caches, natural crash
// injection), with a fault / crash injected at a chosen interface call of the
// commit, and evaluates the direct oracles of the commit-protocol properties.
package protox

import (
	"context"
	"encoding/json"
	"fmt"
	"os"
	"os/exec"
	"path/filepath"
	"sort"
	"strings"
	"time"

	"github.com/sharedcode/sop"
	"github.com/sharedcode/sop/common"

	"verif/harness/hx"
	"verif/harness/sopx"
)

// Op is one B-tree operation of a transaction.
type Op struct {
	Store int    `json:"s"`
	Kind  string `json:"k"` // add | upd | rem | get
	Key   int    `json:"key"`
	Val   string `json:"v,omitempty"`
}

// Fault selects one armed interface call of the commit.
type Fault struct {
	Index int    `json:"index"` // -1 = none
	Mode  string `json:"mode"`  // fail | failafter | crash | crashtorn
	Torn  int    `json:"torn,omitempty"` // crashtorn: number of handles of the batch that reach the registry
}

// TxnSpec is one transaction.
type TxnSpec struct {
	Ops   []Op   `json:"ops"`
	End   string `json:"end"` // commit | rollback
	Fault Fault  `json:"fault"`
}

// ChildIn is the input of the transaction child.
type ChildIn struct {
	Folder  string           `json:"folder"`
	HashMod int              `json:"hash_mod"`
	Stores  []sopx.StoreOpts `json:"stores"`
	Txn     TxnSpec          `json:"txn"`
	Label   string           `json:"label"`
	MaxTime int              `json:"max_time_ms"`
	Mute    []string         `json:"mute"`
}

// State is the canonicalised durable state.
type State struct {
	Handles []sopx.H         `json:"handles"`
	Blobs   []int            `json:"blobs"`
	BlobTbl []string         `json:"blob_tbl"`
	Counts  map[string]int64 `json:"counts"`
	TLogs   int              `json:"tlogs"`
	PLogs   int              `json:"plogs"`
	PLogH   []sopx.H         `json:"plog_handles,omitempty"` // handle images held by the priority logs
	Other   []string         `json:"other,omitempty"`
}

// CNode is a canonicalised node of a classified node set.
type CNode struct {
	Store string `json:"store"`
	ID    int    `json:"id"`
	Ver   int    `json:"ver"`
}

// Sets is common.Transaction.VerifClassify canonicalised.
type Sets struct {
	Updated, Removed, Added, Fetched, Roots []CNode
	Stores                                  []string
	Deltas                                  []int64
	Created                                 []bool
}

// ChildOut is the output of the transaction child.
type ChildOut struct {
	OpResults []bool        `json:"op_results"`
	OpErr     string        `json:"op_err,omitempty"`
	EndErr    string        `json:"end_err,omitempty"` // error of Commit / Rollback
	Events    []*sopx.Event `json:"events"`
	Pre       *State        `json:"pre"`
	Post      *State        `json:"post"`
	Tid       int           `json:"tid"`
	Sets      *Sets         `json:"sets,omitempty"`
	CanonIDs  []string      `json:"canon_ids,omitempty"` // crash runs: the child's canonical numbering, so the parent can decode the state left behind
	Crashed   bool          `json:"crashed,omitempty"`
	Fatal     string        `json:"fatal,omitempty"`
}

// CanonState canonicalises a decoded folder.
func CanonState(c *sopx.Canon, raw *sopx.Raw) *State { return canonState(c, raw) }

func canonState(c *sopx.Canon, raw *sopx.Raw) *State {
	s := &State{Counts: map[string]int64{}, TLogs: len(raw.TLogs), PLogs: len(raw.PLogs), Other: raw.Other}
	for _, x := range raw.PLogged {
		for _, h := range x.IDs {
			s.PLogH = append(s.PLogH, c.Handle(x.RegistryTable, h))
		}
	}
	names := make([]string, 0, len(raw.Stores))
	for n := range raw.Stores {
		names = append(names, n)
	}
	sort.Strings(names)
	type hb struct {
		h sopx.H
		k string
	}
	for _, n := range names {
		rs := raw.Stores[n]
		if rs.Info != nil {
			s.Counts[n] = rs.Info.Count
		}
		hs := append([]sop.Handle(nil), rs.Handles...)
		sort.Slice(hs, func(i, j int) bool { return hs[i].LogicalID.Compare(hs[j].LogicalID) < 0 })
		for _, h := range hs {
			s.Handles = append(s.Handles, c.Handle(n, h))
		}
		bl := append([]sop.UUID(nil), rs.Blobs...)
		sort.Slice(bl, func(i, j int) bool { return bl[i].Compare(bl[j]) < 0 })
		for _, b := range bl {
			s.Blobs = append(s.Blobs, c.ID(b))
			s.BlobTbl = append(s.BlobTbl, n)
		}
	}
	return s
}

// childMain runs one transaction (see ChildIn) and prints ChildOut as JSON.
func childMain(args []string) int {
	out := &ChildOut{}
	emit := func() {
		b, _ := json.Marshal(out)
		os.Stdout.Write(b)
	}
	var in ChildIn
	raw, err := os.ReadFile(args[0])
	if err == nil {
		err = json.Unmarshal(raw, &in)
	}
	if err != nil {
		out.Fatal = "input: " + err.Error()
		emit()
		return 0
	}
	ctx := context.Background()
	e, err := sopx.NewEnv(in.Folder, in.HashMod)
	if err != nil {
		out.Fatal = err.Error()
		emit()
		return 0
	}
	for _, m := range in.Mute {
		e.Rec.Mute[m] = true
	}
	mt := time.Duration(in.MaxTime) * time.Millisecond
	if mt == 0 {
		mt = 20 * time.Second
	}
	t, err := e.NewTxn(ctx, sop.ForWriting, mt, in.Label, false)
	if err != nil {
		out.Fatal = "newtxn: " + err.Error()
		emit()
		return 0
	}
	out.Tid = e.Rec.Canon.ID(t.Two.GetID())
	if err := t.Begin(ctx); err != nil {
		out.Fatal = "begin: " + err.Error()
		emit()
		return 0
	}
	type bt = interface {
		Add(context.Context, int, string) (bool, error)
		Update(context.Context, int, string) (bool, error)
		Remove(context.Context, int) (bool, error)
		Find(context.Context, int, bool) (bool, error)
	}
	stores := make([]bt, len(in.Stores))
	used := map[int]bool{}
	for _, op := range in.Txn.Ops {
		used[op.Store] = true
	}
	for i, so := range in.Stores {
		if !used[i] {
			continue
		}
		b, err := t.NewStore(ctx, so)
		if err != nil {
			out.Fatal = "newstore: " + err.Error()
			emit()
			return 0
		}
		stores[i] = b
	}
	for _, op := range in.Txn.Ops {
		b := stores[op.Store]
		var ok bool
		var err error
		switch op.Kind {
		case "add":
			ok, err = b.Add(ctx, op.Key, op.Val)
		case "upd":
			ok, err = b.Update(ctx, op.Key, op.Val)
		case "rem":
			ok, err = b.Remove(ctx, op.Key)
		case "get":
			ok, err = b.Find(ctx, op.Key, false)
		}
		out.OpResults = append(out.OpResults, ok)
		if err != nil {
			out.OpErr = fmt.Sprintf("%s %d: %v", op.Kind, op.Key, err)
			break
		}
	}
	if r, err := sopx.ReadRaw(in.Folder); err == nil {
		out.Pre = canonState(e.Rec.Canon, r)
	}
	{
		vs := t.Two.VerifClassify()
		conv := func(src []common.VerifNode) []CNode {
			var o []CNode
			for _, n := range src {
				o = append(o, CNode{n.Store, e.Rec.Canon.ID(n.ID), int(n.Version)})
			}
			return o
		}
		out.Sets = &Sets{Updated: conv(vs.Updated), Removed: conv(vs.Removed), Added: conv(vs.Added), Fetched: conv(vs.Fetched), Roots: conv(vs.Roots),
			Stores: vs.Stores, Deltas: vs.Deltas, Created: vs.Created}
	}
	partial := args[0] + ".partial"
	e.Rec.Before = func(ev *sopx.Event) sopx.Action {
		if ev.Seq != in.Txn.Fault.Index {
			return sopx.Proceed
		}
		switch in.Txn.Fault.Mode {
		case "fail":
			return sopx.Fail
		case "failafter":
			return sopx.FailAfter
		case "crash", "crashtorn":
			if in.Txn.Fault.Mode == "crashtorn" {
				return sopx.Proceed // the registry decorator tears the batch and then exits
			}
			out.Crashed = true
			out.Events = e.Rec.Snapshot()
			out.CanonIDs = e.Rec.Canon.Export()
			b, _ := json.Marshal(out)
			os.WriteFile(partial, b, 0o644)
			os.Exit(77)
		}
		return sopx.Proceed
	}
	if in.Txn.Fault.Mode == "crashtorn" && e.LastRegistryDec != nil {
		e.LastRegistryDec.Torn = func(ev *sopx.Event) int {
			if ev.Seq == in.Txn.Fault.Index {
				return in.Txn.Fault.Torn
			}
			return -1
		}
		e.LastRegistryDec.TornThen = func(ev *sopx.Event) {
			out.Crashed = true
			out.Events = e.Rec.Snapshot()
			out.CanonIDs = e.Rec.Canon.Export()
			b, _ := json.Marshal(out)
			os.WriteFile(partial, b, 0o644)
			os.Exit(77)
		}
	}
	e.Rec.Arm()
	if in.Txn.End == "rollback" {
		err = t.Rollback(ctx)
	} else {
		err = t.Commit(ctx)
	}
	e.Rec.Disarm()
	if err != nil {
		out.EndErr = err.Error()
	}
	out.Events = e.Rec.Snapshot()
	if r, err := sopx.ReadRaw(in.Folder); err == nil {
		out.Post = canonState(e.Rec.Canon, r)
	}
	emit()
	return 0
}

func init() { hx.Children["protoxtxn"] = childMain }

// RunTxn executes one transaction in a child process.
func RunTxn(in *ChildIn, scratch string) (*ChildOut, error) {
	os.MkdirAll(scratch, 0o755)
	f, err := os.CreateTemp(scratch, "txn-*.json")
	if err != nil {
		return nil, err
	}
	b, _ := json.Marshal(in)
	f.Write(b)
	f.Close()
	defer os.Remove(f.Name())
	defer os.Remove(f.Name() + ".partial")
	cmd := exec.Command(os.Args[0], "child:protoxtxn", f.Name())
	var stderr strings.Builder
	cmd.Stderr = &stderr
	outb, err := cmd.Output()
	out := &ChildOut{}
	if ee, ok := err.(*exec.ExitError); ok && ee.ExitCode() == 77 {
		pb, perr := os.ReadFile(f.Name() + ".partial")
		if perr != nil {
			return nil, perr
		}
		if err := json.Unmarshal(pb, out); err != nil {
			return nil, err
		}
		out.Crashed = true
		return out, nil
	}
	if err != nil {
		return nil, fmt.Errorf("txn child: %v: %s", err, headTail(stderr.String()))
	}
	if err := json.Unmarshal(outb, out); err != nil {
		return nil, fmt.Errorf("txn child output: %v: %s", err, tail(string(outb), 300))
	}
	if out.Fatal != "" {
		return out, fmt.Errorf("txn child: %s", out.Fatal)
	}
	return out, nil
}

func tail(s string, n int) string {
	if len(s) > n {
		return s[len(s)-n:]
	}
	return s
}

// CopyDir copies a database folder (snapshots for fault sweeps).
func CopyDir(src, dst string) error {
	return filepath.Walk(src, func(p string, info os.FileInfo, err error) error {
		if err != nil {
			return err
		}
		rel, _ := filepath.Rel(src, p)
		q := filepath.Join(dst, rel)
		if info.IsDir() {
			return os.MkdirAll(q, 0o755)
		}
		b, err := os.ReadFile(p)
		if err != nil {
			return err
		}
		if err := os.WriteFile(q, b, 0o644); err != nil {
			return err
		}
		return os.Chtimes(q, info.ModTime(), info.ModTime())
	})
}

func headTail(s string) string {
	// the head must hold the whole stack of the panicking goroutine whatever the length of the source paths:
	// failures of a retrying child are classified by the frames it died in
	if len(s) <= 4800 {
		return s
	}
	return s[:4000] + "\n…\n" + s[len(s)-600:]
}

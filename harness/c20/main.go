package main

import (
	"bufio"
	"context"
	"encoding/json"
	"fmt"
	"io"
	"os"
	"os/exec"
	"path/filepath"
	"sort"
	"strings"
	"time"

	"github.com/sharedcode/sop"
	sopredis "github.com/sharedcode/sop/adapters/redis"
	"github.com/sharedcode/sop/cache"

	"verif/harness/hx"
	"verif/harness/respsrv"
	"verif/harness/sopx"
)

// C20: caches never serve stale data. Sequential cross-process histories on the real filesystem
// backend: long-lived OS processes (warm caches) sharing one database folder and, in clustered mode,
// one RESP server (verif/harness/respsrv). After a writer's Commit returns, a read in any process
// must return the writer's values. The same histories are evaluated by the Coq model CacheCoh.v
// (single-node store: the whole store is one B-tree node, so one logical id).

func main() { hx.Main("c20", runC20) }

const scratch = "/var/tmp/C20/run"

// ---------------------------------------------------------------- child process

type cmd struct {
	Op   string         `json:"op"` // write read clear quit
	KV   map[string]int `json:"kv,omitempty"`
	Keys []int          `json:"keys,omitempty"`
	Mode string         `json:"mode,omitempty"` // r = ForReading, w = ForWriting, n = NoCheck
	What string         `json:"what,omitempty"` // l1nodes l1handles l2
}
type reply struct {
	OK        bool           `json:"ok"`
	Err       string         `json:"err,omitempty"`
	Vals      map[string]int `json:"vals,omitempty"`
	CommitErr string         `json:"commit_err,omitempty"`
}

func childProc(args []string) int {
	if len(args) < 4 {
		return 2
	}
	folder, mode, addr := args[0], args[2], args[3]
	var hm int
	fmt.Sscan(args[1], &hm)
	ctx := context.Background()
	e, err := sopx.NewEnv(folder, hm)
	if err != nil {
		fmt.Fprintln(os.Stderr, err)
		return 3
	}
	if mode == "clustered" {
		e.Cache = sopredis.NewConnectionClient(sopredis.Options{Address: addr, MaxRetries: -1})
	}
	in := bufio.NewReaderSize(os.Stdin, 1<<20)
	out := json.NewEncoder(os.Stdout)
	n := 0
	for {
		line, err := in.ReadString('\n')
		if err != nil {
			return 0
		}
		var c cmd
		if json.Unmarshal([]byte(line), &c) != nil {
			continue
		}
		var r reply
		switch c.Op {
		case "quit":
			return 0
		case "clear":
			l1 := cache.GetGlobalL1Cache(e.Cache)
			switch c.What {
			case "l1nodes":
				cache.VerifDropL1Nodes()
			case "l1handles":
				l1.Handles.Clear()
			case "l2":
				if cl, ok := e.Cache.(interface{ Clear(context.Context) error }); ok {
					cl.Clear(ctx)
				}
			}
			r.OK = true
		case "write":
			n++
			t, err := e.NewTxn(ctx, sop.ForWriting, time.Minute, fmt.Sprint("w", n), true)
			if err == nil {
				err = t.Begin(ctx)
			}
			if err == nil {
				b, err2 := t.NewStore(ctx, sopx.StoreOpts{Name: "s", Slot: 200, Unique: true, InNode: true})
				err = err2
				if err == nil {
					ks := make([]string, 0, len(c.KV))
					for k := range c.KV {
						ks = append(ks, k)
					}
					sort.Strings(ks)
					for _, k := range ks {
						var ki int
						fmt.Sscan(k, &ki)
						if _, err = b.Upsert(ctx, ki, fmt.Sprint(c.KV[k])); err != nil {
							break
						}
					}
				}
				if err == nil {
					err = t.Commit(ctx)
				} else {
					t.Rollback(ctx)
				}
			}
			r.OK = err == nil
			if err != nil {
				r.Err = err.Error()
			}
		case "read":
			n++
			m := sop.ForReading
			if c.Mode == "w" {
				m = sop.ForWriting
			} else if c.Mode == "n" {
				m = sop.NoCheck
			}
			t, err := e.NewTxn(ctx, m, time.Minute, fmt.Sprint("r", n), true)
			if err == nil {
				err = t.Begin(ctx)
			}
			r.Vals = map[string]int{}
			if err == nil {
				b, err2 := t.OpenStore(ctx, "s")
				err = err2
				if err == nil {
					for _, k := range c.Keys {
						ok, ferr := b.Find(ctx, k, false)
						if ferr != nil {
							err = ferr
							break
						}
						if !ok {
							r.Vals[fmt.Sprint(k)] = -1
							continue
						}
						v, gerr := b.GetCurrentValue(ctx)
						if gerr != nil {
							err = gerr
							break
						}
						var vi int
						fmt.Sscan(v, &vi)
						r.Vals[fmt.Sprint(k)] = vi
					}
				}
				if err == nil {
					if cerr := t.Commit(ctx); cerr != nil {
						r.CommitErr = cerr.Error()
					}
				} else {
					t.Rollback(ctx)
				}
			}
			r.OK = err == nil
			if err != nil {
				r.Err = err.Error()
			}
		}
		out.Encode(r)
	}
}

func init() { hx.Children["c20proc"] = childProc }

type proc struct {
	c   *exec.Cmd
	in  io.WriteCloser
	out *bufio.Reader
}

func startProc(folder string, hm int, mode, addr string) (*proc, error) {
	c := exec.Command(os.Args[0], "child:c20proc", folder, fmt.Sprint(hm), mode, addr)
	in, _ := c.StdinPipe()
	o, _ := c.StdoutPipe()
	c.Stderr = nil
	if err := c.Start(); err != nil {
		return nil, err
	}
	return &proc{c, in, bufio.NewReaderSize(o, 1<<20)}, nil
}
func (p *proc) call(c cmd) (reply, error) {
	b, _ := json.Marshal(c)
	if _, err := p.in.Write(append(b, '\n')); err != nil {
		return reply{}, err
	}
	line, err := p.out.ReadString('\n')
	if err != nil {
		return reply{}, err
	}
	var r reply
	err = json.Unmarshal([]byte(line), &r)
	return r, err
}
func (p *proc) stop() {
	p.in.Write([]byte("{\"op\":\"quit\"}\n"))
	p.in.Close()
	done := make(chan struct{})
	go func() { p.c.Wait(); close(done) }()
	select {
	case <-done:
	case <-time.After(3 * time.Second):
		p.c.Process.Kill()
	}
}

// ---------------------------------------------------------------- histories

type Step struct {
	P    int    `json:"p"`
	Op   string `json:"op"`             // write read clear
	Mode string `json:"mode,omitempty"` // read: r w n
	What string `json:"what,omitempty"`
}
type Hist struct {
	Name  string `json:"name"`
	Mode  string `json:"mode"` // clustered | standalone
	Procs int    `json:"procs"`
	Keys  int    `json:"keys"`
	Steps []Step `json:"steps"`
}

var srv *respsrv.Server

func runHist(res *hx.Result, h *Hist, idx int) {
	dir := filepath.Join(scratch, fmt.Sprint(os.Getpid(), "-", idx))
	os.RemoveAll(dir)
	defer os.RemoveAll(dir)
	addr := ""
	if h.Mode == "clustered" {
		if srv == nil {
			s, err := respsrv.Start("127.0.0.1:0")
			if err != nil {
				res.Fail("harness:respsrv", err.Error(), h)
				return
			}
			srv = s
		}
		srv.FlushAll()
		addr = srv.Addr()
	}
	procs := make([]*proc, h.Procs)
	for i := range procs {
		p, err := startProc(dir, 2, h.Mode, addr)
		if err != nil {
			res.Fail("harness:spawn", err.Error(), h)
			return
		}
		procs[i] = p
		defer p.stop()
	}
	res.Count("mode." + h.Mode)
	res.Count(fmt.Sprintf("procs.%d", h.Procs))
	keys := make([]int, h.Keys)
	for i := range keys {
		keys[i] = i
	}
	writes := 0                  // content id of the latest committed write
	wrote := map[int]bool{}      // processes that committed a write
	lastWriter := -1
	var evs, obs []string
	corr := true
	nontrivial := false
	for si, st := range h.Steps {
		res.Count("step." + st.Op + st.Mode + st.What)
		p := procs[st.P]
		switch st.Op {
		case "write":
			writes++
			kv := map[string]int{}
			for _, k := range keys {
				kv[fmt.Sprint(k)] = writes
			}
			r, err := p.call(cmd{Op: "write", KV: kv})
			if err == nil && !r.OK && h.Mode == "clustered" && wrote[st.P] && lastWriter != st.P && strings.Contains(r.Err, "newer version") {
				// same defect seen from a writer: its transaction worked on the stale node served by the fast path and the
				// commit's merge then refuses it, although no transaction ran concurrently
				writes--
				corr = false
				nontrivial = true
				sig := "clustered:phase0-l1-handle-fast-path-stale-after-foreign-commit"
				res.Count("failure." + sig + ":writer-commit-refused")
				res.Fail(sig, fmt.Sprintf("step %d: commit of process %d refused (%s) although no other transaction was running: it had been served the node version preceding process %d's commit", si, st.P, r.Err, lastWriter), h)
				continue
			}
			if err != nil || !r.OK {
				res.Fail("write-failed:"+h.Mode, fmt.Sprintf("step %d: %v %s", si, err, r.Err), h)
				return
			}
			wrote[st.P] = true
			lastWriter = st.P
			evs = append(evs, fmt.Sprintf("Write %d 7 %d", st.P, writes))
		case "clear":
			p.call(cmd{Op: "clear", What: st.What})
			corr = false // the model has single-entry evictions only; clears are checked by the oracle alone
		case "read":
			if writes == 0 {
				continue
			}
			r, err := p.call(cmd{Op: "read", Keys: keys, Mode: st.Mode})
			if err != nil || !r.OK {
				res.Fail("read-failed:"+h.Mode, fmt.Sprintf("step %d: %v %s", si, err, r.Err), h)
				return
			}
			seen := -2
			mixed := false
			for _, k := range keys {
				v := r.Vals[fmt.Sprint(k)]
				if seen == -2 {
					seen = v
				} else if v != seen {
					mixed = true
				}
			}
			evs = append(evs, fmt.Sprintf("Read %d 7 true", st.P))
			if seen < 0 {
				obs = append(obs, "None")
			} else {
				obs = append(obs, fmt.Sprintf("Some %d", seen))
			}
			if mixed || seen != writes {
				nontrivial = true
				sig := "stale-read:" + h.Mode
				switch {
				case h.Mode == "standalone" && h.Procs > 1:
					// outside the documented configuration (config.go: Standalone = single process): recorded, not a failure
					res.Count("note.standalone-multi-process-stale")
					res.Notes = append(res.Notes, fmt.Sprintf("%s step %d: standalone process %d read write #%d, latest committed #%d (two standalone processes are outside the documented configuration)", h.Name, si, st.P, seen, writes))
					continue
				case h.Mode == "clustered" && wrote[st.P] && lastWriter != st.P && !mixed:
					sig = "clustered:phase0-l1-handle-fast-path-stale-after-foreign-commit"
				}
				res.Count("failure." + sig)
				res.Fail(sig, fmt.Sprintf("step %d: process %d (mode %s, txn mode %q) read write #%d of every key, latest committed is #%d; reader commit error: %q", si, st.P, h.Mode, st.Mode, seen, writes, r.CommitErr), h)
			}
		}
	}
	js, _ := json.Marshal(h)
	res.Seen(string(js), nontrivial || len(wrote) > 1)
	if corr && len(evs) > 0 {
		cfg := "clustered"
		if h.Mode == "standalone" {
			cfg = "standalone"
		}
		res.AddCase(fmt.Sprintf("mkC20 %s %s %s", cfg, hx.CoqList(evs), hx.CoqList(obs)), h)
	}
	res.Sample(map[string]any{"name": h.Name, "mode": h.Mode, "procs": h.Procs, "steps": len(h.Steps)})
}

func corpus() []*Hist {
	w := func(p int) Step { return Step{P: p, Op: "write"} }
	r := func(p int, m string) Step { return Step{P: p, Op: "read", Mode: m} }
	c := func(p int, what string) Step { return Step{P: p, Op: "clear", What: what} }
	return []*Hist{
		{Name: "single-process", Mode: "standalone", Procs: 1, Keys: 5, Steps: []Step{w(0), r(0, "r"), w(0), r(0, "r"), r(0, "w"), c(0, "l1nodes"), r(0, "r"), w(0), c(0, "l1handles"), r(0, "r"), c(0, "l2"), r(0, "n")}},
		{Name: "clustered-cold-reader", Mode: "clustered", Procs: 2, Keys: 5, Steps: []Step{w(0), r(1, "r"), w(0), r(1, "r"), w(0), r(1, "n"), r(0, "r")}},
		{Name: "clustered-one-process", Mode: "clustered", Procs: 1, Keys: 5, Steps: []Step{w(0), r(0, "r"), w(0), r(0, "r"), c(0, "l2"), r(0, "r")}},
		// S10: process 0 commits and reads, process 1 commits, process 0 reads again
		{Name: "finding-s10", Mode: "clustered", Procs: 2, Keys: 5, Steps: []Step{w(0), r(0, "r"), w(1), r(0, "r")}},
		{Name: "s10-nocheck", Mode: "clustered", Procs: 2, Keys: 5, Steps: []Step{w(0), r(0, "n"), w(1), r(0, "n"), r(0, "n")}},
		{Name: "s10-handles-cleared", Mode: "clustered", Procs: 2, Keys: 5, Steps: []Step{w(0), r(0, "r"), w(1), c(0, "l1handles"), r(0, "r")}},
		{Name: "standalone-two-process", Mode: "standalone", Procs: 2, Keys: 5, Steps: []Step{w(0), r(1, "r"), w(0), r(1, "r")}},
	}
}

func genHist(r *hx.Rng, i int) *Hist {
	h := &Hist{Name: fmt.Sprint("rand", i), Keys: 1 + r.Intn(8)}
	switch r.Intn(4) {
	case 0:
		h.Mode, h.Procs = "standalone", 1
	case 1:
		h.Mode, h.Procs = "clustered", 1
	default:
		h.Mode, h.Procs = "clustered", 2+r.Intn(2)
	}
	n := 6 + r.Intn(10)
	h.Steps = append(h.Steps, Step{P: r.Intn(h.Procs), Op: "write"})
	for j := 0; j < n; j++ {
		p := r.Intn(h.Procs)
		switch c := r.Intn(10); {
		case c < 3:
			h.Steps = append(h.Steps, Step{P: p, Op: "write"})
		case c < 9:
			h.Steps = append(h.Steps, Step{P: p, Op: "read", Mode: hx.Pick(r, []string{"r", "r", "w", "n"})})
		default:
			h.Steps = append(h.Steps, Step{P: p, Op: "clear", What: hx.Pick(r, []string{"l1nodes", "l1handles", "l2"})})
		}
	}
	return h
}

func runC20(cfg *hx.RunCfg) (*hx.Result, error) {
	res := hx.NewResult("C20")
	res.Imports = []string{"Lib.Bytes", "CacheCoh", "Corr.C20"}
	res.CaseType = "c20case"
	res.Checker = "c20_check"
	res.Rule = "one evaluation = one sequential history of commits / reads / cache clears issued to 1-3 long-lived OS processes sharing a database folder (clustered: one RESP server); distinct = distinct history JSON; non-trivial = more than one writing process or a stale read observed"
	os.MkdirAll(scratch, 0o755)
	if cfg.Replay != "" {
		raw, err := os.ReadFile(cfg.Replay)
		if err != nil {
			return nil, err
		}
		var rp struct {
			Input Hist `json:"input"`
		}
		if err := json.Unmarshal(raw, &rp); err != nil {
			return nil, err
		}
		runHist(res, &rp.Input, 0)
		return res, nil
	}
	n := cfg.N
	if n == 0 {
		n = 30
		if cfg.Tier == "thorough" {
			n = 600
		}
	}
	idx := 0
	for _, h := range corpus() {
		runHist(res, h, idx)
		idx++
	}
	// wall-clock budget for the random part (loaded machines): a run that hits it covers a prefix of the same seeded sequence
	budget := 50 * time.Second
	if cfg.Tier == "thorough" {
		budget = 14 * time.Minute
	}
	if cfg.N != 0 {
		budget = 24 * time.Hour
	}
	start := time.Now()
	r := hx.NewRng(cfg.Seed)
	ran := 0
	for i := 0; i < n && time.Since(start) < budget; i++ {
		runHist(res, genHist(r, i), idx)
		idx++
		ran++
	}
	res.Notes = append(res.Notes, fmt.Sprintf("random histories run: %d of at most %d (budget %v)", ran, n, budget))
	_ = strings.TrimSpace
	return res, nil
}

package main

import (
	"crypto/hmac"
	"crypto/sha256"
	"encoding/base64"
	"encoding/json"
	"fmt"
	"os"
	"os/exec"
	"path/filepath"
	"sort"
	"strings"

	"verif/harness/hx"
)

// C35: session tokens cannot be forged, outlive expiry, or survive logout.
//
// tools/httpserver is `package main`, so the harness cannot import it. The
// harness builds a driver binary FROM THAT PACKAGE with `go build -overlay`:
// the overlay adds harness/c35/inject/driver.go.in as verif_c35_driver.go
// (script interpreter over the real SessionStore) and replaces auth.go by a
// copy whose only difference is `time.Now()` -> `verifNow()` (a clock that can
// be advanced and whose readings are recorded). Nothing under /repo is touched.
// Histories of create/refresh/revoke/validate/tick/secret operations with
// mutated tokens are executed by that binary; every result is checked against
// the property (direct oracle) and, inside Coq, against the model of Session.v.

func main() { hx.Main("c35", runC35) }

const defaultSecret = "sop-session-default-secret"

// ---------------------------------------------------------------- script types (mirror of inject/driver.go.in)

type Pres struct {
	Base   int    `json:"base"`
	Which  string `json:"which"`
	Mut    string `json:"mut"`
	Seg    int    `json:"seg"`
	Pos    int    `json:"pos"`
	Bit    int    `json:"bit"`
	Secret string `json:"secret"`
	Role   string `json:"role"`
	ExpAdd int64  `json:"exp_add"`
	Base2  int    `json:"base2"`
}

type Op struct {
	Op     string `json:"op"`
	User   string `json:"user,omitempty"`
	Role   string `json:"role,omitempty"`
	TTLms  int64  `json:"ttl_ms,omitempty"`
	RTTLms int64  `json:"rttl_ms,omitempty"`
	Ms     int64  `json:"ms,omitempty"`
	Secret string `json:"secret,omitempty"`
	Tok    Pres   `json:"tok"`
}

type Res struct {
	OK        bool     `json:"ok"`
	Err       string   `json:"err,omitempty"`
	Access    string   `json:"access,omitempty"`
	Refresh   string   `json:"refresh,omitempty"`
	User      string   `json:"user,omitempty"`
	Role      string   `json:"role,omitempty"`
	Presented string   `json:"presented,omitempty"`
	Clock     []int64  `json:"clock,omitempty"`
	Keys      []string `json:"keys"`
	Secret    string   `json:"cur_secret"`
}

type History struct {
	Ops      []Op `json:"ops"`
	RealTime bool `json:"real_time,omitempty"` // executed by the build with the unmodified auth.go (sleep instead of tick)
}

// ---------------------------------------------------------------- building the driver binary

func repoDir() string {
	if r := os.Getenv("VERIF_REPO"); r != "" {
		return r
	}
	return "/repo"
}

func workDir() string {
	if w := os.Getenv("VERIF_WORK"); w != "" {
		return w
	}
	return "/var/tmp/C35/work"
}

func harnessDir() string {
	if w := os.Getenv("VERIF_WORK"); w != "" {
		d := filepath.Join(filepath.Dir(filepath.Dir(w)), "harness")
		if _, err := os.Stat(filepath.Join(d, "go.mod")); err == nil {
			return d
		}
	}
	return "/verif/harness"
}

// buildDriver builds <work>/c35srv[-rt] from <repo>/tools/httpserver with the overlay. clock=true replaces
// auth.go by the time.Now()->verifNow() copy. Returns the binary path and the number of replaced call sites.
func buildDriver(clock bool) (string, int, error) {
	w, repo, hd := workDir(), repoDir(), harnessDir()
	bdir := filepath.Join(w, "build")
	os.MkdirAll(bdir, 0o755)
	pkg := filepath.Join(repo, "tools", "httpserver")
	overlay := map[string]string{filepath.Join(pkg, "verif_c35_driver.go"): filepath.Join(hd, "c35", "inject", "driver.go.in")}
	sites := 0
	name := "c35srv-rt"
	if clock {
		src, err := os.ReadFile(filepath.Join(pkg, "auth.go"))
		if err != nil {
			return "", 0, err
		}
		sites = strings.Count(string(src), "time.Now()")
		if sites == 0 {
			return "", 0, fmt.Errorf("auth.go has no time.Now() call site: the clock overlay does not apply any more")
		}
		ac := filepath.Join(bdir, "auth_clock.go")
		if err := os.WriteFile(ac, []byte(strings.ReplaceAll(string(src), "time.Now()", "verifNow()")), 0o644); err != nil {
			return "", 0, err
		}
		overlay[filepath.Join(pkg, "auth.go")] = ac
		name = "c35srv"
	}
	oj, _ := json.Marshal(map[string]any{"Replace": overlay})
	ovf := filepath.Join(bdir, name+"-overlay.json")
	os.WriteFile(ovf, oj, 0o644)
	// module file: the harness module plus the one module tools/httpserver needs in addition (incfs)
	mod, err := os.ReadFile(filepath.Join(hd, "go.mod"))
	if err != nil {
		return "", 0, err
	}
	ms := strings.ReplaceAll(string(mod), "=> /repo", "=> "+repo)
	ms += "\nrequire github.com/sharedcode/sop/incfs v0.0.0\n\nreplace github.com/sharedcode/sop/incfs => " + repo + "/incfs\n"
	modf := filepath.Join(bdir, "srv.mod")
	os.WriteFile(modf, []byte(ms), 0o644)
	sum := map[string]bool{}
	sums, _ := filepath.Glob(filepath.Join(repo, "go.sum"))
	more, _ := filepath.Glob(filepath.Join(repo, "*", "go.sum"))
	more2, _ := filepath.Glob(filepath.Join(repo, "adapters", "*", "go.sum"))
	for _, f := range append(append(append(sums, more...), more2...), filepath.Join(hd, "go.sum")) {
		b, _ := os.ReadFile(f)
		for _, l := range strings.Split(string(b), "\n") {
			if strings.TrimSpace(l) != "" {
				sum[l] = true
			}
		}
	}
	var lines []string
	for l := range sum {
		lines = append(lines, l)
	}
	sort.Strings(lines)
	os.WriteFile(filepath.Join(bdir, "srv.sum"), []byte(strings.Join(lines, "\n")+"\n"), 0o644)
	bin := filepath.Join(bdir, name)
	cmd := exec.Command("go", "build", "-tags", "verif", "-modfile", modf, "-overlay", ovf, "-o", bin, "github.com/sharedcode/sop/tools/httpserver")
	cmd.Dir = hd
	cmd.Env = append(os.Environ(), "GOFLAGS=-mod=mod", "GOWORK=off")
	out, err := cmd.CombinedOutput()
	if err != nil {
		return "", sites, fmt.Errorf("go build of tools/httpserver with the overlay failed: %v\n%s", err, tail(string(out), 1500))
	}
	return bin, sites, nil
}

func tail(s string, n int) string {
	if len(s) > n {
		return s[len(s)-n:]
	}
	return s
}

func runDriver(bin string, hs []*History, tag string) ([][]Res, error) {
	w := workDir()
	script := filepath.Join(w, "script-"+tag+".json")
	outf := filepath.Join(w, "out-"+tag+".json")
	dbs := filepath.Join(w, "db-"+tag)
	os.RemoveAll(dbs)
	os.MkdirAll(dbs, 0o755)
	defer os.RemoveAll(dbs)
	var ops [][]Op
	for _, h := range hs {
		ops = append(ops, h.Ops)
	}
	js, _ := json.Marshal(ops)
	os.WriteFile(script, js, 0o644)
	defer os.Remove(script)
	defer os.Remove(outf)
	cmd := exec.Command(bin)
	cmd.Dir = dbs
	cmd.Env = append(os.Environ(), "VERIF_C35_SCRIPT="+script, "VERIF_C35_DIR="+dbs, "VERIF_C35_OUT="+outf)
	cmd.Env = append(cmd.Env, "SOP_SESSION_SECRET=")
	out, err := cmd.CombinedOutput()
	raw, rerr := os.ReadFile(outf)
	if rerr != nil {
		return nil, fmt.Errorf("driver produced no result (%v): %s", err, tail(string(out), 1200))
	}
	var res [][]Res
	if err := json.Unmarshal(raw, &res); err != nil {
		return nil, err
	}
	if len(res) != len(hs) {
		return nil, fmt.Errorf("driver returned %d histories, want %d", len(res), len(hs))
	}
	return res, nil
}

// ---------------------------------------------------------------- direct oracle

type issueRec struct {
	op              int
	access, refresh string
	user, role      string
	exp             int64 // ExpiresAt (ns) the server promised for this session
	secret          string
	revoked         bool
	rotated         bool
}

func b64url(b []byte) string { return strings.TrimRight(base64.RawURLEncoding.EncodeToString(b), "=") }

func sigOK(secret, tok string) bool {
	p := strings.Split(tok, ".")
	if len(p) != 3 {
		return false
	}
	m := hmac.New(sha256.New, []byte(secret))
	m.Write([]byte(p[0] + "." + p[1]))
	return hmac.Equal([]byte(p[2]), []byte(b64url(m.Sum(nil))))
}

func has(keys []string, k string) bool {
	for _, x := range keys {
		if x == k {
			return true
		}
	}
	return false
}

type failure struct{ sig, what string }

// oracle checks the property on one executed history.
func oracle(h *History, rs []Res) (fs []failure, issues []*issueRec) {
	byOp := map[int]*issueRec{}
	findTok := func(p string) (*issueRec, bool) {
		if p == "" {
			return nil, false
		}
		for _, i := range issues {
			if i.access == p {
				return i, true
			}
			if i.refresh == p {
				return i, false
			}
		}
		return nil, false
	}
	var prevKeys []string
	for k, op := range h.Ops {
		r := rs[k]
		last := int64(0)
		if len(r.Clock) > 0 {
			last = r.Clock[len(r.Clock)-1]
		}
		switch op.Op {
		case "create_session", "create_token":
			if r.OK {
				i := &issueRec{op: k, access: r.Access, refresh: r.Refresh, user: op.User, role: op.Role, secret: r.Secret}
				if len(r.Clock) > 0 {
					i.exp = r.Clock[0] + op.TTLms*1e6
				}
				if !sigOK(r.Secret, r.Access) {
					fs = append(fs, failure{"issued-token-not-signed-with-current-secret", fmt.Sprintf("op %d: the issued access token does not verify under the current secret", k)})
				}
				issues = append(issues, i)
				byOp[k] = i
			}
		case "revoke":
			if i, _ := findTok(r.Presented); i != nil && has(prevKeys, r.Presented) {
				i.revoked = true
			}
		case "refresh":
			src, _ := findTok(r.Presented)
			if r.OK {
				switch {
				case src == nil:
					fs = append(fs, failure{"forged-refresh-token-accepted", fmt.Sprintf("op %d: Refresh accepted a token the server never issued", k)})
				case src.revoked || src.rotated:
					fs = append(fs, failure{"old-refresh-token-still-works", fmt.Sprintf("op %d: Refresh accepted a token of a session that was revoked or rotated away", k)})
				}
				i := &issueRec{op: k, access: r.Access, refresh: r.Refresh, secret: r.Secret}
				if src != nil {
					// Refresh opens a new access window: ExpiresAt = the reading it signs with + the access TTL
					i.user, i.role, i.exp = src.user, src.role, last+op.TTLms*1e6
					src.rotated = true
				}
				issues = append(issues, i)
				byOp[k] = i
				// "a successful refresh returns an access token that is valid when issued": checked on the
				// validation the generator places right after (no clock movement in between)
				if k+1 < len(h.Ops) && h.Ops[k+1].Op == "validate" && h.Ops[k+1].Tok.Base == k && h.Ops[k+1].Tok.Which == "access" && h.Ops[k+1].Tok.Mut == "none" {
					if nx := rs[k+1]; !nx.OK {
						if src != nil && last > src.exp {
							fs = append(fs, failure{"refresh-returns-expired-access-token", fmt.Sprintf("op %d: Refresh succeeded %d ms after the session's access expiry and returned an access token that ValidateToken rejects at once (%s): the new token is signed with the old ExpiresAt", k, (last-src.exp)/1e6, nx.Err)})
						} else {
							fs = append(fs, failure{"refresh-returns-invalid-access-token", fmt.Sprintf("op %d: the access token returned by Refresh is rejected at once (%s)", k, nx.Err)})
						}
					}
				}
			}
		case "validate":
			i, isAccess := findTok(r.Presented)
			if r.OK {
				switch {
				case i == nil && op.Tok.Mut == "resign" && op.Tok.Secret == r.Secret && r.Secret != defaultSecret:
					// the adversary was handed the configured secret: outside the property's assumption (HMAC key is private)
				case i == nil:
					if r.Secret == defaultSecret && sigOK(defaultSecret, r.Presented) {
						fs = append(fs, failure{"forged-token-accepted/default-secret", fmt.Sprintf("op %d: with no SOP_SESSION_SECRET / session_secret configured a token minted by the client with the built-in constant secret is accepted as %s/%s", k, r.User, r.Role)})
					} else {
						fs = append(fs, failure{"forged-token-accepted", fmt.Sprintf("op %d: a token the server never issued was accepted as %s/%s", k, r.User, r.Role)})
					}
				default:
					fast := isAccess && sigOK(r.Secret, r.Presented)
					if i.revoked {
						if fast {
							fs = append(fs, failure{"revoked-signed-token-accepted", fmt.Sprintf("op %d: the access token of a revoked session (RevokeToken removed it from the session table) still passes the signature fast path of ValidateToken", k)})
						} else {
							fs = append(fs, failure{"revoked-token-accepted", fmt.Sprintf("op %d: a revoked token was accepted by the session-table path", k)})
						}
					} else if i.rotated {
						if fast {
							fs = append(fs, failure{"rotated-signed-token-accepted", fmt.Sprintf("op %d: the access token rotated away by Refresh still passes the signature fast path of ValidateToken", k)})
						} else {
							fs = append(fs, failure{"rotated-token-accepted", fmt.Sprintf("op %d: a token rotated away by Refresh was accepted by the session-table path", k)})
						}
					}
					if i.exp != 0 && len(r.Clock) > 0 && r.Clock[0] > i.exp {
						fs = append(fs, failure{"expired-token-accepted", fmt.Sprintf("op %d: token accepted %d ms after its expiry", k, (r.Clock[0]-i.exp)/1e6)})
					}
					if r.User != i.user || r.Role != i.role {
						fs = append(fs, failure{"wrong-identity", fmt.Sprintf("op %d: token of %s/%s accepted as %s/%s", k, i.user, i.role, r.User, r.Role)})
					}
				}
			} else if i != nil && isAccess && op.Tok.Mut == "none" && !i.revoked && !i.rotated && i.secret == r.Secret && has(prevKeys, r.Presented) {
				// completeness near the happy path: an untouched, live, unexpired access token must be accepted
				// (judged only when the clock was not moved to within 2 s of the expiry)
				if len(r.Clock) > 0 && r.Clock[len(r.Clock)-1]+2e9 < i.exp {
					fs = append(fs, failure{"valid-token-rejected", fmt.Sprintf("op %d: a live access token was rejected: %s", k, r.Err)})
				}
			}
		}
		prevKeys = r.Keys
	}
	_ = byOp
	return
}

// ---------------------------------------------------------------- Coq printing

func coqPres(h *History, rs []Res, ord map[int]int, p Pres) string {
	k, ok := ord[p.Base]
	if !ok {
		return "(PGarbage 1)"
	}
	acc := hx.CoqBool(p.Which != "refresh")
	if p.Which == "refresh" && rs[p.Base].Refresh == "" {
		return "(PGarbage 2)"
	}
	switch p.Mut {
	case "none":
		return fmt.Sprintf("(PTok %s %s)", hx.CoqNat(k), acc)
	case "flip":
		seg := 0
		if p.Which != "refresh" {
			seg = p.Seg % 3
		}
		return fmt.Sprintf("(PFlip %s %s %s)", hx.CoqNat(k), acc, hx.CoqNat(seg))
	case "cutsig":
		if p.Which == "refresh" {
			return fmt.Sprintf("(PFlip %s false 0%%nat)", hx.CoqNat(k))
		}
		return fmt.Sprintf("(PFlip %s true 2%%nat)", hx.CoqNat(k))
	case "resign":
		if p.Which == "refresh" {
			return "(PGarbage 3)"
		}
		return fmt.Sprintf("(PResign %s %s %s %d)", hx.CoqNat(k), hx.CoqString(p.Secret), hx.CoqString(p.Role), p.ExpAdd)
	case "swapsig":
		k2, ok2 := ord[p.Base2]
		if !ok2 || p.Which == "refresh" {
			return "(PGarbage 4)"
		}
		return fmt.Sprintf("(PSwapSig %s %s)", hx.CoqNat(k), hx.CoqNat(k2))
	}
	return "(PGarbage 5)" // trunc / extra / garbage / empty: a string that is neither issued nor three-part-valid
}

func clock2(r Res) (int64, int64) {
	if len(r.Clock) == 0 {
		return 0, 0
	}
	return r.Clock[0], r.Clock[len(r.Clock)-1]
}

func coqHistory(h *History, rs []Res) string {
	ord := map[int]int{} // op index -> ordinal of the issue
	n := 0
	var steps []string
	for k, op := range h.Ops {
		r := rs[k]
		var cop, cres string
		n1, n2 := clock2(r)
		switch op.Op {
		case "tick", "sleep":
			continue
		case "secret":
			sec := op.Secret
			if sec == "" {
				sec = defaultSecret
			}
			cop, cres = fmt.Sprintf("CSecret %s", hx.CoqString(sec)), "XDone"
		case "create_session":
			cop = fmt.Sprintf("CCreateSession %s %s %d %d %d", hx.CoqString(op.User), hx.CoqString(op.Role), op.TTLms*1000000, op.RTTLms*1000000, n1)
		case "create_token":
			cop = fmt.Sprintf("CCreateToken %s %s %d %d", hx.CoqString(op.User), hx.CoqString(op.Role), op.TTLms*1000000, n1)
		case "refresh":
			cop = fmt.Sprintf("CRefresh %s %d %d %d", coqPres(h, rs, ord, op.Tok), op.TTLms*1000000, n1, n2)
		case "validate":
			cop = fmt.Sprintf("CValidate %s %d %d", coqPres(h, rs, ord, op.Tok), n1, n2)
		case "revoke":
			cop, cres = fmt.Sprintf("CRevoke %s", coqPres(h, rs, ord, op.Tok)), "XDone"
		}
		if cres == "" {
			switch {
			case r.OK && op.Op == "validate":
				cres = fmt.Sprintf("(XOk %s %s)", hx.CoqString(r.User), hx.CoqString(r.Role))
			case r.OK:
				cres = "XIssued"
				ord[k] = n
				n++
			default:
				cres = fmt.Sprintf("(XErr %s)", hx.CoqBool(strings.Contains(r.Err, "expired")))
			}
		}
		// key set of the session table, as codes 2*issue (+1 for the refresh token)
		var codes []int
		for _, key := range r.Keys {
			c := 999999
			for opi, o := range ord {
				if rs[opi].Access == key {
					c = 2 * o
				} else if rs[opi].Refresh == key && key != "" {
					c = 2*o + 1
				}
			}
			codes = append(codes, c)
		}
		sort.Ints(codes)
		var cs []string
		for _, c := range codes {
			cs = append(cs, fmt.Sprint(c))
		}
		steps = append(steps, fmt.Sprintf("(%s, %s, [%s])", cop, cres, strings.Join(cs, ";")))
	}
	return fmt.Sprintf("SessCase %s [\n  %s]", hx.CoqString(defaultSecret), strings.Join(steps, ";\n  "))
}

// ---------------------------------------------------------------- structural check of issued tokens (assumed codec behaviour, validated)

func checkTokenShape(res *hx.Result, h *History, rs []Res) {
	for k, r := range rs {
		if !r.OK || r.Access == "" {
			continue
		}
		p := strings.Split(r.Access, ".")
		bad := ""
		if len(p) != 3 {
			bad = "not three segments"
		} else if hd, err := base64.RawURLEncoding.DecodeString(p[0]); err != nil || string(hd) != `{"alg":"HS256","typ":"JWT"}` {
			bad = "header"
		} else if pl, err := base64.RawURLEncoding.DecodeString(p[1]); err != nil {
			bad = "payload is not base64url"
		} else {
			var c struct {
				Sub, Role, Jti string
				Iat, Exp       int64
			}
			if err := json.Unmarshal(pl, &c); err != nil || c.Sub == "" || c.Role == "" || c.Jti == "" {
				bad = "claims"
			} else if strings.Contains(p[0]+p[1]+p[2], "=") {
				bad = "padding"
			}
		}
		if r.Refresh != "" && strings.Contains(r.Refresh, ".") {
			bad = "refresh token contains a dot"
		}
		if bad != "" {
			res.Fail("token-shape/"+bad, fmt.Sprintf("op %d: issued token does not have the modelled shape: %s", k, bad), h)
		}
	}
}

// ---------------------------------------------------------------- generators

var users = []string{"alice", "bob", "root"}
var roles = []string{"user", "admin", "guest"}

func genPres(r *hx.Rng, issuers []int, malformedPct int) Pres {
	if len(issuers) == 0 {
		return Pres{Base: 9999, Which: "access", Mut: "garbage", Pos: r.Intn(100)}
	}
	p := Pres{Base: hx.Pick(r, issuers), Which: "access", Mut: "none"}
	if r.Chance(35) {
		p.Which = "refresh"
	}
	if r.Chance(malformedPct) {
		switch r.Intn(8) {
		case 0, 1:
			p.Mut, p.Seg, p.Pos, p.Bit = "flip", r.Intn(3), r.Intn(400), r.Intn(6)
		case 2, 3:
			p.Mut, p.Which = "resign", "access"
			p.Secret = hx.Pick(r, []string{defaultSecret, "s3cr3t-A", "s3cr3t-B", "guess"})
			p.Role = hx.Pick(r, []string{"", "admin"})
			p.ExpAdd = hx.Pick(r, []int64{0, 100000})
		case 4:
			p.Mut = hx.Pick(r, []string{"trunc", "cutsig"})
			p.Pos = hx.Pick(r, []int{0, 1, 20, 42})
		case 5:
			p.Mut = "extra"
		case 6:
			p.Mut, p.Which, p.Base2 = "swapsig", "access", hx.Pick(r, issuers)
		default:
			p.Mut = hx.Pick(r, []string{"garbage", "empty"})
			p.Pos = r.Intn(100)
		}
	}
	return p
}

func genHistory(r *hx.Rng) *History {
	h := &History{}
	if r.Chance(75) {
		h.Ops = append(h.Ops, Op{Op: "secret", Secret: hx.Pick(r, []string{"s3cr3t-A", "s3cr3t-B"})})
	}
	var issuers []int
	n := 6 + r.Intn(10)
	for len(h.Ops) < n {
		switch c := r.Intn(100); {
		case c < 18 || len(issuers) == 0:
			h.Ops = append(h.Ops, Op{Op: "create_session", User: hx.Pick(r, users), Role: hx.Pick(r, roles),
				TTLms: hx.Pick(r, []int64{2000, 5000, 60000, 1800000}), RTTLms: hx.Pick(r, []int64{4000, 60000, 604800000})})
			issuers = append(issuers, len(h.Ops)-1)
		case c < 23:
			h.Ops = append(h.Ops, Op{Op: "create_token", User: hx.Pick(r, users), Role: hx.Pick(r, roles), TTLms: hx.Pick(r, []int64{2000, 60000})})
			issuers = append(issuers, len(h.Ops)-1)
		case c < 50:
			h.Ops = append(h.Ops, Op{Op: "validate", Tok: genPres(r, issuers, 30)})
		case c < 65:
			p := genPres(r, issuers, 12)
			if r.Chance(70) {
				p.Which = "refresh"
				if p.Mut == "resign" || p.Mut == "swapsig" {
					p.Mut = "flip"
				}
			}
			h.Ops = append(h.Ops, Op{Op: "refresh", Tok: p, TTLms: hx.Pick(r, []int64{2000, 5000, 60000})})
			issuers = append(issuers, len(h.Ops)-1)
			// the access token a successful refresh returns must be valid at once
			h.Ops = append(h.Ops, Op{Op: "validate", Tok: Pres{Base: len(h.Ops) - 1, Which: "access", Mut: "none"}})
		case c < 77:
			h.Ops = append(h.Ops, Op{Op: "revoke", Tok: genPres(r, issuers, 10)})
		case c < 95:
			h.Ops = append(h.Ops, Op{Op: "tick", Ms: hx.Pick(r, []int64{300, 1000, 1500, 2500, 4500, 6000, 61000})})
		default:
			h.Ops = append(h.Ops, Op{Op: "secret", Secret: hx.Pick(r, []string{"", "s3cr3t-A", "s3cr3t-B"})})
		}
	}
	// a final look at every issued access token
	for _, i := range issuers {
		h.Ops = append(h.Ops, Op{Op: "validate", Tok: Pres{Base: i, Which: "access", Mut: "none"}})
	}
	return h
}

// normalize: every refresh names the access TTL the store has at that moment (the driver sets SessionStore.ttl to it)
func normalize(h *History) {
	for i := range h.Ops {
		if h.Ops[i].Op == "refresh" && h.Ops[i].TTLms == 0 {
			h.Ops[i].TTLms = 5000
		}
	}
}

func v(base int, which, mut string) Op { return Op{Op: "validate", Tok: Pres{Base: base, Which: which, Mut: mut}} }

// corpus: one history per known finding, the happy paths, and the mutation grid
func corpus() []*History {
	cs := func(ttl, rttl int64) Op {
		return Op{Op: "create_session", User: "alice", Role: "user", TTLms: ttl, RTTLms: rttl}
	}
	sec := Op{Op: "secret", Secret: "s3cr3t-A"}
	out := []*History{
		// S9 (i) revoked signed token still accepted; the refresh token (opaque) is dead
		{Ops: []Op{sec, cs(60000, 600000), v(1, "access", "none"), {Op: "revoke", Tok: Pres{Base: 1, Which: "access", Mut: "none"}}, v(1, "access", "none"), v(1, "refresh", "none"), {Op: "refresh", Tok: Pres{Base: 1, Which: "refresh", Mut: "none"}}}},
		// S9 (i') rotated-away signed token still accepted; old refresh token dead; new pair works
		{Ops: []Op{sec, cs(60000, 600000), {Op: "refresh", Tok: Pres{Base: 1, Which: "refresh", Mut: "none"}}, v(2, "access", "none"), v(1, "access", "none"), {Op: "refresh", Tok: Pres{Base: 1, Which: "refresh", Mut: "none"}}, v(1, "refresh", "none"), {Op: "refresh", Tok: Pres{Base: 2, Which: "refresh", Mut: "none"}}, v(7, "access", "none")}},
		// S9 (ii) refresh after the access token expired returns an already expired access token
		{Ops: []Op{sec, cs(2000, 600000), {Op: "tick", Ms: 3500}, {Op: "refresh", Tok: Pres{Base: 1, Which: "refresh", Mut: "none"}}, v(3, "access", "none")}},
		// the refreshed token lives for a full new access window (5 s here), not until the old expiry, and no longer
		{Ops: []Op{sec, cs(2000, 600000), {Op: "tick", Ms: 3500}, {Op: "refresh", Tok: Pres{Base: 1, Which: "refresh", Mut: "none"}}, v(3, "access", "none"),
			{Op: "tick", Ms: 4000}, v(3, "access", "none"), {Op: "tick", Ms: 1500}, v(3, "access", "none")}},
		// chained refreshes keep a session alive beyond the first access window; the refresh window is not extended
		{Ops: []Op{sec, cs(2000, 9000), {Op: "tick", Ms: 1500}, {Op: "refresh", TTLms: 2000, Tok: Pres{Base: 1, Which: "refresh", Mut: "none"}}, v(3, "access", "none"),
			{Op: "tick", Ms: 1500}, {Op: "refresh", TTLms: 2000, Tok: Pres{Base: 3, Which: "refresh", Mut: "none"}}, v(6, "access", "none"), v(3, "access", "none"),
			{Op: "tick", Ms: 1500}, v(6, "access", "none"), {Op: "tick", Ms: 5000}, {Op: "refresh", TTLms: 2000, Tok: Pres{Base: 6, Which: "refresh", Mut: "none"}}}},
		// ... and validating the expired access token first deletes the refresh token with it: the session cannot be renewed at all
		{Ops: []Op{sec, cs(2000, 600000), {Op: "tick", Ms: 3500}, v(1, "access", "none"), {Op: "refresh", Tok: Pres{Base: 1, Which: "refresh", Mut: "none"}}, v(4, "access", "none")}},
		// S9 (iii) no configured secret: a client-minted admin token is accepted
		{Ops: []Op{cs(60000, 600000), {Op: "validate", Tok: Pres{Base: 0, Which: "access", Mut: "resign", Secret: defaultSecret, Role: "admin", ExpAdd: 100000}}}},
		// same forgery against a configured secret is rejected; so is one with the old secret after a change
		{Ops: []Op{sec, cs(60000, 600000), {Op: "validate", Tok: Pres{Base: 1, Which: "access", Mut: "resign", Secret: defaultSecret, Role: "admin", ExpAdd: 100000}},
			{Op: "secret", Secret: "s3cr3t-B"}, {Op: "validate", Tok: Pres{Base: 1, Which: "access", Mut: "resign", Secret: "s3cr3t-A", Role: "admin"}}, v(1, "access", "none")}},
		// expiry: accepted before, rejected after; refresh expiry
		{Ops: []Op{sec, cs(2000, 4000), v(1, "access", "none"), {Op: "tick", Ms: 1000}, v(1, "access", "none"), {Op: "tick", Ms: 1500}, v(1, "access", "none"), {Op: "tick", Ms: 2000}, {Op: "refresh", Tok: Pres{Base: 1, Which: "refresh", Mut: "none"}}}},
		// CreateToken has no refresh side; using the access token as a refresh token
		{Ops: []Op{sec, {Op: "create_token", User: "bob", Role: "admin", TTLms: 60000}, v(1, "access", "none"), {Op: "refresh", Tok: Pres{Base: 1, Which: "access", Mut: "none"}}, cs(60000, 600000), {Op: "refresh", Tok: Pres{Base: 4, Which: "access", Mut: "none"}}, v(5, "access", "none"), v(4, "refresh", "none")}},
	}
	// mutation grid on one live session: every segment, several positions and bits
	g := &History{Ops: []Op{sec, cs(60000, 600000), cs(60000, 600000)}}
	for seg := 0; seg < 3; seg++ {
		for _, pos := range []int{0, 1, 17, 35, 36, 42, 399} {
			for _, bit := range []int{0, 5} {
				g.Ops = append(g.Ops, Op{Op: "validate", Tok: Pres{Base: 1, Which: "access", Mut: "flip", Seg: seg, Pos: pos, Bit: bit}})
			}
		}
	}
	for _, pos := range []int{0, 1, 21, 42} {
		g.Ops = append(g.Ops, Op{Op: "validate", Tok: Pres{Base: 1, Which: "access", Mut: "cutsig", Pos: pos}})
	}
	for _, m := range []string{"trunc", "extra", "garbage", "empty"} {
		g.Ops = append(g.Ops, v(1, "access", m), v(1, "refresh", m), Op{Op: "refresh", Tok: Pres{Base: 1, Which: "refresh", Mut: m}})
	}
	g.Ops = append(g.Ops, Op{Op: "validate", Tok: Pres{Base: 1, Which: "access", Mut: "swapsig", Base2: 2}}, Op{Op: "validate", Tok: Pres{Base: 1, Which: "refresh", Mut: "flip", Pos: 3}}, v(1, "access", "none"), v(2, "access", "none"))
	return append(out, g)
}

// ---------------------------------------------------------------- run

func record(res *hx.Result, h *History, rs []Res, tag string) {
	js, _ := json.Marshal(h)
	nmut, nval := 0, 0
	for k, op := range h.Ops {
		res.Count("op." + op.Op)
		if op.Op == "validate" || op.Op == "refresh" || op.Op == "revoke" {
			res.Count("present." + op.Tok.Mut)
			if op.Tok.Mut != "none" {
				nmut++
			}
		}
		if op.Op == "validate" {
			nval++
			if rs[k].OK {
				res.Count("validate.accept")
			} else if strings.Contains(rs[k].Err, "expired") {
				res.Count("validate.expired")
			} else {
				res.Count("validate.invalid")
			}
		}
		if op.Op == "refresh" {
			if rs[k].OK {
				res.Count("refresh.ok")
			} else {
				res.Count("refresh.err")
			}
		}
		if strings.HasPrefix(rs[k].Err, "panic") || (len(rs[k].Keys) == 1 && strings.HasPrefix(rs[k].Keys[0], "ERROR")) {
			res.Fail("driver-error", fmt.Sprintf("op %d: %s %v", k, rs[k].Err, rs[k].Keys), h)
		}
	}
	res.Seen(string(js), nval > 0)
	res.Count("src." + tag)
	fs, _ := oracle(h, rs)
	seen := map[string]bool{}
	for _, f := range fs {
		if !seen[f.sig] {
			seen[f.sig] = true
			res.Fail(f.sig, f.what, h)
			res.Count("deviation." + f.sig)
		}
	}
	checkTokenShape(res, h, rs)
	if !h.RealTime {
		// real-time histories have only approximate clock readings: direct oracle only
		res.AddCase(coqHistory(h, rs), h)
	}
	res.Sample(map[string]any{"history": h, "results": summarize(rs), "deviations": fs})
}

func summarize(rs []Res) []string {
	var out []string
	for _, r := range rs {
		s := "err:" + r.Err
		if r.OK {
			s = "ok " + r.User + "/" + r.Role
		}
		out = append(out, fmt.Sprintf("%s keys=%d", strings.TrimSpace(s), len(r.Keys)))
	}
	return out
}

func runC35(cfg *hx.RunCfg) (*hx.Result, error) {
	res := hx.NewResult("C35")
	res.Imports = []string{"Lib.Bytes", "Session", "Corr.C35"}
	res.CaseType = "c35case"
	res.Checker = "c35_check"
	res.Rule = "history = sequence of create_session/create_token/refresh/validate/revoke/tick/secret operations on the real SessionStore with presented tokens chosen among issued tokens and their mutations (bit flips per segment, re-signing with other secrets and rewritten claims, truncation, extra segment, swapped signature, garbage, empty); corpus = one history per known finding, expiry ladder, mutation grid; distinct = distinct history JSON; non-trivial = contains a validation"
	os.MkdirAll(workDir(), 0o755)
	bin, sites, err := buildDriver(true)
	if err != nil {
		return nil, err
	}
	res.Notes = append(res.Notes, fmt.Sprintf("driver built from %s/tools/httpserver with go build -overlay: driver file injected, %d time.Now() call sites of auth.go redirected to the controllable clock", repoDir(), sites))
	var hs []*History
	var tags []string
	if cfg.Replay != "" {
		raw, err := os.ReadFile(cfg.Replay)
		if err != nil {
			return nil, err
		}
		var rp struct {
			Input History `json:"input"`
		}
		if err := json.Unmarshal(raw, &rp); err != nil {
			return nil, err
		}
		hs, tags = append(hs, &rp.Input), append(tags, "replay")
	} else {
		for _, h := range corpus() {
			hs, tags = append(hs, h), append(tags, "corpus")
		}
		n := cfg.N
		if n == 0 {
			n = 120
			if cfg.Tier == "thorough" {
				n = 2500
			}
		}
		r := hx.NewRng(cfg.Seed)
		for i := 0; i < n; i++ {
			hs, tags = append(hs, genHistory(r)), append(tags, "random")
		}
	}
	for _, h := range hs {
		normalize(h)
	}
	var clockHs, rtHs []*History
	var clockIdx, rtIdx []int
	for i, h := range hs {
		if h.RealTime {
			rtHs, rtIdx = append(rtHs, h), append(rtIdx, i)
		} else {
			clockHs, clockIdx = append(clockHs, h), append(clockIdx, i)
		}
	}
	// real-time histories (thorough tier): the unmodified auth.go, real sleeps
	if cfg.Tier == "thorough" && cfg.Replay == "" {
		for _, h := range corpus()[:10] {
			rt := &History{RealTime: true}
			normalize(h)
			for _, op := range h.Ops {
				if op.Op == "tick" {
					op.Op = "sleep"
				}
				rt.Ops = append(rt.Ops, op)
			}
			rtHs, rtIdx = append(rtHs, rt), append(rtIdx, len(hs))
			hs, tags = append(hs, rt), append(tags, "corpus-realtime")
		}
	}
	results := make([][]Res, len(hs))
	if len(clockHs) > 0 {
		rs, err := runDriver(bin, clockHs, "clock")
		if err != nil {
			return nil, err
		}
		for j, i := range clockIdx {
			results[i] = rs[j]
		}
	}
	if len(rtHs) > 0 {
		rtbin, _, err := buildDriver(false)
		if err != nil {
			return nil, err
		}
		rs, err := runDriver(rtbin, rtHs, "rt")
		if err != nil {
			return nil, err
		}
		for j, i := range rtIdx {
			results[i] = rs[j]
		}
		res.Notes = append(res.Notes, fmt.Sprintf("%d histories executed on the build with the unmodified auth.go and real sleeps", len(rtHs)))
	}
	for i, h := range hs {
		if len(results[i]) != len(h.Ops) {
			res.Fail("driver-error", fmt.Sprintf("history %d: %d results for %d operations", i, len(results[i]), len(h.Ops)), h)
			continue
		}
		record(res, h, results[i], tags[i])
	}
	return res, nil
}

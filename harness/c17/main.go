package main

import (
	"encoding/json"
	"fmt"
	"os"

	"verif/harness/btx"
	"verif/harness/hx"
)

// C17: a B-tree store behaves as a correctly ordered collection.
// K2 structural correspondence (Btree.v) + spec monitor (OMap.v) + direct oracle.

func main() { hx.Main("c17", run) }

func run(cfg *hx.RunCfg) (*hx.Result, error) {
	res := hx.NewResult("C17")
	btx.Setup(res, "C17")
	if cfg.Replay != "" {
		raw, err := os.ReadFile(cfg.Replay)
		if err != nil {
			return nil, err
		}
		var rp struct {
			Input btx.Seq `json:"input"`
		}
		if err := json.Unmarshal(raw, &rp); err != nil {
			return nil, err
		}
		sr, err := btx.Replay(rp.Input)
		if err != nil {
			return nil, err
		}
		btx.Record(res, "C17", sr)
		return res, nil
	}
	if f := os.Getenv("C17_SEQS"); f != "" { // developer aid: replay a JSON list of sequences
		raw, err := os.ReadFile(f)
		if err != nil {
			return nil, err
		}
		var seqs []btx.Seq
		if err := json.Unmarshal(raw, &seqs); err != nil {
			return nil, err
		}
		for _, q := range seqs {
			sr, err := btx.Replay(q)
			if err != nil {
				return nil, err
			}
			btx.Record(res, "C17", sr)
		}
		return res, nil
	}
	if os.Getenv("C17_HUNT") != "" { // developer aid: hunt, minimise and trace deviations
		r := hx.NewRng(cfg.Seed)
		seen := map[string]int{}
		for i := 0; i < cfg.N; i++ {
			c := btx.Cfg{L: hx.Pick(r, []int{2, 2, 4, 6}), Unique: r.Bool(), LB: os.Getenv("C17_HUNT") == "lb"}
			p := btx.GenProfile(r, c.L, false)
			p.Len = 110
			sr, _ := btx.Run(c, btx.Generator(r, p))
			if sr.Dev != nil {
				seen[sr.Dev.Class]++
				if seen[sr.Dev.Class] <= 2 {
					m := btx.Shrink(sr.Seq, sr.Dev.Class)
					js, _ := json.Marshal(m)
					fmt.Printf("=== %s (%d ops)\n%s\n%s\n", sr.Dev.Class, len(m.Ops), js, btx.Trace(m, 3))
					mr, _ := btx.Replay(m)
					fmt.Println(mr.Dev.What)
				}
			}
		}
		fmt.Println(seen)
		return res, nil
	}
	n := cfg.N
	if n == 0 {
		n = 110
		if cfg.Tier == "thorough" {
			n = 6000
		}
	}
	for _, s := range btx.Corpus("C17") {
		sr, err := btx.Replay(s)
		if err != nil {
			return nil, err
		}
		res.Count("corpus")
		btx.Record(res, "C17", sr)
	}
	r := hx.NewRng(cfg.Seed)
	for i := 0; i < n; i++ {
		c := btx.GenCfg(r)
		p := btx.GenProfile(r, c.L, false)
		sr, err := btx.Run(c, btx.Generator(r, p))
		if err != nil {
			return nil, err
		}
		btx.Record(res, "C17", sr)
	}
	if os.Getenv("C17_DEBUG") != "" {
		for _, f := range res.OracleFailures {
			fmt.Fprintln(os.Stderr, f.Signature, "|", f.What)
		}
	}
	return res, nil
}

package main

// C30: the JSON map-key comparers (IndexSpecification.Comparer, defaultComparer)
// give one order regardless of the comparisons made earlier. K1 differential on
// comparison SEQUENCES against the stateful Coq model (MapKey.v) + direct oracle
// (history-freedom against a fresh comparer, order laws, reference order).

import (
	"encoding/json"
	"fmt"
	"os"
	"sort"
	"strings"

	"github.com/sharedcode/sop/jsondb"

	"verif/harness/c29/kv"
	"verif/harness/hx"
)

func main() { hx.Main("c30", runC30) }

type field struct {
	F string `json:"f"`
	V kv.V   `json:"v"`
}
type jmap []field // unique names

func (m jmap) Go() map[string]any {
	o := map[string]any{}
	for _, f := range m {
		o[f.F] = f.V.Go()
	}
	return o
}
func (m jmap) Coq() string {
	parts := make([]string, len(m))
	for i, f := range m {
		parts[i] = fmt.Sprintf("(%s, %s)", hx.CoqString(f.F), f.V.Coq())
	}
	return hx.CoqList(parts)
}
func (m jmap) get(name string) (kv.V, bool) {
	for _, f := range m {
		if f.F == name {
			return f.V, true
		}
	}
	return kv.Nil(), false
}
func (m jmap) Show() string {
	parts := make([]string, len(m))
	for i, f := range m {
		parts[i] = f.F + ":" + f.V.Show()
	}
	return "{" + strings.Join(parts, ", ") + "}"
}

type specField struct {
	Name string `json:"name"`
	Asc  bool   `json:"asc"`
}

type c30Input struct {
	Kind   string      `json:"kind"` // spec | default
	Fields []specField `json:"fields,omitempty"`
	Warm   [][2]jmap   `json:"warm"`
	X      jmap        `json:"x"`
	Y      jmap        `json:"y"`
	Z      jmap        `json:"z,omitempty"` // third key for transitivity
	HasZ   bool        `json:"has_z,omitempty"`
	Typed  bool        `json:"typed"`       // generated from one field typing: the property must hold without exception
}

func (in *c30Input) newComparer() func(x, y map[string]any) int {
	if in.Kind == "spec" {
		fs := make([]jsondb.IndexFieldSpecification, len(in.Fields))
		for i, f := range in.Fields {
			fs[i] = jsondb.IndexFieldSpecification{FieldName: f.Name, AscendingSortOrder: f.Asc}
		}
		return jsondb.VerifNewMapKeyComparer(jsondb.NewIndexSpecification(fs)).VerifCompare
	}
	return jsondb.VerifNewMapKeyComparer(nil).VerifCompare
}

func safe(c func(x, y map[string]any) int, x, y jmap) (r int, panicked bool) {
	defer func() {
		if recover() != nil {
			panicked = true
		}
	}()
	return c(x.Go(), y.Go()), false
}

func (in *c30Input) keys() []jmap {
	ks := []jmap{in.X, in.Y}
	if in.HasZ {
		ks = append(ks, in.Z)
	}
	for _, w := range in.Warm {
		ks = append(ks, w[0], w[1])
	}
	return ks
}

// relevant field names: the spec's fields, or (default comparer) every field of every key
func (in *c30Input) fieldNames() []string {
	seen := map[string]bool{}
	var out []string
	if in.Kind == "spec" {
		for _, f := range in.Fields {
			if !seen[f.Name] {
				seen[f.Name] = true
				out = append(out, f.Name)
			}
		}
		return out
	}
	for _, k := range in.keys() {
		for _, f := range k {
			if !seen[f.F] {
				seen[f.F] = true
				out = append(out, f.F)
			}
		}
	}
	sort.Strings(out)
	return out
}

// class of the input: "typed" (every field has one dynamic type over all keys, missing = nil),
// "missing-fields" (types differ only because a field is absent from some keys), "mixed-types".
func (in *c30Input) class() string {
	cls := "typed"
	for _, name := range in.fieldNames() {
		var all, present []kv.V
		for _, k := range in.keys() {
			v, ok := k.get(name)
			all = append(all, v)
			if ok {
				present = append(present, v)
			}
		}
		if !pairwise(all) {
			if !pairwise(present) {
				return "mixed-types"
			}
			cls = "missing-fields"
		}
	}
	return cls
}

func pairwise(vs []kv.V) bool {
	for i := range vs {
		for j := i + 1; j < len(vs); j++ {
			if !kv.Compatible(vs[i], vs[j]) {
				return false
			}
		}
	}
	return true
}

// reference order for uniformly typed keys: field by field in list order, natural order per field
func (in *c30Input) refCmp(x, y jmap) int {
	if in.Kind == "spec" {
		for _, f := range in.Fields {
			vx, _ := x.get(f.Name)
			vy, _ := y.get(f.Name)
			if c := kv.RefCmp(vx, vy); c != 0 {
				if !f.Asc {
					return -c
				}
				return c
			}
		}
		return 0
	}
	for _, name := range in.fieldNames() {
		vx, _ := x.get(name)
		vy, _ := y.get(name)
		if c := kv.RefCmp(vx, vy); c != 0 {
			return c
		}
	}
	return 0
}

func one(res *hx.Result, in c30Input) {
	cls := in.class()
	if in.Typed && cls != "typed" {
		panic("harness bug: typed input classified " + cls)
	}
	// ---- implementation: one comparer object through the whole sequence
	cmp := in.newComparer()
	var results []string
	var seq []string
	var vals []kv.V
	needTbl := false
	panicked := false
	run := func(x, y jmap) int {
		r, p := safe(cmp, x, y)
		panicked = panicked || p
		results = append(results, hx.CoqZ(int64(r)))
		seq = append(seq, fmt.Sprintf("(%s, %s)", x.Coq(), y.Coq()))
		return r
	}
	for _, w := range in.Warm {
		run(w[0], w[1])
	}
	rFinal := run(in.X, in.Y)
	for _, k := range in.keys() {
		for _, name := range in.fieldNames() {
			v, _ := k.get(name)
			vals = append(vals, v)
			if v.K == "nil" || v.K == "bool" || v.K == "other" || v.K == "any" {
				needTbl = true
			}
		}
	}
	canon := in.Kind + ":" + fmt.Sprint(in.Fields) + strings.Join(seq, ";")
	res.Seen(canon, len(in.fieldNames()) > 0)
	res.Count("kind." + in.Kind)
	res.Count("class." + cls)
	res.Count(fmt.Sprintf("warmups.%d", min(len(in.Warm), 4)))
	if panicked {
		res.Fail("panic", "comparer panicked on "+in.X.Show()+" / "+in.Y.Show(), in)
		return
	}
	// ---- direct oracle 1: the same pair on a fresh comparer (empty history)
	r0, _ := safe(in.newComparer(), in.X, in.Y)
	if r0 != rFinal {
		res.Count("history-dependent")
		sig := "history:" + in.Kind + ":" + cls
		res.Fail(sig, fmt.Sprintf("%s comparer: cmp(%s, %s) = %d after %d earlier comparison(s), %d on a fresh comparer", in.Kind, in.X.Show(), in.Y.Show(), rFinal, len(in.Warm), r0), in)
	}
	// ---- direct oracle 2: order laws of the empty-history order
	fresh := func(a, b jmap) int { r, _ := safe(in.newComparer(), a, b); return r }
	if yx := fresh(in.Y, in.X); yx != -r0 {
		res.Fail("order:"+in.Kind+":"+cls, fmt.Sprintf("%s comparer (fresh): cmp(x,y) = %d, cmp(y,x) = %d for x=%s y=%s", in.Kind, r0, yx, in.X.Show(), in.Y.Show()), in)
	}
	if xx := fresh(in.X, in.X); xx != 0 {
		res.Fail("order:"+in.Kind+":"+cls, fmt.Sprintf("%s comparer (fresh): cmp(x,x) = %d for x=%s", in.Kind, xx, in.X.Show()), in)
	}
	if in.HasZ {
		yz, xz := fresh(in.Y, in.Z), fresh(in.X, in.Z)
		if (r0 <= 0 && yz <= 0 && xz > 0) || (r0 == 0 && yz != xz) {
			res.Fail("order:"+in.Kind+":"+cls, fmt.Sprintf("%s comparer (fresh): not transitive: cmp(x,y)=%d cmp(y,z)=%d cmp(x,z)=%d for x=%s y=%s z=%s", in.Kind, r0, yz, xz, in.X.Show(), in.Y.Show(), in.Z.Show()), in)
		}
	}
	// ---- direct oracle 3: uniformly typed keys follow the field-wise natural order
	if cls == "typed" {
		if want := in.refCmp(in.X, in.Y); want != rFinal {
			res.Fail("natural:"+in.Kind, fmt.Sprintf("%s comparer: cmp(%s, %s) = %d, field-wise natural order says %d", in.Kind, in.X.Show(), in.Y.Show(), rFinal, want), in)
		}
	}
	// ---- correspondence case
	tbl := "[]"
	if needTbl {
		tbl = kv.FmtTableAlways(vals...)
	}
	if in.Kind == "spec" {
		fs := make([]string, len(in.Fields))
		for i, f := range in.Fields {
			fs[i] = fmt.Sprintf("(%s, %s)", hx.CoqString(f.Name), hx.CoqBool(f.Asc))
		}
		res.AddCase(fmt.Sprintf("SpecCase %s %s %s %s", tbl, hx.CoqList(fs), hx.CoqList(seq), hx.CoqList(results)), in)
	} else {
		res.AddCase(fmt.Sprintf("DefCase %s %s %s", tbl, hx.CoqList(seq), hx.CoqList(results)), in)
	}
	res.Sample(map[string]any{"kind": in.Kind, "class": cls, "warmups": len(in.Warm), "x": in.X.Show(), "y": in.Y.Show(), "after_history": rFinal, "fresh": r0})
}

// ---------------------------------------------------------------- generators

var namePool = []string{"a", "b", "c", "id", "name", "B", ""}
var jsonKinds = []string{"nil", "bool", "f64", "f64", "str", "str"}
var oddKinds = []string{"int", "any", "other", "time", "int64", "f32"}

func genTypedKey(r *hx.Rng, names []string, ft map[string]kv.T, allowMissing bool) jmap {
	var m jmap
	for _, n := range names {
		if ft[n].K == "nil" && allowMissing && r.Bool() {
			continue // a missing field reads as nil
		}
		m = append(m, field{n, kv.GenVal(r, ft[n])})
	}
	return m
}

func genMixedKey(r *hx.Rng, names []string) jmap {
	var m jmap
	for _, n := range names {
		if r.Chance(25) {
			continue
		}
		k := hx.Pick(r, jsonKinds)
		if r.Chance(12) {
			k = hx.Pick(r, oddKinds)
		}
		t := kv.T{K: k}
		if k == "any" {
			rest := kv.T{K: hx.Pick(r, jsonKinds)}
			t.Rest = &rest
		}
		m = append(m, field{n, kv.GenVal(r, t)})
	}
	return m
}

func genNames(r *hx.Rng) []string {
	n := 1 + r.Intn(3)
	perm := append([]string{}, namePool...)
	for i := range perm {
		j := i + r.Intn(len(perm)-i)
		perm[i], perm[j] = perm[j], perm[i]
	}
	names := perm[:n]
	return names
}

func genInput(r *hx.Rng, typed bool) c30Input {
	in := c30Input{Kind: "default", Typed: typed}
	names := genNames(r)
	if r.Bool() {
		in.Kind = "spec"
		for _, n := range names {
			in.Fields = append(in.Fields, specField{n, r.Chance(65)})
		}
		if r.Chance(30) { // keys carry a field the spec does not index
			names = append(names, "extra")
		}
	}
	ft := map[string]kv.T{}
	for _, n := range names {
		ft[n] = kv.T{K: hx.Pick(r, jsonKinds)}
		if typed && r.Chance(10) {
			ft[n] = kv.GenType(r, 1)
		}
	}
	gen := func() jmap {
		if typed {
			return genTypedKey(r, names, ft, in.Kind == "spec")
		}
		if r.Chance(40) { // mostly-typed with a stray key now and then
			return genTypedKey(r, names, ft, true)
		}
		return genMixedKey(r, names)
	}
	for i, n := 0, r.Intn(4); i < n; i++ {
		in.Warm = append(in.Warm, [2]jmap{gen(), gen()})
	}
	in.X, in.Y = gen(), gen()
	if r.Chance(30) {
		in.Y = append(jmap{}, in.X...) // equal keys, or equal up to the last field
		if len(in.Y) > 0 && r.Bool() {
			i := len(in.Y) - 1
			if v, ok := gen().get(in.Y[i].F); ok {
				in.Y[i] = field{in.Y[i].F, v}
			}
		}
	}
	if r.Chance(60) {
		in.Z, in.HasZ = gen(), true
	}
	return in
}

func km(kvs ...any) jmap {
	var m jmap
	for i := 0; i+1 < len(kvs); i += 2 {
		m = append(m, field{kvs[i].(string), kvs[i+1].(kv.V)})
	}
	if m == nil {
		m = jmap{}
	}
	return m
}

// corpus: one input per known finding (hit on every run) + typed edge cases
func corpus() []c30Input {
	a := []specField{{"a", true}}
	return []c30Input{
		// history:spec:mixed-types  - string comparer cached, then null vs ""
		{Kind: "spec", Fields: a, Warm: [][2]jmap{{km("a", kv.Str("s")), km("a", kv.Str("s"))}}, X: km("a", kv.Nil()), Y: km("a", kv.Str(""))},
		// number comparer cached, then "x" vs 1 (DESIGN.md S8)
		{Kind: "spec", Fields: a, Warm: [][2]jmap{{km("a", kv.F64(2)), km("a", kv.F64(1))}}, X: km("a", kv.Str("x")), Y: km("a", kv.F64(1))},
		// null first: numbers are then ordered by their printed form, 10 < 9
		{Kind: "spec", Fields: a, Warm: [][2]jmap{{km("a", kv.Nil()), km("a", kv.F64(1))}}, X: km("a", kv.F64(10)), Y: km("a", kv.F64(9))},
		// history:spec:missing-fields - field absent from the first key
		{Kind: "spec", Fields: a, Warm: [][2]jmap{{km("b", kv.F64(1)), km("a", kv.F64(1))}}, X: km("a", kv.F64(10)), Y: km("a", kv.F64(9))},
		// history:default:missing-fields - field list frozen from the first key
		{Kind: "default", Warm: [][2]jmap{{km("a", kv.F64(1)), km("a", kv.F64(1))}}, X: km("a", kv.F64(1), "b", kv.F64(2)), Y: km("a", kv.F64(1), "b", kv.F64(3))},
		// history:default:mixed-types
		{Kind: "default", Warm: [][2]jmap{{km("a", kv.Str("s")), km("a", kv.Str("t"))}}, X: km("a", kv.Bool(true)), Y: km("a", kv.Bool(false))},
		// order:*:mixed-types on fresh comparers: cmp({a:null},{a:""}) = -1, cmp({a:""},{a:null}) = 0
		{Kind: "spec", Fields: a, X: km("a", kv.Nil()), Y: km("a", kv.Str(""))},
		{Kind: "default", X: km("a", kv.Nil()), Y: km("a", kv.Str(""))},
		// order:*:missing-fields on fresh comparers
		{Kind: "spec", Fields: a, X: km(), Y: km("a", kv.F64(0))},
		{Kind: "default", X: km(), Y: km("a", kv.F64(1)), Z: km("a", kv.F64(2)), HasZ: true},
		// typed edge cases: descending, NaN / -0, empty spec, empty maps, unindexed fields
		{Kind: "spec", Typed: true, Fields: []specField{{"a", false}, {"b", true}}, Warm: [][2]jmap{{km("a", kv.F64b(0x7ff8000000000000), "b", kv.Str("")), km("a", kv.F64b(0x8000000000000000), "b", kv.Str("a"))}},
			X: km("a", kv.F64b(0), "b", kv.Str("a")), Y: km("a", kv.F64b(0x8000000000000000), "b", kv.Str("")), Z: km("a", kv.F64b(0xfff8000000000001), "b", kv.Str("z")), HasZ: true},
		{Kind: "spec", Typed: true, Fields: nil, X: km("a", kv.F64(1)), Y: km("a", kv.F64(2))},
		{Kind: "default", Typed: true, X: km(), Y: km()},
		{Kind: "default", Typed: true, Warm: [][2]jmap{{km("b", kv.Bool(true), "a", kv.Nil()), km("b", kv.Bool(false), "a", kv.Nil())}}, X: km("a", kv.Nil(), "b", kv.Bool(false)), Y: km("a", kv.Nil(), "b", kv.Bool(true)), Z: km("a", kv.Nil(), "b", kv.Bool(true)), HasZ: true},
		{Kind: "spec", Typed: true, Fields: []specField{{"id", true}, {"id", false}}, X: km("id", kv.Str("10")), Y: km("id", kv.Str("9"))},
	}
}

func runC30(cfg *hx.RunCfg) (*hx.Result, error) {
	res := hx.NewResult("C30")
	res.Imports = []string{"Lib.Bytes", "Compare", "MapKey", "Corr.C30"}
	res.CaseType = "c30case"
	res.Checker = "c30_check"
	res.Rule = "one comparer object per case: 0-3 generated warm-up comparisons then the pair under test (and a third key for transitivity); typed stream (every field one JSON type over all keys) and mixed stream (random field subsets and value types, 10 % non-JSON Go types); distinct = distinct (comparer kind, spec, comparison sequence); non-trivial = at least one compared field"
	if cfg.Replay != "" {
		raw, err := os.ReadFile(cfg.Replay)
		if err != nil {
			return nil, err
		}
		var rp struct {
			Input c30Input `json:"input"`
		}
		if err := json.Unmarshal(raw, &rp); err != nil {
			return nil, err
		}
		one(res, rp.Input)
		return res, nil
	}
	n := cfg.N
	if n == 0 {
		n = 1400
		if cfg.Tier == "thorough" {
			n = 20000
		}
	}
	for _, in := range corpus() {
		one(res, in)
	}
	r := hx.NewRng(hx.NewRng(cfg.Seed).U64()) // mixed: hx seeds k and k+1 alone give streams shifted by one draw
	for i := 0; i < n; i++ {
		one(res, genInput(r, r.Chance(55)))
	}
	return res, nil
}

package main

import (
	"encoding/json"
	"fmt"
	"os"
	"time"

	"verif/harness/c04/cx"
	"verif/harness/hx"
)

// C05: a unique-key store never ends up with two items under the same key.
// Same scheduled-run machinery as C04 (package cx); writers race on the SAME keys of a unique store.

func main() { hx.Main("c05", run) }

func run(cfg *hx.RunCfg) (*hx.Result, error) {
	res := hx.NewResult("C05")
	res.Imports = []string{"Lib.Bytes", "Merge", "Corr.C04", "Corr.C05"}
	res.CaseType = "c05case"
	res.Checker = "c05_check"
	res.Rule = "programs of 2-3 writer transactions calling Add/AddIfNotExist/Upsert/Update/UpdateKey on overlapping keys of one unique store (slot length 2-4, incl. the first items of an empty store), each committing in its own goroutine under a gate schedule at interface-call granularity (or unscheduled); distinct = distinct (program, per-writer results, read-back); non-trivial = at least two writers and at least one refetch-and-merge round or failed commit"
	cx.Scratch = "/var/tmp/c05/run"
	wrap := func(p *cx.Program, o *cx.Outcome) string { return "U5 (" + cx.CoqCase(p, o) + ")" }
	record := func(j cx.Job, o *cx.Outcome) {
		cx.RecordWith(res, j, o, cx.CheckC05, wrap)
	}
	if cfg.Replay != "" {
		p, err := cx.LoadReplay(cfg.Replay)
		if err != nil {
			return nil, err
		}
		o := cx.Run(p, true)
		if os.Getenv("CX_DEBUG") != "" {
			b, _ := json.MarshalIndent(o, "", " ")
			fmt.Println(string(b))
		}
		record(cx.Job{P: p, Bucket: "replay", NoModel: cx.OutsideModel(p)}, o)
		return res, nil
	}
	t := cx.Tier{Seed: cfg.Seed, N: cfg.N, Check: cx.CheckC05, Printer: wrap}
	if t.N == 0 {
		t.N = 60
		if cfg.Tier == "thorough" {
			t.N, t.Budget = 1200, 6*time.Minute
		}
	}
	for _, p := range cx.CorpusC05() {
		t.Fixed = append(t.Fixed, cx.Job{P: p, Bucket: "corpus", NoModel: cx.OutsideModel(p)})
	}
	t.Gen = func(r *hx.Rng, i int) cx.Job {
		p := cx.GenUniqueRace(r)
		b := "unique-race"
		if len(p.Init) == 0 {
			if len(p.Schedule) > 30 {
				p.Schedule = p.Schedule[:30]
			}
			b = "unique-race-first-root"
		}
		if i%10 == 9 {
			p.Free, p.Schedule = true, nil
			b += "-free"
		}
		return cx.Job{P: p, Bucket: b, NoModel: len(p.Init) == 0 || cx.OutsideModel(p)}
	}
	cx.RunTier(res, t)
	return res, nil
}

package main

import (
	"verif/harness/sopx"
)

// ---------------------------------------------------------------- deterministic corpus

// multiLeaf: slot length 4 with the 12 even keys 2..24 inserted in ascending order: a root and
// several leaf nodes; key 2 lives in the leftmost leaf, key 24 in the rightmost one.
func multiLeaf() (sopx.StoreOpts, []KV) {
	var init []KV
	for k := 2; k <= 24; k += 2 {
		init = append(init, KV{k, k + 1})
	}
	return sopx.StoreOpts{Slot: 4, Unique: true, InNode: true}, init
}

// singleNode: slot length 8 with 4 keys: everything lives in the root node.
func singleNode() (sopx.StoreOpts, []KV) {
	var init []KV
	for k := 2; k <= 8; k += 2 {
		init = append(init, KV{k, k + 1})
	}
	return sopx.StoreOpts{Slot: 8, Unique: true, InNode: true}, init
}

func txn(id int, mode string, end string, ops ...Op) TxnProg {
	for i := range ops {
		if ops[i].Kind != "get" && ops[i].Kind != "rem" && ops[i].Val == 0 {
			ops[i].Val = 1000*id + i + 1
		}
	}
	return TxnProg{ID: id, Label: "T" + string(rune('0'+id)), Mode: mode, Ops: ops, End: end}
}

func get(k int) Op    { return Op{Kind: "get", Key: k} }
func add(k int) Op    { return Op{Kind: "add", Key: k} }
func upd(k int) Op    { return Op{Kind: "upd", Key: k} }
func updcur(k int) Op { return Op{Kind: "updcur", Key: k} }
func rem(k int) Op    { return Op{Kind: "rem", Key: k} }

const corpusMaxTimeMs = 8000

func corpus() []Input {
	ml, mlInit := multiLeaf()
	sn, snInit := singleNode()
	mk := func(name string, so sopx.StoreOpts, init []KV, expect string, widened bool, sched []string, txns ...TxnProg) Input {
		return Input{Kind: "corpus", Name: name, Store: so, HashMod: 2, Init: init, Txns: txns, Schedule: sched,
			Widened: widened, MaxTimeMs: corpusMaxTimeMs, Expect: expect}
	}
	const a, b = 2, 24
	var c []Input

	// sequential baseline (also shows the trace of a two-leaf writer in debug mode)
	c = append(c, mk("baseline-sequential", ml, mlInit, "", false,
		[]string{"T1*", "T2*"},
		txn(1, "w", "commit", get(a), get(b), updcur(a), updcur(b)),
		txn(2, "r", "commit", get(a), get(b))))
	W := txn(1, "w", "commit", get(a), get(b), updcur(a), updcur(b))
	R := txn(2, "r", "commit", get(a), get(b))
	c = append(c, mk("s12i-c1-reader", ml, mlInit, "nonserializable:readonly-txn-inconsistent-snapshot:mode-reading", true,
		[]string{"T1@reg.UpdateNoLocks?ok", "T1", "T1@l2x.SetHandle+2", "T2*", "T1*"}, W, R))
	c = append(c, mk("s12i-c2-reader", ml, mlInit, "", true,
		[]string{"T1@reg.UpdateNoLocks?ok", "T1", "T1@l2x.RegionLock+2", "T2#80", "T1*", "T2*"}, W, R))
	c = append(c, mk("s12i-c2-reader-dropl2", ml, mlInit, "", true,
		[]string{"T1@reg.UpdateNoLocks?ok", "T1", "T1@l2x.RegionLock+2", "!dropl2", "T2#80", "T1*", "T2*"}, W, R))
	RW := txn(2, "w", "commit", get(a), get(b), add(7))
	c = append(c, mk("s12i-c1-writer", ml, mlInit, "", true,
		[]string{"T1@reg.UpdateNoLocks?ok", "T1", "T1@l2x.SetHandle+2", "T2*", "T1*"}, W, RW))
	RO := txn(2, "w", "commit", get(a), get(b))
	c = append(c, mk("s12i-c1-writer-readonly", ml, mlInit, "", true,
		[]string{"T1@reg.UpdateNoLocks?ok", "T1", "T1@l2x.SetHandle+2", "T2*", "T1*"}, W, RO))
	// S12-ii
	T1 := txn(1, "w", "commit", get(a), updcur(b))
	T2 := txn(2, "w", "commit", get(b), updcur(a))
	c = append(c, mk("s12ii-write-skew", ml, mlInit, "nonserializable:write-skew-stale-read", true,
		[]string{"T2@l2x.SetStructs?lock", "T1@reg.UpdateNoLocks?ok", "T2*", "T1*"}, T1, T2))
	c = append(c, mk("s12ii-write-skew-mirrored", ml, mlInit, "nonserializable:write-skew-stale-read", true,
		[]string{"T1@l2x.SetStructs?lock", "T2@reg.UpdateNoLocks?ok", "T1*", "T2*"}, T1, T2))
	c = append(c, mk("s12ii-write-skew-ungated-sequential-commits", ml, mlInit, "", false,
		[]string{"T1@api.commit", "T2@api.commit", "T1*", "T2*"}, T1, T2))
	// phantom
	c = append(c, mk("phantom-same-leaf", ml, mlInit, "nonserializable:untracked-negative-lookup", false,
		[]string{"T1@api.commit", "T2@api.commit", "T1*", "T2*"},
		txn(1, "w", "commit", get(21), add(23)), txn(2, "w", "commit", get(23), add(21))))
	c = append(c, mk("phantom-different-leaves", ml, mlInit, "nonserializable:untracked-negative-lookup", false,
		[]string{"T1@api.commit", "T2@api.commit", "T1*", "T2*"},
		txn(1, "w", "commit", get(3), add(23)), txn(2, "w", "commit", get(23), add(3))))
	c = append(c, mk("phantom-single-node", sn, snInit, "nonserializable:untracked-negative-lookup", false,
		[]string{"T1@api.commit", "T2@api.commit", "T1*", "T2*"},
		txn(1, "w", "commit", get(3), add(5)), txn(2, "w", "commit", get(5), add(3))))
	// observations made by operations that return false (Add on an existing key, Update/Remove on a missing one)
	c = append(c, mk("failed-add-observation", ml, mlInit, "nonserializable:untracked-failed-op-observation", false,
		[]string{"T1@api.commit", "T2@api.commit", "T1*", "T2*"},
		txn(1, "w", "commit", add(a), rem(b)), txn(2, "w", "commit", add(b), rem(a))))
	c = append(c, mk("failed-update-observation", ml, mlInit, "nonserializable:untracked-failed-op-observation", false,
		[]string{"T1@api.commit", "T2@api.commit", "T1*", "T2*"},
		txn(1, "w", "commit", upd(3), add(23)), txn(2, "w", "commit", rem(23), add(3))))
	// a transaction updates a key it added itself; its commit has to refetch and merge because another
	// transaction committed a change of the same node in between
	c = append(c, mk("own-update-after-add-merge-single-node", sn, snInit, "nonserializable:own-update-after-add-lost-on-merge", false,
		[]string{"T1@api.commit", "T2*", "T1*"},
		txn(1, "w", "commit", add(9), upd(9)), txn(2, "w", "commit", upd(8))))
	c = append(c, mk("own-update-after-add-merge-multi", ml, mlInit, "nonserializable:own-update-after-add-lost-on-merge", false,
		[]string{"T1@api.commit", "T2*", "T1*"},
		txn(1, "w", "commit", add(23), updcur(23)), txn(2, "w", "commit", upd(22))))
	c = append(c, mk("own-update-after-add-no-merge", sn, snInit, "", false,
		[]string{"T1*", "T2*"},
		txn(1, "w", "commit", add(9), upd(9)), txn(2, "w", "commit", upd(8))))
	// removing an item that lives in an inner node (key 6 is in the root), commit has to refetch and merge
	c = append(c, mk("inner-node-remove-merge", ml, mlInit, "nonserializable:remove-applied-to-wrong-key", false,
		[]string{"T1@api.commit", "T2*", "T1*"},
		txn(1, "w", "commit", rem(6)), txn(2, "w", "commit", upd(10))))
	c = append(c, mk("inner-node-remove-merge-other-leaf", ml, mlInit, "nonserializable:remove-applied-to-wrong-key", false,
		[]string{"T1@api.commit", "T2*", "T1*"},
		txn(1, "w", "commit", rem(6), rem(4)), txn(2, "w", "commit", add(1))))
	c = append(c, mk("inner-node-remove-no-merge", ml, mlInit, "", false,
		[]string{"T1*", "T2*"},
		txn(1, "w", "commit", rem(6)), txn(2, "w", "commit", upd(10))))
	// the same defect without any concurrency: the successor of 6 is the key the transaction added itself,
	// the item tracker drops the add, Commit has nothing to do and returns nil
	c = append(c, mk("inner-node-remove-after-own-add", ml, mlInit, "nonserializable:remove-applied-to-wrong-key", false,
		[]string{"T1*", "T2*"},
		txn(1, "w", "commit", add(7), rem(6)), txn(2, "r", "commit", get(24))))
	// an Add whose commit needs TWO refetch-and-merge rounds (T2 commits before T1's commit, T3 between T1's
	// first merge and its second attempt; all three touch leaf n1)
	c = append(c, mk("add-lost-on-second-merge", ml, mlInit, "nonserializable:committed-adds-lost", false,
		[]string{"T1@api.commit", "T2*", "T1@l2.DualLock", "T3*", "T1*"},
		txn(1, "w", "commit", add(3)), txn(2, "w", "commit", upd(2)), txn(3, "w", "commit", upd(4))))
	c = append(c, mk("add-one-merge-control", ml, mlInit, "", false,
		[]string{"T1@api.commit", "T2*", "T1*", "T3*"},
		txn(1, "w", "commit", add(3)), txn(2, "w", "commit", upd(2)), txn(3, "w", "commit", upd(4))))
	// values OUTSIDE the node: T3's commit needs one refetch-and-merge round (T2 changed the tree first); T1,
	// whose Commit then FAILS ("detected a newer version of item"), has already written its value under the
	// SAME value-blob id as T3's committed value (seen in the trace: T3 blob.Add [x] ... T1 blob.Add [x])
	vo := sopx.StoreOpts{Slot: 2, Unique: true, InNode: false}
	voInit := []KV{{20, 20}, {40, 40}, {30, 30}, {50, 50}, {60, 60}, {10, 10}}
	c = append(c, mk("failed-writer-overwrites-committed-value-blob", vo, voInit, "nonserializable:failed-txn-value-persisted", false,
		[]string{"T1@api.commit", "T2@api.commit", "T3@api.commit", "T2*", "T3*", "T1*"},
		txn(1, "w", "commit", upd(40)), txn(2, "w", "commit", add(25)), txn(3, "w", "commit", upd(40))))
	c = append(c, mk("failed-writer-value-blob-no-merge-control", vo, voInit, "", false,
		[]string{"T1@api.commit", "T2@api.commit", "T2*", "T1*"},
		txn(1, "w", "commit", upd(40)), txn(2, "w", "commit", upd(40))))
	// lost update control
	c = append(c, mk("lost-update-control", ml, mlInit, "", false,
		[]string{"T1@api.commit", "T2@api.commit", "T1*", "T2*"},
		txn(1, "w", "commit", get(a), updcur(a)), txn(2, "w", "commit", get(a), updcur(a))))
	c = append(c, mk("lost-update-control-single-node", sn, snInit, "", false,
		[]string{"T1@api.commit", "T2@api.commit", "T1*", "T2*"},
		txn(1, "w", "commit", get(4), upd(4)), txn(2, "w", "commit", get(4), upd(4))))
	return c
}

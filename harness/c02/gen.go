package main

import (
	"context"
	"fmt"
	"os"
	"path/filepath"
	"sort"
	"strings"
	"time"

	"verif/harness/hx"
	"verif/harness/sopx"
)

// ---------------------------------------------------------------- (b) scheduled runs

const schedMaxTimeMs = 4000

func label(id int) string { return "T" + string(rune('0'+id)) }

type genCtx struct {
	r       *hx.Rng
	present []int // pre-populated keys
	absent  []int // keys not in the store
	hot     []int // small set most operations go to
	a, b    int   // smallest / largest pre-populated key: different leaves in the multi-leaf layout
}

func (g *genCtx) key() int {
	if g.r.Chance(70) {
		return hx.Pick(g.r, g.hot)
	}
	if g.r.Chance(50) {
		return hx.Pick(g.r, g.present)
	}
	return hx.Pick(g.r, g.absent)
}

func (g *genCtx) randomOps(n int) []Op {
	var ops []Op
	for i := 0; i < n; i++ {
		k := g.key()
		switch x := g.r.Intn(10); {
		case x < 4:
			ops = append(ops, get(k))
		case x < 6:
			ops = append(ops, Op{Kind: hx.Pick(g.r, []string{"upd", "updcur"}), Key: k})
		case x < 8:
			ops = append(ops, add(k))
		default:
			ops = append(ops, rem(k))
		}
	}
	return ops
}

// sanitize rewrites the programs so that NO operation can return "not found" / false in any serial
// execution: gets and updates go to keys that exist and that nobody removes or adds, every add takes
// its own fresh absent key, every remove its own existing key nobody else touches. Observations made
// by failed lookups are not tracked by the implementation and break serializability without any
// special interleaving (corpus: phantom-*, failed-*-observation); only a minority of the random runs
// (negObs) keeps them so that the others exercise the remaining mechanisms.
func (g *genCtx) sanitize(txns []TxnProg, stable []int, remPool []int) {
	isStable := map[int]bool{}
	for _, k := range stable {
		isStable[k] = true
	}
	addPool := append([]int(nil), g.absent...)
	for i := len(addPool) - 1; i > 0; i-- {
		j := g.r.Intn(i + 1)
		addPool[i], addPool[j] = addPool[j], addPool[i]
	}
	remPool = append([]int(nil), remPool...)
	for ti := range txns {
		for oi := range txns[ti].Ops {
			o := &txns[ti].Ops[oi]
			switch o.Kind {
			case "add":
				if len(addPool) == 0 {
					o.Kind = "upd"
					o.Key = hx.Pick(g.r, stable)
					continue
				}
				o.Key, addPool = addPool[0], addPool[1:]
			case "rem":
				if len(remPool) == 0 {
					o.Kind = "get"
					o.Val = 0
					o.Key = hx.Pick(g.r, stable)
					continue
				}
				o.Key, remPool = remPool[0], remPool[1:]
			default:
				if !isStable[o.Key] {
					o.Key = hx.Pick(g.r, stable)
				}
			}
		}
	}
}

// genSched builds one scheduled run from the generator state.
func genSched(r *hx.Rng, idx int, thorough bool) Input {
	so, init := multiLeaf()
	single := r.Chance(25)
	if single {
		so, init = singleNode()
	}
	g := &genCtx{r: r}
	in := map[int]bool{}
	for _, kv := range init {
		g.present = append(g.present, kv.K)
		in[kv.K] = true
	}
	g.a, g.b = g.present[0], g.present[len(g.present)-1]
	for k := 1; k <= g.b+1; k++ {
		if !in[k] {
			g.absent = append(g.absent, k)
		}
	}
	mid := g.present[len(g.present)/2]
	g.hot = []int{g.a, g.b, mid, hx.Pick(r, g.absent), hx.Pick(r, g.absent)}
	n := 2 + r.Intn(2)
	if thorough && r.Chance(30) {
		n = 4
	}
	mode := func() string { // a reader's mode
		if r.Chance(50) {
			return "r"
		}
		return "w"
	}
	upk := func() string { return hx.Pick(r, []string{"upd", "updcur"}) }
	var txns []TxnProg
	negObs := r.Chance(15)
	shape := hx.Pick(r, []int{0, 0, 1, 2, 2, 3, 3, 5, 6, 6})
	if negObs {
		shape = hx.Pick(r, []int{4, 4, 1, 5, 6})
	}
	name := ""
	switch shape {
	case 0: // read-modify-write on hot keys
		name = "rmw"
		for i := 1; i <= n; i++ {
			k := hx.Pick(r, g.hot[:3])
			ops := []Op{get(k), {Kind: upk(), Key: k}}
			if r.Chance(30) {
				k2 := hx.Pick(r, g.hot[:3])
				ops = append(ops, get(k2), Op{Kind: upk(), Key: k2})
			}
			txns = append(txns, txn(i, "w", "commit", ops...))
		}
	case 1: // blind writes
		name = "blind"
		for i := 1; i <= n; i++ {
			var ops []Op
			for j := 0; j < 1+r.Intn(3); j++ {
				k := g.key()
				ops = append(ops, Op{Kind: hx.Pick(r, []string{"add", "rem", "upd", "add", "rem"}), Key: k})
			}
			txns = append(txns, txn(i, "w", "commit", ops...))
		}
	case 2: // multi-key readers against a multi-node writer
		name = "readers-vs-writer"
		wk := []int{g.a, g.b}
		if r.Chance(50) {
			wk = append(wk, mid)
		}
		var wops []Op
		if r.Chance(50) {
			for _, k := range wk {
				wops = append(wops, get(k))
			}
		}
		for _, k := range wk {
			wops = append(wops, Op{Kind: upk(), Key: k})
		}
		txns = append(txns, txn(1, "w", "commit", wops...))
		for i := 2; i <= n; i++ {
			var ops []Op
			for _, j := range perm(r, len(wk)) {
				ops = append(ops, get(wk[j]))
			}
			txns = append(txns, txn(i, mode(), "commit", ops...))
		}
	case 3: // write skew over two leaves
		name = "write-skew"
		txns = append(txns, txn(1, "w", "commit", get(g.a), Op{Kind: upk(), Key: g.b}))
		txns = append(txns, txn(2, "w", "commit", get(g.b), Op{Kind: upk(), Key: g.a}))
		for i := 3; i <= n; i++ {
			txns = append(txns, txn(i, mode(), "commit", get(g.a), get(g.b)))
		}
	case 4: // negative lookups + adds
		name = "phantom"
		x, y := hx.Pick(r, g.absent), hx.Pick(r, g.absent)
		txns = append(txns, txn(1, "w", "commit", get(x), add(y)))
		txns = append(txns, txn(2, "w", "commit", get(y), add(x)))
		for i := 3; i <= n; i++ {
			txns = append(txns, txn(i, mode(), "commit", get(x), get(y)))
		}
	case 5: // read-only transactions in both modes next to one writer
		name = "readonly"
		txns = append(txns, txn(1, "w", "commit", g.randomOps(2+r.Intn(3))...))
		for i := 2; i <= n; i++ {
			var ops []Op
			for j := 0; j < 1+r.Intn(3); j++ {
				ops = append(ops, get(g.key()))
			}
			txns = append(txns, txn(i, mode(), "commit", ops...))
		}
	default: // random mixes
		name = "mix"
		for i := 1; i <= n; i++ {
			txns = append(txns, txn(i, "w", "commit", g.randomOps(1+r.Intn(5))...))
		}
	}
	if negObs {
		name += "+negobs"
	} else {
		var stable, remPool []int
		for _, k := range g.present {
			// 6, 12, 18 live in the root of the multi-leaf layout: removing an inner-node item + merge is the
			// known remove-applied-to-wrong-key-on-merge defect (corpus), kept out of the sanitized runs
			inner := !single && (k == 6 || k == 12 || k == 18)
			if inner || k == g.a || k == g.b || k == mid || len(remPool) >= 4 || len(g.present) <= 4 && len(remPool) >= 1 {
				stable = append(stable, k)
			} else {
				remPool = append(remPool, k)
			}
		}
		g.sanitize(txns, stable, remPool)
	}
	// rollbacks (10-20 %) and the malformed stream (a ForReading transaction that writes)
	for i := range txns {
		if r.Chance(15) {
			txns[i].End = "rollback"
		}
	}
	if r.Chance(12) {
		i := r.Intn(len(txns))
		txns[i].Mode = "r"
		txns[i].Ops = append(txns[i].Ops, Op{Kind: "add", Key: hx.Pick(r, g.absent), Val: 1000*txns[i].ID + 99})
		name += "+malformed"
	}
	labels := make([]string, len(txns))
	for i := range txns {
		labels[i] = txns[i].Label
	}
	sched, widened, sname := genSchedule(r, labels)
	lay := "multi"
	if single {
		lay = "single"
	}
	return Input{Kind: "sched", Name: fmt.Sprintf("%d-%s-%s-%s", idx, name, lay, sname), Shape: name + "/" + sname, Store: so, HashMod: 2, Init: init, Txns: txns,
		Schedule: sched, Widened: widened, MaxTimeMs: schedMaxTimeMs}
}

func perm(r *hx.Rng, n int) []int {
	p := make([]int, n)
	for i := range p {
		p[i] = i
	}
	for i := n - 1; i > 0; i-- {
		j := r.Intn(i + 1)
		p[i], p[j] = p[j], p[i]
	}
	return p
}

var windowSpecs = []string{
	"l2x.SetStructs?lock",  // after the first item-lock GetStructs of itemActionTracker.lock
	"l2x.GetStructs?lock",  // before a lock / verify / checkTrackedItems read
	"reg.UpdateNoLocks?ok", // before the phase-2 flip
	"reg.UpdateNoLocks",    // before the phase-1 reservation of inactive ids
	"l2x.SetHandle",        // registry publishing one handle to L2
	"l2x.RegionLock",       // before one registry block write
	"reg.Get",              // before a version validation / node fetch
	"l2.Lock",              // before the node locks
	"sr.Update",            // before the store count update
	"l2.Delete",            // before the item locks are dropped
	"blob.Add",
}

// genSchedule: three families.
func genSchedule(r *hx.Rng, labels []string) (sched []string, widened bool, name string) {
	order := perm(r, len(labels))
	switch f := r.Intn(10); {
	case f < 2: // all working phases, then the commits one after the other in a random order
		name = "seqcommits"
		for _, i := range order {
			sched = append(sched, labels[i]+"@api.commit")
		}
		for _, i := range perm(r, len(labels)) {
			sched = append(sched, labels[i]+"*")
		}
	case f < 6: // window hunting: park transactions in front of interesting calls, run others through
		name = "windows"
		widened = true
		if r.Chance(60) {
			for _, i := range order {
				sched = append(sched, labels[i]+"@api.commit")
			}
		}
		for k := 0; k < 2+r.Intn(5); k++ {
			l := hx.Pick(r, labels)
			switch x := r.Intn(10); {
			case x < 6:
				spec := hx.Pick(r, windowSpecs)
				if (spec == "l2x.SetHandle" || spec == "l2x.RegionLock") && r.Chance(50) {
					spec += "+2"
				}
				sched = append(sched, l+"@"+spec)
			case x < 8:
				sched = append(sched, fmt.Sprintf("%s#%d", l, 1+r.Intn(6)))
			default:
				sched = append(sched, l+"*")
			}
		}
	default: // fine-grained random interleaving
		name = "chunks"
		for k := 0; k < 8+r.Intn(50); k++ {
			l := hx.Pick(r, labels)
			if r.Chance(10) {
				sched = append(sched, l+"@"+hx.Pick(r, windowSpecs))
				widened = true
			} else {
				sched = append(sched, fmt.Sprintf("%s#%d", l, 1+r.Intn(8)))
			}
		}
	}
	return
}

func (r *runner) budget() (schedN, stressN int, schedUntil, stressUntil time.Duration) {
	if r.cfg.Tier == "thorough" {
		schedN, stressN, schedUntil, stressUntil = 2000, 6000, 9*time.Minute, 13*time.Minute+30*time.Second
	} else {
		schedN, stressN, schedUntil, stressUntil = 70, 100, 36*time.Second, 50*time.Second
	}
	if r.cfg.N > 0 {
		schedN, stressN = r.cfg.N, r.cfg.N
	}
	return
}

func (r *runner) scheduled() {
	n, _, until, _ := r.budget()
	ins := make([]Input, n)
	for i := range ins {
		// every run has its own generator state: run i does not depend on how long earlier runs took
		rng := hx.NewRng(r.cfg.Seed*1000003 + uint64(i) + 17)
		ins[i] = genSched(rng, i, r.cfg.Tier == "thorough")
		ins[i].Seed = r.cfg.Seed
	}
	par := 4
	if v := os.Getenv("C02_PAR"); v != "" {
		fmt.Sscan(v, &par)
	}
	done := r.runMany(ins, par, until, func(in *Input, out *Outcome, ok bool, sig string) {
		for _, p := range strings.Split(strings.ReplaceAll(in.Shape, "+", "/"), "/") {
			r.count("shape." + p)
		}
	})
	if done < n {
		r.count("budget.scheduled-cut-by-wall-clock")
		r.note("scheduled tier stopped after %d of %d runs (wall clock budget)", done, n)
	}
}

// ---------------------------------------------------------------- (c) unscheduled stress

func genStressRound(r *hx.Rng, round int, content []KV, inner map[int]bool) []TxnProg {
	in := map[int]bool{}
	g := &genCtx{r: r}
	for _, kv := range content {
		in[kv.K] = true
		g.present = append(g.present, kv.K)
	}
	for k := 1; k <= 30; k++ {
		if !in[k] {
			g.absent = append(g.absent, k)
		}
	}
	if len(g.present) == 0 {
		g.present = []int{2}
	}
	if len(g.absent) == 0 {
		g.absent = []int{31}
	}
	g.hot = []int{g.present[0], g.present[len(g.present)-1], hx.Pick(r, g.present), hx.Pick(r, g.absent)}
	n := 3 + r.Intn(3)
	var txns []TxnProg
	for i := 1; i <= n; i++ {
		var ops []Op
		mode := "w"
		switch x := r.Intn(10); {
		case x < 3:
			k := hx.Pick(r, g.hot)
			ops = []Op{get(k), {Kind: hx.Pick(r, []string{"upd", "updcur"}), Key: k}}
		case x < 5:
			for j := 0; j < 1+r.Intn(3); j++ {
				ops = append(ops, get(g.key()))
			}
			if r.Chance(50) {
				mode = "r"
			}
		case x < 6:
			k1, k2 := hx.Pick(r, g.hot), hx.Pick(r, g.hot)
			ops = []Op{get(k1), {Kind: "updcur", Key: k2}}
		default:
			ops = g.randomOps(1 + r.Intn(4))
		}
		t := txn(i, mode, "commit", ops...)
		for j := range t.Ops {
			if t.Ops[j].Kind != "get" && t.Ops[j].Kind != "rem" {
				t.Ops[j].Val = 100000*(round+1) + 1000*i + j + 1
			}
		}
		if r.Chance(12) {
			t.End = "rollback"
		}
		txns = append(txns, t)
	}
	if !r.Chance(15) && len(content) > 0 {
		// sanitized round (see genCtx.sanitize): the hot keys stay, up to 3 other keys may be removed
		hot := map[int]bool{g.hot[0]: true, g.hot[1]: true, g.hot[2]: true}
		var stable, remPool []int
		for _, k := range g.present {
			if hot[k] || inner[k] || len(remPool) >= 3 || r.Chance(50) {
				stable = append(stable, k)
			} else {
				remPool = append(remPool, k)
			}
		}
		g.sanitize(txns, stable, remPool)
	}
	return txns
}

func (r *runner) stress() {
	_, n, _, until := r.budget()
	ctx := context.Background()
	rng := hx.NewRng(r.cfg.Seed*7919 + 5)
	var (
		e       *sopx.Env
		dir     string
		store   string
		so      sopx.StoreOpts
		content []KV
	)
	closeSession := func() {
		if dir != "" {
			os.RemoveAll(dir)
			dir = ""
		}
	}
	defer closeSession()
	newSession := func(k int) bool {
		closeSession()
		var init []KV
		if k%2 == 0 {
			so, init = multiLeaf()
		} else {
			so, init = singleNode()
		}
		id := runCounter.Add(1)
		dir = filepath.Join(scratchRoot, fmt.Sprintf("stress-%d-%d", os.Getpid(), id))
		os.RemoveAll(dir)
		var err error
		e, err = sopx.NewEnv(filepath.Join(dir, "db"), 2)
		if err != nil {
			r.note("stress session: %v", err)
			return false
		}
		store = fmt.Sprintf("c02p%ds%d", os.Getpid(), id)
		so.Name = store
		if err := setupStore(ctx, e, so, init); err != nil {
			r.note("stress session setup: %v", err)
			return false
		}
		kv, derr := dumpKVs(sopx.DumpFresh(e.Folder, 2, false), store)
		if derr != "" {
			r.note("stress session init dump: %s", derr)
			return false
		}
		content = kv
		return true
	}
	sessionLen := 40
	if r.cfg.Tier == "thorough" {
		sessionLen = 150
	}
	for round := 0; round < n; round++ {
		if time.Since(r.start) > until {
			r.count("budget.stress-cut-by-wall-clock")
			r.note("stress tier stopped after %d of %d rounds (wall clock budget)", round, n)
			break
		}
		if round%sessionLen == 0 {
			if !newSession(round / sessionLen) {
				r.count("stress.session-error")
				return
			}
		}
		txns := genStressRound(rng, round, content, innerKeys(e.Folder, store))
		in := Input{Kind: "stress", Name: fmt.Sprintf("round-%d", round), Store: so, HashMod: 2, Init: content, Txns: txns, Free: true,
			MaxTimeMs: schedMaxTimeMs, Seed: r.cfg.Seed}
		in.Store.Name = ""
		out := &Outcome{Errs: map[int]string{}, ErrKind: map[int]string{}}
		out.Leaves = -1
		t0 := time.Now()
		hist, _, timeout := execTxns(ctx, e, &in, store, false, r.count, out)
		out.Timeout = timeout
		if timeout {
			r.evaluate(&in, out)
			// the abandoned goroutines may still write: start over on a new store
			if !newSession(round/sessionLen + 1000 + round) {
				return
			}
			continue
		}
		out.Hist = History{Init: content, Txns: hist}
		final, derr := dumpKVs(sopx.DumpInProcess(ctx, e.Folder, 2, false), store)
		if derr != "" {
			r.count("stress.dump-error")
			r.note("stress in-process dump: %s", derr)
			if !newSession(round/sessionLen + 2000 + round) {
				return
			}
			continue
		}
		fresh := round%10 == 9
		out.Hist.Final = final
		if ok, _ := serializable(restrict(&out.Hist)); !ok {
			fresh = true
		}
		if fresh {
			fk, ferr := dumpKVs(sopx.DumpFresh(e.Folder, 2, false), store)
			if ferr != "" {
				r.count("stress.dump-error")
				r.note("stress fresh dump: %s", ferr)
			} else {
				r.count("stress.fresh-dump")
				if !kvsEqual(fk, final) {
					out.InProcDiffers = true
					final = fk
					out.Hist.Final = fk
				}
			}
		}
		out.WallMs = time.Since(t0).Milliseconds()
		r.evaluate(&in, out)
		content = final
	}
}

// restrict keeps, in the initial and final content, the keys some operation mentions and the
// keys whose binding differs between the two (so that damage to unrelated keys stays visible).
func restrict(h *History) *History {
	keep := map[int]bool{}
	for _, t := range h.Txns {
		for _, o := range t.Ops {
			keep[o.Key] = true
		}
	}
	a, b := stateOf(h.Init), stateOf(h.Final)
	for k, v := range a {
		if w, ok := b[k]; !ok || w != v {
			keep[k] = true
		}
	}
	for k := range b {
		if _, ok := a[k]; !ok {
			keep[k] = true
		}
	}
	f := func(kvs []KV) []KV {
		var out []KV
		for _, kv := range kvs {
			if keep[kv.K] {
				out = append(out, kv)
			}
		}
		sort.Slice(out, func(i, j int) bool { return out[i].K < out[j].K })
		return out
	}
	return &History{Init: f(h.Init), Txns: h.Txns, Final: f(h.Final)}
}

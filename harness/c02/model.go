package main

import (
	"fmt"
	"sort"
	"strconv"
	"strings"

	"verif/harness/hx"
)

// ---------------------------------------------------------------- recorded histories
//
// The Go side of History.v: the same sequential map semantics (apply_op), the same exhaustive
// search over the orders of the committed transactions (ser_check) and the certificate variant
// (order_explainsb of Corr/C02.v). Everything here is an unverified re-implementation; every
// verdict is re-evaluated by the verified checker inside Coq through the emitted cases.

// KV is one key/value binding of a store state.
type KV struct {
	K int `json:"k"`
	V int `json:"v"`
}

// OpRec is one API call with the answer the implementation gave.
//
//	Kind get : Found + Val (value read)           -> OGet k (Some v) | OGet k None
//	Kind add : Val written, Ok                     -> OAdd k v ok
//	Kind upd : Val written, Ok (Update or Find+UpdateCurrentValue) -> OUpd k v ok
//	Kind rem : Ok                                  -> ORem k ok
type OpRec struct {
	Kind  string `json:"k"`
	Key   int    `json:"key"`
	Val   int    `json:"v,omitempty"`
	Found bool   `json:"found,omitempty"`
	Ok    bool   `json:"ok,omitempty"`
}

// TxnRec is one finished transaction.
type TxnRec struct {
	ID        int     `json:"id"`
	Mode      string  `json:"mode"` // "w" ForWriting | "r" ForReading
	Ops       []OpRec `json:"ops"`
	Committed bool    `json:"committed"`
}

// History is what one run recorded.
type History struct {
	Init  []KV     `json:"init"`
	Txns  []TxnRec `json:"txns"`
	Final []KV     `json:"final"`
}

type state map[int]int

func stateOf(kvs []KV) state {
	s := state{}
	for _, kv := range kvs {
		s[kv.K] = kv.V
	}
	return s
}

func (s state) clone() state {
	c := make(state, len(s))
	for k, v := range s {
		c[k] = v
	}
	return c
}

func (s state) equal(o state) bool {
	if len(s) != len(o) {
		return false
	}
	for k, v := range s {
		if w, ok := o[k]; !ok || w != v {
			return false
		}
	}
	return true
}

// applyOp mirrors History.v apply_op; false = the recorded answer is not the one a map gives.
// s is modified in place.
func applyOp(s state, o OpRec) bool {
	v, present := s[o.Key]
	switch o.Kind {
	case "get":
		if o.Found {
			return present && v == o.Val
		}
		return !present
	case "add":
		if present {
			return !o.Ok
		}
		if !o.Ok {
			return false
		}
		s[o.Key] = o.Val
		return true
	case "upd":
		if present {
			if !o.Ok {
				return false
			}
			s[o.Key] = o.Val
			return true
		}
		return !o.Ok
	case "rem":
		if present {
			if !o.Ok {
				return false
			}
			delete(s, o.Key)
			return true
		}
		return !o.Ok
	}
	return false
}

func applyOps(s state, ops []OpRec) bool {
	for _, o := range ops {
		if !applyOp(s, o) {
			return false
		}
	}
	return true
}

// explains mirrors explainsb: the transactions in this order, one at a time from init, give
// every recorded answer and end in final.
func explains(h *History, order []*TxnRec) bool {
	s := stateOf(h.Init)
	for _, t := range order {
		if !applyOps(s, t.Ops) {
			return false
		}
	}
	return s.equal(stateOf(h.Final))
}

func committedOf(h *History) []*TxnRec {
	var out []*TxnRec
	for i := range h.Txns {
		if h.Txns[i].Committed {
			out = append(out, &h.Txns[i])
		}
	}
	return out
}

// serializable mirrors ser_check: exhaustive over all orders of the committed transactions.
// It also returns one explaining order (ids) when there is one.
func serializable(h *History) (bool, []int) {
	c := committedOf(h)
	n := len(c)
	idx := make([]int, n)
	for i := range idx {
		idx[i] = i
	}
	order := make([]*TxnRec, n)
	var found []int
	var rec func(k int) bool
	used := make([]bool, n)
	rec = func(k int) bool {
		if k == n {
			if explains(h, order) {
				for _, t := range order {
					found = append(found, t.ID)
				}
				return true
			}
			return false
		}
		for i := 0; i < n; i++ {
			if used[i] {
				continue
			}
			used[i] = true
			order[k] = c[i]
			if rec(k + 1) {
				return true
			}
			used[i] = false
		}
		return false
	}
	ok := rec(0)
	return ok, found
}

// orderExplains mirrors Corr/C02.v order_explainsb.
func orderExplains(h *History, ids []int) bool {
	c := committedOf(h)
	var o []*TxnRec
	for _, id := range ids {
		for _, t := range c { // find = first match
			if t.ID == id {
				o = append(o, t)
				break
			}
		}
	}
	if len(o) != len(c) || len(ids) != len(o) {
		return false
	}
	return explains(h, o)
}

func isWrite(o OpRec) bool { return o.Kind != "get" && o.Ok }

func readOnly(t *TxnRec) bool {
	for _, o := range t.Ops {
		if isWrite(o) {
			return false
		}
	}
	return true
}

// classify names the class of a NON-serializable history (narrow signatures: each class is
// decided by a transformation under which the history becomes serializable).
func classify(h *History, flipOrder []int) string {
	// 0. the final content holds a value that only a transaction that did NOT commit wrote
	// (written values are unique per run): a failed / rolled-back write was persisted
	{
		fin := stateOf(h.Final)
		ini := stateOf(h.Init)
		for k, v := range fin {
			if iv, ok := ini[k]; ok && iv == v {
				continue
			}
			byCommitted, byAborted := false, false
			for i := range h.Txns {
				for _, o := range h.Txns[i].Ops {
					if isWrite(o) && o.Kind != "rem" && o.Key == k && o.Val == v {
						if h.Txns[i].Committed {
							byCommitted = true
						} else {
							byAborted = true
						}
					}
				}
			}
			if byAborted && !byCommitted {
				return "nonserializable:failed-txn-value-persisted"
			}
		}
	}
	// 1. committed read-only transactions saw an inconsistent snapshot
	var ro []int
	for i := range h.Txns {
		if h.Txns[i].Committed && readOnly(&h.Txns[i]) {
			ro = append(ro, i)
		}
	}
	drop := func(set []int) *History {
		g := &History{Init: h.Init, Final: h.Final}
		for i := range h.Txns {
			skip := false
			for _, j := range set {
				if i == j {
					skip = true
				}
			}
			if !skip {
				g.Txns = append(g.Txns, h.Txns[i])
			}
		}
		return g
	}
	modeSuffix := func(set []int) string {
		r, w := 0, 0
		for _, j := range set {
			if h.Txns[j].Mode == "r" {
				r++
			} else {
				w++
			}
		}
		switch {
		case w == 0:
			return ":mode-reading"
		case r == 0:
			return ":mode-writing"
		}
		return ":mode-mixed"
	}
	for _, j := range ro { // one dropped transaction is enough?
		if ok, _ := serializable(drop([]int{j})); ok {
			return "nonserializable:readonly-txn-inconsistent-snapshot" + modeSuffix([]int{j})
		}
	}
	if len(ro) > 1 {
		if ok, _ := serializable(drop(ro)); ok {
			return "nonserializable:readonly-txn-inconsistent-snapshot" + modeSuffix(ro)
		}
	}
	// 2. negative lookups (Find that fails is not tracked) turned into no-ops
	neg := false
	g := &History{Init: h.Init, Final: h.Final}
	for _, t := range h.Txns {
		u := TxnRec{ID: t.ID, Mode: t.Mode, Committed: t.Committed}
		for _, o := range t.Ops {
			if t.Committed && o.Kind == "get" && !o.Found {
				neg = true
				continue
			}
			u.Ops = append(u.Ops, o)
		}
		g.Txns = append(g.Txns, u)
	}
	if neg {
		if ok, _ := serializable(g); ok {
			return "nonserializable:untracked-negative-lookup"
		}
	}
	// 2b. the same for every observation made by an operation that returned false (Add on an existing
	// key, Update / Remove on a missing key: they look the key up but track nothing either)
	obs := false
	g2 := &History{Init: h.Init, Final: h.Final}
	for _, t := range h.Txns {
		u := TxnRec{ID: t.ID, Mode: t.Mode, Committed: t.Committed}
		for _, o := range t.Ops {
			if t.Committed && ((o.Kind == "get" && !o.Found) || (o.Kind != "get" && !o.Ok)) {
				if o.Kind != "get" {
					obs = true
				}
				continue
			}
			u.Ops = append(u.Ops, o)
		}
		g2.Txns = append(g2.Txns, u)
	}
	if obs {
		if ok, _ := serializable(g2); ok {
			return "nonserializable:untracked-failed-op-observation"
		}
	}
	// 2c. a transaction updated a key it had added itself and the update is what is missing: the
	// history becomes serializable once those updates are dropped (refetch-and-merge replays the
	// item as it was ADDED)
	own := false
	g3 := &History{Init: h.Init, Final: h.Final}
	for _, t := range h.Txns {
		u := TxnRec{ID: t.ID, Mode: t.Mode, Committed: t.Committed}
		added := map[int]bool{}
		for _, o := range t.Ops {
			if t.Committed && o.Kind == "upd" && o.Ok && added[o.Key] {
				own = true
				continue
			}
			if o.Kind == "add" && o.Ok {
				added[o.Key] = true
			}
			if o.Kind == "rem" && o.Ok {
				delete(added, o.Key)
			}
			u.Ops = append(u.Ops, o)
		}
		g3.Txns = append(g3.Txns, u)
	}
	if own {
		if ok, _ := serializable(g3); ok {
			return "nonserializable:own-update-after-add-lost-on-merge"
		}
	}
	// 2d. a committed Remove k reported true, k is still there and ANOTHER key vanished instead: the
	// history becomes serializable once that Remove is re-targeted to the other key (removing an item
	// that lives in an inner node is tracked as the removal of its successor in a leaf; the
	// refetch-and-merge replay then removes the successor)
	for ti := range h.Txns {
		if !h.Txns[ti].Committed {
			continue
		}
		for oi, o := range h.Txns[ti].Ops {
			if o.Kind != "rem" || !o.Ok {
				continue
			}
			// candidates: the other initial keys and the keys this transaction added itself
			var cand []int
			for _, kv := range h.Init {
				cand = append(cand, kv.K)
			}
			for _, p := range h.Txns[ti].Ops[:oi] {
				if p.Kind == "add" && p.Ok {
					cand = append(cand, p.Key)
				}
			}
			for _, k2 := range cand {
				if k2 == o.Key {
					continue
				}
				g4 := &History{Init: h.Init, Final: h.Final}
				for tj, t := range h.Txns {
					u := t
					if tj == ti {
						u.Ops = append([]OpRec(nil), t.Ops...)
						u.Ops[oi].Key = k2
					}
					g4.Txns = append(g4.Txns, u)
				}
				if ok, _ := serializable(g4); ok {
					return "nonserializable:remove-applied-to-wrong-key"
				}
			}
		}
	}
	// 2e. every successful Add of ONE committed transaction is missing: serializable once they are
	// dropped (for in-node value stores refetch-and-merge does not re-register replayed adds with the
	// item tracker, so a second refetch-and-merge round replays nothing)
	for ti := range h.Txns {
		if !h.Txns[ti].Committed {
			continue
		}
		has := false
		g5 := &History{Init: h.Init, Final: h.Final}
		for tj, t := range h.Txns {
			u := t
			if tj == ti {
				u.Ops = nil
				for _, o := range t.Ops {
					if o.Kind == "add" && o.Ok {
						has = true
						continue
					}
					u.Ops = append(u.Ops, o)
				}
			}
			g5.Txns = append(g5.Txns, u)
		}
		if has {
			if ok, _ := serializable(g5); ok {
				return "nonserializable:committed-adds-lost"
			}
		}
	}
	// 2z. lost update: two committed transactions read the SAME version of a key (same value) and
	// both successfully overwrote it -- never a known class, must alarm
	type rk struct{ key, val int }
	readers := map[rk][]int{}
	for i := range h.Txns {
		t := &h.Txns[i]
		if !t.Committed {
			continue
		}
		seen := map[int]int{}
		wrote := map[int]bool{}
		for _, o := range t.Ops {
			if o.Kind == "get" && o.Found && !wrote[o.Key] {
				if _, ok := seen[o.Key]; !ok {
					seen[o.Key] = o.Val
				}
			}
			if isWrite(o) {
				wrote[o.Key] = true
			}
		}
		for k, v := range seen {
			if wrote[k] {
				readers[rk{k, v}] = append(readers[rk{k, v}], i)
			}
		}
	}
	for _, l := range readers {
		if len(l) > 1 {
			return "nonserializable:lost-update"
		}
	}
	// 3. no write was lost: the final content is the blind replay of the successful writes in
	// commit-point order; the damage is in what the writers READ
	if len(flipOrder) > 0 {
		s := stateOf(h.Init)
		for _, id := range flipOrder {
			for i := range h.Txns {
				if h.Txns[i].ID != id || !h.Txns[i].Committed {
					continue
				}
				for _, o := range h.Txns[i].Ops {
					if !isWrite(o) {
						continue
					}
					if o.Kind == "rem" {
						delete(s, o.Key)
					} else {
						s[o.Key] = o.Val
					}
				}
			}
		}
		if s.equal(stateOf(h.Final)) {
			return "nonserializable:write-skew-stale-read"
		}
	}
	return "nonserializable:lost-update-or-other"
}

// ---------------------------------------------------------------- Coq printing

func coqState(kvs []KV) string {
	xs := make([]string, len(kvs))
	for i, kv := range kvs {
		xs[i] = fmt.Sprintf("(%d, Some %d)", kv.K, kv.V)
	}
	return hx.CoqList(xs)
}

func coqOp(o OpRec) string {
	switch o.Kind {
	case "get":
		if o.Found {
			return fmt.Sprintf("OGet %d (Some %d)", o.Key, o.Val)
		}
		return fmt.Sprintf("OGet %d None", o.Key)
	case "add":
		return fmt.Sprintf("OAdd %d %d %s", o.Key, o.Val, hx.CoqBool(o.Ok))
	case "upd":
		return fmt.Sprintf("OUpd %d %d %s", o.Key, o.Val, hx.CoqBool(o.Ok))
	}
	return fmt.Sprintf("ORem %d %s", o.Key, hx.CoqBool(o.Ok))
}

func coqHistory(h *History) string {
	ts := make([]string, len(h.Txns))
	for i, t := range h.Txns {
		ops := make([]string, len(t.Ops))
		for j, o := range t.Ops {
			ops[j] = coqOp(o)
		}
		ts[i] = fmt.Sprintf("mkTxn %d %s %s", t.ID, hx.CoqList(ops), hx.CoqBool(t.Committed))
	}
	return fmt.Sprintf("(mkHist %s %s %s)", coqState(h.Init), hx.CoqList(ts), coqState(h.Final))
}

func coqIDs(ids []int) string {
	xs := make([]string, len(ids))
	for i, v := range ids {
		xs[i] = strconv.Itoa(v)
	}
	return hx.CoqList(xs)
}

// canon is the canonical form of a history for the distinct count.
func canon(h *History) string {
	var sb strings.Builder
	sb.WriteString(coqHistory(h))
	return sb.String()
}

// nontrivial: at least two committed transactions touch a common key that at least one of them
// wrote successfully.
func nontrivial(h *History) bool {
	c := committedOf(h)
	for i := 0; i < len(c); i++ {
		for j := i + 1; j < len(c); j++ {
			if overlap(c[i], c[j]) {
				return true
			}
		}
	}
	return false
}

func overlap(a, b *TxnRec) bool {
	ka, wa := map[int]bool{}, map[int]bool{}
	for _, o := range a.Ops {
		ka[o.Key] = true
		if isWrite(o) {
			wa[o.Key] = true
		}
	}
	for _, o := range b.Ops {
		if wa[o.Key] || (ka[o.Key] && isWrite(o)) {
			return true
		}
	}
	return false
}

func sortedKVs(keys []int, vals []int) []KV {
	out := make([]KV, len(keys))
	for i := range keys {
		out[i] = KV{keys[i], vals[i]}
	}
	sort.Slice(out, func(i, j int) bool { return out[i].K < out[j].K })
	return out
}

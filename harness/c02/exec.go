package main

import (
	"context"
	"encoding/json"
	"fmt"
	"os"
	"path/filepath"
	"sort"
	"strconv"
	"strings"
	"sync"
	"sync/atomic"
	"time"

	"github.com/sharedcode/sop"
	"github.com/sharedcode/sop/btree"

	"verif/harness/sopx"
)

// ---------------------------------------------------------------- replayable input

// Op is one API call of a transaction program.
// Kinds: get (Find + GetCurrentValue when found) | add | upd (Update(k,v)) |
// updcur (Find + UpdateCurrentValue) | rem (Remove).
type Op struct {
	Kind string `json:"k"`
	Key  int    `json:"key"`
	Val  int    `json:"v,omitempty"` // stored as the decimal string
}

// TxnProg is one transaction: its own goroutine, its own B-tree handle.
type TxnProg struct {
	ID    int    `json:"id"`    // t_id of the Coq history (1-based)
	Label string `json:"label"` // recorder label, "T<id>"
	Mode  string `json:"mode"`  // "w" sop.ForWriting | "r" sop.ForReading
	Ops   []Op   `json:"ops"`
	End   string `json:"end"` // commit | rollback
}

// Input is one replayable run.
//
// Schedule entries (L = a transaction label):
//
//	"L"            release the next gated call of L and wait until L is parked again (or finished)
//	"L#n"          n such steps
//	"L*"           until L has finished
//	"L@spec[+k]"   until L is parked in front of the k-th (default 1st) call from now matching spec;
//	               spec = iface.Method followed by optional qualifiers: ?ok (bool argument/result true),
//	               ?lock (first name starts with "lock:", i.e. an item lock record), ?n2 (at least 2 handles/ids)
//	               API-level gates have iface "api": api.begin api.get api.add api.upd api.updcur api.rem
//	               api.commit api.rollback
//	"!dropl2"      delete every registry handle entry (bare UUID keys) from the L2 cache (emulates another
//	               process whose L2 look-aside does not hold them)
//
// When the schedule is exhausted every gate opens and all transactions run free.
type Input struct {
	Kind      string         `json:"kind"` // corpus | sched | stress
	Name      string         `json:"name"`
	Shape     string         `json:"shape,omitempty"` // generator family (counting only)
	Store     sopx.StoreOpts `json:"store"`
	HashMod   int            `json:"hash_mod"`
	Init      []KV           `json:"init"` // pre-population, inserted in this order by one setup transaction
	Txns      []TxnProg      `json:"txns"`
	Schedule  []string       `json:"schedule"`
	Free      bool           `json:"free,omitempty"`    // no gating at all (stress)
	Widened   bool           `json:"widened,omitempty"` // the schedule deliberately parks a transaction inside a check-then-act window
	MaxTimeMs int            `json:"max_time_ms"`
	Seed      uint64         `json:"seed"`
	Expect    string         `json:"expect,omitempty"` // corpus: signature the scenario must hit ("" = must be serializable)
}

// ---------------------------------------------------------------- scheduler

type ticket struct {
	ev      *sopx.Event
	release chan struct{}
}

type wstate struct {
	prog     *TxnProg
	mu       sync.Mutex // one goroutine of a transaction in the gate at a time
	parked   chan *ticket
	done     chan struct{}
	pending  *ticket
	finished bool
	steps    int
	// results (written by the transaction goroutine, read after done is closed)
	rec         TxnRec
	beginErr    string
	opErr       string
	endErr      string
	commitStart int64 // completion tick when Commit was called
	commitEnd   int64
	inCommit    atomic.Bool
	panicked    string
}

type sched struct {
	ws     map[string]*wstate
	freeCh chan struct{}
	once   sync.Once
	mu     sync.Mutex
	trace  []string
	keep   bool // keep a textual trace (debug / notes)
}

func (s *sched) isFree() bool {
	select {
	case <-s.freeCh:
		return true
	default:
		return false
	}
}

func (s *sched) openGates() { s.once.Do(func() { close(s.freeCh) }) }

func evLine(ev *sopx.Event) string {
	var sb strings.Builder
	fmt.Fprintf(&sb, "%s %s", ev.Txn, ev.Key())
	if ev.Bool != nil {
		fmt.Fprintf(&sb, " ok=%v", *ev.Bool)
	}
	if len(ev.IDs) > 0 {
		fmt.Fprintf(&sb, " ids=%v", ev.IDs)
	}
	if len(ev.Handles) > 0 {
		sb.WriteString(" h=[")
		for i, h := range ev.Handles {
			if i > 0 {
				sb.WriteString(" ")
			}
			act := h.A
			if h.ActiveB {
				act = h.B
			}
			fmt.Fprintf(&sb, "lid%d:v%d:act%d:wip%d", h.Lid, h.Ver, act, h.Wip)
		}
		sb.WriteString("]")
	}
	if len(ev.Names) > 0 {
		ns := ev.Names
		if len(ns) > 3 {
			ns = ns[:3]
		}
		short := make([]string, len(ns))
		for i, n := range ns {
			if len(n) > 18 {
				n = n[:8] + ".." + n[len(n)-6:]
			}
			short[i] = n
		}
		fmt.Fprintf(&sb, " names(%d)=%v", len(ev.Names), short)
	}
	return sb.String()
}

// gate is Recorder.Before (and is called directly for API-level gates).
func (s *sched) gate(ev *sopx.Event) sopx.Action {
	w := s.ws[ev.Txn]
	if w == nil {
		return sopx.Proceed
	}
	if s.keep {
		s.mu.Lock()
		if len(s.trace) < 6000 {
			s.trace = append(s.trace, evLine(ev))
		}
		s.mu.Unlock()
	}
	if s.isFree() {
		return sopx.Proceed
	}
	w.mu.Lock()
	defer w.mu.Unlock()
	tk := &ticket{ev: ev, release: make(chan struct{})}
	select {
	case w.parked <- tk:
		select {
		case <-tk.release:
		case <-s.freeCh:
		}
	case <-s.freeCh:
	}
	return sopx.Proceed
}

// await waits until w is parked in front of its next call or has finished.
func (s *sched) await(w *wstate, d time.Duration) bool {
	if w.finished || w.pending != nil {
		return true
	}
	tm := time.NewTimer(d)
	defer tm.Stop()
	select {
	case tk := <-w.parked:
		w.pending = tk
		return true
	case <-w.done:
		w.finished = true
		return true
	case <-tm.C:
		return false
	}
}

// step releases the parked call of w and waits for the next one. false = w did not show up in
// time (it is inside the implementation, e.g. a RandomSleep of a retry loop).
func (s *sched) step(w *wstate, d time.Duration) bool {
	if !s.await(w, d) {
		return false
	}
	if w.finished {
		return true
	}
	tk := w.pending
	w.pending = nil
	close(tk.release)
	w.steps++
	return s.await(w, d)
}

func matchSpec(ev *sopx.Event, spec string) bool {
	parts := strings.Split(spec, "?")
	if ev.Key() != parts[0] {
		return false
	}
	for _, q := range parts[1:] {
		switch q {
		case "ok":
			if ev.Bool == nil || !*ev.Bool {
				return false
			}
		case "lock":
			if len(ev.Names) == 0 || !strings.HasPrefix(ev.Names[0], "lock:") {
				return false
			}
		case "n2":
			if len(ev.Handles) < 2 && len(ev.IDs) < 2 {
				return false
			}
		default:
			return false
		}
	}
	return true
}

const (
	shortStep = 150 * time.Millisecond // plain steps: longer than one sop.RandomSleep (20..80 ms)
	longStep  = 4 * time.Second        // "@" and "*" entries of deterministic scenarios
)

// runSchedule interprets the schedule; returns a description of where it got stuck ("" = fine).
func (s *sched) runSchedule(e *sopx.Env, schedule []string, deadline time.Time, entryBound time.Duration, count func(string)) string {
	for _, ent := range schedule {
		entryStart := time.Now()
		if time.Now().After(deadline) {
			return "deadline during " + ent
		}
		if ent == "!dropl2" {
			dropL2Handles(e)
			continue
		}
		label, n, until, star, occ := ent, 1, "", false, 1
		if k := strings.IndexByte(ent, '@'); k >= 0 {
			label, until = ent[:k], ent[k+1:]
			if j := strings.LastIndexByte(until, '+'); j >= 0 {
				occ, _ = strconv.Atoi(until[j+1:])
				until = until[:j]
			}
		} else if strings.HasSuffix(ent, "*") {
			label, star = strings.TrimSuffix(ent, "*"), true
		} else if k := strings.IndexByte(ent, '#'); k >= 0 {
			label = ent[:k]
			n, _ = strconv.Atoi(ent[k+1:])
		}
		w := s.ws[label]
		if w == nil {
			continue
		}
		d := shortStep
		if until != "" || star {
			d = longStep
		}
		if until != "" {
			// the call L is parked at right now counts as an occurrence only if L has not been asked
			// to go past it: first make sure it is parked
			if !s.await(w, d) {
				return "not parked: " + ent
			}
		}
		for k := 0; !w.finished; k++ {
			if until != "" {
				if w.pending != nil && matchSpec(w.pending.ev, until) {
					occ--
					if occ <= 0 {
						break
					}
				}
			} else if !star && k >= n {
				break
			}
			if k > 4000 || time.Now().After(deadline) {
				return "livelock " + ent
			}
			if entryBound > 0 && time.Since(entryStart) > entryBound {
				// a generated entry that waits for something which does not come (the transaction spins in a
				// retry loop behind a parked one): give the entry up, go on with the schedule
				count("sched.entry-abandoned")
				break
			}
			if !s.step(w, d) {
				if until != "" || star {
					return "blocked in " + ent
				}
				count("sched.step-timeout")
				break // plain step: move on to the next entry
			}
		}
		if until != "" && w.finished {
			count("sched.until-not-reached")
		}
	}
	return ""
}

func dropL2Handles(e *sopx.Env) {
	var keys []string
	for i := 1; ; i++ {
		u := e.Rec.Canon.UUID(i)
		if u.IsNil() {
			break
		}
		keys = append(keys, u.String())
	}
	if len(keys) > 0 {
		e.Cache.Delete(context.Background(), keys)
	}
}

// ---------------------------------------------------------------- one run

// Outcome is everything one run produced.
type Outcome struct {
	Hist          History
	FlipOrder     []int // committed ids by commit point = phase-2 flip (readers: last reg.Get of Commit)
	ValOrder      []int // committed ids by validation point = last reg.Get before sr.Update/plog.Add/flip
	HavePts       bool
	Stuck         string
	Timeout       bool
	SetupErr      string
	Errs          map[int]string // per transaction id: op / commit error text
	ErrKind       map[int]string
	Steps         int
	Trace         []string
	Layout        map[int]int // key -> canonical node number (debug / scenario assertions)
	Leaves        int
	FlipN         map[int]int // id -> number of handles in the phase-2 flip
	Events        int
	InProcDiffers bool
	SrvDiffers    bool // dump server and one-shot fresh process disagreed on the final content
	WallMs        int64
}

var runCounter atomic.Int64

const scratchRoot = "/var/tmp/C02"

func valStr(v int) string { return strconv.Itoa(v) }
func valOf(s string) int {
	n, err := strconv.Atoi(s)
	if err != nil || n < 0 {
		return 0 // never written by the harness: makes the history unexplainable
	}
	return n
}

func modeOf(m string) sop.TransactionMode {
	if m == "r" {
		return sop.ForReading
	}
	return sop.ForWriting
}

func errKind(msg string) string {
	switch {
	case msg == "":
		return ""
	case strings.Contains(msg, "detected conflict"):
		return "item-lock-conflict"
	case strings.Contains(msg, "can't attain a lock"):
		return "item-lock-lost"
	case strings.Contains(msg, "newer version"):
		return "refetch-newer-version"
	case strings.Contains(msg, "failed to find item"):
		return "refetch-item-gone"
	case strings.Contains(msg, "failed to merge add"):
		return "refetch-add-duplicate"
	case strings.Contains(msg, "failed to merge"):
		return "refetch-merge-failed"
	case strings.Contains(msg, "not for writing"):
		return "write-in-reader"
	case strings.Contains(msg, "timed out") || strings.Contains(msg, "timeout") || strings.Contains(msg, "Timeout"):
		return "timeout"
	case strings.Contains(msg, "retry limit"):
		return "retry-limit"
	}
	return "other"
}

// setupStore creates the store and commits the pre-population with one undecorated transaction.
func setupStore(ctx context.Context, e *sopx.Env, o sopx.StoreOpts, init []KV) error {
	t, err := e.NewTxn(ctx, sop.ForWriting, time.Minute, "setup", true)
	if err != nil {
		return err
	}
	if err = t.Begin(ctx); err != nil {
		return err
	}
	b, err := t.NewStore(ctx, o)
	if err != nil {
		return err
	}
	for _, kv := range init {
		if ok, err := b.Add(ctx, kv.K, valStr(kv.V)); err != nil || !ok {
			t.Rollback(ctx)
			return fmt.Errorf("setup add %d: ok=%v err=%v", kv.K, ok, err)
		}
	}
	return t.Commit(ctx)
}

// layoutOf decodes the committed nodes of the store from disk: key -> node number, number of leaves.
func layoutOf(folder, store string) (map[int]int, int) {
	raw, err := sopx.ReadRaw(folder)
	if err != nil || raw.Stores[store] == nil {
		return nil, 0
	}
	nodes := map[sop.UUID]*btree.Node[int, string]{}
	filepath.Walk(filepath.Join(folder, store), func(p string, info os.FileInfo, err error) error {
		if err != nil || info.IsDir() {
			return nil
		}
		id, perr := sop.ParseUUID(info.Name())
		if perr != nil {
			return nil
		}
		b, rerr := os.ReadFile(p)
		if rerr != nil {
			return nil
		}
		var n btree.Node[int, string]
		if json.Unmarshal(b, &n) == nil && len(n.Slots) > 0 {
			nodes[id] = &n
		}
		return nil
	})
	type hn struct {
		lid sop.UUID
		min int
		n   *btree.Node[int, string]
	}
	var hs []hn
	for _, h := range raw.Stores[store].Handles {
		if n := nodes[h.GetActiveID()]; n != nil && !h.IsDeleted {
			hs = append(hs, hn{h.LogicalID, n.Slots[0].Key, n})
		}
	}
	sort.Slice(hs, func(i, j int) bool { return hs[i].min < hs[j].min })
	out := map[int]int{}
	leaves := 0
	for i, x := range hs {
		leaf := true
		for _, c := range x.n.ChildrenIDs {
			if !c.IsNil() {
				leaf = false
			}
		}
		if leaf {
			leaves++
		}
		for _, s := range x.n.Slots {
			if !s.ID.IsNil() {
				out[s.Key] = i + 1
				if !leaf {
					out[s.Key] = -(i + 1) // negative: a node with children
				}
			}
		}
	}
	return out, leaves
}

// innerKeys: the keys that currently live in nodes with children.
func innerKeys(folder, store string) map[int]bool {
	out := map[int]bool{}
	lay, _ := layoutOf(folder, store)
	for k, n := range lay {
		if n < 0 {
			out[k] = true
		}
	}
	return out
}

func dumpKVs(d *sopx.Dump, store string) ([]KV, string) {
	if d.Err != "" {
		return nil, d.Err
	}
	sd := d.Stores[store]
	if sd == nil {
		return nil, "store missing from dump"
	}
	if sd.Err != "" {
		return nil, sd.Err
	}
	out := make([]KV, len(sd.Keys))
	for i := range sd.Keys {
		out[i] = KV{sd.Keys[i], valOf(sd.Vals[i])}
	}
	return out, ""
}

func kvsEqual(a, b []KV) bool {
	if len(a) != len(b) {
		return false
	}
	for i := range a {
		if a[i] != b[i] {
			return false
		}
	}
	return true
}

// doOp performs one API call and records the answer.
func doOp(ctx context.Context, b btree.BtreeInterface[int, string], op Op) (OpRec, error) {
	r := OpRec{Key: op.Key}
	switch op.Kind {
	case "get":
		r.Kind = "get"
		ok, err := b.Find(ctx, op.Key, false)
		if err != nil {
			return r, err
		}
		if !ok {
			return r, nil
		}
		v, err := b.GetCurrentValue(ctx)
		if err != nil {
			return r, err
		}
		r.Found, r.Val = true, valOf(v)
		return r, nil
	case "add":
		r.Kind, r.Val = "add", op.Val
		ok, err := b.Add(ctx, op.Key, valStr(op.Val))
		r.Ok = ok
		return r, err
	case "upd":
		r.Kind, r.Val = "upd", op.Val
		ok, err := b.Update(ctx, op.Key, valStr(op.Val))
		r.Ok = ok
		return r, err
	case "updcur":
		r.Kind, r.Val = "upd", op.Val
		ok, err := b.Find(ctx, op.Key, false)
		if err != nil || !ok {
			return r, err
		}
		ok, err = b.UpdateCurrentValue(ctx, valStr(op.Val))
		r.Ok = ok
		return r, err
	case "rem":
		r.Kind = "rem"
		ok, err := b.Remove(ctx, op.Key)
		r.Ok = ok
		return r, err
	}
	return r, fmt.Errorf("unknown op kind %q", op.Kind)
}

// ticker orders the COMPLETION of recorded calls (Event.Seq orders their issue; a gated call can
// be issued long before it is performed).
type ticker struct {
	mu   sync.Mutex
	n    int64
	done map[*sopx.Event]int64
}

func (t *ticker) now() int64 { t.mu.Lock(); defer t.mu.Unlock(); return t.n }
func (t *ticker) after(ev *sopx.Event) {
	t.mu.Lock()
	t.n++
	t.done[ev] = t.n
	t.mu.Unlock()
}

// execTxn is the body of one transaction goroutine.
func execTxn(ctx context.Context, e *sopx.Env, s *sched, tk *ticker, w *wstate, store string, maxTime time.Duration) {
	p := w.prog
	w.rec = TxnRec{ID: p.ID, Mode: p.Mode}
	defer close(w.done)
	defer func() {
		if r := recover(); r != nil {
			w.panicked = fmt.Sprint(r)
			w.rec.Committed = false
		}
	}()
	api := func(m string) { s.gate(&sopx.Event{Txn: p.Label, Iface: "api", Method: m, Seq: -1}) }
	api("begin")
	t, err := e.NewTxnDeep(ctx, modeOf(p.Mode), maxTime, p.Label)
	if err == nil {
		err = t.Begin(ctx)
	}
	if err != nil {
		w.beginErr = err.Error()
		return
	}
	b, err := t.OpenStore(ctx, store)
	if err != nil {
		w.beginErr = "open: " + err.Error()
		t.Rollback(ctx)
		return
	}
	for _, op := range p.Ops {
		api(op.Kind)
		r, err := doOp(ctx, b, op)
		if err != nil {
			// the B-tree wrapper has rolled the transaction back; nothing of a failed call is recorded
			w.opErr = fmt.Sprintf("%s %d: %v", op.Kind, op.Key, err)
			t.Rollback(ctx)
			return
		}
		w.rec.Ops = append(w.rec.Ops, r)
	}
	if p.End == "rollback" {
		api("rollback")
		if err := t.Rollback(ctx); err != nil {
			w.endErr = "rollback: " + err.Error()
		}
		return
	}
	api("commit")
	w.commitStart = tk.now()
	w.inCommit.Store(true)
	err = t.Commit(ctx)
	w.inCommit.Store(false)
	w.commitEnd = tk.now()
	if err != nil {
		w.endErr = err.Error()
		return
	}
	w.rec.Committed = true
}

// commitPoints computes, per committed transaction, the completion tick of its flip point and of
// its validation point.
func commitPoints(evs []*sopx.Event, tk *ticker, ws []*wstate) (flip, val map[int]int64, flipN map[int]int) {
	flip, val, flipN = map[int]int64{}, map[int]int64{}, map[int]int{}
	tk.mu.Lock()
	defer tk.mu.Unlock()
	for _, w := range ws {
		if !w.rec.Committed {
			continue
		}
		var flipT, writeT, lastGetAll int64 = -1, -1, -1
		var gets []int64
		for _, ev := range evs {
			if ev.Txn != w.prog.Label {
				continue
			}
			d, ok := tk.done[ev]
			if !ok || d <= w.commitStart {
				continue
			}
			switch {
			case ev.Iface == "reg" && ev.Method == "UpdateNoLocks" && ev.Bool != nil && *ev.Bool && ev.Err == "":
				flipT = d
				flipN[w.prog.ID] = len(ev.Handles)
				if writeT < 0 {
					writeT = d
				}
			case (ev.Iface == "sr" && ev.Method == "Update") || (ev.Iface == "plog" && ev.Method == "Add"):
				writeT = d // the last attempt counts: remember the latest, see below
			case ev.Iface == "reg" && ev.Method == "Get":
				gets = append(gets, d)
				lastGetAll = d
			}
		}
		// flip point
		switch {
		case flipT >= 0:
			flip[w.prog.ID] = flipT
		case lastGetAll >= 0:
			flip[w.prog.ID] = lastGetAll
		default:
			flip[w.prog.ID] = w.commitStart
		}
		// validation point: last reg.Get before the first of (sr.Update | plog.Add | flip) of the
		// FINAL attempt; those calls only happen after the retry loop has ended, so "before the
		// earliest such completion" is right
		bound := int64(-1)
		for _, ev := range evs {
			if ev.Txn != w.prog.Label {
				continue
			}
			d, ok := tk.done[ev]
			if !ok || d <= w.commitStart {
				continue
			}
			isW := (ev.Iface == "sr" && ev.Method == "Update") || (ev.Iface == "plog" && ev.Method == "Add") ||
				(ev.Iface == "reg" && ev.Method == "UpdateNoLocks" && ev.Bool != nil && *ev.Bool)
			if isW && (bound < 0 || d < bound) {
				bound = d
			}
		}
		v := int64(-1)
		for _, g := range gets {
			if (bound < 0 || g < bound) && g > v {
				v = g
			}
		}
		if v < 0 {
			v = w.commitStart
		}
		val[w.prog.ID] = v
	}
	return
}

func orderBy(m map[int]int64) []int {
	ids := make([]int, 0, len(m))
	for id := range m {
		ids = append(ids, id)
	}
	sort.Slice(ids, func(i, j int) bool {
		if m[ids[i]] != m[ids[j]] {
			return m[ids[i]] < m[ids[j]]
		}
		return ids[i] < ids[j]
	})
	return ids
}

// execRun performs one run in a fresh folder (a fresh store name: the process-global L1/L2 caches
// key store infos by name).
func execRun(in *Input, keepTrace bool, count func(string)) *Outcome {
	t0 := time.Now()
	out := &Outcome{Errs: map[int]string{}, ErrKind: map[int]string{}}
	n := runCounter.Add(1)
	dir := filepath.Join(scratchRoot, fmt.Sprintf("run-%d-%d", os.Getpid(), n))
	os.RemoveAll(dir)
	if err := os.MkdirAll(dir, 0o755); err != nil {
		out.SetupErr = err.Error()
		return out
	}
	defer os.RemoveAll(dir)
	folder := filepath.Join(dir, "db")
	ctx := context.Background()
	e, err := sopx.NewEnv(folder, in.HashMod)
	if err != nil {
		out.SetupErr = err.Error()
		return out
	}
	so := in.Store
	so.Name = fmt.Sprintf("c02p%dr%d", os.Getpid(), n)
	if err := setupStore(ctx, e, so, in.Init); err != nil {
		out.SetupErr = "setup: " + err.Error()
		return out
	}
	tSetup := time.Since(t0)
	out.Layout, out.Leaves = layoutOf(folder, so.Name)
	// h_init from a fresh OS process
	initKV, derr := dumpKVs(initSrv.dump(folder, in.HashMod), so.Name)
	if derr != "" {
		out.SetupErr = "init dump: " + derr
		return out
	}
	out.Hist.Init = initKV
	tInit := time.Since(t0)

	hist, stuck, timeout := execTxns(ctx, e, in, so.Name, keepTrace, count, out)
	out.Stuck, out.Timeout = stuck, timeout
	if timeout {
		out.WallMs = time.Since(t0).Milliseconds()
		return out
	}
	out.Hist.Txns = hist
	tTx := time.Since(t0)
	finalKV, derr := dumpKVs(finalSrv.dump(folder, in.HashMod), so.Name)
	if derr != "" {
		out.SetupErr = "final dump: " + derr
		return out
	}
	out.Hist.Final = finalKV
	if ok, _ := serializable(restrict(&out.Hist)); !ok {
		// a verdict that is going to be reported: confirm the final content with a one-shot fresh process
		if fk, ferr := dumpKVs(sopx.DumpFresh(folder, in.HashMod, false), so.Name); ferr == "" {
			if !kvsEqual(fk, finalKV) {
				out.SrvDiffers = true
				out.Hist.Final, finalKV = fk, fk
			}
		}
	}
	if ip, ierr := dumpKVs(sopx.DumpInProcess(ctx, folder, in.HashMod, false), so.Name); ierr != "" || !kvsEqual(ip, finalKV) {
		out.InProcDiffers = true
	}
	out.WallMs = time.Since(t0).Milliseconds()
	if os.Getenv("C02_TIMING") != "" {
		fmt.Fprintf(os.Stderr, "timing: setup %v init-dump %v txns %v final-dumps %v\n", tSetup, tInit-tSetup, tTx-tInit, time.Since(t0)-tTx)
	}
	return out
}

// execTxns runs the transactions of in on the store (already populated) and fills the commit
// points of out. Used by scheduled runs and by stress rounds.
func execTxns(ctx context.Context, e *sopx.Env, in *Input, store string, keepTrace bool, count func(string), out *Outcome) (hist []TxnRec, stuck string, timeout bool) {
	maxTime := time.Duration(in.MaxTimeMs) * time.Millisecond
	s := &sched{ws: map[string]*wstate{}, freeCh: make(chan struct{}), keep: keepTrace}
	if in.Free {
		s.openGates()
	}
	ws := make([]*wstate, len(in.Txns))
	for i := range in.Txns {
		ws[i] = &wstate{prog: &in.Txns[i], parked: make(chan *ticket), done: make(chan struct{})}
		s.ws[in.Txns[i].Label] = ws[i]
	}
	tk := &ticker{done: map[*sopx.Event]int64{}}
	e.Rec.Reset()
	e.Rec.Mute["plog.Remove"] = true // issued from task-runner goroutines of phase 2
	e.Rec.Mute["reg.Replicate"] = true
	e.Rec.Before = s.gate
	e.Rec.After = tk.after
	e.Rec.Arm()
	defer func() {
		e.Rec.Disarm()
		e.Rec.Before, e.Rec.After = nil, nil
	}()
	var start sync.WaitGroup
	barrier := make(chan struct{})
	for _, w := range ws {
		start.Add(1)
		go func(w *wstate) {
			start.Done()
			<-barrier
			execTxn(ctx, e, s, tk, w, store, maxTime)
		}(w)
	}
	start.Wait()
	close(barrier)
	deadline := time.Now().Add(maxTime*2 + 20*time.Second)
	if !in.Free {
		bound := time.Duration(0)
		if in.Kind != "corpus" {
			bound = 1500 * time.Millisecond
		}
		stuck = s.runSchedule(e, in.Schedule, deadline, bound, count)
	}
	s.openGates()
	for _, w := range ws {
		if w.finished {
			continue
		}
		d := time.Until(deadline)
		if d < time.Second {
			d = time.Second
		}
		tm := time.NewTimer(d)
		select {
		case <-w.done:
			w.finished = true
		case <-tm.C:
			timeout = true
		}
		tm.Stop()
	}
	if timeout {
		return nil, stuck, true
	}
	evs := e.Rec.Snapshot()
	out.Events = len(evs)
	for _, w := range ws {
		out.Steps += w.steps
		hist = append(hist, w.rec)
		msg := w.beginErr
		if msg == "" {
			msg = w.opErr
		}
		if msg == "" {
			msg = w.endErr
		}
		if w.panicked != "" {
			msg = "panic: " + w.panicked
		}
		if msg != "" {
			out.Errs[w.prog.ID] = msg
			out.ErrKind[w.prog.ID] = errKind(msg)
			if w.panicked != "" {
				out.ErrKind[w.prog.ID] = "panic"
			}
		}
	}
	flip, val, flipN := commitPoints(evs, tk, ws)
	out.FlipOrder, out.ValOrder, out.FlipN, out.HavePts = orderBy(flip), orderBy(val), flipN, true
	if keepTrace {
		s.mu.Lock()
		out.Trace = s.trace
		s.mu.Unlock()
	}
	return hist, stuck, false
}

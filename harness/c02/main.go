package main

import (
	"encoding/json"
	"fmt"
	"io"
	"log/slog"
	"os"
	"sort"
	"strings"
	"sync"
	"sync/atomic"
	"time"

	"verif/harness/hx"
)

// C02: successfully committed transactions are serializable.
//
// The harness runs small concurrent transaction programs on the real filesystem backend (sopx
// decorators: every storage / cache call of every transaction is recorded and can be gated), records
// per transaction the answers the API gave and whether Commit returned nil, reads the store before
// and after with a fresh OS process, decides serializability by brute force and hands the history
// and its own verdicts to the verified checker of History.v (cases.v).

func main() { hx.Main("c02", run) }

var debug = os.Getenv("C02_DEBUG") != ""

type runner struct {
	res   *hx.Result
	cfg   *hx.RunCfg
	start time.Time
	notes map[string]int
	mu    sync.Mutex
}

func (r *runner) count(k string) { r.mu.Lock(); r.res.Count(k); r.mu.Unlock() }

// runMany executes the inputs with a small worker pool (most of the wall time of a run is spent
// waiting for the two fresh-process dumps) and evaluates the outcomes IN INPUT ORDER, so the
// emitted cases and counts do not depend on which worker finished first. Inputs not started before
// `until` (wall clock since harness start) are dropped; the number evaluated is returned.
func (r *runner) runMany(ins []Input, par int, until time.Duration, each func(in *Input, out *Outcome, ok bool, sig string)) int {
	outs := make([]*Outcome, len(ins))
	var next atomic.Int64
	var wg sync.WaitGroup
	for w := 0; w < par; w++ {
		wg.Add(1)
		go func() {
			defer wg.Done()
			for {
				i := int(next.Add(1)) - 1
				if i >= len(ins) || (until > 0 && time.Since(r.start) > until) {
					return
				}
				outs[i] = execRun(&ins[i], debug, r.count)
			}
		}()
	}
	wg.Wait()
	n := 0
	for i := range ins {
		if outs[i] == nil {
			break
		}
		ok, sig := r.evaluate(&ins[i], outs[i])
		if debug {
			printOutcome(&ins[i], outs[i], ok, sig)
		}
		if each != nil {
			each(&ins[i], outs[i], ok, sig)
		}
		n++
	}
	return n
}

func (r *runner) note(format string, a ...any) {
	msg := fmt.Sprintf(format, a...)
	key := msg
	if len(key) > 60 {
		key = key[:60]
	}
	r.notes[key]++
	if r.notes[key] <= 2 && len(r.res.Notes) < 40 {
		r.res.Notes = append(r.res.Notes, msg)
	}
}

// evaluate applies the oracle to one finished run and emits its cases.
func (r *runner) evaluate(in *Input, out *Outcome) (verdict bool, sig string) {
	res := r.res
	pre := in.Kind
	if out.SetupErr != "" {
		r.count(pre + ".setup-error")
		r.note("%s %s: %s", in.Kind, in.Name, out.SetupErr)
		return true, ""
	}
	if out.Timeout {
		r.count("run.timeout")
		r.note("run abandoned by timeout: %s %s (stuck=%q)", in.Kind, in.Name, out.Stuck)
		return true, ""
	}
	if out.Stuck != "" {
		r.count("run.schedule-stuck")
		if in.Kind == "corpus" {
			r.note("corpus %s: schedule stuck: %s", in.Name, out.Stuck)
		}
	}
	h := restrict(&out.Hist)
	r.count(pre + ".runs")
	r.count(fmt.Sprintf("txns.per-run.%d", len(h.Txns)))
	if out.Leaves >= 0 {
		r.count(fmt.Sprintf("store.slot%d.leaves%d", in.Store.Slot, out.Leaves))
	} else {
		r.count(fmt.Sprintf("store.slot%d.evolving", in.Store.Slot))
	}
	if !in.Free {
		b := len(in.Schedule)
		switch {
		case b == 0:
			r.count("schedule.len.0")
		case b <= 5:
			r.count("schedule.len.1-5")
		case b <= 15:
			r.count("schedule.len.6-15")
		case b <= 40:
			r.count("schedule.len.16-40")
		default:
			r.count("schedule.len.41+")
		}
		st := out.Steps
		switch {
		case st <= 50:
			r.count("schedule.steps.0-50")
		case st <= 150:
			r.count("schedule.steps.51-150")
		default:
			r.count("schedule.steps.151+")
		}
	}
	ncommitted := 0
	for i, t := range h.Txns {
		p := in.Txns[i]
		r.count("mode." + map[string]string{"w": "writing", "r": "reading"}[t.Mode])
		if t.Mode == "w" && readOnlyProg(&p) {
			r.count("mode.writing-readonly-program")
		}
		for _, o := range t.Ops {
			k := "op." + o.Kind
			switch {
			case o.Kind == "get" && !o.Found:
				k += ".notfound"
			case o.Kind != "get" && !o.Ok:
				k += ".false"
			}
			r.count(k)
		}
		switch {
		case t.Committed:
			ncommitted++
			r.count("outcome.committed")
		case p.End == "rollback" && out.Errs[t.ID] == "":
			r.count("outcome.rolled-back")
		case len(t.Ops) < len(p.Ops):
			r.count("outcome.op-error." + out.ErrKind[t.ID])
		default:
			r.count("outcome.commit-error." + out.ErrKind[t.ID])
			if k := out.ErrKind[t.ID]; k != "other" && k != "timeout" && k != "panic" {
				r.count("conflict.observed")
			}
			if out.ErrKind[t.ID] == "other" || out.ErrKind[t.ID] == "panic" {
				r.note("unclassified commit error: %s", out.Errs[t.ID])
			}
		}
	}
	r.count(fmt.Sprintf("committed.per-run.%d", ncommitted))
	if out.SrvDiffers {
		r.count("final.dump-server-differs-from-one-shot-fresh-process")
		r.note("%s %s: dump server and one-shot fresh process disagree on the final content", in.Kind, in.Name)
	}
	if out.InProcDiffers {
		r.count("final.in-process-reader-differs-from-fresh-process")
		r.note("%s %s: in-process reader and fresh-process reader disagree on the final content", in.Kind, in.Name)
	}
	nt := nontrivial(h)
	if nt {
		r.count("run.nontrivial")
	}
	res.Seen(canon(h), nt)
	ok, _ := serializable(h)
	res.AddCase(fmt.Sprintf("SerCase %s %s", coqHistory(h), hx.CoqBool(ok)), in)
	if out.HavePts {
		fo := orderExplains(h, out.FlipOrder)
		vo := orderExplains(h, out.ValOrder)
		res.AddCase(fmt.Sprintf("OrderCase %s %s %s", coqHistory(h), coqIDs(out.FlipOrder), hx.CoqBool(fo)), in)
		res.AddCase(fmt.Sprintf("OrderCase %s %s %s", coqHistory(h), coqIDs(out.ValOrder), hx.CoqBool(vo)), in)
		cls := "gated"
		if in.Free {
			cls = "free"
		}
		if in.Widened {
			cls = "widened"
		}
		if ok && !fo {
			r.count("order.flip.commit-point-order-does-not-explain." + cls)
			r.note("flip order %v does not explain a serializable history: %s", out.FlipOrder, mustJSON(in))
		}
		if ok && !vo {
			r.count("order.validate.commit-point-order-does-not-explain." + cls)
			r.note("validation order %v does not explain a serializable history: %s", out.ValOrder, mustJSON(in))
		}
		if fo {
			r.count("order.flip.explains")
		}
		if vo {
			r.count("order.validate.explains")
		}
	}
	if ok {
		r.count("verdict.serializable")
		res.Sample(map[string]any{"kind": in.Kind, "name": in.Name, "history": h, "flip_order": out.FlipOrder})
		return true, ""
	}
	sig = classify(h, out.FlipOrder)
	r.count("verdict." + sig)
	what := fmt.Sprintf("%s %s: committed transactions are not serializable: %s flip-order=%v errors=%v", in.Kind, in.Name, coqHistory(h), out.FlipOrder, out.Errs)
	res.Fail(sig, what, in)
	return false, sig
}

func mustJSON(v any) string { b, _ := json.Marshal(v); return string(b) }

func readOnlyProg(p *TxnProg) bool {
	for _, o := range p.Ops {
		if o.Kind != "get" {
			return false
		}
	}
	return true
}

func (r *runner) runOne(in *Input) (*Outcome, bool, string) {
	out := execRun(in, debug, r.count)
	ok, sig := r.evaluate(in, out)
	if debug {
		printOutcome(in, out, ok, sig)
	}
	return out, ok, sig
}

func printOutcome(in *Input, out *Outcome, ok bool, sig string) {
	fmt.Fprintf(os.Stderr, "=== %s %s: serializable=%v sig=%q stuck=%q timeout=%v setupErr=%q wall=%dms steps=%d events=%d leaves=%d\n",
		in.Kind, in.Name, ok, sig, out.Stuck, out.Timeout, out.SetupErr, out.WallMs, out.Steps, out.Events, out.Leaves)
	var ks []int
	for k := range out.Layout {
		ks = append(ks, k)
	}
	sort.Ints(ks)
	var lay []string
	for _, k := range ks {
		lay = append(lay, fmt.Sprintf("%d:n%d", k, out.Layout[k]))
	}
	fmt.Fprintf(os.Stderr, "    layout %s\n", strings.Join(lay, " "))
	fmt.Fprintf(os.Stderr, "    %s\n    sched=%v\n    flip=%v val=%v flipN=%v errs=%v\n", coqHistory(restrict(&out.Hist)), in.Schedule, out.FlipOrder, out.ValOrder, out.FlipN, out.Errs)
	if os.Getenv("C02_TRACE") != "" {
		for _, l := range out.Trace {
			fmt.Fprintln(os.Stderr, "      ", l)
		}
	}
}

func run(cfg *hx.RunCfg) (*hx.Result, error) {
	res := hx.NewResult("C02")
	res.Imports = []string{"Lib.Bytes", "History", "Corr.C02"} // Lib.Bytes defines `mismatches`
	res.CaseType = "c02case"
	res.Checker = "c02_check"
	res.Rule = "one evaluation = one run: 2-4 (stress: 3-5) transactions, each in its own goroutine with its own B-tree handle, over one pre-populated unique int->string store on the filesystem backend (slot 4 / 12 keys = several leaf nodes, or slot 8 / few keys = one node); programs (get / add / update / remove mixes: read-modify-write, blind writes, read-only in ForReading and ForWriting mode, write-skew shapes over different leaves, multi-key readers against multi-node writers, 10-20 % rollbacks, some malformed reader programs that write; only ~15 % of the random runs may contain lookups that can fail - Get/Update/Remove of a possibly absent key, Add of a possibly present key - because those reproduce the known untracked-lookup defects without any special interleaving; in the other runs no operation can return not-found/false in any serial execution) and schedules come from the seed; tiers: deterministic named corpus (the known windows, gated at single storage/cache calls), scheduled runs (a schedule releases one gated call of one transaction at a time), unscheduled stress rounds; initial and final content are read by a fresh OS process; distinct = distinct recorded history (initial content, per transaction the calls with the answers given and the commit outcome, final content); non-trivial = at least two committed transactions touching a common key that one of them wrote"
	r := &runner{res: res, cfg: cfg, start: time.Now(), notes: map[string]int{}}
	os.MkdirAll(scratchRoot, 0o755)
	if !debug {
		// the implementation logs every retry / conflict at WARN level
		slog.SetDefault(slog.New(slog.NewTextHandler(io.Discard, nil)))
	}

	defer stopDumpServers()
	if cfg.Replay != "" {
		raw, err := os.ReadFile(cfg.Replay)
		if err != nil {
			return nil, err
		}
		var rp struct {
			Input Input `json:"input"`
		}
		if err := json.Unmarshal(raw, &rp); err != nil {
			return nil, err
		}
		in := rp.Input
		if in.Kind == "stress" {
			// a stress round is replayed as a free run over its recorded initial content
			in.Free = true
		}
		r.runOne(&in)
		return res, nil
	}

	// (a) corpus
	only := os.Getenv("C02_ONLY")
	rep := 1
	if v := os.Getenv("C02_REPEAT"); v != "" {
		fmt.Sscan(v, &rep)
	}
	var cs []Input
	for _, in := range corpus() {
		if only != "" && !strings.Contains(in.Name, only) {
			continue
		}
		for k := 0; k < rep; k++ {
			cs = append(cs, in)
		}
	}
	par := 3
	if v := os.Getenv("C02_PAR"); v != "" {
		fmt.Sscan(v, &par)
	}
	r.runMany(cs, par, 0, func(in *Input, out *Outcome, ok bool, sig string) {
		switch {
		case out.SetupErr != "" || out.Timeout:
			r.count("corpus.not-run")
		case in.Expect == "" && !ok:
			r.count("corpus.control-alarmed")
		case in.Expect != "" && ok:
			r.count("corpus.expected-finding-not-reproduced")
			r.note("corpus %s did not reproduce %s", in.Name, in.Expect)
		case in.Expect != "" && sig != in.Expect:
			r.count("corpus.other-signature")
			r.note("corpus %s: signature %s, expected %s", in.Name, sig, in.Expect)
		case in.Expect != "":
			r.count("corpus.finding-reproduced")
		default:
			r.count("corpus.control-serializable")
		}
	})
	if only != "" {
		return res, nil
	}
	// (b) scheduled runs, (c) stress
	r.scheduled()
	r.stress()
	return res, nil
}

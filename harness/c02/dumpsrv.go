package main

import (
	"bufio"
	"context"
	"encoding/json"
	"fmt"
	"io"
	"os"
	"os/exec"
	"strings"
	"sync"
	"time"

	"verif/harness/hx"
	"verif/harness/sopx"
)

// Cold-cache readers. sopx.DumpFresh starts one OS process per dump; under load that costs more than
// the run itself. A dump SERVER is a separate OS process that reads many databases, but every store
// at most ONCE: the process-global L1 cache (keyed by node / handle UUIDs) and its own in-memory L2
// (keyed by UUIDs and by store name) have never seen that store, which is all "fresh process" is
// needed for. There is one server for the initial contents and another one for the final contents, so
// no server ever reads the same store twice. Every NON-serializable verdict is re-checked with a real
// one-shot sopx.DumpFresh before it is reported (see execRun), and stress sessions, which dump the
// same store repeatedly, always use sopx.DumpFresh.

type dumpSrv struct {
	mu   sync.Mutex
	cmd  *exec.Cmd
	in   io.WriteCloser
	out  *bufio.Reader
	n    int
	dead bool
}

var (
	initSrv  = &dumpSrv{}
	finalSrv = &dumpSrv{}
)

func init() {
	hx.Children["c02dumpsrv"] = func(args []string) int {
		sc := bufio.NewScanner(os.Stdin)
		w := bufio.NewWriter(os.Stdout)
		for sc.Scan() {
			f := strings.SplitN(sc.Text(), "\t", 2)
			if len(f) != 2 {
				continue
			}
			var hm int
			fmt.Sscan(f[0], &hm)
			d := sopx.DumpInProcess(context.Background(), f[1], hm, false)
			b, _ := json.Marshal(d)
			w.Write(b)
			w.WriteByte('\n')
			w.Flush()
		}
		return 0
	}
}

func (s *dumpSrv) stop() {
	if s.cmd != nil {
		s.in.Close()
		done := make(chan struct{})
		go func() { s.cmd.Wait(); close(done) }()
		select {
		case <-done:
		case <-time.After(2 * time.Second):
			s.cmd.Process.Kill()
			<-done
		}
		s.cmd = nil
	}
}

func (s *dumpSrv) start() bool {
	cmd := exec.Command(os.Args[0], "child:c02dumpsrv")
	in, err := cmd.StdinPipe()
	if err != nil {
		return false
	}
	out, err := cmd.StdoutPipe()
	if err != nil {
		return false
	}
	if err := cmd.Start(); err != nil {
		return false
	}
	s.cmd, s.in, s.out, s.n = cmd, in, bufio.NewReaderSize(out, 1<<20), 0
	return true
}

// dump reads the database through the server; any trouble falls back to a one-shot fresh process.
func (s *dumpSrv) dump(folder string, hashMod int) *sopx.Dump {
	if os.Getenv("C02_NO_DUMPSRV") != "" {
		return sopx.DumpFresh(folder, hashMod, false)
	}
	s.mu.Lock()
	defer s.mu.Unlock()
	if s.dead {
		return sopx.DumpFresh(folder, hashMod, false)
	}
	if s.cmd != nil && s.n >= 300 { // bound the server's cache growth
		s.stop()
	}
	if s.cmd == nil && !s.start() {
		s.dead = true
		return sopx.DumpFresh(folder, hashMod, false)
	}
	s.n++
	type res struct {
		line []byte
		err  error
	}
	ch := make(chan res, 1)
	out := s.out
	go func() {
		if _, err := fmt.Fprintf(s.in, "%d\t%s\n", hashMod, folder); err != nil {
			ch <- res{nil, err}
			return
		}
		l, err := out.ReadBytes('\n')
		ch <- res{l, err}
	}()
	select {
	case r := <-ch:
		d := &sopx.Dump{}
		if r.err == nil && json.Unmarshal(r.line, d) == nil {
			return d
		}
	case <-time.After(30 * time.Second):
	}
	s.cmd.Process.Kill()
	s.stop()
	return sopx.DumpFresh(folder, hashMod, false)
}

func stopDumpServers() {
	for _, s := range []*dumpSrv{initSrv, finalSrv} {
		s.mu.Lock()
		s.stop()
		s.mu.Unlock()
	}
}

package main

import (
	"bytes"
	"context"
	"path/filepath"
	"encoding/binary"
	"encoding/json"
	"fmt"
	"hash/crc32"
	"math"
	"os"

	"github.com/sharedcode/sop"
	"github.com/sharedcode/sop/cache"
	"github.com/sharedcode/sop/encoding"
	"github.com/sharedcode/sop/fs"

	"verif/harness/hx"
)

// C24: handle codec and block layout. K1 value-level differential + direct oracle.

func main() { hx.Main("c24", runC24) }

func coqHandle(h sop.Handle) string {
	return fmt.Sprintf("(mkHandle %s %s %s %s %s %s %s)", hx.CoqBytes(h.LogicalID[:]), hx.CoqBytes(h.PhysicalIDA[:]), hx.CoqBytes(h.PhysicalIDB[:]),
		hx.CoqBool(h.IsActiveIDB), hx.CoqZ(int64(h.Version)), hx.CoqZ(h.WorkInProgressTimestamp), hx.CoqBool(h.IsDeleted))
}

func genUUID(r *hx.Rng) sop.UUID {
	var u sop.UUID
	switch r.Intn(6) {
	case 0: // nil
	case 1:
		for i := range u {
			u[i] = 0xff
		}
	case 2:
		u[r.Intn(16)] = byte(1 + r.Intn(255))
	default:
		copy(u[:], r.Bytes(16))
	}
	return u
}

var edge32 = []int32{0, 1, -1, math.MaxInt32, math.MinInt32, 255, 256, -256, 65535, 1 << 24}
var edge64 = []int64{0, 1, -1, math.MaxInt64, math.MinInt64, 255, 256, 1 << 32, -(1 << 32), 1 << 56, 1700000000000}

func genHandle(r *hx.Rng) sop.Handle {
	h := sop.Handle{LogicalID: genUUID(r), PhysicalIDA: genUUID(r), PhysicalIDB: genUUID(r), IsActiveIDB: r.Bool(), IsDeleted: r.Bool()}
	if r.Chance(50) {
		h.Version = hx.Pick(r, edge32)
	} else {
		h.Version = int32(r.U64())
	}
	if r.Chance(50) {
		h.WorkInProgressTimestamp = hx.Pick(r, edge64)
	} else {
		h.WorkInProgressTimestamp = int64(r.U64())
	}
	return h
}

type c24Input struct {
	Kind    string      `json:"kind"`
	Handle  *sop.Handle `json:"handle,omitempty"`
	Bytes   []int       `json:"bytes,omitempty"`
	HashMod int         `json:"hash_mod,omitempty"`
	ID      []int       `json:"id,omitempty"`
	Slot    int         `json:"slot,omitempty"`
}

func ints(b []byte) []int {
	o := make([]int, len(b))
	for i, x := range b {
		o[i] = int(x)
	}
	return o
}
func unints(b []int) []byte {
	o := make([]byte, len(b))
	for i, x := range b {
		o[i] = byte(x)
	}
	return o
}

// decodeSafe runs Unmarshal into a zero Handle, mapping error and panic to ok=false.
func decodeSafe(b []byte) (h sop.Handle, ok bool) {
	defer func() {
		if recover() != nil {
			ok = false
		}
	}()
	err := encoding.NewHandleMarshaler().Unmarshal(b, &h)
	return h, err == nil
}

func c24Encode(res *hx.Result, h sop.Handle) {
	m := encoding.NewHandleMarshaler()
	b, err := m.Marshal(h, make([]byte, 0, sop.HandleSizeInBytes))
	in := c24Input{Kind: "enc", Handle: &h}
	nontrivial := h.Version != 0 || h.WorkInProgressTimestamp != 0
	res.Seen(fmt.Sprintf("enc:%x", b), nontrivial)
	res.Count("enc")
	if h.Version < 0 {
		res.Count("enc.negative_version")
	}
	if h.WorkInProgressTimestamp < 0 {
		res.Count("enc.negative_wip")
	}
	// direct oracle: fixed size, round trip to an identical handle
	if err != nil || len(b) != sop.HandleSizeInBytes {
		res.Fail("encode-size", fmt.Sprintf("Marshal gave %d bytes, err=%v", len(b), err), in)
	}
	if h2, ok := decodeSafe(b); !ok || h2 != h {
		res.Fail("roundtrip", fmt.Sprintf("decode(encode(h)) = %+v ok=%v, want %+v", h2, ok, h), in)
	}
	res.AddCase(fmt.Sprintf("EncCase %s %s", coqHandle(h), hx.CoqBytes(b)), in)
	res.Sample(map[string]any{"kind": "enc", "handle": h, "bytes_hex": fmt.Sprintf("%x", b)})
}

func c24Decode(res *hx.Result, b []byte) {
	h, ok := decodeSafe(b)
	in := c24Input{Kind: "dec", Bytes: ints(b)}
	res.Seen(fmt.Sprintf("dec:%x", b), len(b) == sop.HandleSizeInBytes)
	if ok {
		res.Count("dec.ok")
	} else {
		res.Count("dec.error")
	}
	res.AddCase(fmt.Sprintf("DecCase %s %s", hx.CoqBytes(b), hx.CoqOpt(coqHandle(h), ok)), in)
}

func c24Offsets(res *hx.Result, hashMod int, id sop.UUID) {
	bo, ho := fs.VerifBlockOffsets(hashMod, id)
	hi, lo := id.Split()
	in := c24Input{Kind: "off", HashMod: hashMod, ID: ints(id[:])}
	res.Seen(fmt.Sprintf("off:%d:%x", hashMod, id[:]), hi != 0 || lo != 0)
	res.Count("off")
	S, B := int64(sop.HandleSizeInBytes), int64(fs.VerifBlockSize)
	// direct oracle: the slot is a whole slot inside the data area of one block
	if ho < 0 || ho%S != 0 || ho+S > B-4 || bo < 0 || bo%B != 0 || bo >= int64(hashMod)*B {
		res.Fail("offset-range", fmt.Sprintf("hashMod=%d id=%x block=%d slot=%d", hashMod, id[:], bo, ho), in)
	}
	res.AddCase(fmt.Sprintf("OffCase %s %s %s %s", hx.CoqZ(int64(hashMod)), hx.CoqBytes(id[:]), hx.CoqZ(bo), hx.CoqZ(ho)), in)
}

// c24Write: write an encoded handle into slot i of a random block the way
// writeBlockRegionPayload does (copy + marshalData), compare against the model
// and check locality directly.
func c24Write(res *hx.Result, r *hx.Rng, h sop.Handle, slot int) {
	B := fs.VerifBlockSize
	S := sop.HandleSizeInBytes
	block := make([]byte, B)
	// a populated block: a few other slots hold records
	for k := 0; k < 4; k++ {
		j := r.Intn(fs.VerifHandlesPerBlock)
		o, _ := encoding.NewHandleMarshaler().Marshal(genHandle(r), nil)
		copy(block[j*S:], o)
	}
	fs.VerifMarshalData(block[:B-4], block)
	before := append([]byte(nil), block...)
	data, _ := encoding.NewHandleMarshaler().Marshal(h, nil)
	copy(block[slot*S:slot*S+S], data)
	in := c24Input{Kind: "write", Handle: &h, Slot: slot}
	res.Seen(fmt.Sprintf("write:%d:%x", slot, data), true)
	res.Count("write")
	for k := 0; k < B; k++ {
		if (k < slot*S || k >= slot*S+S) && block[k] != before[k] {
			res.Fail("write-not-local", fmt.Sprintf("slot %d write changed byte %d", slot, k), in)
			break
		}
	}
	afterCopy := append([]byte(nil), block...)
	fs.VerifMarshalData(block[:B-4], block)
	if !bytes.Equal(block[:B-4], afterCopy[:B-4]) {
		res.Fail("crc-write-touches-slots", "marshalData changed the data area", in)
	}
	wantCRC := crc32.ChecksumIEEE(block[:B-4])
	if binary.LittleEndian.Uint32(block[B-4:]) != wantCRC {
		res.Fail("crc-position", "checksum not at [B-4,B)", in)
	}
	if _, err := fs.VerifUnmarshalData(block); err != nil {
		res.Fail("crc-position", "written block does not validate: "+err.Error(), in)
	}
	// correspondence: only the touched slot and the crc are sent (keeps cases.v small)
	res.AddCase(fmt.Sprintf("WriteCase %s %s %s %s %s", hx.CoqZ(int64(slot)), coqHandle(h), hx.CoqBytes(block[slot*S:slot*S+S]),
		hx.CoqZ(int64(B-4)), hx.CoqN(uint64(wantCRC))+" "+hx.CoqBytes(block[B-4:])), in)
}

// c24RegistryPath drives the REAL registry write path (fs.NewRegistry -> registryMap -> updateFileBlockRegion ->
// writeBlockRegionPayload / markDeleteFileRegion) on one block whose slots are populated with full-entropy ids, and
// after every Add / Update / Remove compares the raw block before and after: only the 62 bytes of the target slot and
// the 4 checksum bytes may differ, and the slot must hold exactly the encoded record (or zeroes after a removal).
func c24RegistryPath(res *hx.Result, r *hx.Rng, work string, round int) error {
	ctx := context.Background()
	base := filepath.Join(work, fmt.Sprintf("c24reg-%d", round))
	os.RemoveAll(base)
	tbl := "regtbl"
	if err := os.MkdirAll(filepath.Join(base, tbl), 0o755); err != nil {
		return err
	}
	defer os.RemoveAll(base)
	l2 := cache.NewL2InMemoryCache()
	rt, err := fs.NewReplicationTracker(ctx, []string{base}, false, l2)
	if err != nil {
		return err
	}
	reg := fs.NewRegistry(true, 1, rt, l2) // hash modulus 1: every id lands in block 0, ideal slot = low64 mod 66
	defer reg.Close()
	S, B := sop.HandleSizeInBytes, fs.VerifBlockSize
	seg := filepath.Join(base, tbl, tbl+"-1.reg")
	readBlock := func() []byte {
		b, err := os.ReadFile(seg)
		if err != nil || len(b) < B {
			return make([]byte, B)
		}
		return append([]byte(nil), b[:B]...)
	}
	idFor := func(slot int) sop.UUID {
		var u sop.UUID
		copy(u[:], r.Bytes(16))
		lo := binary.BigEndian.Uint64(u[8:])
		lo = lo - lo%uint64(fs.VerifHandlesPerBlock) + uint64(slot)
		binary.BigEndian.PutUint64(u[8:], lo)
		if u[0] == 0 {
			u[0] = 0xA5
		}
		if u[1] == 0 {
			u[1] = 0x5A
		}
		return u
	}
	// a run of adjacent slots (including the last slot of the block, whose neighbour is the checksum)
	start := r.Intn(fs.VerifHandlesPerBlock - 5)
	if round%3 == 0 {
		start = fs.VerifHandlesPerBlock - 5
	}
	var hs []sop.Handle
	for k := 0; k < 5; k++ {
		h := genHandle(r)
		h.LogicalID = idFor(start + k)
		hs = append(hs, h)
	}
	step := func(kind string, slot int, h sop.Handle, do func() error) {
		before := readBlock()
		err := do()
		after := readBlock()
		in := c24Input{Kind: "regpath:" + kind, Handle: &h, Slot: slot}
		res.Seen(fmt.Sprintf("regpath:%s:%d:%x", kind, slot, h.LogicalID[:]), true)
		res.Count("regpath." + kind)
		if err != nil {
			res.Fail("registry-write-error", fmt.Sprintf("%s of slot %d failed: %v", kind, slot, err), in)
			return
		}
		var diffs []int
		for i := 0; i < B; i++ {
			if before[i] != after[i] {
				diffs = append(diffs, i)
			}
		}
		for _, i := range diffs {
			if (i < slot*S || i >= slot*S+S) && i < B-4 {
				res.Fail("registry-write-not-local", fmt.Sprintf("%s of slot %d changed byte %d (slot %d) of the block", kind, slot, i, i/S), in)
				break
			}
		}
		want := make([]byte, S)
		if kind != "remove" {
			want, _ = encoding.NewHandleMarshaler().Marshal(h, nil)
		}
		if !bytes.Equal(after[slot*S:slot*S+S], want) {
			res.Fail("registry-slot-content", fmt.Sprintf("after %s slot %d does not hold the expected record", kind, slot), in)
		}
		if _, err := fs.VerifUnmarshalData(after); err != nil {
			res.Fail("crc-position", "block written by the registry does not validate: "+err.Error(), in)
		}
		offs := make([]string, len(diffs))
		for i, d := range diffs {
			offs[i] = hx.CoqZ(int64(d))
		}
		res.AddCase(fmt.Sprintf("RegPathCase %s %s", hx.CoqZ(int64(slot)), hx.CoqList(offs)), in)
	}
	pay := func(h sop.Handle) []sop.RegistryPayload[sop.Handle] {
		return []sop.RegistryPayload[sop.Handle]{{RegistryTable: tbl, IDs: []sop.Handle{h}}}
	}
	for k, h := range hs {
		h := h
		step("add", start+k, h, func() error { return reg.Add(ctx, pay(h)) })
	}
	for _, k := range []int{1, 3} {
		h := hs[k]
		h.Version++
		h.PhysicalIDB = genUUID(r)
		hs[k] = h
		step("update", start+k, h, func() error { return reg.UpdateNoLocks(ctx, false, pay(h)) })
	}
	for _, k := range []int{2, 0, 4} {
		h := hs[k]
		step("remove", start+k, h, func() error {
			return reg.Remove(ctx, []sop.RegistryPayload[sop.UUID]{{RegistryTable: tbl, IDs: []sop.UUID{h.LogicalID}}})
		})
	}
	return nil
}

func runC24(cfg *hx.RunCfg) (*hx.Result, error) {
	res := hx.NewResult("C24")
	res.Imports = []string{"Lib.Bytes", "Gen.HandleCodec", "Layout", "Corr.C24"}
	res.CaseType = "c24case"
	res.Checker = "c24_check"
	res.Rule = "seeded generation of handles (edge values for ids/version/timestamp/flags, random otherwise), raw 62-byte and short/long buffers for decode, ids x hash modulus for offsets, slot writes into populated blocks; distinct = distinct canonical input bytes; non-trivial = non-zero numeric fields / full-length buffer / non-nil id"
	if cfg.Replay != "" {
		raw, err := os.ReadFile(cfg.Replay)
		if err != nil {
			return nil, err
		}
		var rp struct {
			Input c24Input `json:"input"`
		}
		if err := json.Unmarshal(raw, &rp); err != nil {
			return nil, err
		}
		in := rp.Input
		r := hx.NewRng(cfg.Seed)
		switch in.Kind {
		case "enc":
			c24Encode(res, *in.Handle)
		case "dec":
			c24Decode(res, unints(in.Bytes))
		case "off":
			var id sop.UUID
			copy(id[:], unints(in.ID))
			c24Offsets(res, in.HashMod, id)
		case "write":
			c24Write(res, r, *in.Handle, in.Slot)
		}
		return res, nil
	}
	n := cfg.N
	if n == 0 {
		n = 1200
		if cfg.Tier == "thorough" {
			n = 12000
		}
	}
	r := hx.NewRng(cfg.Seed)
	// exhaustive edge grid first (corpus-like), then random
	for _, v := range edge32 {
		for _, w := range edge64 {
			c24Encode(res, sop.Handle{LogicalID: genUUID(r), Version: v, WorkInProgressTimestamp: w, IsActiveIDB: v%2 == 0, IsDeleted: w%2 == 0})
		}
	}
	for i := 0; i < n; i++ {
		switch k := r.Intn(10); {
		case k < 4:
			c24Encode(res, genHandle(r))
		case k < 6:
			b := r.Bytes(sop.HandleSizeInBytes)
			if r.Chance(50) { // mostly-valid: an encoded handle with flag bytes perturbed
				b, _ = encoding.NewHandleMarshaler().Marshal(genHandle(r), nil)
				b[48] = byte(r.Intn(4))
				b[61] = byte(r.Intn(4))
			}
			c24Decode(res, b)
		case k < 7: // malformed stream: wrong lengths
			c24Decode(res, r.Bytes(hx.Pick(r, []int{0, 1, 15, 16, 17, 47, 48, 49, 52, 53, 60, 61, 63, 70, 124})))
		case k < 9:
			c24Offsets(res, hx.Pick(r, []int{1, 2, 3, 7, 250, 251, 750000}), genUUID(r))
		default:
			c24Write(res, r, genHandle(r), r.Intn(fs.VerifHandlesPerBlock))
		}
	}
	for s := 0; s < fs.VerifHandlesPerBlock; s++ { // every slot index
		c24Write(res, r, genHandle(r), s)
	}
	work := os.Getenv("VERIF_WORK")
	if work == "" {
		work = cfg.Out
	}
	rounds := 12
	if cfg.Tier == "thorough" {
		rounds = 120
	}
	for k := 0; k < rounds; k++ {
		if err := c24RegistryPath(res, r, work, k); err != nil {
			return nil, err
		}
	}
	return res, nil
}

// Package cx runs small concurrent-writer programs (C04 / C05) on the real
// filesystem backend: every writer commits in its own goroutine and is gated at
// interface-call granularity (sopx decorators) by a schedule, so interleavings
// are deterministic and replayable. One program = one child OS process (fresh
// process-global caches, hard timeout).
package cx

import (
	"context"
	"encoding/json"
	"fmt"
	"os"
	"os/exec"
	"path/filepath"
	"strconv"
	"strings"
	"sync"
	"time"

	"github.com/sharedcode/sop"
	"github.com/sharedcode/sop/btree"

	"verif/harness/hx"
	"verif/harness/sopx"
)

// Op is one B-tree call of a writer. Kinds: add | addne (AddIfNotExist) | upsert |
// update | updkey (UpdateKey) | remove | get (Find + GetCurrentValue).
type Op struct {
	Kind string `json:"k"`
	Key  int    `json:"key"`
	Val  int    `json:"v"` // the stored value is "v<Val>"
}

type KV struct {
	Key int `json:"key"`
	Val int `json:"v"`
}

// Writer is one writer transaction. After != "" : it begins (and runs its ops)
// only when the schedule says "begin:<label>"; otherwise at program start.
type Writer struct {
	Label    string `json:"label"`
	Ops      []Op   `json:"ops"`
	Deferred bool   `json:"deferred,omitempty"`
	After    []int  `json:"after,omitempty"` // indices of writers whose Commit had returned when this one began (filled by the runner for deferred writers)
}

// Program is one replayable run.
//
// Schedule entries: "W" one gated interface call of W's Commit; "W#n" n calls;
// "W*" until W's Commit returns; "W@iface.Method" until W is parked in front of
// that call (or done); "W@iface.Method+k" the same, k-th occurrence from now (k>=1);
// "begin:W" begin a deferred writer and run its ops. When the schedule is
// exhausted all gates open (free run).
type Program struct {
	Store     sopx.StoreOpts `json:"store"`
	HashMod   int            `json:"hash_mod"`
	NoStore   bool           `json:"no_store,omitempty"` // the store is not created by the setup transaction: writers call NewBtree
	Init      []KV           `json:"init"`               // committed by a setup transaction before the writers begin
	Writers   []Writer       `json:"writers"`
	Schedule  []string       `json:"schedule"`
	Free      bool           `json:"free,omitempty"` // no gating at all: plain goroutines
	MaxTimeMs int            `json:"max_time_ms"`
	CtxMs     int            `json:"ctx_ms,omitempty"` // unused (kept so that old replay files parse)
	Note      string         `json:"note,omitempty"`
}

type WOut struct {
	OpRes     []bool `json:"op_res"`
	OpErr     string `json:"op_err,omitempty"`
	BeginErr  string `json:"begin_err,omitempty"`
	CommitErr string `json:"commit_err,omitempty"`
	Committed bool   `json:"committed"`
	Merges    int    `json:"merges"` // refetch-and-merge rounds (sr.GetWithTTL calls during Commit)
	Steps     int    `json:"steps"`  // gated calls performed
	Began     bool   `json:"began"`
	After     []int  `json:"after,omitempty"`
	// some refetch-and-merge round started while the item lock records of the writer's previous
	// lockTrackedItems were still in the cache (entered through a failed node-key Lock/DualLock, not a rollback)
	LockFailMerge bool `json:"lock_fail_merge,omitempty"`
	Cancelled     bool `json:"cancelled,omitempty"` // stalled alone (blocked inside registry.Add): its context was cancelled
}

type Outcome struct {
	W        []WOut   `json:"w"`
	SetupErr string   `json:"setup_err,omitempty"`
	Stuck    string   `json:"stuck,omitempty"`
	Trace    []string `json:"trace,omitempty"`
	Folder   string   `json:"folder"`
	WallMs   int64    `json:"wall_ms"`
	// filled by the parent
	Dump     *sopx.StoreDump `json:"dump,omitempty"`
	DumpErr  string          `json:"dump_err,omitempty"`
	ChildErr string          `json:"child_err,omitempty"`
}

func ValStr(v int) string { return "v" + strconv.Itoa(v) }
func ValOf(s string) int {
	n, err := strconv.Atoi(strings.TrimPrefix(s, "v"))
	if err != nil || !strings.HasPrefix(s, "v") {
		return -1
	}
	return n
}

// ---------------------------------------------------------------- scheduler

type wstate struct {
	label    string
	idx      int
	mu       sync.Mutex // one goroutine of a writer in the gate at a time
	parked   chan *sopx.Event
	resume   chan struct{}
	done     chan struct{}
	pending  *sopx.Event
	started  bool
	finished bool
	inCommit bool
	running  bool // inside a call that blocks (see blockAfter)
	cancel   context.CancelFunc
	lockFail bool // the last gated call was a node-key Lock/DualLock that returned false
	itemLocks bool // lockTrackedItems was logged and no itemActionTracker.unlock (l2.Delete of "lock:" keys) seen since
	txn      *sopx.Txn
	store    btree.BtreeInterface[int, string]
}

type sched struct {
	mu    sync.Mutex
	free  bool
	ws    map[string]*wstate
	trace []string
}

func (s *sched) isFree() bool { s.mu.Lock(); defer s.mu.Unlock(); return s.free }

// rec appends one call to the trace at the moment the call is let through (NOT when the writer parks in
// front of it: a parked call is performed only when the schedule resumes the writer, possibly much later).
// Under the gate only one writer runs at a time, so this is the order in which the calls take effect; calls
// let through in free mode race and are marked.
func (s *sched) rec(ev *sopx.Event) {
	s.mu.Lock()
	if len(s.trace) < 4000 {
		if s.free {
			s.trace = append(s.trace, ev.Txn+" "+ev.Key()+" free")
		} else {
			s.trace = append(s.trace, ev.Txn+" "+ev.Key())
		}
	}
	s.mu.Unlock()
}

func (s *sched) before(ev *sopx.Event) sopx.Action {
	s.mu.Lock()
	w := s.ws[ev.Txn]
	free := s.free
	s.mu.Unlock()
	if w == nil || !w.inCommit {
		return sopx.Proceed
	}
	if free {
		s.rec(ev)
		return sopx.Proceed
	}
	w.mu.Lock()
	defer w.mu.Unlock()
	for {
		if s.isFree() {
			s.rec(ev)
			return sopx.Proceed
		}
		select {
		case w.parked <- ev:
			<-w.resume
			s.rec(ev)
			return sopx.Proceed
		case <-time.After(50 * time.Millisecond):
		}
	}
}

const stepTimeout = 12 * time.Second

// common/transactionlogger.go: commit function enum (unknown, createStore, lockTrackedItems, ...)
const stepLockTrackedItems = 2

// wait until w parks again or finishes; false = stuck inside a call
func (s *sched) await(w *wstate) bool {
	select {
	case ev := <-w.parked:
		w.pending = ev
		return true
	case <-w.done:
		w.finished = true
		w.pending = nil
		return true
	case <-time.After(stepTimeout):
		return false
	}
}

// a call that does not return within blockAfter (registry.Add spinning on an occupied slot) keeps running in
// the background; the schedule goes on with the other writers and picks this one up again once it parks
const blockAfter = 1500 * time.Millisecond

func (s *sched) poll(w *wstate) bool {
	select {
	case ev := <-w.parked:
		w.pending, w.running = ev, false
		return true
	case <-w.done:
		w.finished, w.running, w.pending = true, false, nil
		return true
	default:
		return false
	}
}

func (s *sched) step(w *wstate) bool {
	if w.finished || !w.started {
		return true
	}
	if w.running && !s.poll(w) {
		return true
	}
	if w.finished {
		return true
	}
	w.resume <- struct{}{}
	w.pending = nil
	select {
	case ev := <-w.parked:
		w.pending = ev
	case <-w.done:
		w.finished = true
	case <-time.After(blockAfter):
		w.running = true
	}
	return true
}

func (s *sched) openGates() {
	s.mu.Lock()
	s.free = true
	s.mu.Unlock()
	for _, w := range s.ws {
		if w.started && !w.finished && w.pending != nil && !w.running {
			// parked (or about to block on resume right after the park handshake)
			select {
			case w.resume <- struct{}{}:
			case <-time.After(3 * time.Second):
			}
			w.pending = nil
		}
	}
}

// ---------------------------------------------------------------- program execution (child side)

func doOp(ctx context.Context, b btree.BtreeInterface[int, string], op Op) (bool, error) {
	switch op.Kind {
	case "add":
		return b.Add(ctx, op.Key, ValStr(op.Val))
	case "addne":
		return b.AddIfNotExist(ctx, op.Key, ValStr(op.Val))
	case "upsert":
		return b.Upsert(ctx, op.Key, ValStr(op.Val))
	case "update":
		return b.Update(ctx, op.Key, ValStr(op.Val))
	case "updkey":
		return b.UpdateKey(ctx, op.Key)
	case "remove":
		return b.Remove(ctx, op.Key)
	case "get":
		ok, err := b.Find(ctx, op.Key, false)
		if err != nil || !ok {
			return ok, err
		}
		_, err = b.GetCurrentValue(ctx)
		return true, err
	}
	return false, fmt.Errorf("unknown op %q", op.Kind)
}

// Exec runs the program in this process.
func Exec(p *Program, folder string) *Outcome {
	t0 := time.Now()
	out := &Outcome{W: make([]WOut, len(p.Writers)), Folder: folder}
	ctx := context.Background()
	e, err := sopx.NewEnv(folder, p.HashMod)
	if err != nil {
		out.SetupErr = err.Error()
		return out
	}
	maxTime := time.Duration(p.MaxTimeMs) * time.Millisecond
	// setup transaction (not decorated)
	if !p.NoStore {
		t, err := e.NewTxn(ctx, sop.ForWriting, time.Minute, "setup", true)
		if err == nil {
			err = t.Begin(ctx)
		}
		if err == nil {
			var b btree.BtreeInterface[int, string]
			b, err = t.NewStore(ctx, p.Store)
			for _, kv := range p.Init {
				if err != nil {
					break
				}
				_, err = b.Add(ctx, kv.Key, ValStr(kv.Val))
			}
			if err == nil {
				err = t.Commit(ctx)
			}
		}
		if err != nil {
			out.SetupErr = err.Error()
			return out
		}
	}
	s := &sched{ws: map[string]*wstate{}, free: p.Free}
	ws := make([]*wstate, len(p.Writers))
	for i, w := range p.Writers {
		ws[i] = &wstate{label: w.Label, idx: i, parked: make(chan *sopx.Event), resume: make(chan struct{}), done: make(chan struct{})}
		s.ws[w.Label] = ws[i]
	}
	e.Rec.Mute["plog.Remove"] = true // issued from task-runner goroutines of phase 2
	e.Rec.Mute["reg.Replicate"] = true
	e.Rec.Before = s.before
	e.Rec.After = func(ev *sopx.Event) {
		s.mu.Lock()
		if w := s.ws[ev.Txn]; w != nil && w.inCommit {
			switch {
			case ev.Iface == "sr" && ev.Method == "GetWithTTL":
				out.W[w.idx].Merges++
				if w.itemLocks {
					// cause, read off the trace: this refetch round starts while the lock records written by the
					// writer's previous lockTrackedItems are still in the cache (no rollback deleted them)
					out.W[w.idx].LockFailMerge = true
				}
			case ev.Iface == "tlog" && ev.Method == "Add" && ev.Step == stepLockTrackedItems:
				w.itemLocks = true
			case ev.Iface == "l2" && ev.Method == "Delete" && len(ev.Names) > 0 && strings.HasPrefix(ev.Names[0], "lock:"):
				w.itemLocks = false // itemActionTracker.unlock (rollback or end of commit)
			case ev.Iface == "l2" && (ev.Method == "Lock" || ev.Method == "DualLock") && ev.Bool != nil && !*ev.Bool:
				w.lockFail = true
				if len(s.trace) < 4000 {
					s.trace = append(s.trace, ev.Txn+" =lock-failed")
				}
			}
		}
		s.mu.Unlock()
	}
	e.Rec.Arm()

	begin := func(i int) {
		w, o := ws[i], &out.W[i]
		for j := range ws {
			if j != i && ws[j].finished {
				o.After = append(o.After, j)
			}
		}
		t, err := e.NewTxn(ctx, sop.ForWriting, maxTime, w.label, false)
		if err == nil {
			err = t.Begin(ctx)
		}
		if err != nil {
			o.BeginErr = err.Error()
			return
		}
		o.Began = true
		w.txn = t
		var b btree.BtreeInterface[int, string]
		if p.NoStore {
			b, err = t.NewStore(ctx, p.Store)
		} else {
			b, err = t.OpenStore(ctx, p.Store.Name)
		}
		if err != nil {
			o.OpErr = "open: " + err.Error()
			return
		}
		w.store = b
		for _, op := range p.Writers[i].Ops {
			ok, err := doOp(ctx, b, op)
			o.OpRes = append(o.OpRes, ok)
			if err != nil {
				o.OpErr = fmt.Sprintf("%s %d: %v", op.Kind, op.Key, err)
				break
			}
		}
	}
	commit := func(i int) {
		w, o := ws[i], &out.W[i]
		if w.txn == nil || o.OpErr != "" {
			w.finished = true
			if w.txn != nil {
				w.txn.Rollback(ctx)
			}
			return
		}
		s.mu.Lock()
		w.inCommit = true
		s.mu.Unlock()
		w.started = true
		cctx, cancel := context.WithCancel(ctx)
		w.cancel = cancel
		go func() {
			defer cancel()
			err := w.txn.Commit(cctx)
			if err != nil {
				o.CommitErr = err.Error()
			} else {
				o.Committed = true
			}
			s.mu.Lock()
			w.inCommit = false
			s.mu.Unlock()
			close(w.done)
		}()
	}

	for i, w := range p.Writers {
		if !w.Deferred {
			begin(i)
		}
	}
	stuck := func(what string) {
		if out.Stuck == "" {
			out.Stuck = what
		}
		s.openGates()
	}
	if p.Free {
		for i, w := range p.Writers {
			if !w.Deferred {
				commit(i)
			}
		}
	} else {
		// start the commit goroutines one at a time; each parks in front of its first call
		for i, w := range p.Writers {
			if !w.Deferred {
				commit(i)
				if ws[i].started && !s.await(ws[i]) {
					stuck("start " + w.Label)
				}
			}
		}
	sch:
		for _, ent := range p.Schedule {
			if s.isFree() {
				break
			}
			if strings.HasPrefix(ent, "begin:") {
				w := s.ws[strings.TrimPrefix(ent, "begin:")]
				if w != nil && !w.started && w.txn == nil {
					begin(w.idx)
					commit(w.idx)
					if w.started && !s.await(w) {
						stuck(ent)
					}
				}
				continue
			}
			label, n, until, star := ent, 1, "", false
			occ := 1
			if k := strings.IndexByte(ent, '@'); k >= 0 {
				label, until = ent[:k], ent[k+1:]
				if j := strings.IndexByte(until, '+'); j >= 0 {
					occ, _ = strconv.Atoi(until[j+1:])
					until = until[:j]
				}
			} else if strings.HasSuffix(ent, "*") {
				label, star = strings.TrimSuffix(ent, "*"), true
			} else if k := strings.IndexByte(ent, '#'); k >= 0 {
				label = ent[:k]
				n, _ = strconv.Atoi(ent[k+1:])
			}
			w := s.ws[label]
			if w == nil || !w.started {
				continue
			}
			for k := 0; !w.finished; k++ {
				if until != "" {
					if w.pending != nil && w.pending.Key() == until {
						occ--
						if occ <= 0 {
							break
						}
					}
				} else if !star && k >= n {
					break
				}
				if k > 3000 {
					stuck("livelock " + ent)
					break sch
				}
				if !s.step(w) {
					stuck("blocked in " + ent)
					break sch
				}
				if w.running {
					break // blocked inside a call: leave it there, go on with the schedule
				}
				out.W[w.idx].Steps++
				s.mu.Lock()
				lf := w.lockFail
				w.lockFail = false
				s.mu.Unlock()
				if lf && (until != "" || star) {
					break // W cannot get its node locks before somebody else moves: do not starve it against its maxTime
				}
			}
		}
		s.openGates()
	}
	// deferred writers never begun by the schedule run now (free mode)
	for i, w := range p.Writers {
		if w.Deferred && ws[i].txn == nil && !ws[i].started {
			begin(i)
			commit(i)
		}
	}
	// Wait for the writers. A writer that lost the first-root race spins inside registry.Add for 3 minutes
	// (fs.lockSectorRetryTimeoutDuration); it is recognised by its cause, not by a deadline: every other writer
	// has returned or is in the same state, and nobody has returned for stallAfter. Its context is then
	// cancelled (what a client giving up does); the commit returns the cancellation error.
	const stallAfter = 8 * time.Second
	hard := time.After(time.Duration(p.MaxTimeMs+60000) * time.Millisecond)
	cancelled := false
wait:
	for {
		var pending []*wstate
		for i := range ws {
			if ws[i].started && !ws[i].finished {
				select {
				case <-ws[i].done:
					ws[i].finished = true
				default:
					pending = append(pending, ws[i])
				}
			}
		}
		if len(pending) == 0 {
			break
		}
		cases := make(chan struct{}, len(pending))
		stop := make(chan struct{})
		for _, w := range pending {
			go func(w *wstate) {
				select {
				case <-w.done:
					cases <- struct{}{}
				case <-stop:
				}
			}(w)
		}
		select {
		case <-cases:
			close(stop)
		case <-time.After(stallAfter):
			close(stop)
			if cancelled {
				if out.Stuck == "" {
					out.Stuck = "writer " + pending[0].label + " did not return after its context was cancelled"
				}
				break wait
			}
			cancelled = true
			for _, w := range pending {
				out.W[w.idx].Cancelled = true
				w.cancel()
			}
		case <-hard:
			close(stop)
			if out.Stuck == "" {
				out.Stuck = "writer " + pending[0].label + " did not return"
			}
			break wait
		}
	}
	e.Rec.Disarm()
	s.mu.Lock()
	out.Trace = s.trace
	s.mu.Unlock()
	out.WallMs = time.Since(t0).Milliseconds()
	return out
}

// ---------------------------------------------------------------- child / parent plumbing

func init() {
	hx.Children["cxrun"] = func(args []string) int {
		if len(args) < 2 {
			return 2
		}
		raw, err := os.ReadFile(args[0])
		if err != nil {
			return 2
		}
		var p Program
		if err := json.Unmarshal(raw, &p); err != nil {
			return 2
		}
		out := Exec(&p, args[1])
		b, _ := json.Marshal(out)
		os.Stdout.Write(b)
		return 0
	}
}

var Scratch = "/var/tmp/c04/run"

var runSeq struct {
	sync.Mutex
	n int
}

// Run executes the program in a child process and dumps the store from a further fresh process. A run whose
// child process could not be started, was killed by the wall-clock guard or produced no parsable output is an
// environment failure (machine load), not an observation of sop: it is repeated up to twice before it is reported.
func Run(p *Program, keepTrace bool) *Outcome {
	var o *Outcome
	for try := 0; try < 3; try++ {
		o = runOnce(p, keepTrace)
		if o.ChildErr == "" {
			return o
		}
	}
	return o
}

func runOnce(p *Program, keepTrace bool) *Outcome {
	runSeq.Lock()
	runSeq.n++
	n := runSeq.n
	runSeq.Unlock()
	os.MkdirAll(Scratch, 0o755)
	dir, err := os.MkdirTemp(Scratch, fmt.Sprintf("p%d-%d-", os.Getpid(), n))
	if err != nil {
		return &Outcome{ChildErr: err.Error()}
	}
	defer os.RemoveAll(dir)
	db := filepath.Join(dir, "db")
	pf := filepath.Join(dir, "prog.json")
	q := *p
	if q.Store.Name == "" {
		q.Store.Name = fmt.Sprintf("s%dx%d", os.Getpid(), n)
	}
	b, _ := json.Marshal(&q)
	os.WriteFile(pf, b, 0o644)
	cmd := exec.Command(os.Args[0], "child:cxrun", pf, db)
	var stderr strings.Builder
	cmd.Stderr = &stderr
	done := make(chan struct{})
	var outb []byte
	var cerr error
	go func() { outb, cerr = cmd.Output(); close(done) }()
	select {
	case <-done:
	case <-time.After(time.Duration(q.MaxTimeMs+90000) * time.Millisecond):
		cmd.Process.Kill()
		<-done
		return &Outcome{ChildErr: "child killed after timeout"}
	}
	out := &Outcome{}
	if cerr != nil {
		// head and tail: a panic inside sop is classified by the frames of the panicking goroutine (at the head)
		se := stderr.String()
		if len(se) > 4200 {
			se = se[:3600] + "\n…\n" + se[len(se)-600:]
		}
		out.ChildErr = fmt.Sprintf("%v: %s", cerr, se)
		return out
	}
	if err := json.Unmarshal(outb, out); err != nil {
		out.ChildErr = "child output: " + err.Error() + ": " + tail(string(outb), 300)
		return out
	}
	if !keepTrace {
		out.Trace = nil
	}
	d := sopx.DumpFresh(db, q.HashMod, true)
	if d.Err != "" {
		out.DumpErr = d.Err
	}
	if sd, ok := d.Stores[q.Store.Name]; ok {
		out.Dump = sd
	} else if d.Err == "" {
		out.DumpErr = "store missing from the fresh-process dump"
	}
	return out
}

func tail(s string, n int) string {
	if len(s) > n {
		return s[len(s)-n:]
	}
	return s
}

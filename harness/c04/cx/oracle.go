package cx

import (
	"encoding/json"
	"fmt"
	"os"
	"regexp"
	"sort"
	"strings"
	"sync"

	"verif/harness/hx"
)

// Fail is one oracle failure.
type Fail struct{ Sig, What string }

func describe(p *Program, o *Outcome) string {
	var sb strings.Builder
	fmt.Fprintf(&sb, "%s slot=%d unique=%v in_node=%v init=%d;", p.Note, p.Store.Slot, p.Store.Unique, p.Store.InNode, len(p.Init))
	for i, w := range p.Writers {
		if i >= len(o.W) {
			fmt.Fprintf(&sb, " %s%v (no outcome);", w.Label, w.Ops)
			continue
		}
		fmt.Fprintf(&sb, " %s%v committed=%v merges=%d", w.Label, w.Ops, o.W[i].Committed, o.W[i].Merges)
		if o.W[i].CommitErr != "" {
			fmt.Fprintf(&sb, " err=%q", tail(o.W[i].CommitErr, 120))
		}
		sb.WriteString(";")
	}
	fmt.Fprintf(&sb, " read back %v", DumpKV(o))
	if o.Dump != nil {
		fmt.Fprintf(&sb, " count=%d", o.Dump.Count)
	}
	return sb.String()
}

// SopPanicInMerge: the child died of the nil dereference in btree.getCurrentItem reached from
// refetchAndMergeModifications (the replay of a writer's actions on the refetched tree).
func SopPanicInMerge(o *Outcome) bool {
	e := o.ChildErr
	return strings.Contains(e, "nil pointer dereference") && strings.Contains(e, "getCurrentItem") && strings.Contains(e, "refetchAndMerge")
}

func firstLines(s string, n int) string {
	ls := strings.Split(s, "\n")
	if len(ls) > n {
		ls = ls[:n]
	}
	return strings.Join(ls, " | ")
}

func runTrouble(o *Outcome) string {
	switch {
	case o.ChildErr != "":
		return "child: " + o.ChildErr
	case o.SetupErr != "":
		return "setup: " + o.SetupErr
	}
	for _, w := range o.W {
		if w.BeginErr != "" {
			return "begin: " + w.BeginErr
		}
		if w.OpErr != "" {
			return "op: " + w.OpErr
		}
	}
	return ""
}

// CheckC04 is the direct oracle of C04 for a program with pairwise disjoint writer key sets: every Commit
// returns nil and a fresh process reads exactly the union of the changes. A deviation is classified into
// one of the reproduced defect classes only if it is exactly what that class produces on this input.
func CheckC04(p *Program, o *Outcome) []Fail {
	if SopPanicInMerge(o) {
		return []Fail{{"merge-nil-deref-in-getCurrentItem", "the committing process died: " + firstLines(o.ChildErr, 3) + "; " + describe(p, o)}}
	}
	if t := runTrouble(o); t != "" {
		return []Fail{{"c04:run-error", t + "; " + describe(p, o)}}
	}
	init := InitMap(p)
	ideal := InitMap(p)
	for i := range p.Writers {
		want := ApplyOps(ideal, p.Writers[i].Ops)
		if !p.Writers[i].Deferred {
			loc := InitMap(p)
			want = ApplyOps(loc, p.Writers[i].Ops)
			if fmt.Sprint(want) != fmt.Sprint(o.W[i].OpRes) {
				return []Fail{{"c04:call-result", fmt.Sprintf("writer %s call results %v, expected %v; %s", p.Writers[i].Label, o.W[i].OpRes, want, describe(p, o))}}
			}
		}
	}
	all := true
	for _, w := range o.W {
		all = all && w.Committed
	}
	dumpOK := o.DumpErr == "" && o.Dump != nil && o.Dump.Err == ""
	if all && dumpOK && EqKV(DumpKV(o), SortedKV(ideal)) && o.Stuck == "" {
		return nil
	}
	// ---- something is off: classify
	_, racers := RootSched(p, o)
	if len(p.Init) == 0 && racers >= 2 {
		return []Fail{{"first-root-race", describe(p, o)}}
	}
	if !dumpOK {
		return []Fail{{"c04:unreadable", fmt.Sprintf("dump error %q %v; %s", o.DumpErr, o.Dump, describe(p, o))}}
	}
	if o.Stuck != "" {
		return []Fail{{"c04:stuck", o.Stuck + "; " + describe(p, o)}}
	}
	classes := map[string]bool{}
	exp := InitMap(p)
	for i := range p.Writers {
		w, wo := &p.Writers[i], &o.W[i]
		pat := PatternOf(w, init)
		if !wo.Committed {
			switch {
			case wo.Merges >= 1 && pat.UpdateThenRemove && strings.Contains(wo.CommitErr, "detected a newer version of item"):
				classes["merge-update-then-remove"] = true
			case wo.Merges >= 1 && pat.RemoveThenAdd && strings.Contains(wo.CommitErr, "failed to merge add item"):
				classes["merge-remove-then-add"] = true
			case wo.Merges >= 1 && pat.GetThenShift && strings.Contains(wo.CommitErr, "failed to find item"):
				classes["merge-get-then-shift"] = true
			case wo.LockFailMerge && pat.ChangesExisting && strings.Contains(wo.CommitErr, "call detected conflict"):
				classes["merge-self-item-lock-conflict"] = true
			case wo.Merges >= 1 && pat.RemovesExisting && namesSuccessorOfRemoved(w, init, addedByOthers(p, i), wo.CommitErr):
				// the replay looks for (or finds changed) the SUCCESSOR of a key this writer removed
				classes["remove-inner-item-tracks-successor"] = true
			case !wo.LockFailMerge && strings.Contains(wo.CommitErr, "call detected conflict") && successorClash(p, init, i):
				// item-lock conflict between a writer that removed k (tracked as succ(k)) and one that touches succ(k)
				classes["remove-inner-item-tracks-successor"] = true
			case wo.Merges >= 1 && len(p.Init) == 0 && strings.Contains(wo.CommitErr, "failed to merge add item"):
				classes["first-root-visible-before-children"] = true
			default:
				return []Fail{{"c04:commit-failed", fmt.Sprintf("writer %s: %s; %s", w.Label, tail(wo.CommitErr, 200), describe(p, o))}}
			}
			continue
		}
		before := map[int]int{}
		for k, v := range exp {
			before[k] = v
		}
		ApplyOps(exp, w.Ops)
		switch {
		case wo.Merges >= 2 && p.Store.InNode && pat.HasAdd:
			// the adds are dropped by the second refetch-and-merge round
			firstAdd := firstAdds(w, before)
			hit := false
			for k := range firstAdd {
				if _, ok := exp[k]; ok {
					delete(exp, k)
					hit = true
				}
			}
			if hit {
				classes["double-merge-lost-add"] = true
			}
		case wo.Merges >= 1 && pat.RemovesExisting && !EqKV(DumpKV(o), SortedKV(exp)):
			// which removals hit the successor is decided by the tree shape: accept exactly the contents in which,
			// for some of this writer's removals, the next greater key went instead
			got := map[int]int{}
			for _, kv := range DumpKV(o) {
				got[kv.Key] = kv.Val
			}
			for _, op := range w.Ops {
				if op.Kind != "remove" {
					continue
				}
				if v, had := before[op.Key]; had {
					if _, still := got[op.Key]; still {
						succ, found := 0, false
						for k := range before {
							if k > op.Key && (!found || k < succ) {
								succ, found = k, true
							}
						}
						if _, succThere := got[succ]; found && !succThere {
							exp[op.Key] = v
							delete(exp, succ)
							classes["remove-inner-item-tracks-successor"] = true
						}
					}
				}
			}
		case wo.Merges >= 1 && pat.AddThenUpdate:
			for k, v := range firstAdds(w, before) {
				if cur, ok := exp[k]; ok && cur != v {
					exp[k] = v
					classes["merge-add-then-update"] = true
				}
			}
		}
	}
	if !EqKV(DumpKV(o), SortedKV(exp)) {
		return []Fail{{"c04:contents", fmt.Sprintf("expected %v; %s", SortedKV(ideal), describe(p, o))}}
	}
	if len(classes) == 0 {
		return []Fail{{"c04:contents", fmt.Sprintf("expected %v; %s", SortedKV(ideal), describe(p, o))}}
	}
	var cs []string
	for c := range classes {
		cs = append(cs, c)
	}
	sort.Strings(cs)
	// several writers of one program can each run into a different reproduced defect; the outcome above was
	// required to be exactly what the SET of classes produces, so every class is reported under its own signature
	var fs []Fail
	for _, c := range cs {
		what := describe(p, o)
		if len(cs) > 1 {
			what = "(together with " + strings.Join(cs, ", ") + ") " + what
		}
		fs = append(fs, Fail{c, what})
	}
	return fs
}

var keyInErr = regexp.MustCompile(`with key (-?\d+)`)

func succOf(k int, m map[int]int) (int, bool) {
	succ, found := 0, false
	for x := range m {
		if x > k && (!found || x < succ) {
			succ, found = x, true
		}
	}
	return succ, found
}

// removedExisting: the keys of items that existed before and that the writer removes.
func removedExisting(w *Writer, init map[int]int) []int {
	m := map[int]int{}
	for k, v := range init {
		m[k] = v
	}
	var out []int
	for _, op := range w.Ops {
		if _, has := init[op.Key]; op.Kind == "remove" && has {
			if _, still := m[op.Key]; still {
				out = append(out, op.Key)
			}
		}
		ApplyOps(m, []Op{op})
	}
	return out
}

// namesSuccessorOfRemoved: the merge error names the key that follows a key this writer removed.
func namesSuccessorOfRemoved(w *Writer, init map[int]int, others []int, errText string) bool {
	if !(strings.Contains(errText, "failed to find item") || strings.Contains(errText, "detected a newer version")) {
		return false
	}
	m := keyInErr.FindStringSubmatch(errText)
	if m == nil {
		return false
	}
	var named int
	fmt.Sscan(m[1], &named)
	for _, k := range removedExisting(w, init) {
		if s, ok := succOf(k, init); ok && s == named {
			return true
		}
	}
	// the replay runs on a REFETCHED tree: there the key that follows a removed key can be one that another
	// writer added in the meantime (it is then the first key above k that is an initial key or such an added key,
	// with no initial key in between)
	for _, k := range removedExisting(w, init) {
		if named <= k {
			continue
		}
		between := false
		for x := range init {
			if x > k && x < named {
				between = true
			}
		}
		if between {
			continue
		}
		for _, a := range others {
			if a == named {
				return true
			}
		}
	}
	return false
}

// addedByOthers: keys the other writers of the program insert.
func addedByOthers(p *Program, i int) []int {
	var out []int
	for j := range p.Writers {
		if j == i {
			continue
		}
		for _, op := range p.Writers[j].Ops {
			if op.Kind == "add" || op.Kind == "addne" || op.Kind == "upsert" {
				out = append(out, op.Key)
			}
		}
	}
	return out
}

// successorClash: writer i is one of two writers A != B where A removes an existing key k and B touches succ(k).
func successorClash(p *Program, init map[int]int, i int) bool {
	for a := range p.Writers {
		for _, k := range removedExisting(&p.Writers[a], init) {
			s, ok := succOf(k, init)
			if !ok {
				continue
			}
			for b := range p.Writers {
				if b == a || (i != a && i != b) {
					continue
				}
				for _, op := range p.Writers[b].Ops {
					if op.Key == s && op.Kind != "add" && op.Kind != "addne" {
						return true
					}
				}
			}
		}
	}
	return false
}

// firstAdds: keys this writer inserts (absent before) -> the value of the inserting call.
func firstAdds(w *Writer, before map[int]int) map[int]int {
	m := map[int]int{}
	for k, v := range before {
		m[k] = v
	}
	out := map[int]int{}
	for _, op := range w.Ops {
		_, has := m[op.Key]
		switch op.Kind {
		case "add", "addne", "upsert":
			if !has {
				m[op.Key] = op.Val
				if _, dup := out[op.Key]; !dup {
					out[op.Key] = op.Val
				}
			} else if op.Kind == "upsert" {
				m[op.Key] = op.Val
			}
		case "update":
			if has {
				m[op.Key] = op.Val
			}
		case "remove":
			delete(m, op.Key)
		}
	}
	return out
}

// CheckC05 is the direct oracle of C05: the ordered scan of a unique store never shows two equal keys
// (forward and backward), whatever happened to the commits.
func CheckC05(p *Program, o *Outcome) []Fail {
	if SopPanicInMerge(o) {
		return nil // the writers' process died inside sop (a C04/C07 finding): nothing was observed about uniqueness
	}
	if t := runTrouble(o); t != "" {
		return []Fail{{"c05:run-error", t + "; " + describe(p, o)}}
	}
	if o.Dump == nil {
		return []Fail{{"c05:unreadable", o.DumpErr + "; " + describe(p, o)}}
	}
	ks := o.Dump.Keys
	for i := 1; i < len(ks); i++ {
		if ks[i] == ks[i-1] {
			return []Fail{{"c05:duplicate-key", fmt.Sprintf("key %d twice in the ordered scan; %s", ks[i], describe(p, o))}}
		}
		if ks[i] < ks[i-1] {
			return []Fail{{"c05:unordered", describe(p, o)}}
		}
	}
	bk := o.Dump.Back
	for i := 1; i < len(bk); i++ {
		if bk[i] == bk[i-1] {
			return []Fail{{"c05:duplicate-key", fmt.Sprintf("key %d twice in the backward scan; %s", bk[i], describe(p, o))}}
		}
	}
	if o.Dump.Err != "" || o.DumpErr != "" {
		_, racers := RootSched(p, o)
		if len(p.Init) == 0 && racers >= 2 {
			return nil // the first-root race (C04 finding) can leave the store unreadable; no duplicate was observed
		}
		return []Fail{{"c05:unreadable", o.Dump.Err + o.DumpErr + "; " + describe(p, o)}}
	}
	return nil
}

// ---------------------------------------------------------------- driver shared by the two binaries

type Job struct {
	P       *Program
	Bucket  string
	NoModel bool // do not hand to the model (outside its scope)
}

// RunAll executes jobs on `workers` child processes in parallel, results in job order.
func RunAll(jobs []Job, workers int, keepTrace bool) []*Outcome {
	outs := make([]*Outcome, len(jobs))
	var wg sync.WaitGroup
	ch := make(chan int)
	for w := 0; w < workers; w++ {
		wg.Add(1)
		go func() {
			defer wg.Done()
			for i := range ch {
				outs[i] = Run(jobs[i].P, keepTrace)
			}
		}()
	}
	for i := range jobs {
		ch <- i
	}
	close(ch)
	wg.Wait()
	return outs
}

func canon(p *Program, o *Outcome) string {
	q := *p
	q.Store.Name = ""
	b, _ := json.Marshal(&q)
	var sb strings.Builder
	sb.Write(b)
	for _, w := range o.W {
		fmt.Fprintf(&sb, "|%v %v %d", w.OpRes, w.Committed, w.Merges)
	}
	fmt.Fprintf(&sb, "|%v", DumpKV(o))
	return sb.String()
}

// Record files one run into the result: coverage counts, the correspondence case, oracle failures.
func Record(res *hx.Result, j Job, o *Outcome, check func(*Program, *Outcome) []Fail) {
	RecordWith(res, j, o, check, CoqCase)
}

// RecordWith is Record with a custom case printer.
func RecordWith(res *hx.Result, j Job, o *Outcome, check func(*Program, *Outcome) []Fail, printer func(*Program, *Outcome) string) {
	p := j.P
	merged, failed := 0, 0
	for _, w := range o.W {
		if w.Merges > 0 {
			merged++
		}
		if !w.Committed {
			failed++
		}
	}
	// non-trivial: at least two writers reached Commit and at least one of them had to refetch and merge, or a commit failed
	res.Seen(canon(p, o), len(o.W) >= 2 && (merged > 0 || failed > 0))
	res.Count("shape." + j.Bucket)
	res.Count(fmt.Sprintf("writers.%d", len(p.Writers)))
	res.Count(fmt.Sprintf("slot.%d", p.Store.Slot))
	res.Count(fmt.Sprintf("merged_writers.%d", merged))
	res.Count(fmt.Sprintf("failed_commits.%d", failed))
	if p.Free {
		res.Count("unscheduled")
	}
	if o.WallMs > 3000 {
		res.Count("slow_over_3s")
		if os.Getenv("CX_DEBUG") != "" {
			b, _ := json.Marshal(p)
			fmt.Fprintf(os.Stderr, "SLOW %dms stuck=%q %s\n", o.WallMs, o.Stuck, b)
		}
	}
	if o.Stuck != "" {
		res.Count("stuck")
	}
	for _, w := range o.W {
		if w.Merges >= 2 {
			res.Count("writer_with_2plus_merges")
		}
		for _, k := range []string{"newer version", "failed to merge add", "failed to find item", "detected conflict", "deadline", "timed out"} {
			if strings.Contains(w.CommitErr, k) {
				res.Count("commit_err." + strings.ReplaceAll(k, " ", "_"))
			}
		}
	}
	for _, w := range p.Writers {
		for _, op := range w.Ops {
			res.Count("op." + op.Kind)
		}
	}
	res.Sample(map[string]any{"program": p, "writers": o.W, "read_back": DumpKV(o)})
	for _, f := range check(p, o) {
		res.Count("oracle_failure." + f.Sig)
		res.Fail(f.Sig, f.What, p)
	}
	term := ""
	if Usable(o) && len(o.W) == len(p.Writers) && !j.NoModel {
		term = printer(p, o)
	}
	if term != "" && term != "U5 ()" {
		res.AddCase(term, p)
	} else {
		res.Count("not_modelled")
	}
}

// LoadReplay reads the program of a replay file.
func LoadReplay(path string) (*Program, error) {
	raw, err := os.ReadFile(path)
	if err != nil {
		return nil, err
	}
	var rp struct {
		Input Program `json:"input"`
	}
	if err := json.Unmarshal(raw, &rp); err != nil {
		return nil, err
	}
	rp.Input.Store.Name = ""
	return &rp.Input, nil
}

// OutsideModel: the pointer a get entry keeps into the node's slot array (and what it aliases after a later
// insertion/removal in that node) is not modelled.
func OutsideModel(p *Program) bool {
	init := InitMap(p)
	adds, removes := 0, false
	for i := range p.Writers {
		pat := PatternOf(&p.Writers[i], init)
		if pat.GetThenShift {
			return true
		}
		if pat.RemoveThenAdd { // whether the replay fails depends on Go's map iteration order: oracle only
			return true
		}
		removes = removes || pat.RemovesExisting
		for _, op := range p.Writers[i].Ops {
			if op.Kind == "add" || op.Kind == "addne" || op.Kind == "upsert" {
				adds++
			}
		}
	}
	// values outside the node: two writers that change the value of the SAME existing item write the same value
	// blob in place before either commit is decided (a failed writer's value can be what is read back; reported
	// to the owners of C03/C19) -- not an item-level effect the model has
	if !p.Store.InNode {
		upd := map[int]int{}
		for i := range p.Writers {
			seen := map[int]bool{}
			for _, op := range p.Writers[i].Ops {
				if _, has := init[op.Key]; has && !seen[op.Key] && (op.Kind == "update" || op.Kind == "upsert" || op.Kind == "updkey") {
					seen[op.Key] = true
					upd[op.Key]++
				}
			}
		}
		for _, n := range upd {
			if n >= 2 {
				return true
			}
		}
	}
	// a removed item may sit in an inner node unless the store is certainly one leaf
	if removes && len(p.Init)+adds > EffSlot(p) {
		return true
	}
	return false
}

package cx

import (
	"fmt"
	"sort"
	"strings"

	"verif/harness/hx"
)

// ---------------------------------------------------------------- reference semantics (plain map) for the oracle

// ApplyOps runs ops on a key->value map the way a single sequential client would see them
// (unique keys; non-unique stores are only generated with fresh keys). Returns the call results.
func ApplyOps(m map[int]int, ops []Op) []bool {
	var res []bool
	for _, o := range ops {
		_, has := m[o.Key]
		switch o.Kind {
		case "add", "addne":
			if has {
				res = append(res, false)
			} else {
				m[o.Key] = o.Val
				res = append(res, true)
			}
		case "upsert":
			m[o.Key] = o.Val
			res = append(res, true)
		case "update":
			if has {
				m[o.Key] = o.Val
			}
			res = append(res, has)
		case "updkey", "get":
			res = append(res, has)
		case "remove":
			delete(m, o.Key)
			res = append(res, has)
		}
	}
	return res
}

// EffSlot: sop.NewStoreInfo rounds an odd slot length down.
func EffSlot(p *Program) int { return p.Store.Slot - p.Store.Slot%2 }

func InitMap(p *Program) map[int]int {
	m := map[int]int{}
	for _, kv := range p.Init {
		m[kv.Key] = kv.Val
	}
	return m
}

func SortedKV(m map[int]int) []KV {
	var out []KV
	for k, v := range m {
		out = append(out, KV{k, v})
	}
	sort.Slice(out, func(i, j int) bool { return out[i].Key < out[j].Key })
	return out
}

func DumpKV(o *Outcome) []KV {
	var out []KV
	if o.Dump == nil {
		return nil
	}
	for i, k := range o.Dump.Keys {
		out = append(out, KV{k, ValOf(o.Dump.Vals[i])})
	}
	return out
}

func EqKV(a, b []KV) bool {
	if len(a) != len(b) {
		return false
	}
	for i := range a {
		if a[i] != b[i] {
			return false
		}
	}
	return true
}

// KeysOf returns the keys a writer's ops mention.
func KeysOf(w *Writer) map[int]bool {
	m := map[int]bool{}
	for _, o := range w.Ops {
		m[o.Key] = true
	}
	return m
}

// Disjoint reports whether the writers' key sets are pairwise disjoint.
func Disjoint(p *Program) bool {
	seen := map[int]int{}
	for i := range p.Writers {
		for k := range KeysOf(&p.Writers[i]) {
			if j, ok := seen[k]; ok && j != i {
				return false
			}
			seen[k] = i
		}
	}
	return true
}

// ---------------------------------------------------------------- per-writer op patterns (known defect classes)

func isWrite(k string) bool {
	return k == "add" || k == "addne" || k == "upsert" || k == "update" || k == "updkey" || k == "remove"
}

// Patterns of one writer's op list that the merge replay is known to mishandle.
type Pattern struct {
	AddThenUpdate    bool // add k ... update/upsert/updkey k (k added by this writer)
	UpdateThenRemove bool // update k ... remove k (k existed before)
	RemoveThenAdd    bool // remove k ... add k
	GetThenShift     bool // get k ... add/remove of another key afterwards
	HasAdd           bool
	TwiceSameKey     bool // any key written twice
	ChangesExisting  bool // updates / re-keys / removes an item that existed before
	RemovesExisting  bool
	RemovedExisting  int // number of removals of items that existed before
}

func PatternOf(w *Writer, init map[int]int) Pattern {
	var p Pattern
	m := map[int]int{}
	for k, v := range init {
		m[k] = v
	}
	added, updated, removed, got := map[int]bool{}, map[int]bool{}, map[int]bool{}, false
	written := map[int]bool{}
	for _, o := range w.Ops {
		_, has := m[o.Key]
		if isWrite(o.Kind) && written[o.Key] {
			p.TwiceSameKey = true
		}
		switch o.Kind {
		case "add", "addne":
			if !has {
				if removed[o.Key] {
					p.RemoveThenAdd = true
				}
				if got {
					p.GetThenShift = true
				}
				added[o.Key] = true
				p.HasAdd = true
				m[o.Key] = o.Val
				written[o.Key] = true
			}
		case "upsert", "update", "updkey":
			if has {
				if added[o.Key] {
					p.AddThenUpdate = true
				} else {
					updated[o.Key] = true
					p.ChangesExisting = true
				}
				if o.Kind != "updkey" {
					m[o.Key] = o.Val
				}
				written[o.Key] = true
			} else if o.Kind == "upsert" {
				if removed[o.Key] {
					p.RemoveThenAdd = true
				}
				if got {
					p.GetThenShift = true
				}
				added[o.Key] = true
				p.HasAdd = true
				m[o.Key] = o.Val
				written[o.Key] = true
			}
		case "remove":
			if has {
				if updated[o.Key] {
					p.UpdateThenRemove = true
				}
				if got {
					p.GetThenShift = true
				}
				if !added[o.Key] {
					removed[o.Key] = true
					p.ChangesExisting = true
					p.RemovesExisting = true
					p.RemovedExisting++
				}
				delete(added, o.Key)
				delete(m, o.Key)
				written[o.Key] = true
			}
		case "get":
			if has && !added[o.Key] && !updated[o.Key] {
				got = true
			}
		}
	}
	return p
}

// ---------------------------------------------------------------- Coq printing

var coqKind = map[string]string{"add": "OAdd", "addne": "OAddNE", "upsert": "OUpsert", "update": "OUpdate", "updkey": "OUpdKey", "remove": "ORemove", "get": "OGet"}

func coqKVs(l []KV) string {
	var xs []string
	for _, kv := range l {
		xs = append(xs, fmt.Sprintf("(%s,%d)", hx.CoqZ(int64(kv.Key)), kv.Val))
	}
	return hx.CoqList(xs)
}

func coqWriters(p *Program, o *Outcome) string {
	var ws []string
	for i, w := range p.Writers {
		var ops, res, after []string
		for _, op := range w.Ops {
			ops = append(ops, fmt.Sprintf("(%s,%s,%d)", coqKind[op.Kind], hx.CoqZ(int64(op.Key)), op.Val))
		}
		for _, b := range o.W[i].OpRes {
			res = append(res, hx.CoqBool(b))
		}
		for _, a := range o.W[i].After {
			after = append(after, hx.CoqNat(a))
		}
		ws = append(ws, fmt.Sprintf("mkWC %s %s %s %s %s %s", hx.CoqList(ops), hx.CoqList(res), hx.CoqBool(o.W[i].Committed), hx.CoqNat(o.W[i].Merges), hx.CoqList(after), hx.CoqBool(o.W[i].LockFailMerge)))
	}
	return "[" + strings.Join(ws, ";\n   ") + "]"
}

// RootSched projects the trace on the commitNewRootNodes calls of each writer's first attempt.
func RootSched(p *Program, o *Outcome) (string, int) {
	s, n, _ := RootSchedGated(p, o)
	return s, n
}

// RootSchedGated also reports whether every projected call ran under the gate (exact order).
func RootSchedGated(p *Program, o *Outcome) (string, int, bool) {
	idx := map[string]int{}
	for i, w := range p.Writers {
		idx[w.Label] = i
	}
	phase := map[string]int{} // 0 before Get, 1 after Get, 2 after Blob, 3 done
	var xs []string
	racers := 0
	gated := true
	for _, t := range o.Trace {
		f := strings.Fields(t)
		if len(f) < 2 {
			continue
		}
		w, call := f[0], f[1]
		isFree := len(f) > 2
		i, ok := idx[w]
		if !ok || phase[w] == 3 {
			continue
		}
		switch {
		case call == "reg.Get" && phase[w] == 0:
			gated = gated && !isFree
			xs = append(xs, fmt.Sprintf("(%s,RGet)", hx.CoqNat(i)))
			phase[w] = 1
		case call == "blob.Add" && phase[w] == 1:
			gated = gated && !isFree
			xs = append(xs, fmt.Sprintf("(%s,RBlob)", hx.CoqNat(i)))
			phase[w] = 2
			racers++
		case call == "reg.Add" && phase[w] == 2:
			gated = gated && !isFree
			xs = append(xs, fmt.Sprintf("(%s,RReg)", hx.CoqNat(i)))
			phase[w] = 3
		case call == "sr.GetWithTTL" || (call == "reg.Get" && phase[w] == 1):
			phase[w] = 3
		}
	}
	return hx.CoqList(xs), racers, gated
}

// CoqCase renders the run as a c04case term (shared by C04 and C05).
func CoqCase(p *Program, o *Outcome) string {
	final := coqKVs(DumpKV(o))
	if len(p.Init) == 0 {
		sch, racers, gated := RootSchedGated(p, o)
		if !gated && racers >= 2 {
			return "" // the racing calls ran ungated: their effective order is unknown
		}
		return fmt.Sprintf("RootCase %s %s\n  %s\n  %s %s", hx.CoqBool(p.Store.Unique), hx.CoqBool(p.Store.InNode), coqWriters(p, o), sch, final)
	}
	init := append([]KV(nil), p.Init...)
	return fmt.Sprintf("ConcCase %s %s %s\n  %s\n  %s", hx.CoqBool(p.Store.Unique), hx.CoqBool(p.Store.InNode), coqKVs(init), coqWriters(p, o), final)
}

// Usable reports whether the run can be handed to the model at all (no harness-side trouble).
func Usable(o *Outcome) bool {
	if o.ChildErr != "" || o.SetupErr != "" || o.DumpErr != "" || o.Dump == nil || o.Dump.Err != "" {
		return false
	}
	for _, w := range o.W {
		if w.BeginErr != "" || w.OpErr != "" {
			return false
		}
	}
	return true
}

package cx

import (
	"os"
	"time"

	"verif/harness/hx"
)

// ProgRng is the generator state of program number index of a run: a function of (seed, index) only, so the
// i-th program of a seed is the same whatever the tier, the batch size or the wall-clock budget.
func ProgRng(seed uint64, index int) *hx.Rng {
	base := hx.NewRng(seed).U64() // the raw streams of seeds k and k+1 are shifted copies
	return hx.NewRng(base ^ (uint64(index)+1)*0xD1342543DE82EF95)
}

// Tier describes one run of a property binary.
type Tier struct {
	Seed      uint64
	N         int           // number of random programs (upper bound when Budget > 0)
	Budget    time.Duration // wall-clock budget of the random part (0 = none: exactly N programs)
	Fixed     []Job         // corpus + exhaustive families, always run completely, first
	Gen       func(r *hx.Rng, index int) Job
	Check     func(*Program, *Outcome) []Fail
	Printer   func(*Program, *Outcome) string
	Workers   int
	BatchSize int
}

// RunTier runs the fixed jobs, then random programs 0,1,2,... in batches until N or the budget is reached.
// The budget only decides how many programs run, never how one is judged.
func RunTier(res *hx.Result, t Tier) {
	if t.Workers == 0 {
		t.Workers = 10
	}
	if t.BatchSize == 0 {
		t.BatchSize = 100
	}
	run := func(jobs []Job) {
		outs := RunAll(jobs, t.Workers, true)
		for i, j := range jobs {
			RecordWith(res, j, outs[i], t.Check, t.Printer)
		}
	}
	run(t.Fixed)
	start := time.Now()
	done := 0
	for done < t.N {
		if t.Budget > 0 && time.Since(start) > t.Budget {
			break
		}
		k := t.BatchSize
		if done+k > t.N {
			k = t.N - done
		}
		jobs := make([]Job, k)
		for i := range jobs {
			jobs[i] = t.Gen(ProgRng(t.Seed, done+i), done+i)
		}
		run(jobs)
		done += k
	}
	res.Distribution["random_programs"] = done
	os.RemoveAll(Scratch)
}

package cx

import (
	"fmt"
	"sort"
	"strings"

	"verif/harness/hx"
	"verif/harness/sopx"
)

func labels(n int) []string {
	out := make([]string, n)
	for i := range out {
		out[i] = fmt.Sprintf("W%d", i+1)
	}
	return out
}

// RandomSchedule interleaves the writers' commits in bursts of gated calls; a commit is 25-70 calls long.
func RandomSchedule(r *hx.Rng, n int) []string {
	ls := labels(n)
	var s []string
	switch r.Intn(5) {
	case 0: // strictly one after the other, in a random order (forces the merge path of the later ones)
		perm := r.Intn(6)
		for k := 0; k < n; k++ {
			s = append(s, ls[(k+perm)%n]+"*")
		}
		return s
	case 1: // lock-step
		for k := 0; k < 90; k++ {
			s = append(s, ls[k%n])
		}
	default:
		steps := 6 + r.Intn(14)
		for k := 0; k < steps; k++ {
			w := hx.Pick(r, ls)
			switch r.Intn(6) {
			case 0:
				s = append(s, w+"@"+hx.Pick(r, []string{"l2.Lock", "reg.Get", "reg.UpdateNoLocks", "blob.Add", "sr.Update", "l2.IsLocked", "l2.DualLock", "reg.Add", "sr.GetWithTTL", "l2.Unlock"}))
			case 1:
				s = append(s, w)
			default:
				s = append(s, fmt.Sprintf("%s#%d", w, 1+r.Intn(14)))
			}
		}
	}
	return s
}

func store(r *hx.Rng, unique bool) sopx.StoreOpts {
	return sopx.StoreOpts{Slot: hx.Pick(r, []int{2, 2, 4, 4, 4}), Unique: unique, InNode: r.Chance(70)} // odd slot lengths are rounded down by sop
}

func initKeys(r *hx.Rng, n, stride int) []KV {
	var out []KV
	for i := 0; i < n; i++ {
		k := (i + 1) * stride
		out = append(out, KV{k, k})
	}
	// insertion order matters for the tree shape
	for i := len(out) - 1; i > 0; i-- {
		j := r.Intn(i + 1)
		out[i], out[j] = out[j], out[i]
	}
	return out
}

// GenDisjoint builds a C04 program: writers with pairwise disjoint key sets, every key touched by at most
// one call of its writer, no read followed by a structural change in the same writer ("simple" writers).
// shape: root | leaf | removed | mixed
func GenDisjoint(r *hx.Rng, shape string) *Program {
	nw := 2 + r.Intn(2)
	p := &Program{Store: store(r, r.Chance(60)), HashMod: 2, MaxTimeMs: 25000}
	stride := 10
	ninit := 0
	switch shape {
	case "root":
		ninit = 0
	case "leaf":
		ninit = 1 + r.Intn(p.Store.Slot*2)
	case "removed":
		// removals only in stores that stay a single node: removing an item that sits in an inner node makes the
		// tracker record its successor (separate finding, corpus case "known:remove-inner-item"), which the
		// item-level model cannot see
		ninit = 1 + r.Intn(p.Store.Slot)
	default:
		ninit = 1 + r.Intn(p.Store.Slot*4)
	}
	p.Init = initKeys(r, ninit, stride)
	existing := make([]int, 0, ninit)
	for _, kv := range p.Init {
		existing = append(existing, kv.Key)
	}
	sort.Ints(existing)
	// partition existing keys among the writers; fresh keys are k*stride + writer index + 1 (never multiples of stride)
	used := map[int]bool{}
	for w := 0; w < nw; w++ {
		wr := Writer{Label: fmt.Sprintf("W%d", w+1)}
		nops := 1 + r.Intn(4)
		if shape == "leaf" {
			nops = 1 + r.Intn(p.Store.Slot+1)
		}
		if shape == "root" { // root-only trees: a new root with children becomes visible before its children (separate finding)
			nops = 1 + r.Intn((p.Store.Slot+nw-1)/nw)
			if nops*nw > p.Store.Slot {
				nops = 1
			}
		}
		budget := p.Store.Slot - ninit // adds that keep a "removed"/"mixed-small" store a single node
		var gets, writes []Op
		for k := 0; k < nops; k++ {
			kind := "add"
			switch shape {
			case "removed":
				kind = hx.Pick(r, []string{"remove", "remove", "remove", "add"})
				if kind == "add" && budget <= 0 {
					kind = "remove"
				}

			case "mixed":
				kind = hx.Pick(r, []string{"add", "add", "addne", "upsert", "update", "updkey", "get"})
			}
			if kind == "add" {
				budget--
			}
			if shape == "removed" && kind == "remove" && len(existing) == 0 {
				continue
			}
			if kind == "add" || kind == "addne" || (kind == "upsert" && r.Bool()) || len(existing) == 0 {
				if kind != "addne" && kind != "upsert" {
					kind = "add"
				}
				var key int
				for tries := 0; tries < 50; tries++ {
					if shape == "leaf" || shape == "root" {
						key = r.Intn(ninit+3)*stride + 1 + r.Intn(stride-1) // clustered: same leaves
					} else {
						key = r.Intn(ninit+6)*stride + 1 + r.Intn(stride-1)
					}
					if !used[key] {
						break
					}
				}
				if used[key] {
					continue
				}
				used[key] = true
				writes = append(writes, Op{kind, key, 1000*(w+1) + key})
				continue
			}
			// an existing key not used by anybody yet
			var cand []int
			for _, e := range existing {
				if !used[e] {
					cand = append(cand, e)
				}
			}
			if len(cand) == 0 {
				continue
			}
			key := hx.Pick(r, cand)
			used[key] = true
			if kind == "get" {
				gets = append(gets, Op{kind, key, 0})
			} else {
				writes = append(writes, Op{kind, key, 1000*(w+1) + key})
			}
		}
		// reads last: a read followed by an insertion/removal in the same node is a separate known defect class
		wr.Ops = append(writes, gets...)
		if len(wr.Ops) == 0 {
			key := (ninit+7+w)*stride + 1 + w
			used[key] = true
			wr.Ops = []Op{{"add", key, 1000*(w+1) + key}}
		}
		p.Writers = append(p.Writers, wr)
	}
	p.Schedule = RandomSchedule(r, nw)
	p.Note = "disjoint/" + shape
	return p
}

// GenUniqueRace builds a C05 program: a unique store, writers adding / upserting / re-keying overlapping keys.
func GenUniqueRace(r *hx.Rng) *Program {
	nw := 2 + r.Intn(2)
	p := &Program{Store: store(r, true), HashMod: 2, MaxTimeMs: 25000}
	ninit := r.Intn(p.Store.Slot*3 + 1)
	if r.Chance(15) {
		ninit = 0
	}
	p.Init = initKeys(r, ninit, 10)
	pool := []int{5, 15, 25, 10, 20, 30, 7}
	if ninit > 3 {
		pool = append(pool, 40, 35)
	}
	for w := 0; w < nw; w++ {
		wr := Writer{Label: fmt.Sprintf("W%d", w+1)}
		nops := 1 + r.Intn(3)
		seen := map[int]bool{}
		for k := 0; k < nops; k++ {
			key := hx.Pick(r, pool)
			if seen[key] {
				continue
			}
			seen[key] = true
			kind := hx.Pick(r, []string{"add", "add", "addne", "upsert", "upsert", "updkey", "update"})
			wr.Ops = append(wr.Ops, Op{kind, key, 1000*(w+1) + key})
		}
		p.Writers = append(p.Writers, wr)
	}
	p.Schedule = RandomSchedule(r, nw)
	p.Note = "unique-race"
	return p
}

// ---------------------------------------------------------------- deterministic corpus

func kvs(keys ...int) []KV {
	var out []KV
	for _, k := range keys {
		out = append(out, KV{k, k})
	}
	return out
}
func ops(s string) []Op {
	// "add:5:55 update:5:56"
	var out []Op
	for _, f := range strings.Fields(s) {
		var k, v int
		parts := strings.Split(f, ":")
		fmt.Sscan(parts[1], &k)
		if len(parts) > 2 {
			fmt.Sscan(parts[2], &v)
		}
		out = append(out, Op{parts[0], k, v})
	}
	return out
}

func two(note string, st sopx.StoreOpts, init []KV, o1, o2 string, sched ...string) *Program {
	return &Program{Store: st, HashMod: 2, MaxTimeMs: 25000, Init: init, Note: note, Schedule: sched,
		Writers: []Writer{{Label: "W1", Ops: ops(o1)}, {Label: "W2", Ops: ops(o2)}}}
}

var U4 = sopx.StoreOpts{Slot: 4, Unique: true, InNode: true}

// CorpusC04: edge cases and one program per known defect class (hit on every run).
func CorpusC04() []*Program {
	u4, u2 := U4, sopx.StoreOpts{Slot: 2, Unique: true, InNode: true}
	n4 := sopx.StoreOpts{Slot: 4, Unique: false, InNode: false}
	seq := []string{"W1*", "W2*"}
	ps := []*Program{
		// the documented example: two writers adding different keys to an existing store
		two("doc-example", u4, kvs(10, 20, 30), "add:5000:1 add:5001:2 add:5002:3", "add:5500:4 add:5501:5 add:5502:6", "W1#20", "W2#20", "W1#20", "W2*", "W1*"),
		two("sequential-merge", u4, kvs(10, 20, 30), "add:40:40", "add:5:5 update:20:21 remove:30", seq...),
		two("same-leaf-split", u2, kvs(10, 20), "add:11:1 add:12:2", "add:13:3 add:14:4", "W1@reg.UpdateNoLocks", "W2@l2.Lock", "W1*", "W2*"),
		two("removed-from-one-node", u4, kvs(10, 20, 30, 40), "remove:10", "remove:40 remove:30", "W1*", "W2*"),
		two("non-unique-values-outside", n4, kvs(10, 20, 30), "add:41:1 update:10:2", "add:42:3 remove:20", "W2*", "W1*"),
		two("first-root-sequential", u4, nil, "add:1:1 add:3:3", "add:2:2 add:10:10", seq...),
		// --- known defect classes
		{Store: u4, HashMod: 2, MaxTimeMs: 25000, Note: "known:first-root-race",
			Writers:  []Writer{{Label: "W1", Ops: ops("add:1:1 add:3:3")}, {Label: "W2", Ops: ops("add:2:2 add:10:10")}},
			Schedule: []string{"W1@reg.Get", "W2@reg.Get", "W1", "W2", "W1@reg.Add", "W2@reg.Add", "W1*", "W2*"}},
		{Store: u4, HashMod: 2, MaxTimeMs: 25000, Init: kvs(10, 20, 30), Note: "known:double-merge-lost-add",
			Writers: []Writer{{Label: "W1", Ops: ops("add:40:40 add:50:50")}, {Label: "W2", Ops: ops("add:25:25")},
				{Label: "W3", Deferred: true, Ops: ops("add:15:15")}},
			Schedule: []string{"W1*", "begin:W3", "W2@l2.DualLock", "W3*", "W2*"}},
		two("known:merge-add-then-update", u4, kvs(10, 20, 30), "add:40:40", "add:5:5 update:5:55", seq...),
		two("known:merge-update-then-remove", u4, kvs(10, 20, 30), "add:40:40", "update:10:11 remove:10", seq...),
		two("known:merge-get-then-shift", u4, kvs(10, 20, 30), "add:40:40", "get:20 remove:10", seq...),
		// W2 waits for W1's node lock, refetches, and then trips over its own item lock record
		two("known:merge-self-item-lock-conflict", u4, kvs(10, 20, 30), "update:10:11", "remove:30", "W1@reg.UpdateNoLocks", "W2@sr.GetWithTTL", "W1*", "W2*"),
		// the same, seen as a failure: 20 is the root item of a slot-2 tree 10,20,30; the replay looks for 30
		two("known:remove-inner-item-fails", u2, kvs(10, 20, 30), "remove:30", "remove:20", seq...),
		// removing an item that sits in an inner node: the tracker records the successor item instead
		two("known:remove-inner-item", u2, kvs(10, 20, 30, 40, 50, 60, 70), "add:75:75", "remove:60", seq...),
		// a new root with children is registered before its children: a concurrent merger walks into a missing child
		{Store: sopx.StoreOpts{Slot: 3, Unique: true, InNode: true}, HashMod: 2, MaxTimeMs: 25000, Note: "known:first-root-visible-before-children",
			Writers:  []Writer{{Label: "W1", Ops: ops("add:19:1019 add:3:1003")}, {Label: "W2", Ops: ops("add:8:2008 add:9:2009 add:27:2027")}},
			Schedule: []string{"W2#9", "W2#1", "W2#5", "W1", "W1#8", "W1", "W1#8", "W2#3", "W1", "W1", "W2#14", "W1#12", "W1#12", "W2#8", "W1"}},
	}
	// the refetch-and-merge replay dereferences a nil node in btree.getCurrentItem: the committing process dies
	ps = append(ps, &Program{Store: u4, HashMod: 2, MaxTimeMs: 25000, Note: "known:merge-nil-deref",
		Init:     kvs(20, 50, 70, 60, 40, 80, 30, 10),
		Writers:  []Writer{{Label: "W1", Ops: ops("update:20:1020 upsert:30:1030")}, {Label: "W2", Ops: ops("add:7:2007 updkey:10:2010 addne:40:2040")}},
		Schedule: []string{"W1*", "W2*"}})
	// remove-then-add: the outcome depends on Go's map iteration order; a few attempts make a hit very likely
	for i := 0; i < 32; i++ {
		ps = append(ps, two("known:merge-remove-then-add", u4, kvs(10, 20, 30), "add:40:40", "remove:10 add:10:99", seq...))
	}
	return ps
}

// CorpusC05: unique-store races on the same key.
func CorpusC05() []*Program {
	u4, u2 := U4, sopx.StoreOpts{Slot: 2, Unique: true, InNode: false}
	seq := []string{"W1*", "W2*"}
	return []*Program{
		two("same-key-add-sequential", u4, kvs(10, 20, 30), "add:5:1", "add:5:2", seq...),
		two("same-key-add-lockstep", u4, kvs(10, 20, 30), "add:5:1", "add:5:2", "W1#15", "W2#15", "W1#15", "W2#15", "W1*", "W2*"),
		two("same-key-upsert", u2, kvs(10, 20, 30), "upsert:5:1 upsert:10:3", "upsert:5:2 addne:10:4", "W2#10", "W1*", "W2*"),
		two("same-key-addne-updkey", u4, kvs(10, 20), "addne:15:1 updkey:10", "add:15:2 updkey:10", "W1@reg.Get", "W2@reg.Get", "W1*", "W2*"),
		two("first-root-same-key-sequential", u4, nil, "add:1:1", "add:1:2", seq...),
		{Store: u4, HashMod: 2, MaxTimeMs: 25000, Note: "first-root-same-key-race",
			Writers:  []Writer{{Label: "W1", Ops: ops("add:1:1 add:3:3")}, {Label: "W2", Ops: ops("add:1:2 add:2:2")}},
			Schedule: []string{"W1@reg.Get", "W2@reg.Get", "W1", "W2", "W1@reg.Add", "W2@reg.Add", "W1*", "W2*"}},
		{Store: u4, HashMod: 2, MaxTimeMs: 25000, Init: kvs(10, 20, 30), Note: "three-writers-same-key",
			Writers:  []Writer{{Label: "W1", Ops: ops("add:5:1")}, {Label: "W2", Ops: ops("upsert:5:2")}, {Label: "W3", Ops: ops("addne:5:3")}},
			Schedule: []string{"W1#8", "W2#8", "W3#8", "W1#8", "W2#8", "W3#8", "W3*", "W2*", "W1*"}},
	}
}

// ExhaustiveC04 (thorough tier): for a few small two-writer programs, every interleaving of the two commits
// cut at the anchor calls (lock, first registry read, registry write, store-info update, unlock).
func ExhaustiveC04() []Job {
	anchors := []string{"l2.Lock", "reg.Get", "reg.UpdateNoLocks", "sr.Update", "l2.Unlock"}
	progs := []*Program{
		two("exh-same-leaf", sopx.StoreOpts{Slot: 2, Unique: true, InNode: true}, kvs(10, 20), "add:11:1 add:12:2", "add:13:3"),
		two("exh-mixed", sopx.StoreOpts{Slot: 3, Unique: true, InNode: false}, kvs(10, 20, 30, 40), "remove:10 add:15:1", "update:40:2 add:35:3"),
		two("exh-first-root", U4, nil, "add:1:1", "add:2:2"),
	}
	var jobs []Job
	// interleavings of two sequences of len(anchors)+1 segments: choose positions
	var rec func(a, b int, cur []string, base *Program)
	rec = func(a, b int, cur []string, base *Program) {
		if a == len(anchors) && b == len(anchors) {
			q := *base
			q.Schedule = append(append([]string(nil), cur...), "W1*", "W2*")
			if len(q.Init) == 0 {
				q.CtxMs = 4000
			}
			jobs = append(jobs, Job{P: &q, Bucket: "exhaustive"})
			return
		}
		if a < len(anchors) {
			rec(a+1, b, append(cur, "W1@"+anchors[a], "W1"), base)
		}
		if b < len(anchors) {
			rec(a, b+1, append(cur, "W2@"+anchors[b], "W2"), base)
		}
	}
	for _, p := range progs {
		rec(0, 0, nil, p)
	}
	return jobs
}

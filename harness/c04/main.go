package main

import (
	"encoding/json"
	"fmt"
	"os"
	"time"

	"verif/harness/c04/cx"
	"verif/harness/hx"
)

// C04: concurrent writers with disjoint changes to one store all commit; the store then holds the union.
// K3 scheduled runs on the real filesystem backend + direct oracle + model prediction (Corr/C04.v).

func main() { hx.Main("c04", run) }

func run(cfg *hx.RunCfg) (*hx.Result, error) {
	res := hx.NewResult("C04")
	res.Imports = []string{"Lib.Bytes", "Merge", "Corr.C04"}
	res.CaseType = "c04case"
	res.Checker = "c04_check"
	res.Rule = "programs of 2-3 writer transactions with pairwise disjoint key sets on one store (slot length 2-4, unique or not, values in node or not), each committing in its own goroutine under a gate schedule at interface-call granularity (or unscheduled); shapes: first root of an empty store, same-leaf split, removed nodes, mixed add/upsert/update/remove/get; distinct = distinct (program, per-writer results, read-back); non-trivial = at least two writers and at least one refetch-and-merge round or failed commit"
	cx.Scratch = "/var/tmp/c04/run"
	if cfg.Replay != "" {
		p, err := cx.LoadReplay(cfg.Replay)
		if err != nil {
			return nil, err
		}
		o := cx.Run(p, true)
		if os.Getenv("CX_DEBUG") != "" {
			b, _ := json.MarshalIndent(o, "", " ")
			fmt.Println(string(b))
		}
		cx.Record(res, cx.Job{P: p, Bucket: "replay", NoModel: cx.OutsideModel(p)}, o, cx.CheckC04)
		return res, nil
	}
	t := cx.Tier{Seed: cfg.Seed, N: cfg.N, Check: cx.CheckC04, Printer: cx.CoqCase}
	if t.N == 0 {
		t.N = 60
		if cfg.Tier == "thorough" {
			t.N, t.Budget = 1500, 5*time.Minute // as many of the 1500 as fit; the i-th program depends on (seed, i) only
		}
	}
	for _, p := range cx.CorpusC04() {
		t.Fixed = append(t.Fixed, cx.Job{P: p, Bucket: "corpus", NoModel: cx.OutsideModel(p)})
	}
	if cfg.Tier == "thorough" {
		t.Fixed = append(t.Fixed, cx.ExhaustiveC04()...)
	}
	shapes := []string{"leaf", "leaf", "removed", "mixed", "mixed", "root"}
	t.Gen = func(r *hx.Rng, i int) cx.Job {
		sh := shapes[i%len(shapes)]
		p := cx.GenDisjoint(r, sh)
		if len(p.Init) == 0 && len(p.Schedule) > 30 {
			p.Schedule = p.Schedule[:30]
		}
		if i%10 == 9 { // unscheduled goroutines
			p.Free, p.Schedule = true, nil
			sh += "-free"
		}
		// first-root programs from the random stream are judged by the oracle only: the model's account of the
		// root phase (Corr/C04.v root_check) is checked on the corpus and on the exhaustive first-root family
		return cx.Job{P: p, Bucket: sh, NoModel: len(p.Init) == 0 || cx.OutsideModel(p)}
	}
	cx.RunTier(res, t)
	return res, nil
}

package main

import (
	"encoding/json"
	"fmt"
	"os"

	"verif/harness/c04/cx"
	"verif/harness/hx"
)

// C04: concurrent writers with disjoint changes to one store all commit; the store then holds the union.
// K3 scheduled runs on the real filesystem backend + direct oracle + model prediction (Corr/C04.v).

func main() { hx.Main("c04", run) }

func run(cfg *hx.RunCfg) (*hx.Result, error) {
	res := hx.NewResult("C04")
	res.Imports = []string{"Lib.Bytes", "Merge", "Corr.C04"}
	res.CaseType = "c04case"
	res.Checker = "c04_check"
	res.Rule = "programs of 2-3 writer transactions with pairwise disjoint key sets on one store (slot length 2-4, unique or not, values in node or not), each committing in its own goroutine under a gate schedule at interface-call granularity (or unscheduled); shapes: first root of an empty store, same-leaf split, removed nodes, mixed add/upsert/update/remove/get; distinct = distinct (program, per-writer results, read-back); non-trivial = at least two writers and at least one refetch-and-merge round or failed commit"
	cx.Scratch = "/var/tmp/c04/run"
	if cfg.Replay != "" {
		p, err := cx.LoadReplay(cfg.Replay)
		if err != nil {
			return nil, err
		}
		o := cx.Run(p, true)
		if os.Getenv("CX_DEBUG") != "" {
			b, _ := json.MarshalIndent(o, "", " ")
			fmt.Println(string(b))
		}
		cx.Record(res, cx.Job{P: p, Bucket: "replay", NoModel: cx.OutsideModel(p)}, o, cx.CheckC04)
		return res, nil
	}
	n := cfg.N
	if n == 0 {
		n = 72
		if cfg.Tier == "thorough" {
			n = 1500
		}
	}
	r := hx.NewRng(hx.NewRng(cfg.Seed).U64()) // the streams of seeds k and k+1 are shifted copies otherwise
	var jobs []cx.Job
	for _, p := range cx.CorpusC04() {
		jobs = append(jobs, cx.Job{P: p, Bucket: "corpus", NoModel: cx.OutsideModel(p)})
	}
	shapes := []string{"leaf", "leaf", "removed", "mixed", "mixed", "root"}
	for i := 0; i < n; i++ {
		sh := shapes[i%len(shapes)]
		p := cx.GenDisjoint(r, sh)
		if len(p.Init) == 0 {
			if len(p.Schedule) > 30 {
				p.Schedule = p.Schedule[:30] // long lock-step schedules would eat the 4 s themselves
			}
		}
		if i%10 == 9 { // unscheduled goroutines
			p.Free, p.Schedule = true, nil
			sh += "-free"
		}
		// first-root programs from the random stream are judged by the oracle only: the model's account of
		// the root phase (Corr/C04.v root_check) is validated on the deterministic corpus schedules
		jobs = append(jobs, cx.Job{P: p, Bucket: sh, NoModel: len(p.Init) == 0})
	}
	if cfg.Tier == "thorough" {
		jobs = append(jobs, cx.ExhaustiveC04()...)
	}
	outs := cx.RunAll(jobs, 10, true)
	for i, j := range jobs {
		cx.Record(res, j, outs[i], cx.CheckC04)
	}
	os.RemoveAll(cx.Scratch)
	return res, nil
}

// Package kv is the harness-side representation of Go key values for the
// comparer properties (C29, C30): construction of the real Go value, printing as
// a term of the Coq type Compare.key, an independent reference order, edge tables
// and seeded generators.
package kv

import (
	"bytes"
	"fmt"
	"math"
	"strings"
	"time"

	"github.com/google/uuid"
	"github.com/sharedcode/sop"

	"verif/harness/hx"
)

// V is one key value. K is the kind:
// nil bool other | int int8 int16 int32 int64 uint uint8 uint16 uint32 uint64 uintptr |
// f32 f64 | str bytes guuid suuid | time | any strs ints f64s f32s
type V struct {
	K string `json:"k"`
	S string `json:"s,omitempty"` // other: variant (stringer | named | map)
	I int64  `json:"i,omitempty"` // signed ints, time seconds (Unix)
	U uint64 `json:"u,omitempty"` // unsigned ints, float bits, bool
	N int64  `json:"n,omitempty"` // time nanoseconds
	B []int  `json:"b,omitempty"` // bytes of strings / ids / other payload
	L []V    `json:"l,omitempty"` // slice elements
}

func Nil() V                 { return V{K: "nil"} }
func Bool(b bool) V          { return V{K: "bool", U: map[bool]uint64{false: 0, true: 1}[b]} }
func Other(variant, s string) V { return V{K: "other", S: variant, B: ints([]byte(s))} }
func Int(kind string, v int64) V { return V{K: kind, I: v} }
func Uint(kind string, v uint64) V { return V{K: kind, U: v} }
func F64(f float64) V        { return V{K: "f64", U: math.Float64bits(f)} }
func F64b(bits uint64) V     { return V{K: "f64", U: bits} }
func F32b(bits uint32) V     { return V{K: "f32", U: uint64(bits)} }
func Str(s string) V         { return V{K: "str", B: ints([]byte(s))} }
func Bytes(b []byte) V       { return V{K: "bytes", B: ints(b)} }
func GUuid(b []byte) V       { return V{K: "guuid", B: ints(b)} }
func SUuid(b []byte) V       { return V{K: "suuid", B: ints(b)} }
func Time(sec, nsec int64) V { return V{K: "time", I: sec, N: nsec} }
func Any(l ...V) V           { return V{K: "any", L: l} }
func Slice(kind string, l ...V) V { return V{K: kind, L: l} }

func ints(b []byte) []int {
	o := make([]int, len(b))
	for i, x := range b {
		o[i] = int(x)
	}
	return o
}
func (v V) bytes() []byte {
	o := make([]byte, len(v.B))
	for i, x := range v.B {
		o[i] = byte(x)
	}
	return o
}

type stringer struct{ s string }

func (o stringer) String() string { return o.s }

type namedStr string

var zonePlus5 = time.FixedZone("P5", 5*3600)

func isSigned(k string) bool {
	switch k {
	case "int", "int8", "int16", "int32", "int64":
		return true
	}
	return false
}
func isUnsigned(k string) bool {
	switch k {
	case "uint", "uint8", "uint16", "uint32", "uint64", "uintptr":
		return true
	}
	return false
}

// Go builds the real value handed to the implementation.
func (v V) Go() any {
	switch v.K {
	case "nil":
		return nil
	case "bool":
		return v.U == 1
	case "other":
		s := string(v.bytes())
		switch v.S {
		case "named":
			return namedStr(s)
		case "map":
			return map[string]any{"k": s}
		default:
			return stringer{s}
		}
	case "int":
		return int(v.I)
	case "int8":
		return int8(v.I)
	case "int16":
		return int16(v.I)
	case "int32":
		return int32(v.I)
	case "int64":
		return v.I
	case "uint":
		return uint(v.U)
	case "uint8":
		return uint8(v.U)
	case "uint16":
		return uint16(v.U)
	case "uint32":
		return uint32(v.U)
	case "uint64":
		return v.U
	case "uintptr":
		return uintptr(v.U)
	case "f32":
		return math.Float32frombits(uint32(v.U))
	case "f64":
		return math.Float64frombits(v.U)
	case "str":
		return string(v.bytes())
	case "bytes":
		return v.bytes()
	case "guuid":
		var u uuid.UUID
		copy(u[:], v.bytes())
		return u
	case "suuid":
		var u sop.UUID
		copy(u[:], v.bytes())
		return u
	case "time":
		t := time.Unix(v.I, v.N)
		// the location never matters to Compare; it is a function of the instant so that %v is too
		if v.I%2 == 0 {
			return t.UTC()
		}
		return t.In(zonePlus5)
	case "any":
		if v.L == nil && v.U == 1 {
			return []any(nil)
		}
		o := make([]any, len(v.L))
		for i, e := range v.L {
			o[i] = e.Go()
		}
		return o
	case "strs":
		o := make([]string, len(v.L))
		for i, e := range v.L {
			o[i] = string(e.bytes())
		}
		return o
	case "ints":
		o := make([]int, len(v.L))
		for i, e := range v.L {
			o[i] = int(e.I)
		}
		return o
	case "f64s":
		o := make([]float64, len(v.L))
		for i, e := range v.L {
			o[i] = math.Float64frombits(e.U)
		}
		return o
	case "f32s":
		o := make([]float32, len(v.L))
		for i, e := range v.L {
			o[i] = math.Float32frombits(uint32(e.U))
		}
		return o
	}
	panic("kv: unknown kind " + v.K)
}

var ityName = map[string]string{"int": "TI", "int8": "TI8", "int16": "TI16", "int32": "TI32", "int64": "TI64",
	"uint": "TU", "uint8": "TU8", "uint16": "TU16", "uint32": "TU32", "uint64": "TU64", "uintptr": "TUptr"}

func coqBytes(b []int) string {
	var sb strings.Builder
	sb.WriteString("[")
	for i, x := range b {
		if i > 0 {
			sb.WriteString(";")
		}
		fmt.Fprintf(&sb, "%d", x)
	}
	sb.WriteString("]")
	return sb.String()
}

// Coq prints the value as a term of type Compare.key (cases.v is in N_scope).
func (v V) Coq() string {
	switch {
	case v.K == "nil":
		return "KNil"
	case v.K == "bool":
		return "(KBool " + hx.CoqBool(v.U == 1) + ")"
	case v.K == "other":
		return "(KOther " + hx.CoqString(fmt.Sprintf("%v", v.Go())) + ")"
	case isSigned(v.K):
		return fmt.Sprintf("(KInt %s %s)", ityName[v.K], hx.CoqZ(v.I))
	case isUnsigned(v.K):
		return fmt.Sprintf("(KInt %s %d%%Z)", ityName[v.K], v.U)
	case v.K == "f32":
		return fmt.Sprintf("(KF32 %d)", v.U)
	case v.K == "f64":
		return fmt.Sprintf("(KF64 %d)", v.U)
	case v.K == "str":
		return "(KStr " + coqBytes(v.B) + ")"
	case v.K == "bytes":
		return "(KBytes " + coqBytes(v.B) + ")"
	case v.K == "guuid":
		return "(KGUuid " + coqBytes(v.B) + ")"
	case v.K == "suuid":
		return "(KSUuid " + coqBytes(v.B) + ")"
	case v.K == "time":
		return fmt.Sprintf("(KTime %s %s)", hx.CoqZ(v.I), hx.CoqZ(v.N))
	}
	parts := make([]string, len(v.L))
	switch v.K {
	case "any":
		for i, e := range v.L {
			parts[i] = e.Coq()
		}
		return "(KAny " + hx.CoqList(parts) + ")"
	case "strs":
		for i, e := range v.L {
			parts[i] = coqBytes(e.B)
		}
		return "(KStrs " + hx.CoqList(parts) + ")"
	case "ints":
		for i, e := range v.L {
			parts[i] = hx.CoqZ(e.I)
		}
		return "(KInts " + hx.CoqList(parts) + ")"
	case "f64s":
		for i, e := range v.L {
			parts[i] = fmt.Sprintf("%d", e.U)
		}
		return "(KF64s " + hx.CoqList(parts) + ")"
	case "f32s":
		for i, e := range v.L {
			parts[i] = fmt.Sprintf("%d", e.U)
		}
		return "(KF32s " + hx.CoqList(parts) + ")"
	}
	panic("kv: unknown kind " + v.K)
}

// Show is a short human-readable form for messages.
func (v V) Show() string {
	switch v.K {
	case "f64", "f32":
		return fmt.Sprintf("%s(%v bits=%#x)", v.K, v.Go(), v.U)
	case "nil":
		return "nil"
	}
	s := fmt.Sprintf("%s(%#v)", v.K, v.Go())
	if len(s) > 120 {
		s = s[:120] + "..."
	}
	return s
}

func (v V) isDefaultKind() bool { return v.K == "nil" || v.K == "bool" || v.K == "other" }

func (v V) hasBoolOther() bool {
	if v.K == "bool" || v.K == "other" {
		return true
	}
	if v.K == "any" {
		for _, e := range v.L {
			if e.hasBoolOther() {
				return true
			}
		}
	}
	return false
}

func (v V) collect(seen map[string]bool, out *[]string) {
	if v.K == "any" {
		for _, e := range v.L {
			e.collect(seen, out)
		}
	}
	if v.isDefaultKind() || v.K == "str" {
		return
	}
	c := v.Coq()
	if !seen[c] {
		seen[c] = true
		*out = append(*out, fmt.Sprintf("(%s, %s)", c, hx.CoqString(fmt.Sprintf("%v", v.Go()))))
	}
}

// FmtTable is the %v oracle for a case: the renderings the implementation's fmt
// produces for the values whose formatting the model does not define. Empty unless
// the `default:` branch with a non-nil x can be reached (w chooses the default
// comparer, or x contains a bool / unsupported value).
func FmtTable(w *V, vals ...V) string {
	need := w != nil && w.isDefaultKind()
	if len(vals) > 0 && vals[0].hasBoolOther() {
		need = true
	}
	if !need {
		return "[]"
	}
	return FmtTableAlways(vals...)
}

func FmtTableAlways(vals ...V) string {
	seen := map[string]bool{}
	var out []string
	for _, v := range vals {
		v.collect(seen, &out)
	}
	return hx.CoqList(out)
}

// Compatible: x and y can be given one key type (same kind; []any position-wise on the common prefix).
func Compatible(x, y V) bool {
	if x.K != y.K {
		return false
	}
	if x.K == "any" {
		for i := 0; i < len(x.L) && i < len(y.L); i++ {
			if !Compatible(x.L[i], y.L[i]) {
				return false
			}
		}
	}
	return true
}

func cmpInt[T int | int64 | uint64 | float64](a, b T) int {
	if a < b {
		return -1
	}
	if a > b {
		return 1
	}
	return 0
}

func refFloat(a, b float64) int {
	an, bn := a != a, b != b
	switch {
	case an && bn:
		return 0
	case an:
		return -1
	case bn:
		return 1
	}
	return cmpInt(a, b)
}

func refBytes(a, b []int) int {
	for i := 0; i < len(a) && i < len(b); i++ {
		if a[i] != b[i] {
			return cmpInt(a[i], b[i])
		}
	}
	return cmpInt(len(a), len(b))
}

// RefCmp is the natural order of the key type, written independently of
// btree.Compare (the specification side of the direct oracle). x and y must be Compatible.
func RefCmp(x, y V) int {
	switch {
	case x.K == "nil":
		return 0
	case x.K == "bool":
		return cmpInt(x.U, y.U) // false < true (coincides with the %v text order the code uses)
	case x.K == "other":
		return sgn(bytes.Compare([]byte(fmt.Sprintf("%v", x.Go())), []byte(fmt.Sprintf("%v", y.Go()))))
	case isSigned(x.K):
		return cmpInt(x.I, y.I)
	case isUnsigned(x.K):
		return cmpInt(x.U, y.U)
	case x.K == "f64":
		return refFloat(math.Float64frombits(x.U), math.Float64frombits(y.U))
	case x.K == "f32":
		return refFloat(float64(math.Float32frombits(uint32(x.U))), float64(math.Float32frombits(uint32(y.U))))
	case x.K == "str", x.K == "bytes", x.K == "guuid", x.K == "suuid":
		return refBytes(x.B, y.B)
	case x.K == "time":
		a, b := x.Go().(time.Time), y.Go().(time.Time)
		switch {
		case a.Before(b):
			return -1
		case a.After(b):
			return 1
		}
		return 0
	}
	for i := 0; i < len(x.L) && i < len(y.L); i++ {
		if c := RefCmp(x.L[i], y.L[i]); c != 0 {
			return c
		}
	}
	return cmpInt(len(x.L), len(y.L))
}

func sgn(i int) int {
	if i < 0 {
		return -1
	}
	if i > 0 {
		return 1
	}
	return 0
}

// ---------------------------------------------------------------- edge tables

type Table struct {
	Name string
	Vals []V
}

var signedRange = map[string][2]int64{"int": {math.MinInt64, math.MaxInt64}, "int8": {-128, 127}, "int16": {-32768, 32767},
	"int32": {math.MinInt32, math.MaxInt32}, "int64": {math.MinInt64, math.MaxInt64}}
var unsignedMax = map[string]uint64{"uint": math.MaxUint64, "uint8": 255, "uint16": 65535, "uint32": math.MaxUint32,
	"uint64": math.MaxUint64, "uintptr": math.MaxUint64}

var f64Edges = []uint64{
	0x0000000000000000, 0x8000000000000000, // +0 -0
	0x0000000000000001, 0x8000000000000001, // smallest subnormals
	0x000fffffffffffff, 0x0010000000000000, // largest subnormal, smallest normal
	0x3ff0000000000000, 0xbff0000000000000, 0x3ff0000000000001, // 1 -1 1+ulp
	0x7fefffffffffffff, 0xffefffffffffffff, // +-max
	0x7ff0000000000000, 0xfff0000000000000, // +-inf
	0x7ff8000000000000, 0xfff8000000000001, 0x7ff0000000000001, 0x7fffffffffffffff, // NaNs: quiet, negative, signalling, all ones
	0x4024000000000000, 0x4022000000000000, // 10, 9
}
var f32Edges = []uint32{
	0x00000000, 0x80000000, 0x00000001, 0x80000001, 0x007fffff, 0x00800000,
	0x3f800000, 0xbf800000, 0x3f800001, 0x7f7fffff, 0xff7fffff, 0x7f800000, 0xff800000,
	0x7fc00000, 0xffc00001, 0x7f800001, 0x7fffffff,
}
var strEdges = []string{"", "a", "A", "aa", "ab", "b", "a\x00", "\x00", "\xff", "\xfe\xff", "é", "zé", "10", "9"}

func uuidEdges() [][]byte {
	z := make([]byte, 16)
	ff := bytes.Repeat([]byte{0xff}, 16)
	lo := append(make([]byte, 15), 1)
	hi := append([]byte{1}, make([]byte, 15)...)
	mid := []byte{0, 0, 0, 0, 0, 0, 0, 0x80, 0x7f, 0, 0, 0, 0, 0, 0, 0}
	mid2 := []byte{0, 0, 0, 0, 0, 0, 0, 0x7f, 0x80, 0, 0, 0, 0, 0, 0, 0}
	return [][]byte{z, ff, lo, hi, mid, mid2}
}

const zeroTimeUnix = -62135596800

var timeEdges = [][2]int64{{zeroTimeUnix, 0}, {zeroTimeUnix, 1}, {zeroTimeUnix - 1, 999999999}, {0, 0}, {0, 1}, {-1, 999999999}, {-1, 0},
	{1, 0}, {1700000000, 5}, {1700000000, 4}, {1700000001, 0}, {253402300799, 999999999}, {1 << 40, 0}, {-(1 << 40), 7}}

var kindsInt = []string{"int", "int8", "int16", "int32", "int64", "uint", "uint8", "uint16", "uint32", "uint64", "uintptr"}

func intEdges(k string) []V {
	var out []V
	if isSigned(k) {
		rg := signedRange[k]
		for _, v := range []int64{rg[0], rg[0] + 1, -1, 0, 1, rg[1] - 1, rg[1]} {
			out = append(out, Int(k, v))
		}
	} else {
		m := unsignedMax[k]
		for _, v := range []uint64{0, 1, 2, m / 2, m/2 + 1, m - 1, m} {
			out = append(out, Uint(k, v))
		}
	}
	return out
}

func EdgeTables() []Table {
	var ts []Table
	for _, k := range kindsInt {
		ts = append(ts, Table{k, intEdges(k)})
	}
	var f64s, f32s, strs, bs, gu, su, tm []V
	for _, b := range f64Edges {
		f64s = append(f64s, F64b(b))
	}
	for _, b := range f32Edges {
		f32s = append(f32s, F32b(b))
	}
	for _, s := range strEdges {
		strs = append(strs, Str(s))
		bs = append(bs, Bytes([]byte(s)))
	}
	for _, u := range uuidEdges() {
		gu = append(gu, GUuid(u))
		su = append(su, SUuid(u))
	}
	for _, t := range timeEdges {
		tm = append(tm, Time(t[0], t[1]))
	}
	ts = append(ts, Table{"float64", f64s}, Table{"float32", f32s}, Table{"string", strs}, Table{"[]byte", bs},
		Table{"uuid.UUID", gu}, Table{"sop.UUID", su}, Table{"time.Time", tm})
	nan, nan2, negz, posz, inf := F64b(0x7ff8000000000000), F64b(0xfff8000000000001), F64b(0x8000000000000000), F64b(0), F64b(0x7ff0000000000000)
	ts = append(ts, Table{"[]string", []V{Slice("strs"), Slice("strs", Str("")), Slice("strs", Str(""), Str("")), Slice("strs", Str("a")), Slice("strs", Str("a"), Str("")),
		Slice("strs", Str("a"), Str("b")), Slice("strs", Str("ab")), Slice("strs", Str("b")), Slice("strs", Str("\xff"))}})
	ts = append(ts, Table{"[]int", []V{Slice("ints"), Slice("ints", Int("int", 0)), Slice("ints", Int("int", 0), Int("int", 0)), Slice("ints", Int("int", math.MinInt64)),
		Slice("ints", Int("int", math.MaxInt64)), Slice("ints", Int("int", -1), Int("int", 5)), Slice("ints", Int("int", -1)), Slice("ints", Int("int", 1), Int("int", math.MinInt64))}})
	ts = append(ts, Table{"[]float64", []V{Slice("f64s"), Slice("f64s", nan), Slice("f64s", nan2), Slice("f64s", nan, posz), Slice("f64s", nan2, negz), Slice("f64s", negz), Slice("f64s", posz),
		Slice("f64s", posz, nan), Slice("f64s", negz, inf), Slice("f64s", inf), Slice("f64s", F64(1)), Slice("f64s", F64(1), F64(-1))}})
	n32, n32b, nz32, pz32 := F32b(0x7fc00000), F32b(0xffc00001), F32b(0x80000000), F32b(0)
	ts = append(ts, Table{"[]float32", []V{Slice("f32s"), Slice("f32s", n32), Slice("f32s", n32b), Slice("f32s", n32, pz32), Slice("f32s", nz32), Slice("f32s", pz32),
		Slice("f32s", pz32, n32), Slice("f32s", F32b(0x3f800000)), Slice("f32s", F32b(0x7f800000))}})
	// []any: homogeneous, nested
	ts = append(ts, Table{"[]any(string)", []V{Any(), Any(Str("")), Any(Str("a")), Any(Str("a"), Str("")), Any(Str("a"), Str("b")), Any(Str("ab")), Any(Str("b"))}})
	ts = append(ts, Table{"[]any(float64)", []V{Any(), Any(nan), Any(nan2), Any(negz), Any(posz), Any(posz, nan), Any(negz, nan2, F64(1)), Any(F64(1)), Any(inf), Any(F64(-1), inf)}})
	ts = append(ts, Table{"[]any(string,int)", []V{Any(), Any(Str("a")), Any(Str("a"), Int("int", math.MinInt64)), Any(Str("a"), Int("int", 0)), Any(Str("a"), Int("int", 0), Bool(false)),
		Any(Str("a"), Int("int", 0), Bool(true)), Any(Str("b"), Int("int", -5)), Any(Str(""), Int("int", 7))}})
	ts = append(ts, Table{"[]any([]any(int8),time)", []V{Any(), Any(Any()), Any(Any(), Time(0, 0)), Any(Any(Int("int8", -128))), Any(Any(Int("int8", -128)), Time(0, 1)),
		Any(Any(Int("int8", 127), Int("int8", 0))), Any(Any(Int("int8", 127)), Time(zeroTimeUnix, 0)), Any(Any(Int("int8", 127)), Time(-1, 5))}})
	ts = append(ts, Table{"[]any(nil)", []V{Any(), Any(Nil()), Any(Nil(), Nil()), {K: "any", U: 1}}})
	ts = append(ts, Table{"bool", []V{Bool(false), Bool(true)}})
	ts = append(ts, Table{"unsupported(%v)", []V{Other("stringer", ""), Other("stringer", "a"), Other("named", "a"), Other("named", "b"), Other("map", "x"), Other("map", ""), Other("stringer", "true")}})
	return ts
}

func TableNames() []string {
	var o []string
	for _, t := range EdgeTables() {
		o = append(o, t.Name)
	}
	return o
}

// ---------------------------------------------------------------- generators

// T is a key type: K as in V; any: element i has type Ts[i] (i < len(Ts)) or Rest.
type T struct {
	K    string
	Ts   []T
	Rest *T
}

var scalarKinds = append([]string{"f32", "f64", "f64", "str", "str", "bytes", "guuid", "suuid", "time", "strs", "ints", "f64s", "f32s", "bool", "other", "nil"}, kindsInt...)

func GenType(r *hx.Rng, depth int) T {
	if depth > 0 && r.Chance(35) {
		t := T{K: "any"}
		for i, n := 0, r.Intn(4); i < n; i++ {
			t.Ts = append(t.Ts, GenType(r, depth-1))
		}
		rest := GenType(r, depth-1)
		t.Rest = &rest
		return t
	}
	return T{K: hx.Pick(r, scalarKinds)}
}

func (t T) at(i int) T {
	if i < len(t.Ts) {
		return t.Ts[i]
	}
	return *t.Rest
}

func genBytes(r *hx.Rng) []byte {
	if r.Chance(40) {
		return []byte(hx.Pick(r, strEdges))
	}
	n := r.Intn(6)
	b := make([]byte, n)
	for i := range b {
		b[i] = hx.Pick(r, []byte{0, 1, 'a', 'b', 0x7f, 0x80, 0xff})
	}
	return b
}

func genF64(r *hx.Rng) uint64 {
	switch r.Intn(4) {
	case 0:
		return hx.Pick(r, f64Edges)
	case 1: // neighbours of an edge
		return hx.Pick(r, f64Edges) + uint64(r.Intn(3)) - 1
	case 2:
		return math.Float64bits(float64(r.Intn(21) - 10))
	}
	return r.U64()
}

func genF32(r *hx.Rng) uint32 {
	switch r.Intn(4) {
	case 0:
		return hx.Pick(r, f32Edges)
	case 1:
		return hx.Pick(r, f32Edges) + uint32(r.Intn(3)) - 1
	case 2:
		return math.Float32bits(float32(r.Intn(21) - 10))
	}
	return uint32(r.U64())
}

func GenVal(r *hx.Rng, t T) V {
	switch {
	case t.K == "nil":
		return Nil()
	case t.K == "bool":
		return Bool(r.Bool())
	case t.K == "other":
		return Other(hx.Pick(r, []string{"stringer", "named", "map"}), string(genBytes(r)))
	case isSigned(t.K):
		if r.Chance(60) {
			return hx.Pick(r, intEdges(t.K))
		}
		rg := signedRange[t.K]
		v := int64(r.U64())
		if rg[0] != math.MinInt64 {
			span := uint64(rg[1]-rg[0]) + 1
			v = rg[0] + int64(r.U64()%span)
		}
		return Int(t.K, v)
	case isUnsigned(t.K):
		if r.Chance(60) {
			return hx.Pick(r, intEdges(t.K))
		}
		v := r.U64()
		if m := unsignedMax[t.K]; m != math.MaxUint64 {
			v %= m + 1
		}
		return Uint(t.K, v)
	case t.K == "f64":
		return F64b(genF64(r))
	case t.K == "f32":
		return F32b(genF32(r))
	case t.K == "str":
		return Str(string(genBytes(r)))
	case t.K == "bytes":
		return Bytes(genBytes(r))
	case t.K == "guuid", t.K == "suuid":
		b := hx.Pick(r, uuidEdges())
		if r.Chance(40) {
			b = r.Bytes(16)
		}
		return V{K: t.K, B: ints(b)}
	case t.K == "time":
		if r.Chance(60) {
			e := hx.Pick(r, timeEdges)
			return Time(e[0], e[1])
		}
		return Time(int64(r.U64()%(1<<36))-(1<<35), int64(r.Intn(1000000000)))
	case t.K == "any":
		n := r.Intn(len(t.Ts) + 3)
		v := V{K: "any", L: []V{}}
		for i := 0; i < n; i++ {
			v.L = append(v.L, GenVal(r, t.at(i)))
		}
		return v
	}
	elt := map[string]string{"strs": "str", "ints": "int", "f64s": "f64", "f32s": "f32"}[t.K]
	v := V{K: t.K, L: []V{}}
	for i, n := 0, r.Intn(4); i < n; i++ {
		v.L = append(v.L, GenVal(r, T{K: elt}))
	}
	return v
}

// Perturb returns a value of type t close to x: x itself, or x with its tail changed.
func Perturb(r *hx.Rng, x V, t T) V {
	if len(x.L) == 0 || r.Chance(30) {
		return x
	}
	y := V{K: x.K, L: append([]V{}, x.L...)}
	switch r.Intn(3) {
	case 0:
		y.L = y.L[:len(y.L)-1]
	case 1:
		i := len(y.L) - 1
		if x.K == "any" {
			y.L[i] = GenVal(r, t.at(i))
		} else {
			y.L[i] = GenVal(r, T{K: y.L[i].K})
		}
	default:
		if x.K == "any" {
			y.L = append(y.L, GenVal(r, t.at(len(y.L))))
		} else {
			y.L = append(y.L, GenVal(r, T{K: y.L[0].K}))
		}
	}
	return y
}

package main

// C29: btree.Compare / btree.CoerceComparer are a total (pre)order consistent with
// the natural order, per key type. K1 value-level differential against the Coq
// model (Compare.v) + direct oracle (order laws and an independent reference order).

import (
	"encoding/json"
	"fmt"
	"os"
	"strings"

	"github.com/sharedcode/sop/btree"

	"verif/harness/hx"
	"verif/harness/c29/kv"
)

func main() { hx.Main("c29", runC29) }

type c29Input struct {
	Kind string `json:"kind"` // cmp | coerce | triple
	W    *kv.V  `json:"w,omitempty"`
	X    kv.V   `json:"x"`
	Y    kv.V   `json:"y"`
	Z    *kv.V  `json:"z,omitempty"`
}

func safeCompare(x, y any) (r int, panicked bool) {
	defer func() {
		if recover() != nil {
			panicked = true
		}
	}()
	return btree.Compare(x, y), false
}

func safeCoerce(w, x, y any) (r int, panicked bool) {
	defer func() {
		if recover() != nil {
			panicked = true
		}
	}()
	return btree.CoerceComparer(w)(x, y), false
}

func sgn(i int) int {
	if i < 0 {
		return -1
	}
	if i > 0 {
		return 1
	}
	return 0
}

// cmpPair: one btree.Compare(x, y) evaluation: correspondence case + pairwise oracle.
// typed = x and y were generated from one key type (the laws must hold without exception).
func cmpPair(res *hx.Result, x, y kv.V, typed bool) int {
	in := c29Input{Kind: "cmp", X: x, Y: y}
	gx, gy := x.Go(), y.Go()
	r, p := safeCompare(gx, gy)
	if p {
		res.Fail("panic", fmt.Sprintf("Compare(%s, %s) panicked", x.Show(), y.Show()), in)
		return 0
	}
	rr, _ := safeCompare(gy, gx)
	same := kv.Compatible(x, y)
	res.Seen("cmp:"+x.Coq()+"|"+y.Coq(), x.K != "nil" && y.K != "nil")
	res.Count("cmp." + x.K)
	if same {
		res.Count("pair.same-type")
	} else {
		res.Count("pair.mixed-type")
	}
	if r < -1 || r > 1 {
		res.Fail("range", fmt.Sprintf("Compare(%s, %s) = %d", x.Show(), y.Show(), r), in)
	}
	if r != -rr {
		sig := "antisym:" + x.K
		if !same {
			// narrow class of the known defect: the two values have different dynamic
			// types (top level or at some []any position); the type switch looks at x only
			sig = "mixed-type-antisym"
		}
		res.Fail(sig, fmt.Sprintf("Compare(%s, %s) = %d but Compare(y, x) = %d", x.Show(), y.Show(), r, rr), in)
	}
	if same {
		if want := kv.RefCmp(x, y); want != r {
			res.Fail("natural-order:"+x.K, fmt.Sprintf("Compare(%s, %s) = %d, natural order says %d", x.Show(), y.Show(), r, want), in)
		}
	}
	if typed && !same {
		panic("harness bug: typed pair is not type-compatible: " + x.Show() + " / " + y.Show())
	}
	res.AddCase(fmt.Sprintf("CmpCase %s %s %s %s", kv.FmtTable(nil, x, y), x.Coq(), y.Coq(), hx.CoqZ(int64(r))), in)
	res.Sample(map[string]any{"kind": "cmp", "x": x.Show(), "y": y.Show(), "result": r})
	return r
}

// coercePair: CoerceComparer(w)(x, y): correspondence, and when w, x, y share a type it must equal Compare(x, y).
func coercePair(res *hx.Result, w, x, y kv.V, addCase bool) {
	in := c29Input{Kind: "coerce", W: &w, X: x, Y: y}
	r, p := safeCoerce(w.Go(), x.Go(), y.Go())
	if p {
		res.Fail("panic", fmt.Sprintf("CoerceComparer(%s)(%s, %s) panicked", w.Show(), x.Show(), y.Show()), in)
		return
	}
	res.Seen("coerce:"+w.Coq()+"|"+x.Coq()+"|"+y.Coq(), true)
	res.Count("coerce." + w.K)
	if kv.Compatible(w, x) && kv.Compatible(x, y) && kv.Compatible(w, y) {
		res.Count("coerce.same-type")
		if c, _ := safeCompare(x.Go(), y.Go()); c != r {
			res.Fail("coerce-differs:"+w.K, fmt.Sprintf("CoerceComparer(%s)(%s, %s) = %d, Compare = %d", w.Show(), x.Show(), y.Show(), r, c), in)
		}
		if want := kv.RefCmp(x, y); want != r {
			res.Fail("natural-order:"+x.K, fmt.Sprintf("CoerceComparer(%s)(%s, %s) = %d, natural order says %d", w.Show(), x.Show(), y.Show(), r, want), in)
		}
	} else {
		res.Count("coerce.mixed-type")
	}
	if addCase {
		res.AddCase(fmt.Sprintf("CoerceCase %s %s %s %s %s", kv.FmtTable(&w, x, y), w.Coq(), x.Coq(), y.Coq(), hx.CoqZ(int64(r))), in)
	}
}

// triple: transitivity and equal-compatibility on a same-typed triple (oracle only).
func triple(res *hx.Result, x, y, z kv.V) {
	in := c29Input{Kind: "triple", X: x, Y: y, Z: &z}
	xy, _ := safeCompare(x.Go(), y.Go())
	yz, _ := safeCompare(y.Go(), z.Go())
	xz, _ := safeCompare(x.Go(), z.Go())
	res.Seen("tri:"+x.Coq()+"|"+y.Coq()+"|"+z.Coq(), true)
	res.Count("triple." + x.K)
	if xy <= 0 && yz <= 0 && xz > 0 {
		res.Fail("trans:"+x.K, fmt.Sprintf("x<=y, y<=z but Compare(x,z)=%d for x=%s y=%s z=%s", xz, x.Show(), y.Show(), z.Show()), in)
	}
	if xy == 0 && yz != xz {
		res.Fail("trans:"+x.K, fmt.Sprintf("x==y but Compare(y,z)=%d, Compare(x,z)=%d for x=%s y=%s z=%s", yz, xz, x.Show(), y.Show(), z.Show()), in)
	}
}

func runC29(cfg *hx.RunCfg) (*hx.Result, error) {
	res := hx.NewResult("C29")
	res.Imports = []string{"Lib.Bytes", "Compare", "Corr.C29"}
	res.CaseType = "c29case"
	res.Checker = "c29_check"
	res.Rule = "edge-value table per key type (min/max, +-0, NaN payloads, subnormals, infinities, empty/prefix strings, zero ids and times, nested and prefix slices): all pairs through btree.Compare and CoerceComparer, all triples through the oracle; then seeded values generated from a random key type (typed stream) and from two unrelated types (mixed stream, 15 %); distinct = distinct canonical (x,y[,z]) terms; non-trivial = neither side nil"
	if cfg.Replay != "" {
		raw, err := os.ReadFile(cfg.Replay)
		if err != nil {
			return nil, err
		}
		var rp struct {
			Input c29Input `json:"input"`
		}
		if err := json.Unmarshal(raw, &rp); err != nil {
			return nil, err
		}
		in := rp.Input
		switch in.Kind {
		case "cmp":
			cmpPair(res, in.X, in.Y, false)
		case "coerce":
			coercePair(res, *in.W, in.X, in.Y, true)
		case "triple":
			triple(res, in.X, in.Y, *in.Z)
		}
		return res, nil
	}
	thorough := cfg.Tier == "thorough"
	n := cfg.N
	if n == 0 {
		n = 1500
		if thorough {
			n = 20000
		}
	}
	r := hx.NewRng(hx.NewRng(cfg.Seed).U64()) // mixed: hx seeds k and k+1 alone give streams shifted by one draw

	// ---- deterministic corpus: one case per known finding, then the edge tables
	cmpPair(res, kv.Int("int", 5), kv.Str("a"), false)                                // Compare(5,"a") = 1 = Compare("a",5)
	cmpPair(res, kv.Any(kv.Int("int", 5)), kv.Any(kv.Str("a")), false)                // same inside []any
	cmpPair(res, kv.Any(kv.Nil()), kv.Any(kv.Str("")), false)                         // nil vs "" inside []any
	cmpPair(res, kv.Any(kv.Str("k"), kv.F64(1)), kv.Any(kv.Str("k"), kv.Nil()), false) // composite key with a null part
	for _, tb := range kv.EdgeTables() {
		for i, x := range tb.Vals {
			for j, y := range tb.Vals {
				cmpPair(res, x, y, true)
				// CoerceComparer specialised by a third value of the same type: every pair through
				// the oracle, every third (thorough: every) pair also through the Coq model
				coercePair(res, tb.Vals[(i+j)%len(tb.Vals)], x, y, thorough || (i+2*j)%3 == 0)
			}
		}
		step := 1
		if !thorough && len(tb.Vals) > 12 {
			step = 2
		}
		for i := 0; i < len(tb.Vals); i += step {
			for j := 0; j < len(tb.Vals); j++ {
				for k := 0; k < len(tb.Vals); k += step {
					triple(res, tb.Vals[i], tb.Vals[j], tb.Vals[k])
				}
			}
		}
	}
	// CoerceComparer chosen by a value of one type, applied to values of another (the C30 mechanism)
	tabs := kv.EdgeTables()
	for i, ta := range tabs {
		tb := tabs[(i*7+3)%len(tabs)]
		for k := 0; k < 4; k++ {
			coercePair(res, hx.Pick(r, ta.Vals), hx.Pick(r, tb.Vals), hx.Pick(r, tb.Vals), true)
			coercePair(res, hx.Pick(r, ta.Vals), hx.Pick(r, ta.Vals), hx.Pick(r, tb.Vals), true)
		}
	}

	// ---- seeded generation
	for i := 0; i < n; i++ {
		switch k := r.Intn(100); {
		case k < 45: // typed triple: pair cases + laws
			t := kv.GenType(r, 2)
			x, y, z := kv.GenVal(r, t), kv.GenVal(r, t), kv.GenVal(r, t)
			if r.Chance(25) {
				y = kv.Perturb(r, x, t)
			}
			cmpPair(res, x, y, true)
			cmpPair(res, y, z, true)
			triple(res, x, y, z)
			triple(res, z, x, y)
		case k < 70: // typed CoerceComparer
			t := kv.GenType(r, 2)
			coercePair(res, kv.GenVal(r, t), kv.GenVal(r, t), kv.GenVal(r, t), true)
		case k < 85: // mixed stream: unrelated types
			x, y := kv.GenVal(r, kv.GenType(r, 2)), kv.GenVal(r, kv.GenType(r, 2))
			cmpPair(res, x, y, false)
		default: // mixed CoerceComparer
			w := kv.GenVal(r, kv.GenType(r, 1))
			t := kv.GenType(r, 2)
			coercePair(res, w, kv.GenVal(r, t), kv.GenVal(r, t), true)
		}
	}
	res.Notes = append(res.Notes, "key types in the edge tables: "+strings.Join(kv.TableNames(), " "))
	return res, nil
}

// Package btx drives the real B-tree (btree.New with a recording NodeRepository /
// ItemActionTracker, or a tree built by inmemory.NewBtree) with operation
// sequences and records, after every call, the return value, Count(),
// GetCurrentKey(), the raw cursor reference and the nodes that changed.
// Shared by the C17 and C18 harnesses.
package btx

import (
	"context"
	"fmt"
	"sort"

	"github.com/sharedcode/sop"
	"github.com/sharedcode/sop/btree"
	"github.com/sharedcode/sop/inmemory"
)

type Cfg struct {
	L      int  `json:"l"`      // requested slot length (NewStoreInfo normalises it)
	Unique bool `json:"unique"` // IsUnique
	LB     bool `json:"lb"`     // LeafLoadBalancing
	InMem  bool `json:"inmem"`  // built by inmemory.NewBtree (slot length 8, no balancing), called through its wrapper
}

// Op is one public call. K: add addine upsert update updkey updcuritem updcurval
// updcurkey remove remcur first last next prev find finddesc findid getval getitem
// range rangedesc.
type Op struct {
	K     string `json:"k"`
	Key   int    `json:"key,omitempty"`
	Val   int    `json:"val,omitempty"`
	To    int    `json:"to,omitempty"`
	ID    int    `json:"id,omitempty"` // canonical item id (order of successful adds), findid only
	First bool   `json:"first,omitempty"`
}

type Item struct {
	ID  int `json:"id"`
	Key int `json:"key"`
	Val int `json:"val"`
}

type NodeDump struct {
	ID       int
	Parent   int
	Count    int
	Slots    []Item // all L slots
	Children []int  // nil when ChildrenIDs is nil
}

const (
	ENone  = 0
	EErr   = 1
	EPanic = 2
)

const (
	HNone  = 0
	HItem  = 1
	HGhost = 2
)

type Obs struct {
	Ok      bool
	Err     int
	Out     []Item
	Count   int64
	CurKey  Item // GetCurrentKey(): ID and Key
	HKind   int  // abstract cursor after the call
	HID     int
	HRem    int // canonical id of the item that disappeared from the node set (0: none or not exactly one)
	CurNode int // raw cursor reference
	CurIdx  int
	Cached  bool
	Root    int
	Changed []NodeDump // nodes whose content differs from the previous observation
	Removed []int      // node ids no longer in the repository
	NNodes  int
	Digest  uint32 // djb2 of the observation vector (Corr/C17.v obs_vec)
	TrkRem  int // id handed to ItemActionTracker.Remove during the call (0 none)
	PanicMsg string
}

// ---------------------------------------------------------------- repository / tracker wrappers

type mapRepo struct {
	lookup map[sop.UUID]*btree.Node[int, int]
}

func (nr *mapRepo) Add(n *btree.Node[int, int])    { nr.lookup[n.ID] = n }
func (nr *mapRepo) Update(n *btree.Node[int, int]) { nr.lookup[n.ID] = n }
func (nr *mapRepo) Get(ctx context.Context, id sop.UUID) (*btree.Node[int, int], error) {
	return nr.lookup[id], nil
}
func (nr *mapRepo) Fetched(id sop.UUID) {}
func (nr *mapRepo) Remove(id sop.UUID)  { delete(nr.lookup, id) }

// wrapRepo delegates to the wrapped repository and remembers which ids were
// ever stored so the harness can enumerate the node set.
type wrapRepo struct {
	inner btree.NodeRepository[int, int]
	ids   []sop.UUID
	known map[sop.UUID]bool
}

func (w *wrapRepo) note(id sop.UUID) {
	if !w.known[id] {
		w.known[id] = true
		w.ids = append(w.ids, id)
	}
}
func (w *wrapRepo) Add(n *btree.Node[int, int])    { w.note(n.ID); w.inner.Add(n) }
func (w *wrapRepo) Update(n *btree.Node[int, int]) { w.note(n.ID); w.inner.Update(n) }
func (w *wrapRepo) Get(ctx context.Context, id sop.UUID) (*btree.Node[int, int], error) {
	return w.inner.Get(ctx, id)
}
func (w *wrapRepo) Fetched(id sop.UUID) { w.inner.Fetched(id) }
func (w *wrapRepo) Remove(id sop.UUID)  { w.inner.Remove(id) }

type tracker struct {
	inner   btree.ItemActionTracker[int, int]
	r       *Runner
	removed []sop.UUID
}

func (t *tracker) Add(ctx context.Context, it *btree.Item[int, int]) error {
	t.r.itemID(it.ID)
	return t.inner.Add(ctx, it)
}
func (t *tracker) Get(ctx context.Context, it *btree.Item[int, int]) error { return t.inner.Get(ctx, it) }
func (t *tracker) Update(ctx context.Context, it *btree.Item[int, int]) error {
	return t.inner.Update(ctx, it)
}
func (t *tracker) Remove(ctx context.Context, it *btree.Item[int, int]) error {
	t.removed = append(t.removed, it.ID)
	return t.inner.Remove(ctx, it)
}

type nopTracker struct{}

func (nopTracker) Add(ctx context.Context, it *btree.Item[int, int]) error    { return nil }
func (nopTracker) Get(ctx context.Context, it *btree.Item[int, int]) error    { return nil }
func (nopTracker) Update(ctx context.Context, it *btree.Item[int, int]) error { return nil }
func (nopTracker) Remove(ctx context.Context, it *btree.Item[int, int]) error { return nil }

// ---------------------------------------------------------------- runner

type Runner struct {
	Cfg     Cfg
	L       int // effective slot length
	B       *btree.Btree[int, int]
	W       inmemory.BtreeInterface[int, int]
	repo    *wrapRepo
	trk     *tracker
	itemIDs map[sop.UUID]int
	itemRev []sop.UUID // canonical id -> uuid (index 0 unused)
	nodeIDs map[sop.UUID]int
	last    map[int]string // node id -> last dumped content
	lastSet map[int]bool
	ctx     context.Context
}

func NewRunner(cfg Cfg) (*Runner, error) {
	r := &Runner{Cfg: cfg, itemIDs: map[sop.UUID]int{}, itemRev: []sop.UUID{{}}, nodeIDs: map[sop.UUID]int{}, last: map[int]string{}, ctx: context.Background()}
	if cfg.InMem {
		r.W = inmemory.NewBtree[int, int](cfg.Unique)
		r.B = r.W.Btree
		si := r.B.VerifStoreInterface()
		r.repo = &wrapRepo{inner: si.NodeRepository, known: map[sop.UUID]bool{}}
		r.trk = &tracker{inner: si.ItemActionTracker, r: r}
		si.NodeRepository = r.repo
		si.ItemActionTracker = r.trk
	} else {
		so := sop.StoreOptions{Name: "c17", SlotLength: cfg.L, IsUnique: cfg.Unique, LeafLoadBalancing: cfg.LB, IsValueDataInNodeSegment: true}
		info := sop.NewStoreInfo(so)
		r.repo = &wrapRepo{inner: &mapRepo{lookup: map[sop.UUID]*btree.Node[int, int]{}}, known: map[sop.UUID]bool{}}
		r.trk = &tracker{inner: nopTracker{}, r: r}
		si := &btree.StoreInterface[int, int]{NodeRepository: r.repo, ItemActionTracker: r.trk}
		b, err := btree.New[int, int](info, si, nil)
		if err != nil {
			return nil, err
		}
		r.B = b
		r.W = inmemory.BtreeInterface[int, int]{Btree: b}
	}
	r.L = r.B.StoreInfo.SlotLength
	return r, nil
}

func (r *Runner) itemID(u sop.UUID) int {
	if u.IsNil() {
		return 0
	}
	if id, ok := r.itemIDs[u]; ok {
		return id
	}
	id := len(r.itemRev)
	r.itemIDs[u] = id
	r.itemRev = append(r.itemRev, u)
	return id
}

func (r *Runner) nodeID(u sop.UUID) int {
	if u.IsNil() {
		return 0
	}
	if id, ok := r.nodeIDs[u]; ok {
		return id
	}
	id := len(r.nodeIDs) + 1
	r.nodeIDs[u] = id
	return id
}

func (r *Runner) uuidOfItem(id int) sop.UUID {
	if id > 0 && id < len(r.itemRev) {
		return r.itemRev[id]
	}
	// an id that was never issued: a fixed non-nil uuid derived from it
	var u sop.UUID
	u[0] = 0xEE
	u[14] = byte(id >> 8)
	u[15] = byte(id)
	return u
}

func (r *Runner) toItem(it btree.Item[int, int]) Item {
	v := 0
	if it.Value != nil {
		v = *it.Value
	}
	return Item{ID: r.itemID(it.ID), Key: it.Key, Val: v}
}

// Nodes returns the live node set (in first-stored order).
func (r *Runner) Nodes() []NodeDump {
	var out []NodeDump
	for _, u := range r.repo.ids {
		n, _ := r.repo.inner.Get(r.ctx, u)
		if n == nil {
			continue
		}
		d := NodeDump{ID: r.nodeID(n.ID), Parent: r.nodeID(n.ParentID), Count: n.Count}
		for i := 0; i < len(n.Slots); i++ {
			d.Slots = append(d.Slots, r.toItem(n.Slots[i]))
		}
		if n.ChildrenIDs != nil {
			d.Children = make([]int, len(n.ChildrenIDs))
			for i, c := range n.ChildrenIDs {
				d.Children[i] = r.nodeID(c)
			}
		}
		out = append(out, d)
	}
	return out
}

func nodeString(d NodeDump) string { return fmt.Sprintf("%v", d) }

// Apply performs one call and observes.
func (r *Runner) Apply(op Op) (obs Obs) {
	before := r.liveItems()
	r.trk.removed = nil
	func() {
		defer func() {
			if p := recover(); p != nil {
				obs.Ok = false
				obs.Err = EPanic
				obs.Out = nil
				obs.PanicMsg = fmt.Sprint(p)
			}
		}()
		obs.Ok, obs.Err, obs.Out = r.call(op)
	}()
	if r.Cfg.InMem && obs.Err == EErr {
		obs.Err = ENone // the inmemory wrapper drops error values
	}
	r.observe(&obs, before)
	return obs
}

func (r *Runner) observe(obs *Obs, before map[int]bool) {
	func() {
		defer func() {
			if p := recover(); p != nil {
				obs.PanicMsg += " observe:" + fmt.Sprint(p)
			}
		}()
		obs.Count = r.B.Count()
		ck := r.B.GetCurrentKey()
		obs.CurKey = Item{ID: r.itemID(ck.ID), Key: ck.Key}
		nid, idx, cached := r.B.VerifCursor()
		obs.CurNode, obs.CurIdx, obs.Cached = r.nodeID(nid), idx, cached
		obs.Root = r.nodeID(r.B.StoreInfo.RootNodeID)
		if nid.IsNil() {
			obs.HKind = HNone
		} else {
			n, _ := r.repo.inner.Get(r.ctx, nid)
			if n == nil || idx < 0 || idx >= n.Count || idx >= len(n.Slots) {
				obs.HKind = HGhost
			} else {
				obs.HKind, obs.HID = HItem, r.itemID(n.Slots[idx].ID)
			}
		}
	}()
	nodes := r.Nodes()
	obs.NNodes = len(nodes)
	defer func() { obs.Digest = Djb(ObsVec(*obs, nodes)) }()
	cur := map[int]bool{}
	for _, d := range nodes {
		cur[d.ID] = true
		s := nodeString(d)
		if r.last[d.ID] != s {
			r.last[d.ID] = s
			obs.Changed = append(obs.Changed, d)
		}
	}
	for id := range r.last {
		if !cur[id] {
			obs.Removed = append(obs.Removed, id)
		}
	}
	sort.Ints(obs.Removed)
	for _, id := range obs.Removed {
		delete(r.last, id)
	}
	after := r.liveItems()
	gone := 0
	ngone := 0
	for id := range before {
		if !after[id] {
			gone = id
			ngone++
		}
	}
	if ngone == 1 {
		obs.HRem = gone
	}
	if len(r.trk.removed) > 0 {
		obs.TrkRem = r.itemID(r.trk.removed[len(r.trk.removed)-1])
	}
}

func (r *Runner) liveItems() map[int]bool {
	m := map[int]bool{}
	for _, d := range r.Nodes() {
		for i := 0; i < d.Count && i < len(d.Slots); i++ {
			m[d.Slots[i].ID] = true
		}
	}
	return m
}

func errKind(err error) int {
	if err != nil {
		return EErr
	}
	return ENone
}

func (r *Runner) call(op Op) (bool, int, []Item) {
	ctx := r.ctx
	b := r.B
	if r.Cfg.InMem {
		// through the inmemory wrapper (errors are dropped there)
		w := r.W
		switch op.K {
		case "add":
			return w.Add(op.Key, op.Val), ENone, nil
		case "addine":
			return w.AddIfNotExist(op.Key, op.Val), ENone, nil
		case "upsert":
			return w.Upsert(op.Key, op.Val), ENone, nil
		case "update":
			return w.Update(op.Key, op.Val), ENone, nil
		case "updcurval":
			return w.UpdateCurrentValue(op.Val), ENone, nil
		case "updcurkey":
			return w.UpdateCurrentKey(op.Key), ENone, nil
		case "remove":
			return w.Remove(op.Key), ENone, nil
		case "remcur":
			return w.RemoveCurrentItem(), ENone, nil
		case "first":
			return w.First(), ENone, nil
		case "last":
			return w.Last(), ENone, nil
		case "next":
			return w.Next(), ENone, nil
		case "prev":
			return w.Previous(), ENone, nil
		case "find":
			return w.Find(op.Key, op.First), ENone, nil
		case "finddesc":
			return w.FindInDescendingOrder(op.Key), ENone, nil
		case "getval":
			return true, ENone, []Item{{Val: w.GetCurrentValue()}}
		}
	}
	switch op.K {
	case "add":
		ok, err := b.Add(ctx, op.Key, op.Val)
		return ok, errKind(err), nil
	case "addine":
		ok, err := b.AddIfNotExist(ctx, op.Key, op.Val)
		return ok, errKind(err), nil
	case "upsert":
		ok, err := b.Upsert(ctx, op.Key, op.Val)
		return ok, errKind(err), nil
	case "update":
		ok, err := b.Update(ctx, op.Key, op.Val)
		return ok, errKind(err), nil
	case "updkey":
		ok, err := b.UpdateKey(ctx, op.Key)
		return ok, errKind(err), nil
	case "updcuritem":
		ok, err := b.UpdateCurrentItem(ctx, op.Key, op.Val)
		return ok, errKind(err), nil
	case "updcurval":
		ok, err := b.UpdateCurrentValue(ctx, op.Val)
		return ok, errKind(err), nil
	case "updcurkey":
		ok, err := b.UpdateCurrentKey(ctx, op.Key)
		return ok, errKind(err), nil
	case "remove":
		ok, err := b.Remove(ctx, op.Key)
		return ok, errKind(err), nil
	case "remcur":
		ok, err := b.RemoveCurrentItem(ctx)
		return ok, errKind(err), nil
	case "first":
		ok, err := b.First(ctx)
		return ok, errKind(err), nil
	case "last":
		ok, err := b.Last(ctx)
		return ok, errKind(err), nil
	case "next":
		ok, err := b.Next(ctx)
		return ok, errKind(err), nil
	case "prev":
		ok, err := b.Previous(ctx)
		return ok, errKind(err), nil
	case "find":
		ok, err := b.Find(ctx, op.Key, op.First)
		return ok, errKind(err), nil
	case "finddesc":
		ok, err := b.FindInDescendingOrder(ctx, op.Key)
		return ok, errKind(err), nil
	case "findid":
		ok, err := b.FindWithID(ctx, op.Key, r.uuidOfItem(op.ID))
		return ok, errKind(err), nil
	case "getval":
		v, err := b.GetCurrentValue(ctx)
		return true, errKind(err), []Item{{Val: v}}
	case "getitem":
		it, err := b.GetCurrentItem(ctx)
		return true, errKind(err), []Item{r.toItem(it)}
	case "range":
		var out []Item
		for k, v := range r.W.Range(op.Key, op.To) {
			out = append(out, Item{Key: k, Val: v})
		}
		return true, ENone, out
	case "rangedesc":
		var out []Item
		for k, v := range r.W.RangeDesc(op.Key, op.To) {
			out = append(out, Item{Key: k, Val: v})
		}
		return true, ENone, out
	}
	panic("unknown op " + op.K)
}

// Inorder walks the live node structure from the root (nil children skipped)
// without touching the cursor. fuel bounds the walk on cyclic structures.
func (r *Runner) Inorder() []Item {
	nodes := map[int]NodeDump{}
	for _, d := range r.Nodes() {
		nodes[d.ID] = d
	}
	var out []Item
	fuel := 100000
	var walk func(id int)
	walk = func(id int) {
		d, ok := nodes[id]
		if !ok || fuel <= 0 {
			return
		}
		fuel--
		for i := 0; i <= d.Count; i++ {
			if d.Children != nil && i < len(d.Children) && d.Children[i] != 0 {
				walk(d.Children[i])
			}
			if i < d.Count && i < len(d.Slots) {
				out = append(out, d.Slots[i])
			}
		}
	}
	if r.B.Count() > 0 || true {
		walk(r.nodeID(r.B.StoreInfo.RootNodeID))
	}
	return out
}

package btx

import (
	"fmt"
	"strings"
)

// Shrink minimises a deviating sequence by deleting calls (chunks first) while a
// deviation of the same class remains. Used to produce corpus cases.
func Shrink(s Seq, class string) Seq {
	fails := func(c Seq) bool {
		r, err := Replay(c)
		return err == nil && r.Dev != nil && r.Dev.Class == class
	}
	// cut everything after the deviating call
	if r, err := Replay(s); err == nil && r.Dev != nil {
		s.Ops = append([]Op(nil), s.Ops[:r.Dev.Index+1]...)
	}
	for chunk := len(s.Ops) / 2; chunk >= 1; chunk /= 2 {
		for i := 0; i+chunk <= len(s.Ops); {
			c := Seq{Cfg: s.Cfg}
			c.Ops = append(c.Ops, s.Ops[:i]...)
			c.Ops = append(c.Ops, s.Ops[i+chunk:]...)
			if fails(c) {
				s = c
			} else {
				i += chunk
			}
		}
	}
	return s
}

func FormatNodes(ns []NodeDump, root int) string {
	var sb strings.Builder
	fmt.Fprintf(&sb, "root=%d\n", root)
	for _, d := range ns {
		fmt.Fprintf(&sb, "  node %d parent %d count %d slots %v children %v\n", d.ID, d.Parent, d.Count, d.Slots, d.Children)
	}
	return sb.String()
}

// Trace replays a sequence printing the node structure after each of the last n calls.
func Trace(s Seq, lastN int) string {
	r, err := NewRunner(s.Cfg)
	if err != nil {
		return err.Error()
	}
	var sb strings.Builder
	for i, op := range s.Ops {
		obs := r.Apply(op)
		if i >= len(s.Ops)-lastN {
			fmt.Fprintf(&sb, "#%d %+v -> ok=%v err=%d count=%d cursor=(%d,%d)\n%s", i, op, obs.Ok, obs.Err, obs.Count, obs.CurNode, obs.CurIdx, FormatNodes(r.Nodes(), obs.Root))
		}
	}
	return sb.String()
}

package btx

// Go transcription of coq/theories/OMap.v (the specification monitor), used as
// the direct oracle: Step returns the result the spec prescribes and whether the
// observed hints were admissible.

type Spec struct {
	Unique bool
	Items  []Item
	Cur    int // CNone / CAt / CGhost
	At     int
	Cached bool
	NextID int
	// set by Step when a known quirk of the specification fired
	GhostHit    bool // Find(key,false) answered from an emptied slot
	RejectPanic bool // order-changing update rejected by a nil dereference
	ForeignID   bool // FindWithID succeeded on an item whose key differs
}

const (
	CNone  = 0
	CAt    = 1
	CGhost = 2
)

type Res struct {
	Ok  bool
	Err int
	Out []Item
}

func NewSpec(unique bool) *Spec { return &Spec{Unique: unique, NextID: 1} }

func (s *Spec) lb(k int) int {
	i := 0
	for i < len(s.Items) && s.Items[i].Key < k {
		i++
	}
	return i
}
func (s *Spec) ub(k int) int {
	i := 0
	for i < len(s.Items) && s.Items[i].Key <= k {
		i++
	}
	return i
}
func (s *Spec) has(k int) bool {
	for _, x := range s.Items {
		if x.Key == k {
			return true
		}
	}
	return false
}
func (s *Spec) indexOf(id int) int {
	for i, x := range s.Items {
		if x.ID == id {
			return i
		}
	}
	return -1
}

func (s *Spec) curItem() (Item, bool) {
	switch s.Cur {
	case CAt:
		if s.At >= 0 && s.At < len(s.Items) {
			return s.Items[s.At], true
		}
		return Item{}, false
	case CGhost:
		return Item{}, true
	}
	return Item{}, false
}

func (s *Spec) CurrentKey() Item {
	if !s.Cached {
		return Item{}
	}
	if x, ok := s.curItem(); ok {
		return Item{ID: x.ID, Key: x.Key}
	}
	return Item{}
}

// resolve the observed abstract cursor against the item list
func (s *Spec) resolve(hk, hid int) (cur, at int, ok bool) {
	switch hk {
	case HNone:
		return CNone, 0, true
	case HGhost:
		return CGhost, 0, true
	}
	i := s.indexOf(hid)
	if i < 0 {
		return 0, 0, false
	}
	return CAt, i, true
}

func (s *Spec) hintOnKey(hk, hid, k int) (int, bool) {
	c, at, ok := s.resolve(hk, hid)
	if !ok || c != CAt || s.Items[at].Key != k {
		return 0, false
	}
	return at, true
}
func (s *Spec) hintNear(hk, hid, p int) (int, bool) {
	c, at, ok := s.resolve(hk, hid)
	if !ok || c != CAt || !(at == p || at+1 == p) {
		return 0, false
	}
	return at, true
}

func (s *Spec) findAny(k, hk, hid int) (found, adm bool) {
	if len(s.Items) == 0 {
		return false, true
	}
	if x, ok := s.curItem(); s.Cur != CNone && ok && x.Key == k {
		s.Cached = true
		if s.Cur == CGhost {
			s.GhostHit = true
		}
		return true, true
	}
	if s.has(k) {
		i, ok := s.hintOnKey(hk, hid, k)
		if !ok {
			return false, false
		}
		s.Cur, s.At, s.Cached = CAt, i, true
		return true, true
	}
	i, ok := s.hintNear(hk, hid, s.lb(k))
	if !ok {
		return false, false
	}
	s.Cur, s.At, s.Cached = CAt, i, true
	return false, true
}

func (s *Spec) findFirst(k, hk, hid int) (found, adm bool) {
	if len(s.Items) == 0 {
		return false, true
	}
	if s.has(k) {
		s.Cur, s.At, s.Cached = CAt, s.lb(k), true
		return true, true
	}
	i, ok := s.hintNear(hk, hid, s.lb(k))
	if !ok {
		return false, false
	}
	s.Cur, s.At, s.Cached = CAt, i, true
	return false, true
}

func (s *Spec) findDesc(k, hk, hid int) (found, adm bool) {
	if len(s.Items) == 0 {
		return false, true
	}
	if s.has(k) {
		s.Cur, s.At, s.Cached = CAt, s.ub(k)-1, true
		return true, true
	}
	i, ok := s.hintNear(hk, hid, s.ub(k))
	if !ok {
		return false, false
	}
	s.Cur, s.At, s.Cached = CAt, i, true
	return false, true
}

func (s *Spec) doAdd(uq bool, k, v, hk, hid int) (added, adm bool) {
	if uq && s.has(k) {
		i, ok := s.hintOnKey(hk, hid, k)
		if !ok {
			return false, false
		}
		s.Cur, s.At, s.Cached = CAt, i, false
		return false, true
	}
	p := s.lb(k)
	it := Item{ID: s.NextID, Key: k, Val: v}
	s.Items = append(s.Items, Item{})
	copy(s.Items[p+1:], s.Items[p:])
	s.Items[p] = it
	s.NextID++
	c, at, ok := s.resolve(hk, hid)
	if !ok {
		return true, false
	}
	if (s.Cur == CNone) != (c == CNone) {
		return true, false
	}
	s.Cur, s.At = c, at
	return true, true
}

func (s *Spec) updateCurrent(k int, v *int) Res {
	if s.Cur != CAt || s.At >= len(s.Items) {
		return Res{}
	}
	if s.Items[s.At].Key != k {
		if s.Cached {
			return Res{Err: EErr}
		}
		s.RejectPanic = true
		return Res{Err: EPanic}
	}
	if v != nil {
		s.Items[s.At].Val = *v
	}
	return Res{Ok: true}
}

func (s *Spec) removeCurrent() Res {
	if s.Cur != CAt || s.At >= len(s.Items) {
		return Res{}
	}
	s.Items = append(s.Items[:s.At], s.Items[s.At+1:]...)
	s.Cur, s.At, s.Cached = CNone, 0, false
	return Res{Ok: true}
}

// Step applies one call. adm=false: the observed hint is not something the
// specification allows (the implementation left the spec).
func (s *Spec) Step(op Op, hk, hid, hrem int) (res Res, adm bool) {
	s.GhostHit, s.RejectPanic, s.ForeignID = false, false, false
	switch op.K {
	case "add":
		ok, a := s.doAdd(s.Unique, op.Key, op.Val, hk, hid)
		return Res{Ok: ok}, a
	case "addine":
		ok, a := s.doAdd(true, op.Key, op.Val, hk, hid)
		return Res{Ok: ok}, a
	case "upsert":
		if s.has(op.Key) {
			i, ok := s.hintOnKey(hk, hid, op.Key)
			if !ok {
				return Res{}, false
			}
			s.Cur, s.At, s.Cached = CAt, i, true
			v := op.Val
			return s.updateCurrent(op.Key, &v), true
		}
		ok, a := s.doAdd(true, op.Key, op.Val, hk, hid)
		return Res{Ok: ok}, a
	case "update":
		f, a := s.findAny(op.Key, hk, hid)
		if !a || !f {
			return Res{}, a
		}
		v := op.Val
		return s.updateCurrent(op.Key, &v), true
	case "updkey":
		f, a := s.findAny(op.Key, hk, hid)
		if !a || !f {
			return Res{}, a
		}
		return s.updateCurrent(op.Key, nil), true
	case "updcuritem":
		v := op.Val
		return s.updateCurrent(op.Key, &v), true
	case "updcurval":
		if s.Cur != CAt || s.At >= len(s.Items) {
			return Res{}, true
		}
		s.Items[s.At].Val = op.Val
		return Res{Ok: true}, true
	case "updcurkey":
		return s.updateCurrent(op.Key, nil), true
	case "remove":
		var f, a bool
		if s.has(op.Key) {
			f, a = s.findAny(op.Key, HItem, hrem)
		} else {
			f, a = s.findAny(op.Key, hk, hid)
		}
		if !a || !f {
			return Res{}, a
		}
		return s.removeCurrent(), true
	case "remcur":
		return s.removeCurrent(), true
	case "first":
		if len(s.Items) == 0 {
			return Res{}, true
		}
		s.Cur, s.At, s.Cached = CAt, 0, true
		return Res{Ok: true}, true
	case "last":
		if len(s.Items) == 0 {
			return Res{}, true
		}
		s.Cur, s.At, s.Cached = CAt, len(s.Items)-1, true
		return Res{Ok: true}, true
	case "next":
		return Res{Ok: s.next()}, true
	case "prev":
		return Res{Ok: s.prev()}, true
	case "find":
		var f, a bool
		if op.First {
			f, a = s.findFirst(op.Key, hk, hid)
		} else {
			f, a = s.findAny(op.Key, hk, hid)
		}
		return Res{Ok: f}, a
	case "finddesc":
		f, a := s.findDesc(op.Key, hk, hid)
		return Res{Ok: f}, a
	case "findid":
		f, a := s.findFirst(op.Key, hk, hid)
		if !a || !f {
			return Res{}, a
		}
		for j := s.lb(op.Key); j < len(s.Items); j++ {
			if s.Items[j].ID == op.ID {
				s.Cur, s.At, s.Cached = CAt, j, true
				if s.Items[j].Key != op.Key {
					s.ForeignID = true
				}
				return Res{Ok: true}, true
			}
		}
		s.Cur, s.At, s.Cached = CNone, 0, false
		return Res{}, true
	case "getval", "getitem":
		x, ok := s.curItem()
		s.Cached = ok
		if !ok {
			return Res{Ok: true, Out: []Item{{}}}, true
		}
		if op.K == "getval" {
			return Res{Ok: true, Out: []Item{{Val: x.Val}}}, true
		}
		return Res{Ok: true, Out: []Item{x}}, true
	case "range":
		if len(s.Items) == 0 {
			return Res{Ok: true}, true
		}
		var out []Item
		j := s.lb(op.Key)
		s.Cur, s.Cached = CNone, false
		for ; j < len(s.Items); j++ {
			if s.Items[j].Key > op.To {
				s.Cur, s.At, s.Cached = CAt, j, true
				break
			}
			out = append(out, Item{Key: s.Items[j].Key, Val: s.Items[j].Val})
		}
		return Res{Ok: true, Out: out}, true
	case "rangedesc":
		if len(s.Items) == 0 {
			return Res{Ok: true}, true
		}
		var out []Item
		j := s.ub(op.Key) - 1
		s.Cur, s.Cached = CNone, false
		for ; j >= 0; j-- {
			if s.Items[j].Key < op.To {
				s.Cur, s.At, s.Cached = CAt, j, true
				break
			}
			out = append(out, Item{Key: s.Items[j].Key, Val: s.Items[j].Val})
		}
		return Res{Ok: true, Out: out}, true
	}
	panic("spec: unknown op " + op.K)
}

func (s *Spec) next() bool {
	if len(s.Items) == 0 || s.Cur != CAt {
		return false
	}
	if s.At+1 < len(s.Items) {
		s.At++
		s.Cached = true
		return true
	}
	s.Cur, s.At, s.Cached = CNone, 0, false
	return false
}
func (s *Spec) prev() bool {
	if len(s.Items) == 0 || s.Cur != CAt {
		return false
	}
	if s.At > 0 {
		s.At--
		s.Cached = true
		return true
	}
	s.Cur, s.At, s.Cached = CNone, 0, false
	return false
}

// SameCursor: does the spec cursor agree with an observed abstract cursor?
func (s *Spec) SameCursor(hk, hid int) bool {
	switch s.Cur {
	case CNone:
		return hk == HNone
	case CGhost:
		return hk == HGhost
	}
	return hk == HItem && s.At < len(s.Items) && s.Items[s.At].ID == hid
}

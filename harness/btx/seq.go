package btx

import (
	"fmt"
	"strings"

	"verif/harness/hx"
)

type Seq struct {
	Cfg Cfg  `json:"cfg"`
	Ops []Op `json:"ops"`
}

type StepRec struct {
	Op  Op
	Obs Obs
	// quirks of the specification that fired on this call
	GhostHit, RejectPanic, ForeignID bool
}

type Deviation struct {
	Index int
	What  string
	Class string
}

type SeqResult struct {
	Seq   Seq
	L     int
	Steps []StepRec
	Dev   *Deviation // first call on which the implementation left the specification
	Final []Item     // spec items at the end (or at the deviation)
}

func itemsEq(a, b []Item) bool {
	if len(a) != len(b) {
		return false
	}
	for i := range a {
		if a[i] != b[i] {
			return false
		}
	}
	return true
}

func sortedKeys(a []Item) bool {
	for i := 1; i < len(a); i++ {
		if a[i-1].Key > a[i].Key {
			return false
		}
	}
	return true
}

// classify names the kind of departure from the ordered-collection model.
func classify(r *Runner, sp *Spec, op Op, obs Obs, res Res, adm bool) (string, string) {
	in := r.Inorder()
	ghost := false
	for _, x := range in {
		if x.ID == 0 {
			ghost = true
		}
	}
	switch {
	case obs.Err == EPanic && res.Err != EPanic:
		return "panic", fmt.Sprintf("%s panicked: %s", op.K, obs.PanicMsg)
	case ghost:
		return "ghost-item", fmt.Sprintf("after %s the node structure holds an item with nil id inside a node's Count (in-order %v)", op.K, in)
	case !sortedKeys(in):
		return "unsorted", fmt.Sprintf("after %s the in-order walk is not sorted: %v", op.K, in)
	case !itemsEq(in, sp.Items):
		return "content", fmt.Sprintf("after %s the tree holds %v, the model %v", op.K, in, sp.Items)
	case int(obs.Count) != len(sp.Items):
		return "count", fmt.Sprintf("after %s Count()=%d, model has %d items", op.K, obs.Count, len(sp.Items))
	case obs.Ok != res.Ok || obs.Err != res.Err:
		return "result", fmt.Sprintf("%s(%d) returned ok=%v err=%d, model ok=%v err=%d", op.K, op.Key, obs.Ok, obs.Err, res.Ok, res.Err)
	case !itemsEq(obs.Out, res.Out):
		return "output", fmt.Sprintf("%s(%d,%d) yielded %v, model %v", op.K, op.Key, op.To, obs.Out, res.Out)
	case !adm || !sp.SameCursor(obs.HKind, obs.HID):
		return "cursor", fmt.Sprintf("after %s(%d) the cursor is (kind %d item %d), model (kind %d index %d of %v)", op.K, op.Key, obs.HKind, obs.HID, sp.Cur, sp.At, sp.Items)
	case sp.CurrentKey() != obs.CurKey:
		return "current-key", fmt.Sprintf("after %s GetCurrentKey()=%v, model %v", op.K, obs.CurKey, sp.CurrentKey())
	}
	return "", ""
}

// Run executes ops (from next, which sees the spec state so generators can aim)
// on a fresh tree. It stops at the first deviation from the specification.
func Run(cfg Cfg, next func(i int, sp *Spec) (Op, bool)) (*SeqResult, error) {
	r, err := NewRunner(cfg)
	if err != nil {
		return nil, err
	}
	sp := NewSpec(cfg.Unique)
	out := &SeqResult{Seq: Seq{Cfg: cfg}, L: r.L}
	for i := 0; ; i++ {
		op, ok := next(i, sp)
		if !ok {
			break
		}
		obs := r.Apply(op)
		if cfg.InMem && obs.Err == EErr {
			obs.Err = ENone // the inmemory wrapper drops error values
		}
		res, adm := sp.Step(op, obs.HKind, obs.HID, obs.HRem)
		if cfg.InMem && res.Err == EErr {
			res.Err = ENone
		}
		out.Seq.Ops = append(out.Seq.Ops, op)
		out.Steps = append(out.Steps, StepRec{Op: op, Obs: obs, GhostHit: sp.GhostHit, RejectPanic: sp.RejectPanic, ForeignID: sp.ForeignID})
		if cls, what := classify(r, sp, op, obs, res, adm); cls != "" {
			out.Dev = &Deviation{Index: i, What: what, Class: cls}
			break
		}
	}
	out.Final = append([]Item(nil), sp.Items...)
	return out, nil
}

func Replay(s Seq) (*SeqResult, error) {
	return Run(s.Cfg, func(i int, sp *Spec) (Op, bool) {
		if i >= len(s.Ops) {
			return Op{}, false
		}
		return s.Ops[i], true
	})
}

// ---------------------------------------------------------------- generators

type Profile struct {
	Name     string
	KeySpace int
	Lo       int
	Len      int
	Probe    bool // C18: build, then probe-heavy
}

func pickKey(r *hx.Rng, sp *Spec, p Profile, existingPct int) int {
	if len(sp.Items) > 0 && r.Chance(existingPct) {
		return sp.Items[r.Intn(len(sp.Items))].Key
	}
	return p.Lo + r.Intn(p.KeySpace+2) - 1 // one below and one above the populated span too
}

func pickID(r *hx.Rng, sp *Spec, key int) int {
	switch x := r.Intn(10); {
	case x < 6 && len(sp.Items) > 0:
		// an item with that key when there is one
		var c []int
		for _, it := range sp.Items {
			if it.Key == key {
				c = append(c, it.ID)
			}
		}
		if len(c) > 0 {
			return c[r.Intn(len(c))]
		}
		return sp.Items[r.Intn(len(sp.Items))].ID
	case x < 8 && len(sp.Items) > 0:
		return sp.Items[r.Intn(len(sp.Items))].ID
	case x < 9:
		return 1 + r.Intn(sp.NextID) // possibly a deleted item
	}
	return 60000 + r.Intn(100) // never issued
}

// GenOp draws the next call. phase: 0 grow, 1 churn, 2 shrink, 3 probe.
func GenOp(r *hx.Rng, sp *Spec, p Profile, phase int, val int) Op {
	type w struct {
		k string
		n int
	}
	var ws []w
	switch phase {
	case 0:
		ws = []w{{"add", 50}, {"addine", 8}, {"upsert", 8}, {"remove", 6}, {"find", 5}, {"next", 4}, {"prev", 3}, {"first", 2}, {"last", 2}, {"update", 3}, {"remcur", 2}, {"updcurval", 1}, {"updcurkey", 2}, {"updcuritem", 2}, {"getval", 1}, {"finddesc", 1}}
	case 1:
		ws = []w{{"add", 22}, {"addine", 5}, {"upsert", 6}, {"remove", 22}, {"remcur", 8}, {"find", 8}, {"finddesc", 3}, {"findid", 3}, {"next", 5}, {"prev", 5}, {"first", 2}, {"last", 2}, {"update", 3}, {"updkey", 2}, {"updcurval", 2}, {"updcurkey", 2}, {"updcuritem", 2}, {"getval", 2}, {"getitem", 2}, {"range", 2}, {"rangedesc", 2}}
	case 2:
		ws = []w{{"remove", 45}, {"remcur", 14}, {"add", 8}, {"find", 8}, {"next", 5}, {"prev", 5}, {"first", 3}, {"last", 3}, {"finddesc", 3}, {"upsert", 2}, {"updcurkey", 1}, {"getitem", 1}, {"range", 1}}
	default:
		ws = []w{{"find", 30}, {"finddesc", 15}, {"findid", 12}, {"range", 10}, {"rangedesc", 10}, {"next", 6}, {"prev", 6}, {"getitem", 3}, {"getval", 2}, {"first", 1}, {"last", 1}, {"add", 2}, {"remove", 2}, {"remcur", 1}}
	}
	tot := 0
	for _, x := range ws {
		tot += x.n
	}
	n := r.Intn(tot)
	kind := ws[0].k
	for _, x := range ws {
		if n < x.n {
			kind = x.k
			break
		}
		n -= x.n
	}
	op := Op{K: kind}
	switch kind {
	case "add", "addine", "upsert":
		op.Key, op.Val = pickKey(r, sp, p, 25), val
	case "update":
		op.Key, op.Val = pickKey(r, sp, p, 70), val
	case "updkey", "remove":
		op.Key = pickKey(r, sp, p, 75)
	case "updcuritem":
		op.Key, op.Val = pickKey(r, sp, p, 60), val
		if x, ok := sp.curItem(); ok && r.Chance(60) {
			op.Key = x.Key
		}
	case "updcurkey":
		op.Key = pickKey(r, sp, p, 60)
		if x, ok := sp.curItem(); ok && r.Chance(60) {
			op.Key = x.Key
		}
	case "updcurval":
		op.Val = val
	case "find":
		op.Key, op.First = pickKey(r, sp, p, 55), r.Bool()
		if r.Chance(8) {
			op.Key = 0 // the zero key is what an emptied slot reads as
		}
	case "finddesc":
		op.Key = pickKey(r, sp, p, 55)
	case "findid":
		op.Key = pickKey(r, sp, p, 75)
		op.ID = pickID(r, sp, op.Key)
	case "range", "rangedesc":
		a, b := pickKey(r, sp, p, 40), pickKey(r, sp, p, 40)
		if (kind == "range") == (a > b) && r.Chance(85) {
			a, b = b, a
		}
		op.Key, op.To = a, b
	}
	return op
}

// Generator returns a next-function for Run: phases grow / churn / shrink /
// regrow with interleaved full scans (First+Next.., Last+Previous..).
func Generator(r *hx.Rng, p Profile) func(i int, sp *Spec) (Op, bool) {
	var queue []Op
	phaseLen := p.Len / 4
	if phaseLen < 5 {
		phaseLen = 5
	}
	scanEvery := 25 + r.Intn(25)
	val := 100
	emitted := 0
	return func(i int, sp *Spec) (Op, bool) {
		if len(queue) > 0 {
			op := queue[0]
			queue = queue[1:]
			return op, true
		}
		if emitted >= p.Len {
			if emitted == p.Len { // always end with both full scans
				emitted++
				queue = append(queue, scanOps(len(sp.Items), true)...)
				queue = append(queue, scanOps(len(sp.Items), false)...)
				op := queue[0]
				queue = queue[1:]
				return op, true
			}
			return Op{}, false
		}
		emitted++
		if emitted%scanEvery == 0 {
			queue = scanOps(len(sp.Items), r.Bool())
			op := queue[0]
			queue = queue[1:]
			return op, true
		}
		phase := (emitted / phaseLen) % 4
		if p.Probe {
			if emitted < p.Len/3 {
				phase = 0
			} else if emitted < p.Len/3+p.Len/8 {
				phase = 1
			} else {
				phase = 3
			}
		} else if phase == 3 {
			phase = 0
		}
		val++
		return GenOp(r, sp, p, phase, val), true
	}
}

func scanOps(n int, fwd bool) []Op {
	var ops []Op
	if fwd {
		ops = append(ops, Op{K: "first"})
	} else {
		ops = append(ops, Op{K: "last"})
	}
	for i := 0; i < n+1; i++ {
		if i%5 == 2 {
			ops = append(ops, Op{K: "getval"})
		}
		if fwd {
			ops = append(ops, Op{K: "next"})
		} else {
			ops = append(ops, Op{K: "prev"})
		}
	}
	return ops
}

func GenCfg(r *hx.Rng) Cfg {
	c := Cfg{L: hx.Pick(r, []int{2, 2, 2, 4, 4, 4, 6, 6, 8, 8, 10, 3, 5, 16}), Unique: r.Chance(40), LB: r.Chance(30)}
	if r.Chance(8) {
		c = Cfg{L: 8, Unique: c.Unique, InMem: true}
	}
	return c
}

func GenProfile(r *hx.Rng, l int, probe bool) Profile {
	p := Profile{KeySpace: hx.Pick(r, []int{4, 5, 6, 8, 12, 16, 24, 32, 48, 64}), Lo: hx.Pick(r, []int{0, 0, 0, 1, -3, -10}), Probe: probe}
	p.Len = 40 + r.Intn(60)
	if l >= 8 {
		p.Len += 60 // wider nodes need more items before anything splits
	}
	if r.Chance(25) {
		p.KeySpace = hx.Pick(r, []int{2, 3, 4}) // heavy duplicates
	}
	return p
}

// ---------------------------------------------------------------- Coq printing

func coqItem(x Item) string {
	return fmt.Sprintf("(mkItem %d %s %s)", x.ID, hx.CoqZ(int64(x.Key)), hx.CoqZ(int64(x.Val)))
}
func coqItems(xs []Item) string {
	ss := make([]string, len(xs))
	for i, x := range xs {
		ss[i] = coqItem(x)
	}
	return "[" + strings.Join(ss, ";") + "]"
}
func coqInts(xs []int) string {
	ss := make([]string, len(xs))
	for i, x := range xs {
		ss[i] = fmt.Sprint(x)
	}
	return "[" + strings.Join(ss, ";") + "]"
}

func CoqOp(o Op) string {
	k, v := hx.CoqZ(int64(o.Key)), hx.CoqZ(int64(o.Val))
	switch o.K {
	case "add":
		return fmt.Sprintf("(OAdd %s %s)", k, v)
	case "addine":
		return fmt.Sprintf("(OAddIfNotExist %s %s)", k, v)
	case "upsert":
		return fmt.Sprintf("(OUpsert %s %s)", k, v)
	case "update":
		return fmt.Sprintf("(OUpdate %s %s)", k, v)
	case "updkey":
		return fmt.Sprintf("(OUpdateKey %s)", k)
	case "updcuritem":
		return fmt.Sprintf("(OUpdateCurrentItem %s %s)", k, v)
	case "updcurval":
		return fmt.Sprintf("(OUpdateCurrentValue %s)", v)
	case "updcurkey":
		return fmt.Sprintf("(OUpdateCurrentKey %s)", k)
	case "remove":
		return fmt.Sprintf("(ORemove %s)", k)
	case "remcur":
		return "ORemoveCurrent"
	case "first":
		return "OFirst"
	case "last":
		return "OLast"
	case "next":
		return "ONext"
	case "prev":
		return "OPrev"
	case "find":
		return fmt.Sprintf("(OFind %s %s)", k, hx.CoqBool(o.First))
	case "finddesc":
		return fmt.Sprintf("(OFindDesc %s)", k)
	case "findid":
		return fmt.Sprintf("(OFindWithID %s %d)", k, o.ID)
	case "getval":
		return "OGetCurrentValue"
	case "getitem":
		return "OGetCurrentItem"
	case "range":
		return fmt.Sprintf("(ORange %s %s)", k, hx.CoqZ(int64(o.To)))
	case "rangedesc":
		return fmt.Sprintf("(ORangeDesc %s %s)", k, hx.CoqZ(int64(o.To)))
	}
	panic("CoqOp " + o.K)
}

func coqHint(k, id int) string {
	switch k {
	case HNone:
		return "HNone"
	case HGhost:
		return "HGhost"
	}
	return fmt.Sprintf("(HItem %d)", id)
}

func coqErr(e int) string { return []string{"ENone", "EErr", "EPanic"}[e] }

func coqNode(d NodeDump) string {
	return fmt.Sprintf("(RN %d %d %s %s %s)", d.ID, d.Parent, hx.CoqZ(int64(d.Count)), coqItems(d.Slots), coqInts(d.Children))
}

var opCode = map[string]int{"add": 0, "addine": 1, "upsert": 2, "update": 3, "updkey": 4, "updcuritem": 5, "updcurval": 6, "updcurkey": 7, "remove": 8, "remcur": 9, "first": 10, "last": 11, "next": 12, "prev": 13, "find": 14, "finddesc": 15, "findid": 16, "getval": 17, "getitem": 18, "range": 19, "rangedesc": 20}

func b2i(b bool) int {
	if b {
		return 1
	}
	return 0
}

// ObsVec is the observation vector of Corr/C17.v obs_vec: call result, Count(),
// GetCurrentKey(), raw cursor and the node structure canonicalised by a
// depth-first walk from the root (ids renamed to visit order, unreachable 1000000).
func ObsVec(o Obs, nodes []NodeDump) []int {
	byID := map[int]NodeDump{}
	for _, d := range nodes {
		byID[d.ID] = d
	}
	ren := map[int]int{}
	var order []int
	var walk func(fuel, id int)
	walk = func(fuel, id int) {
		if fuel == 0 || id == 0 {
			return
		}
		if _, ok := ren[id]; ok {
			return
		}
		d, ok := byID[id]
		if !ok {
			return
		}
		ren[id] = len(order) + 1
		order = append(order, id)
		for _, c := range d.Children {
			walk(fuel-1, c)
		}
	}
	walk(len(nodes)+1, o.Root)
	rn := func(id int) int {
		if id == 0 {
			return 0
		}
		if x, ok := ren[id]; ok {
			return x
		}
		return 1000000
	}
	v := []int{b2i(o.Ok), o.Err, len(o.Out)}
	for _, x := range o.Out {
		v = append(v, x.ID, x.Key, x.Val)
	}
	ci := o.CurIdx
	if o.CurNode == 0 {
		ci = 0
	}
	v = append(v, int(o.Count), o.CurKey.ID, o.CurKey.Key, b2i(o.Cached), rn(o.CurNode), ci, len(nodes), len(order))
	for _, id := range order {
		d := byID[id]
		v = append(v, rn(d.Parent), d.Count)
		for _, x := range d.Slots {
			v = append(v, x.ID, x.Key, x.Val)
		}
		if d.Children == nil {
			v = append(v, 0)
		} else {
			v = append(v, 1)
			for _, c := range d.Children {
				v = append(v, rn(c))
			}
		}
	}
	return v
}

func Djb(v []int) uint32 {
	h := uint32(5381)
	for _, x := range v {
		h = h*33 + uint32(int32(x)+1048576)
	}
	return h
}

// CoqCase renders a run as one term of type btcase (Corr/C17.v): per call the
// operation, the monitor hints and the digest of the observation vector.
func CoqCase(res *SeqResult) string {
	var sb strings.Builder
	c := res.Seq.Cfg
	fmt.Fprintf(&sb, "(BtCase %d%%Z %s %s %s %s [", res.L, hx.CoqBool(c.Unique), hx.CoqBool(c.LB), hx.CoqBool(c.InMem), hx.CoqBool(res.Dev == nil))
	for i, st := range res.Steps {
		o, op := st.Obs, st.Op
		a, b := op.Key, op.Val
		switch op.K {
		case "find":
			b = b2i(op.First)
		case "findid":
			b = op.ID
		case "range", "rangedesc":
			b = op.To
		}
		switch {
		case i == 0:
			sb.WriteString("[")
		case i%12 == 0:
			sb.WriteString("];\n[")
		default:
			sb.WriteString(";")
		}
		z := func(x int) string {
			if x < 0 {
				return fmt.Sprintf("(%d)", x)
			}
			return fmt.Sprint(x)
		}
		h := 0
		switch o.HKind {
		case HGhost:
			h = 1
		case HItem:
			h = o.HID + 2
		}
		switch op.K {
		case "remcur", "first", "last", "next", "prev", "getval", "getitem":
			fmt.Fprintf(&sb, "C0 %d %d %d", opCode[op.K], h, o.Digest)
		case "updkey", "updcurkey", "finddesc":
			fmt.Fprintf(&sb, "C1 %d %s %d %d", opCode[op.K], z(a), h, o.Digest)
		case "updcurval":
			fmt.Fprintf(&sb, "C1 %d %s %d %d", opCode[op.K], z(b), h, o.Digest)
		case "remove":
			fmt.Fprintf(&sb, "CR %s %d %d %d", z(a), h, o.HRem, o.Digest)
		default:
			fmt.Fprintf(&sb, "C2 %d %s %s %d %d", opCode[op.K], z(a), z(b), h, o.Digest)
		}
	}
	if len(res.Steps) > 0 {
		sb.WriteString("]")
	}
	sb.WriteString("])%Z")
	return sb.String()
}

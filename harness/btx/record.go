package btx

import (
	"encoding/json"
	"fmt"

	"verif/harness/hx"
)

func Setup(res *hx.Result, prop string) {
	res.Imports = []string{"Lib.Bytes", "OMap", "Btree", "Corr.C17"}
	res.CaseType = "btcase"
	res.Checker = "bt_check"
	if prop == "C18" {
		res.Imports = append(res.Imports, "Corr.C18")
		res.Checker = "c18_check"
	}
	res.Rule = "one case = one operation sequence on a fresh tree (generated adaptively from the spec state: grow / churn / shrink phases, interleaved full forward and backward scans; slot length 2..16, unique/duplicate, leaf load balancing on/off, inmemory.NewBtree glue, key space 2..64 incl. zero and negative keys); every call's return value, error kind, output, Count(), GetCurrentKey(), raw cursor and changed nodes are recorded; distinct = distinct (configuration, op list); non-trivial = the tree had at least 3 nodes at some point"
}

// lbClass refines a deviation seen with leaf load balancing on into the faulty
// step, from the node structure right after the call.
func lbClass(sr *SeqResult) string {
	k := sr.Steps[sr.Dev.Index].Op.K
	if k == "add" || k == "addine" || k == "upsert" {
		// the faulty steps sit in addOnLeaf / distribute: the symptom class names which
		// (ghost-item: unbalanced split keeps Count; unsorted|content: rotated item put
		// under the first nil child)
		return "add:" + sr.Dev.Class
	}
	return k + ":" + sr.Dev.Class
}

// minimised witnesses of the leaf-load-balancing defects (found by the structural diff)
var lbWitnesses = []string{
	`{"cfg":{"l":2,"unique":false,"lb":true,"inmem":false},"ops":[{"k":"add","key":3,"val":113},{"k":"add","key":-1,"val":114},{"k":"add","key":6,"val":115},{"k":"add","key":3,"val":131},{"k":"addine","key":4,"val":132},{"k":"addine","key":7,"val":134},{"k":"add","key":5,"val":149},{"k":"add","val":150},{"k":"add","key":-1,"val":152},{"k":"add","key":-1,"val":154},{"k":"add","key":5,"val":178},{"k":"remove","key":-1},{"k":"remove","key":3},{"k":"find","key":3},{"k":"remcur"},{"k":"remove"},{"k":"add","key":1,"val":228}]}`,
	`{"cfg":{"l":2,"unique":false,"lb":true,"inmem":false},"ops":[{"k":"addine","key":11,"val":103},{"k":"addine","key":12,"val":104},{"k":"add","key":7,"val":108},{"k":"add","key":10,"val":109},{"k":"add","key":8,"val":119},{"k":"add","key":11,"val":121},{"k":"upsert","key":-1,"val":127},{"k":"add","key":7,"val":156},{"k":"add","key":1,"val":158},{"k":"remove","key":11},{"k":"remove","key":-1},{"k":"remove","key":11},{"k":"find","key":1},{"k":"remcur"},{"k":"add","val":213},{"k":"add","key":5,"val":215}]}`,
	`{"cfg":{"l":2,"unique":false,"lb":true,"inmem":false},"ops":[{"k":"add","key":11,"val":106},{"k":"add","key":7,"val":107},{"k":"add","val":110},{"k":"add","key":12,"val":122},{"k":"add","key":11,"val":123},{"k":"add","key":1,"val":126},{"k":"add","key":11,"val":127},{"k":"add","key":9,"val":128},{"k":"add","key":11,"val":129},{"k":"upsert","key":3,"val":132},{"k":"add","key":4,"val":133},{"k":"add","key":3,"val":134},{"k":"add","key":2,"val":135},{"k":"add","key":9,"val":136},{"k":"remove","key":12},{"k":"remove","key":4},{"k":"remove","key":9},{"k":"last"},{"k":"remcur"},{"k":"add","key":10,"val":204},{"k":"add","key":11,"val":211}]}`,
}

// Record turns one run into evidence: distribution counts, oracle verdicts and
// the correspondence case.
func Record(res *hx.Result, prop string, sr *SeqResult) {
	c := sr.Seq.Cfg
	maxNodes := 0
	for _, st := range sr.Steps {
		res.Count("op." + st.Op.K)
		if st.Obs.NNodes > maxNodes {
			maxNodes = st.Obs.NNodes
		}
		if st.Obs.TrkRem != 0 && st.Obs.HRem != 0 && st.Obs.TrkRem != st.Obs.HRem {
			res.Count("note.tracker-remove-names-other-item")
			if len(res.Notes) < 3 {
				res.Notes = append(res.Notes, fmt.Sprintf("ItemActionTracker.Remove was handed item %d while item %d left the tree (%s key %d, cfg %+v)", st.Obs.TrkRem, st.Obs.HRem, st.Op.K, st.Op.Key, c))
			}
		}
	}
	res.Seen(fmt.Sprintf("%+v", sr.Seq), maxNodes >= 3)
	res.Count(fmt.Sprintf("cfg.L=%d", sr.L))
	res.Count(fmt.Sprintf("cfg.unique=%v", c.Unique))
	res.Count(fmt.Sprintf("cfg.lb=%v", c.LB))
	if c.InMem {
		res.Count("cfg.inmemory.NewBtree")
	}
	switch {
	case maxNodes <= 1:
		res.Count("nodes.1")
	case maxNodes <= 4:
		res.Count("nodes.2-4")
	case maxNodes <= 12:
		res.Count("nodes.5-12")
	default:
		res.Count("nodes.13+")
	}
	res.Count(fmt.Sprintf("len.%d0s", len(sr.Steps)/10))
	res.Sample(map[string]any{"cfg": c, "ops": len(sr.Steps), "max_nodes": maxNodes, "final_items": len(sr.Final)})

	// the quirks the specification itself carries (modelled, reported per property)
	for i, st := range sr.Steps {
		in := Seq{Cfg: c, Ops: sr.Seq.Ops[:i+1]}
		if prop == "C17" && st.RejectPanic {
			res.Count("finding.update-reject-nil-deref")
			res.Fail("update-reject-nil-deref", fmt.Sprintf("%s(%d) on an item with another key, right after a call that left currentItem nil, panics (nil dereference while formatting the rejection) instead of returning the error", st.Op.K, st.Op.Key), in)
			break
		}
		if prop == "C18" && st.GhostHit && st.Op.K == "find" {
			res.Count("finding.find-ghost-hit")
			res.Fail("find-ghost-hit", fmt.Sprintf("Find(%d,false) returned true although no item has that key: the cursor reference left behind by an earlier Add points at an emptied slot whose zero key matched", st.Op.Key), in)
			break
		}
		if prop == "C18" && st.ForeignID {
			res.Count("finding.findwithid-foreign-key")
			res.Fail("findwithid-foreign-key", fmt.Sprintf("FindWithID(%d,id) returned true positioned on an item whose key is not %d (the walk does not stop at the end of the equal keys)", st.Op.Key, st.Op.Key), in)
			break
		}
	}
	if sr.Dev != nil {
		sig := sr.Dev.Class
		if c.LB {
			sig = "lb:" + lbClass(sr)
		}
		res.Count("deviation." + sig)
		res.Fail(sig, fmt.Sprintf("cfg %+v, call %d: %s", c, sr.Dev.Index, sr.Dev.What), sr.Seq)
	}
	res.AddCase(CoqCase(sr), sr.Seq)
}

// Corpus: deterministic cases run first on every check (edge grid, minimised
// past failures, one per known finding).
func Corpus(prop string) []Seq {
	var out []Seq
	add := func(k string, key, val int) Op { return Op{K: k, Key: key, Val: val} }
	// ascending / descending / zig-zag fills for every small slot length, then drain
	for _, l := range []int{2, 4, 6, 8} {
		for _, uq := range []bool{true, false} {
			for pat := 0; pat < 3; pat++ {
				var ops []Op
				n := 4*l + 3
				for i := 0; i < n; i++ {
					k := i
					if pat == 1 {
						k = n - i
					} else if pat == 2 {
						k = (i * 7) % n
					}
					ops = append(ops, add("add", k, 100+i))
				}
				ops = append(ops, scanOps(n, true)...)
				ops = append(ops, scanOps(n, false)...)
				for i := 0; i < n; i++ {
					k := (i * 5) % n
					if pat == 1 {
						k = n - k
					}
					ops = append(ops, Op{K: "remove", Key: k})
					if i%4 == 3 {
						ops = append(ops, scanOps(n-i, i%8 == 3)...)
					}
				}
				ops = append(ops, add("add", 1, 1), Op{K: "first"}, Op{K: "getitem"})
				out = append(out, Seq{Cfg: Cfg{L: l, Unique: uq}, Ops: ops})
			}
		}
	}
	if prop == "C17" {
		for _, w := range lbWitnesses {
			var q Seq
			if err := json.Unmarshal([]byte(w), &q); err != nil {
				panic(err)
			}
			out = append(out, q)
		}
	}
	if prop == "C18" {
		// every probe pair over a tree with gaps and duplicates, for small and large nodes
		for _, l := range []int{2, 4, 8} {
			var ops []Op
			for i, k := range []int{6, 2, 8, 2, 4, 6, 0, 6, 8, 2, 6, 4} {
				ops = append(ops, add("add", k, 100+i))
			}
			for a := -1; a <= 9; a++ {
				ops = append(ops, Op{K: "find", Key: a, First: true}, Op{K: "finddesc", Key: a}, Op{K: "find", Key: a})
				for b := -1; b <= 9; b += 1 + (a+l)%2 {
					ops = append(ops, Op{K: "range", Key: a, To: b}, Op{K: "rangedesc", Key: b, To: a})
				}
			}
			for id := 1; id <= 13; id++ {
				ops = append(ops, Op{K: "findid", Key: 6, ID: id}, Op{K: "findid", Key: 2, ID: id})
			}
			out = append(out, Seq{Cfg: Cfg{L: l}, Ops: ops})
		}
	}
	// the nil dereference on a rejected key change (C17 finding)
	out = append(out, Seq{Cfg: Cfg{L: 4, Unique: true}, Ops: []Op{add("add", 1, 1), add("add", 1, 2), {K: "updcurkey", Key: 2}}})
	// the same call rejected properly when the current item is cached
	out = append(out, Seq{Cfg: Cfg{L: 4, Unique: true}, Ops: []Op{add("add", 1, 1), {K: "first"}, {K: "updcurkey", Key: 2}, {K: "updcuritem", Key: 2, Val: 5}, {K: "updcuritem", Key: 1, Val: 5}, {K: "getitem"}}})
	// ghost hit (C18 finding): cursor left on a slot emptied by a root split
	out = append(out, Seq{Cfg: Cfg{L: 2, Unique: false}, Ops: []Op{add("add", 1, 1), add("add", 2, 2), {K: "find", Key: 2}, add("add", 3, 3), {K: "find", Key: 0}, {K: "find", Key: 0, First: true}}})
	// FindWithID across keys (C18 finding)
	out = append(out, Seq{Cfg: Cfg{L: 4, Unique: false}, Ops: []Op{add("add", 1, 1), add("add", 2, 2), add("add", 1, 3), {K: "findid", Key: 1, ID: 3}, {K: "findid", Key: 1, ID: 1}, {K: "findid", Key: 1, ID: 2}, {K: "findid", Key: 2, ID: 1}}})
	return out
}

package main

import (
	"encoding/json"
	"os"

	"verif/harness/btx"
	"verif/harness/hx"
)

// C18: key search positions the cursor so range scans return exactly the range.
// Same runner, models and case format as C17 (package btx, Corr/C17.v); the
// sequences are probe-heavy: build a tree, then Find / FindInDescendingOrder /
// FindWithID / Range / RangeDesc with keys before, between, after and on
// (heavily duplicated) stored keys.

func main() { hx.Main("c18", run) }

func run(cfg *hx.RunCfg) (*hx.Result, error) {
	res := hx.NewResult("C18")
	btx.Setup(res, "C18")
	if cfg.Replay != "" {
		raw, err := os.ReadFile(cfg.Replay)
		if err != nil {
			return nil, err
		}
		var rp struct {
			Input btx.Seq `json:"input"`
		}
		if err := json.Unmarshal(raw, &rp); err != nil {
			return nil, err
		}
		sr, err := btx.Replay(rp.Input)
		if err != nil {
			return nil, err
		}
		btx.Record(res, "C18", sr)
		return res, nil
	}
	n := cfg.N
	if n == 0 {
		n = 30
		if cfg.Tier == "thorough" {
			n = 4000
		}
	}
	for _, s := range btx.Corpus("C18") {
		sr, err := btx.Replay(s)
		if err != nil {
			return nil, err
		}
		res.Count("corpus")
		btx.Record(res, "C18", sr)
	}
	r := hx.NewRng(cfg.Seed)
	for i := 0; i < n; i++ {
		c := btx.GenCfg(r)
		c.LB = false // load balancing is C17's subject (known findings there)
		p := btx.GenProfile(r, c.L, true)
		sr, err := btx.Run(c, btx.Generator(r, p))
		if err != nil {
			return nil, err
		}
		btx.Record(res, "C18", sr)
	}
	return res, nil
}

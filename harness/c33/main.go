package main

import (
	"context"
	"encoding/json"
	"fmt"
	"io"
	"log"
	"log/slog"
	"math"
	"os"
	"sort"
	"strings"
	"time"

	"github.com/sharedcode/sop"
	"github.com/sharedcode/sop/ai"
	"github.com/sharedcode/sop/ai/database"
	"github.com/sharedcode/sop/ai/vector"

	"verif/harness/hx"
)

// C33: the vector store returns live items and correctly ranked query hits.
// K2 (full dumps of Content / Vectors / TempVectors / active version after every
// session) + K4 (centroid assignment, probed centroids and similarity scores are
// read back / recomputed and handed to the model) + a direct oracle against the
// reference semantics id |-> (vector, payload).

func main() { hx.Main("c33", runC33) }

// ---------------------------------------------------------------- scripts

type sItem struct {
	ID  int       `json:"id"`
	Vec []float32 `json:"v"`
	P   int       `json:"p"`
	Cid int       `json:"cid,omitempty"` // explicit centroid (0 = auto)
}

type sOp struct {
	Kind  string    `json:"k"` // ups | batch | del | get | query
	Dom   int       `json:"d"`
	Item  sItem     `json:"it,omitempty"`
	Items []sItem   `json:"its,omitempty"`
	Q     []float32 `json:"q,omitempty"`
	K     int       `json:"n,omitempty"`
	FM    int       `json:"fm,omitempty"`
	FR    int       `json:"fr,omitempty"`
}

type sSession struct {
	Buf    []bool `json:"buf"`   // per domain: Config.EnableIngestionBuffer of this session
	Dedup  []bool `json:"dedup"` // per domain: SetDeduplication
	Ops    []sOp  `json:"ops"`
	End    string `json:"end"` // commit | optimize
	OptDom int    `json:"optdom,omitempty"`
}

type script struct {
	Name     string     `json:"name"`
	Modes    []int      `json:"modes"` // ai.UsageMode per domain
	Sessions []sSession `json:"sessions"`
}

type c33Input struct {
	Script script `json:"script"`
}

// ---------------------------------------------------------------- helpers

func idStr(i int) string { return fmt.Sprintf("i%04d", i) }
func idNum(s string) int {
	var n int
	if _, err := fmt.Sscanf(s, "i%04d", &n); err != nil {
		return 99999
	}
	return n
}

func cosine32(a, b []float32) float32 { // same formula as vector.cosine, evaluated independently
	var dot, na, nb float32
	l := len(a)
	if len(b) < l {
		l = len(b)
	}
	for i := 0; i < l; i++ {
		dot += a[i] * b[i]
		na += a[i] * a[i]
		nb += b[i] * b[i]
	}
	if na == 0 || nb == 0 {
		return 0
	}
	return dot / float32(math.Sqrt(float64(na))*math.Sqrt(float64(nb)))
}

// scoreCode maps a float32 to an integer preserving the order Go's > uses (-0 == +0).
func scoreCode(f float32) int64 {
	b := math.Float32bits(f)
	if b&0x80000000 != 0 {
		return -int64(b & 0x7fffffff)
	}
	return int64(b)
}

func bitsList(v []float32) string {
	var sb strings.Builder
	sb.WriteString("[")
	for i, x := range v {
		if i > 0 {
			sb.WriteString(";")
		}
		fmt.Fprintf(&sb, "%d", math.Float32bits(x))
	}
	sb.WriteString("]")
	return sb.String()
}
func vecKey(v []float32) string { return bitsList(v) }
func dcode(f float32) string    { return hx.CoqZ(int64(math.Float32bits(f))) }

func coqCK(k ai.ContentKey) string {
	return fmt.Sprintf("(mkCK %s %s %s %s %s %s %s)", hx.CoqZ(int64(k.CentroidID)), dcode(k.Distance), hx.CoqZ(k.Version), hx.CoqBool(k.Deleted),
		hx.CoqZ(int64(k.NextCentroidID)), dcode(k.NextDistance), hx.CoqZ(k.NextVersion))
}

func payloadNum(js string) int {
	var m map[string]any
	if json.Unmarshal([]byte(js), &m) != nil {
		return 99999
	}
	if f, ok := m["p"].(float64); ok {
		return int(f)
	}
	return 99999
}
func payloadOf(m map[string]any) int {
	switch x := m["p"].(type) {
	case float64:
		return int(x)
	case int:
		return x
	}
	return 99999
}

// ---------------------------------------------------------------- execution state

type refItem struct {
	vec []float32
	p   int
}

type domState struct {
	name        string
	mode        ai.UsageMode
	events      []string
	ref         map[int]refItem
	known       map[int]bool
	vecs        map[string][]float32 // every vector ever handed to the store (+ nil)
	ghosty      bool                 // a dedup-off upsert hit an id already in Content: documented ghost-vector territory, no direct oracle
	everBuf     bool
	overBatch   bool // an Optimize ran while more than 100 entries were staged
	stagedDel   bool // the Optimize of the current session runs while a staged entry is deleted (nil vector in TempVectors)
	stagedState map[int]bool // ids the harness knows to be in TempVectors -> deleted while staged
	resurrectable map[int]bool // ids that were deleted while staged when a staging Optimize consolidated them, and not written since
	optimized   int
	dead        bool
	mark        int // len(events) at the start of the current session
	restaged    bool // a staging session ran after the first Optimize: staged and indexed items are readable only through different instance configurations
	suspect     bool // an in-transaction read showed a vector / score that no upserted vector explains
	lastTempLen int
	lastTempDel bool
	inContent   map[int]bool
	idVecs      map[int][][]float32 // every vector ever upserted under an id (ghost entries of dedup-off sessions)
}

type runner struct {
	res   *hx.Result
	ctx   context.Context
	db    *database.Database
	dir   string
	doms  []*domState
	input c33Input
}

var seqCounter int

func (r *runner) cfg(d *domState, buf bool) vector.Config {
	return vector.Config{UsageMode: d.mode, EnableIngestionBuffer: buf}
}

func safe(f func() error) (err error, panicked bool) {
	defer func() {
		if x := recover(); x != nil {
			err = fmt.Errorf("panic: %v", x)
			panicked = true
		}
	}()
	return f(), false
}

func (r *runner) cause(d *domState, kind string) string {
	if kind == "wrong-vector" && d.mode == ai.DynamicWithVectorCountTracking {
		return "count-tracking-alias"
	}
	if (kind == "optimize-error" || kind == "commit-error") && d.mode == ai.DynamicWithVectorCountTracking {
		return "count-tracking"
	}
	if !d.everBuf {
		return "index"
	}
	if kind == "lost" && d.overBatch {
		return "staged-over-100"
	}
	if kind == "panic-optimize" && d.stagedDel {
		return "staged-deleted"
	}
	return "staged"
}

func (r *runner) fail(d *domState, kind, what string) {
	if kind == "query-score" && d.mode == ai.DynamicWithVectorCountTracking {
		kind = "wrong-vector" // a score computed from a stored vector that the in-place centroid average overwrote
	}
	if (kind == "optimize-error" || kind == "commit-error") && d.mode != ai.DynamicWithVectorCountTracking {
		for _, o := range r.doms { // the transaction is shared: a NaN centroid of a count-tracking domain fails it for all
			if o.mode == ai.DynamicWithVectorCountTracking {
				d = o
			}
		}
	}
	sig := kind + "/" + r.cause(d, kind)
	if d.restaged {
		// staged and indexed entries coexist: every read path sees only one of the two sets (one finding, many symptoms)
		sig = "inconsistent/restaged-after-optimize"
	}
	r.res.Fail(sig, fmt.Sprintf("[%s dom %s] %s", r.input.Script.Name, d.name, what), r.input)
	r.res.Count("oracle_fail." + sig)
}

// failID is fail for a symptom that concerns one id: an id that was deleted while staged and then pushed through
// Consolidate is live again in Content and in the index (known finding resurrected/staged-deleted) — whether it is
// seen through Get, the Content scan or a query hit is the same cause, so it carries the same signature.
func (r *runner) failID(d *domState, kind string, id int, what string) {
	if (kind == "resurrected" || kind == "query-not-live") && d.resurrectable[id] && !d.restaged {
		sig := "resurrected/staged-deleted"
		r.res.Fail(sig, fmt.Sprintf("[%s dom %s] %s", r.input.Script.Name, d.name, what), r.input)
		r.res.Count("oracle_fail." + sig)
		return
	}
	r.fail(d, kind, what)
}

// checkGet compares one Get result with the reference semantics (direct oracle).
func (r *runner) checkGet(d *domState, id int, it *ai.Item[map[string]any], err error, where string) {
	if d.ghosty {
		return
	}
	want, live := d.ref[id]
	switch {
	case live && (err != nil || it == nil):
		r.fail(d, "lost", fmt.Sprintf("%s: Get(%s) = error %v, but the item is live (last upsert not followed by a delete)", where, idStr(id), err))
	case !live && err == nil && it != nil:
		kind := "resurrected"
		if !d.known[id] {
			kind = "phantom"
		}
		r.failID(d, kind, id, fmt.Sprintf("%s: Get(%s) returned an item (vector %v) although it was deleted / never stored", where, idStr(id), it.Vector))
	case live:
		if vecKey(it.Vector) != vecKey(want.vec) {
			r.fail(d, "wrong-vector", fmt.Sprintf("%s: Get(%s) vector %v, want %v", where, idStr(id), it.Vector, want.vec))
		}
		if payloadOf(it.Payload) != want.p {
			r.fail(d, "wrong-payload", fmt.Sprintf("%s: Get(%s) payload %v, want p=%d", where, idStr(id), it.Payload, want.p))
		}
	}
}

func coqGet(it *ai.Item[map[string]any], err error) string {
	if err != nil || it == nil {
		return "None"
	}
	return fmt.Sprintf("(G %s %d %s)", bitsList(it.Vector), payloadOf(it.Payload), hx.CoqZ(int64(it.CentroidID)))
}

// readKey reads the ContentKey of id through the instance's own Content tree.
func (r *runner) readKey(idx ai.VectorStore[map[string]any], id int) (ai.ContentKey, bool) {
	c, err := idx.Content(r.ctx)
	if err != nil {
		return ai.ContentKey{}, false
	}
	found, err := c.Find(r.ctx, ai.ContentKey{ItemID: idStr(id)}, false)
	if err != nil || !found {
		return ai.ContentKey{}, false
	}
	return c.GetCurrentKey().Key, true
}

func (r *runner) doQuery(d *domState, idx ai.VectorStore[map[string]any], buf bool, q []float32, k, fm, fr int, where string) {
	var flt func(map[string]any) bool
	if fm > 0 {
		flt = func(m map[string]any) bool { return payloadOf(m)%fm == fr }
	}
	probes, probesOK := []int{}, true
	if !buf {
		ids, dists, err := vector.VerifCentroidDistances(r.ctx, idx, q)
		if err != nil {
			probesOK = false
		} else {
			ord := make([]int, len(ids))
			for i := range ord {
				ord[i] = i
			}
			sort.Slice(ord, func(a, b int) bool {
				if dists[ord[a]] != dists[ord[b]] {
					return dists[ord[a]] < dists[ord[b]]
				}
				return ids[ord[a]] < ids[ord[b]]
			})
			if len(ord) > 2 && dists[ord[1]] == dists[ord[2]] {
				probesOK = false // which of the tied centroids is probed depends on map iteration order
				r.res.Count("query.ambiguous_probe")
			}
			for i := 0; i < len(ord) && i < 2; i++ {
				probes = append(probes, ids[ord[i]])
			}
		}
	}
	var hits []ai.Hit[map[string]any]
	err, _ := safe(func() error {
		var e error
		hits, e = idx.Query(r.ctx, append([]float32(nil), q...), k, flt)
		return e
	})
	r.res.Count("op.query")
	if err != nil {
		r.fail(d, "query-error", fmt.Sprintf("%s: Query(%v,k=%d) error %v", where, q, k, err))
		return
	}
	r.res.Count(fmt.Sprintf("query.hits_%d", min(len(hits), 5)))
	// direct oracle
	if !d.ghosty {
		seen := map[string]bool{}
		if k >= 0 && len(hits) > k || k < 0 && len(hits) > 0 {
			r.fail(d, "query-too-many", fmt.Sprintf("%s: Query k=%d returned %d hits", where, k, len(hits)))
		}
		for i, h := range hits {
			id := idNum(h.ID)
			it, live := d.ref[id]
			if seen[h.ID] {
				r.fail(d, "query-duplicate", fmt.Sprintf("%s: Query returned %s twice", where, h.ID))
			}
			seen[h.ID] = true
			if !live {
				r.failID(d, "query-not-live", id, fmt.Sprintf("%s: Query returned %s which is deleted / never stored", where, h.ID))
				continue
			}
			if fm > 0 && it.p%fm != fr {
				r.fail(d, "query-filter", fmt.Sprintf("%s: Query returned %s (p=%d) although the filter p%%%d==%d rejects it", where, h.ID, it.p, fm, fr))
			}
			if want := cosine32(q, it.vec); math.Abs(float64(h.Score-want)) > 1e-5 {
				r.fail(d, "query-score", fmt.Sprintf("%s: Query score of %s is %v, cosine(q, stored vector) = %v", where, h.ID, h.Score, want))
			}
			if i > 0 && hits[i-1].Score < h.Score {
				r.fail(d, "query-order", fmt.Sprintf("%s: Query scores not descending at %d: %v then %v", where, i, hits[i-1].Score, h.Score))
			}
			if payloadOf(h.Payload) != it.p {
				r.fail(d, "query-payload", fmt.Sprintf("%s: Query hit %s payload %v, want p=%d", where, h.ID, h.Payload, it.p))
			}
		}
	}
	if !probesOK {
		return
	}
	var tab []string
	keys := make([]string, 0, len(d.vecs))
	for kk := range d.vecs {
		keys = append(keys, kk)
	}
	sort.Strings(keys)
	for _, kk := range keys {
		tab = append(tab, fmt.Sprintf("SC %s %s", kk, hx.CoqZ(scoreCode(cosine32(q, d.vecs[kk])))))
	}
	codes := map[int64]bool{}
	for _, v := range d.vecs {
		codes[scoreCode(cosine32(q, v))] = true
	}
	for _, h := range hits {
		if !codes[scoreCode(h.Score)] {
			d.suspect = true
		}
	}
	var ps, hs []string
	for _, p := range probes {
		ps = append(ps, hx.CoqZ(int64(p)))
	}
	for _, h := range hits {
		hs = append(hs, fmt.Sprintf("H %d %s", idNum(h.ID), hx.CoqZ(scoreCode(h.Score))))
	}
	d.events = append(d.events, fmt.Sprintf("EQuery %s %s %s %s (FL %d %d) %s", hx.CoqBool(buf), hx.CoqList(ps), hx.CoqList(tab), hx.CoqZ(int64(k)), fm, fr, hx.CoqList(hs)))
}

type dump struct {
	version int64
	content []string
	cKeys   map[int]ai.ContentKey
	vectors []string
	vEnt    []vdump
	temp    []string
	tempLen int
	tempDel bool
	live    []int
}
type vdump struct {
	key ai.VectorKey
	vec []float32
}

func (r *runner) dumpDom(d *domState, tx sop.Transaction) (*dump, ai.VectorStore[map[string]any], error) {
	idx, err := r.db.OpenVectorStore(r.ctx, d.name, tx, r.cfg(d, false))
	if err != nil {
		return nil, nil, err
	}
	out := &dump{cKeys: map[int]ai.ContentKey{}}
	if out.version, err = idx.Version(r.ctx); err != nil {
		return nil, nil, err
	}
	c, err := idx.Content(r.ctx)
	if err != nil {
		return nil, nil, err
	}
	ok, err := c.First(r.ctx)
	for ok && err == nil {
		k := c.GetCurrentKey().Key
		val, _ := c.GetCurrentValue(r.ctx)
		id := idNum(k.ItemID)
		out.content = append(out.content, fmt.Sprintf("CE %d %s %d", id, coqCK(k), payloadNum(val)))
		out.cKeys[id] = k
		if !k.Deleted {
			out.live = append(out.live, id)
		}
		ok, err = c.Next(r.ctx)
	}
	if err != nil {
		return nil, nil, err
	}
	v, err := idx.Vectors(r.ctx)
	if err != nil {
		return nil, nil, err
	}
	ok, err = v.First(r.ctx)
	for ok && err == nil {
		k := v.GetCurrentKey().Key
		val, _ := v.GetCurrentValue(r.ctx)
		out.vectors = append(out.vectors, fmt.Sprintf("VE %s %s %d %s %s", hx.CoqZ(int64(k.CentroidID)), dcode(k.DistanceToCentroid), idNum(k.ItemID), hx.CoqBool(k.IsDeleted), bitsList(val)))
		out.vEnt = append(out.vEnt, vdump{k, val})
		ok, err = v.Next(r.ctx)
	}
	if err != nil {
		return nil, nil, err
	}
	if exists, _ := r.db.StoreExists(r.ctx, d.name+"/tmp_vecs"); exists {
		cfg := r.cfg(d, true)
		cfg.TransactionOptions.StoresFolders = r.db.StoresFolders()
		cfg.TransactionOptions.CacheType = r.db.CacheType()
		cfg.Cache = r.db.Cache()
		arch, err := vector.OpenDomainStore(r.ctx, tx, d.name, out.version, cfg)
		if err != nil {
			return nil, nil, err
		}
		t := arch.TempVectors
		ok, err = t.First(r.ctx)
		for ok && err == nil {
			k := t.GetCurrentKey().Key
			val, _ := t.GetCurrentValue(r.ctx)
			out.temp = append(out.temp, fmt.Sprintf("TE %d %s", idNum(k), bitsList(val)))
			out.tempLen++
			if len(val) == 0 {
				out.tempDel = true
			}
			ok, err = t.Next(r.ctx)
		}
		if err != nil {
			return nil, nil, err
		}
	}
	return out, idx, nil
}

// observe: after a session, a fresh transaction dumps every domain and runs Get on every known id and a few queries.
func (r *runner) observe(rng *hx.Rng, where string) map[*domState]*dump {
	dumps := map[*domState]*dump{}
	tx, err := r.db.BeginTransaction(r.ctx, sop.ForWriting)
	if err != nil {
		for _, d := range r.doms {
			d.dead = true
		}
		return dumps
	}
	for _, d := range r.doms {
		if d.dead {
			continue
		}
		var dp *dump
		var idx ai.VectorStore[map[string]any]
		err, _ := safe(func() error {
			var e error
			dp, idx, e = r.dumpDom(d, tx)
			return e
		})
		if err != nil {
			r.fail(d, "dump-error", fmt.Sprintf("%s: cannot read the store back: %v", where, err))
			d.dead = true
			continue
		}
		dumps[d] = dp
		// a stored vector that was never handed to the store: in DynamicWithVectorCountTracking mode the rolling
		// centroid average is computed in place on a slice shared with an item's stored vector (known finding).
		// The arithmetic is outside the bookkeeping model: the run is cut before the session that exposed it.
		corrupted := false
		for _, e := range dp.vEnt {
			id := idNum(e.key.ItemID)
			explained := len(e.vec) == 0 // nil vector of a consolidated deleted entry
			for _, v := range d.idVecs[id] {
				if vecKey(v) == vecKey(e.vec) {
					explained = true
				}
			}
			it, live := d.ref[id]
			// with dedup on and no staging in between, the single index entry of a live id holds its latest vector;
			// in count-tracking mode anything else is the in-place average (it may coincide with another upserted vector)
			stale := live && !d.ghosty && !d.restaged && !e.key.IsDeleted && d.mode == ai.DynamicWithVectorCountTracking && vecKey(it.vec) != vecKey(e.vec)
			if !explained || stale {
				corrupted = true
				if live && !d.ghosty && !e.key.IsDeleted {
					r.fail(d, "wrong-vector", fmt.Sprintf("%s: the vector stored for live item %s is %v, the vector upserted was %v", where, e.key.ItemID, e.vec, it.vec))
				}
			}
		}
		if corrupted || (d.suspect && d.mode == ai.DynamicWithVectorCountTracking) {
			r.res.Count("dom.cut_stored_vector_mutated")
			d.events = d.events[:d.mark]
			d.dead = true
			continue
		}
		obsBuf := d.everBuf && d.optimized == 0 // staged and not yet optimized: items are readable only through a staging instance
		if obsBuf {
			err, _ := safe(func() error {
				var e error
				idx, e = r.db.OpenVectorStore(r.ctx, d.name, tx, r.cfg(d, true))
				return e
			})
			if err != nil {
				d.dead = true
				continue
			}
		}
		d.lastTempLen, d.lastTempDel = dp.tempLen, dp.tempDel
		d.inContent = map[int]bool{}
		for id := range dp.cKeys {
			d.inContent[id] = true
		}
		d.events = append(d.events, fmt.Sprintf("EState %s %s %s %s", hx.CoqZ(dp.version), hx.CoqList(dp.content), hx.CoqList(dp.vectors), hx.CoqList(dp.temp)))
		var ls []string
		for _, id := range dp.live {
			ls = append(ls, fmt.Sprintf("%d", id))
		}
		d.events = append(d.events, "ELive "+hx.CoqList(ls))
		// live set vs reference (direct oracle): the Content scan must list exactly the live ids
		if !d.ghosty {
			got := map[int]bool{}
			for _, id := range dp.live {
				if got[id] {
					r.fail(d, "duplicate", fmt.Sprintf("%s: Content scan lists %s twice", where, idStr(id)))
				}
				got[id] = true
				if _, live := d.ref[id]; !live {
					kind := "resurrected"
					if !d.known[id] {
						kind = "phantom"
					}
					r.failID(d, kind, id, fmt.Sprintf("%s: Content scan lists %s as live although it was deleted / never stored", where, idStr(id)))
				}
			}
			for id := range d.ref {
				if !got[id] {
					r.fail(d, "lost", fmt.Sprintf("%s: live item %s is missing from the Content scan", where, idStr(id)))
				}
			}
		}
		ids := make([]int, 0, len(d.known)+1)
		for id := range d.known {
			ids = append(ids, id)
		}
		sort.Ints(ids)
		ids = append(ids, 9000) // never stored
		if len(ids) > 40 {      // large staged runs: sample
			ids = append(ids[:20], ids[len(ids)-20:]...)
		}
		for _, id := range ids {
			var it *ai.Item[map[string]any]
			err, _ := safe(func() error {
				var e error
				it, e = idx.Get(r.ctx, idStr(id))
				return e
			})
			r.res.Count("op.get")
			r.checkGet(d, id, it, err, where)
			d.events = append(d.events, fmt.Sprintf("EGet %s %d %s", hx.CoqBool(obsBuf), id, coqGet(it, err)))
		}
		for q := 0; q < 2; q++ {
			qv := genVec(rng, dimOf(d), true)
			k := hx.Pick(rng, []int{1, 2, 3, 5, 100})
			fm := hx.Pick(rng, []int{0, 0, 2, 3})
			fr := 0
			if fm > 0 {
				fr = rng.Intn(fm)
			}
			r.doQuery(d, idx, obsBuf, qv, k, fm, fr, where)
		}
	}
	if err := tx.Commit(r.ctx); err != nil {
		tx.Rollback(r.ctx)
	}
	return dumps
}

func dimOf(d *domState) int {
	for _, v := range d.vecs {
		if len(v) > 0 {
			return len(v)
		}
	}
	return 2
}

func (d *domState) noteVec(v []float32) { d.vecs[vecKey(v)] = v }

func (r *runner) execScript(sc script) {
	seqCounter++
	r.input = c33Input{Script: sc}
	dir, err := os.MkdirTemp(baseDir(), "run-*")
	if err != nil {
		panic(err)
	}
	defer os.RemoveAll(dir)
	r.dir = dir
	r.db = database.NewDatabase(sop.DatabaseOptions{StoresFolders: []string{dir}})
	r.doms = nil
	for i, m := range sc.Modes {
		d := &domState{name: fmt.Sprintf("v%d_%d", seqCounter, i), mode: ai.UsageMode(m), ref: map[int]refItem{}, known: map[int]bool{}, vecs: map[string][]float32{}, inContent: map[int]bool{}, stagedState: map[int]bool{}, resurrectable: map[int]bool{}}
		d.noteVec(nil)
		r.doms = append(r.doms, d)
	}
	rng := hx.NewRng(uint64(len(sc.Name))*7919 + uint64(len(sc.Sessions)))
	for si, ss := range sc.Sessions {
		where := fmt.Sprintf("session %d", si)
		tx, err := r.db.BeginTransaction(r.ctx, sop.ForWriting)
		if err != nil {
			break
		}
		idxs := make([]ai.VectorStore[map[string]any], len(r.doms))
		for _, d := range r.doms {
			d.mark = len(d.events)
		}
		for i, d := range r.doms {
			if d.dead {
				continue
			}
			idx, err := r.db.OpenVectorStore(r.ctx, d.name, tx, r.cfg(d, ss.Buf[i]))
			if err != nil {
				d.dead = true
				continue
			}
			idx.SetDeduplication(ss.Dedup[i])
			idxs[i] = idx
			if ss.Buf[i] {
				d.everBuf = true
				if d.optimized > 0 {
					d.restaged = true
				}
			}
		}
		for _, op := range ss.Ops {
			d := r.doms[op.Dom]
			idx := idxs[op.Dom]
			if d.dead || idx == nil {
				continue
			}
			buf, dedup := ss.Buf[op.Dom], ss.Dedup[op.Dom]
			switch op.Kind {
			case "ups", "batch":
				items := op.Items
				if op.Kind == "ups" {
					items = []sItem{op.Item}
				}
				var ais []ai.Item[map[string]any]
				for _, it := range items {
					ais = append(ais, ai.Item[map[string]any]{ID: idStr(it.ID), Vector: append([]float32(nil), it.Vec...), Payload: map[string]any{"p": it.P}, CentroidID: it.Cid})
					if !dedup && !buf && d.inContent[it.ID] {
						d.ghosty = true
					}
				}
				dupInBatch := false
				seenID := map[int]bool{}
				for _, it := range items {
					if seenID[it.ID] {
						dupInBatch = true
					}
					seenID[it.ID] = true
				}
				err, _ := safe(func() error {
					if op.Kind == "ups" {
						return idx.Upsert(r.ctx, ais[0])
					}
					return idx.UpsertBatch(r.ctx, ais)
				})
				if err == nil && dupInBatch && d.ghosty {
					// only the LAST assignment of a repeated id can be read back. Without ghost entries the final state
					// does not depend on the earlier ones; with ghosts an earlier one may collide with a ghost key (Add
					// refused, the ghost removed by the next item's cleanup). The oracle is incomplete: stop comparing this domain.
					r.res.Count("dom.cut_batch_repeats_id_among_ghosts")
					d.events = d.events[:d.mark]
					d.dead = true
					continue
				}
				r.res.Count("op." + op.Kind)
				if err != nil {
					r.fail(d, "upsert-error", fmt.Sprintf("%s: %s failed: %v", where, op.Kind, err))
					d.dead = true
					continue
				}
				for _, it := range items {
					d.known[it.ID] = true
					d.inContent[it.ID] = true
					delete(d.resurrectable, it.ID)
					if buf {
						d.stagedState[it.ID] = false
					}
					d.ref[it.ID] = refItem{it.Vec, it.P}
					d.noteVec(it.Vec)
					if d.idVecs == nil {
						d.idVecs = map[int][][]float32{}
					}
					d.idVecs[it.ID] = append(d.idVecs[it.ID], it.Vec)
					a := "0%Z 0%Z"
					if !buf {
						k, ok := r.readKey(idx, it.ID)
						if !ok {
							r.fail(d, "lost", fmt.Sprintf("%s: no Content entry for %s right after its upsert", where, idStr(it.ID)))
						}
						a = fmt.Sprintf("%s %s", hx.CoqZ(int64(k.CentroidID)), dcode(k.Distance))
					}
					d.events = append(d.events, fmt.Sprintf("UPS %s %s %d %s %d %s", hx.CoqBool(buf), hx.CoqBool(dedup), it.ID, bitsList(it.Vec), it.P, a))
				}
			case "centroid":
				safe(func() error {
					_, e := idx.AddCentroid(r.ctx, append([]float32(nil), op.Q...))
					return e
				})
				r.res.Count("op.add_centroid")
			case "del":
				err, _ := safe(func() error { return idx.Delete(r.ctx, idStr(op.Item.ID)) })
				r.res.Count("op.del")
				if err != nil {
					r.fail(d, "delete-error", fmt.Sprintf("%s: Delete(%s) failed: %v", where, idStr(op.Item.ID), err))
					d.dead = true
					continue
				}
				delete(d.ref, op.Item.ID)
				delete(d.resurrectable, op.Item.ID)
				if _, staged := d.stagedState[op.Item.ID]; staged && buf {
					d.stagedState[op.Item.ID] = true
				}
				d.events = append(d.events, fmt.Sprintf("DEL %s %d", hx.CoqBool(buf), op.Item.ID))
			case "get":
				var it *ai.Item[map[string]any]
				err, _ := safe(func() error {
					var e error
					it, e = idx.Get(r.ctx, idStr(op.Item.ID))
					return e
				})
				r.res.Count("op.get")
				if !buf || d.optimized == 0 {
					r.checkGet(d, op.Item.ID, it, err, where+" (in transaction)")
				}
				if err == nil && it != nil {
					if _, ok := d.vecs[vecKey(it.Vector)]; !ok {
						d.suspect = true
					}
				}
				d.events = append(d.events, fmt.Sprintf("EGet %s %d %s", hx.CoqBool(buf), op.Item.ID, coqGet(it, err)))
			case "query":
				r.doQuery(d, idx, buf, op.Q, op.K, op.FM, op.FR, where+" (in transaction)")
			}
		}
		if ss.End == "optimize" && !r.doms[ss.OptDom].dead {
			d := r.doms[ss.OptDom]
			buf, dedup := ss.Buf[ss.OptDom], ss.Dedup[ss.OptDom]
			// staged entries as of the end of this session (previous dump + this session's staged upserts/deletes)
			if buf {
				staged, del := d.lastTempLen, d.lastTempDel
				for _, op := range ss.Ops {
					if op.Dom != ss.OptDom {
						continue
					}
					switch op.Kind {
					case "ups":
						staged++
					case "batch":
						staged += len(op.Items)
					case "del":
						del = true
					}
				}
				if staged > 100 {
					d.overBatch = true
				}
				_ = del
			}
			// a staging Optimize consolidates the staged entries, the deleted ones included; phase 4 then drops TempVectors
			d.stagedDel = false
			for id, deleted := range d.stagedState {
				if deleted && buf {
					d.stagedDel = true
					d.resurrectable[id] = true
				}
			}
			d.stagedState = map[int]bool{}
			oldVersion := int64(d.optimized)
			err, panicked := safe(func() error { return idxs[ss.OptDom].Optimize(r.ctx) })
			r.res.Count("op.optimize")
			if panicked {
				r.fail(d, "panic-optimize", fmt.Sprintf("%s: Optimize panicked: %v", where, err))
				for _, o := range r.doms { // the shared transaction is in an unknown state
					o.dead = true
					o.events = o.events[:o.mark]
				}
				break
			}
			if err != nil {
				r.fail(d, "optimize-error", fmt.Sprintf("%s: Optimize failed: %v", where, err))
				for _, o := range r.doms {
					o.dead = true
					o.events = o.events[:o.mark]
				}
				break
			}
			d.optimized++
			// oracle answers: read the new index back
			tx2, err := r.db.BeginTransaction(r.ctx, sop.ForWriting)
			if err != nil {
				d.dead = true
				break
			}
			var dp *dump
			err, _ = safe(func() error {
				var e error
				dp, _, e = r.dumpDom(d, tx2)
				return e
			})
			tx2.Commit(r.ctx)
			if err != nil {
				r.fail(d, "dump-error", fmt.Sprintf("%s: cannot read the store back after Optimize: %v", where, err))
				d.dead = true
				continue
			}
			var cs, mig []string
			ids := make([]int, 0, len(dp.cKeys))
			for id := range dp.cKeys {
				ids = append(ids, id)
			}
			sort.Ints(ids)
			for _, id := range ids {
				k := dp.cKeys[id]
				if k.Version == oldVersion && k.CentroidID != 0 {
					cs = append(cs, fmt.Sprintf("CS %d %s %s", id, hx.CoqZ(int64(k.CentroidID)), dcode(k.Distance)))
				}
			}
			for _, e := range dp.vEnt {
				mig = append(mig, fmt.Sprintf("MG %d %s %s %s", idNum(e.key.ItemID), bitsList(e.vec), hx.CoqZ(int64(e.key.CentroidID)), dcode(e.key.DistanceToCentroid)))
			}
			// an old entry that is missing from the new index although entries are migrated unconditionally (dedup off)
			// was refused by Add on a key collision with another entry of the same id: it had that entry's assignment
			present := map[string]bool{}
			first := map[int]vdump{}
			for _, e := range dp.vEnt {
				id := idNum(e.key.ItemID)
				present[fmt.Sprintf("%d/%s", id, vecKey(e.vec))] = true
				if _, ok := first[id]; !ok {
					first[id] = e
				}
			}
			for _, id := range ids {
				f, ok := first[id]
				if !ok {
					continue
				}
				for _, v := range d.idVecs[id] {
					kk := fmt.Sprintf("%d/%s", id, vecKey(v))
					if !present[kk] {
						present[kk] = true
						mig = append(mig, fmt.Sprintf("MG %d %s %s %s", id, bitsList(v), hx.CoqZ(int64(f.key.CentroidID)), dcode(f.key.DistanceToCentroid)))
					}
				}
			}
			d.events = append(d.events, fmt.Sprintf("OPT %s %s %s %s", hx.CoqBool(buf), hx.CoqBool(dedup), hx.CoqList(cs), hx.CoqList(mig)))
		} else {
			if err := tx.Commit(r.ctx); err != nil {
				culprit := r.doms[0]
				for _, d := range r.doms { // attribute to a count-tracking domain when there is one (see the NaN finding)
					if d.mode == ai.DynamicWithVectorCountTracking {
						culprit = d
					}
				}
				r.fail(culprit, "commit-error", fmt.Sprintf("%s: Commit failed: %v", where, err))
				for _, d := range r.doms {
					d.dead = true
					d.events = d.events[:d.mark]
				}
				break
			}
		}
		r.observe(rng, fmt.Sprintf("after session %d (%s)", si, ss.End))
	}
	for di, d := range r.doms {
		canon := strings.Join(d.events, ";")
		r.res.Seen(canon, len(d.known) > 1)
		if len(d.events) == 0 {
			continue
		}
		if d.ghosty {
			r.res.Count("dom.ghosty_no_direct_oracle")
		}
		if d.everBuf {
			r.res.Count("dom.staged")
		} else {
			r.res.Count("dom.index")
		}
		r.res.Count(fmt.Sprintf("dom.optimizations_%d", min(d.optimized, 3)))
		r.res.AddCase("["+strings.Join(d.events, ";\n ")+"]", map[string]any{"script": sc, "dom": di})
		r.res.Sample(map[string]any{"script": sc.Name, "dom": di, "events": len(d.events), "ids": len(d.known), "optimizations": d.optimized, "staged": d.everBuf})
	}
}

func baseDir() string {
	b := "/var/tmp/C33"
	os.MkdirAll(b, 0o755)
	return b
}

// ---------------------------------------------------------------- generators

func genVec(r *hx.Rng, dim int, query bool) []float32 {
	v := make([]float32, dim)
	switch r.Intn(10) {
	case 0: // axis vector
		v[r.Intn(dim)] = float32(1 + r.Intn(2))
	case 1: // all equal (many proportional ties)
		c := float32(1 + r.Intn(3))
		for i := range v {
			v[i] = c
		}
	case 2:
		if !query && r.Chance(40) { // zero vector: cosine 0 against everything
			return v
		}
		fallthrough
	default:
		for i := range v {
			v[i] = float32(r.Intn(4) - 1)
		}
	}
	if query { // make centroid-distance ties unlikely while keeping score ties among the stored items
		v[r.Intn(dim)] += 0.37
	}
	return v
}

func genScript(r *hx.Rng, name string, big bool) script {
	nd := 1 + r.Intn(3)
	sc := script{Name: name}
	dims := make([]int, nd)
	staged := make([]bool, nd)  // staged-ingestion life cycle: buffered sessions until the first Optimize
	dedupOff := make([]int, nd) // 0 never, 1 sometimes
	idspace := make([]int, nd)
	optimized := make([]bool, nd)
	for i := 0; i < nd; i++ {
		sc.Modes = append(sc.Modes, r.Intn(3))
		dims[i] = 2 + r.Intn(7)
		staged[i] = r.Chance(20)
		if r.Chance(35) {
			dedupOff[i] = 1
		}
		idspace[i] = 3 + r.Intn(8)
	}
	fresh := make([]int, nd)
	for i := range fresh {
		fresh[i] = 100
	}
	seeded := make([]int, nd) // centroids pre-created through AddCentroid (count-tracking mode, see the alias finding)
	ns := 2 + r.Intn(5)
	for s := 0; s < ns; s++ {
		ss := sSession{End: "commit"}
		if s == 0 {
			for i := 0; i < nd; i++ {
				if sc.Modes[i] == int(ai.DynamicWithVectorCountTracking) && !staged[i] && r.Chance(85) {
					seeded[i] = 1 + r.Intn(3)
					for j := 0; j < seeded[i]; j++ {
						ss.Ops = append(ss.Ops, sOp{Kind: "centroid", Dom: i, Q: genVec(r, dims[i], true)})
					}
				}
			}
		}
		for i := 0; i < nd; i++ {
			ss.Buf = append(ss.Buf, staged[i] && (!optimized[i] || r.Chance(8)))
			ss.Dedup = append(ss.Dedup, !(dedupOff[i] == 1 && !ss.Buf[i] && r.Chance(40)))
		}
		nops := 1 + r.Intn(8)
		for o := 0; o < nops; o++ {
			d := r.Intn(nd)
			pickID := func() int {
				if !ss.Dedup[d] && r.Chance(85) { // pristine data for dedup-off sessions, mostly
					fresh[d]++
					return fresh[d]
				}
				return r.Intn(idspace[d])
			}
			mk := func(id int) sItem {
				it := sItem{ID: id, Vec: genVec(r, dims[d], false), P: r.Intn(7)}
				if !ss.Buf[d] && r.Chance(10) {
					if sc.Modes[d] != int(ai.DynamicWithVectorCountTracking) {
						it.Cid = 1 + r.Intn(3)
					} else if seeded[d] > 0 && !optimized[d] {
						it.Cid = 1 + r.Intn(seeded[d])
					}
				}
				return it
			}
			switch k := r.Intn(20); {
			case k < 7:
				ss.Ops = append(ss.Ops, sOp{Kind: "ups", Dom: d, Item: mk(pickID())})
			case k < 10:
				n := 2 + r.Intn(6)
				used := map[int]bool{}
				var its []sItem
				for j := 0; j < n; j++ {
					id := pickID()
					if used[id] && !ss.Dedup[d] {
						continue
					}
					used[id] = true
					its = append(its, mk(id))
				}
				if len(its) > 0 {
					ss.Ops = append(ss.Ops, sOp{Kind: "batch", Dom: d, Items: its})
				}
			case k < 14:
				ss.Ops = append(ss.Ops, sOp{Kind: "del", Dom: d, Item: sItem{ID: r.Intn(idspace[d])}})
			case k < 17:
				ss.Ops = append(ss.Ops, sOp{Kind: "get", Dom: d, Item: sItem{ID: r.Intn(idspace[d])}})
			default:
				fm := hx.Pick(r, []int{0, 0, 2, 3})
				fr := 0
				if fm > 0 {
					fr = r.Intn(fm)
				}
				ss.Ops = append(ss.Ops, sOp{Kind: "query", Dom: d, Q: genVec(r, dims[d], true), K: hx.Pick(r, []int{-1, 0, 1, 2, 3, 5, 10, 100}), FM: fm, FR: fr})
			}
		}
		if r.Chance(45) {
			ss.End = "optimize"
			ss.OptDom = r.Intn(nd)
			if staged[ss.OptDom] && !optimized[ss.OptDom] {
				ss.Buf[ss.OptDom] = true
			}
			optimized[ss.OptDom] = true
		}
		sc.Sessions = append(sc.Sessions, ss)
	}
	_ = big
	return sc
}

// ---------------------------------------------------------------- deterministic corpus

func item(id int, p int, v ...float32) sItem { return sItem{ID: id, Vec: v, P: p} }

func corpus() []script {
	one := func(b bool) []bool { return []bool{b} }
	var out []script
	// index mode: upsert / delete / re-upsert across two optimizations
	out = append(out, script{Name: "index-lifecycle", Modes: []int{2}, Sessions: []sSession{
		{Buf: one(false), Dedup: one(true), End: "commit", Ops: []sOp{
			{Kind: "batch", Items: []sItem{item(0, 0, 1, 0), item(1, 1, 0, 1), item(2, 2, 1, 1), item(3, 3, 2, 2), item(4, 4, 0, 0)}},
			{Kind: "del", Item: sItem{ID: 1}}, {Kind: "get", Item: sItem{ID: 1}}, {Kind: "get", Item: sItem{ID: 2}},
			{Kind: "query", Q: []float32{1, 1.37}, K: 3}}},
		{Buf: one(false), Dedup: one(true), End: "optimize", Ops: []sOp{{Kind: "ups", Item: item(2, 5, 0, 2)}, {Kind: "del", Item: sItem{ID: 3}}}},
		{Buf: one(false), Dedup: one(true), End: "commit", Ops: []sOp{{Kind: "ups", Item: item(1, 6, 3, 1)}, {Kind: "del", Item: sItem{ID: 0}}, {Kind: "ups", Item: item(5, 1, 1, 2)}}},
		{Buf: one(false), Dedup: one(true), End: "optimize", Ops: []sOp{{Kind: "del", Item: sItem{ID: 5}}, {Kind: "ups", Item: item(5, 2, 2, 1)}}},
		{Buf: one(false), Dedup: one(true), End: "optimize", Ops: []sOp{{Kind: "query", Q: []float32{0.37, 1}, K: 100, FM: 2, FR: 0}}},
	}})
	// dedup off on pristine ids, then dedup on
	out = append(out, script{Name: "dedup-off-pristine", Modes: []int{1}, Sessions: []sSession{
		{Buf: one(false), Dedup: one(false), End: "commit", Ops: []sOp{{Kind: "batch", Items: []sItem{item(0, 0, 1, 0, 0), item(1, 1, 0, 1, 0), item(2, 2, 0, 0, 1)}}}},
		{Buf: one(false), Dedup: one(true), End: "optimize", Ops: []sOp{{Kind: "del", Item: sItem{ID: 0}}, {Kind: "ups", Item: item(1, 3, 1, 1, 1)}}},
	}})
	// staged ingestion life cycle without deletes: stage, Optimize, reopen unbuffered
	out = append(out, script{Name: "staged-lifecycle", Modes: []int{2}, Sessions: []sSession{
		{Buf: one(true), Dedup: one(true), End: "commit", Ops: []sOp{{Kind: "batch", Items: []sItem{item(0, 0, 1, 0), item(1, 1, 0, 1), item(2, 2, 1, 1)}}, {Kind: "get", Item: sItem{ID: 1}}, {Kind: "query", Q: []float32{1, 0.37}, K: 2}}},
		{Buf: one(true), Dedup: one(true), End: "optimize", Ops: []sOp{{Kind: "ups", Item: item(1, 4, 2, 1)}}},
		{Buf: one(false), Dedup: one(true), End: "commit", Ops: []sOp{{Kind: "get", Item: sItem{ID: 1}}, {Kind: "ups", Item: item(3, 3, 1, 2)}}},
	}})
	// known finding: a staged entry deleted before Optimize is resurrected by Consolidate (with a nil vector)
	out = append(out, script{Name: "staged-delete-resurrected", Modes: []int{2}, Sessions: []sSession{
		{Buf: one(true), Dedup: one(true), End: "optimize", Ops: []sOp{{Kind: "ups", Item: item(0, 1, 1, 0)}, {Kind: "ups", Item: item(1, 2, 0, 1)}, {Kind: "del", Item: sItem{ID: 1}}}},
	}})
	// same finding seen through Query: after a further index-mode Optimize the resurrected entry (nil vector) sits in a
	// real centroid bucket and is returned as a hit with score 0
	out = append(out, script{Name: "staged-delete-resurrected-query", Modes: []int{2}, Sessions: []sSession{
		{Buf: one(true), Dedup: one(true), End: "optimize", Ops: []sOp{{Kind: "ups", Item: item(0, 1, 1, 0)}, {Kind: "ups", Item: item(1, 2, 0, 1)}, {Kind: "del", Item: sItem{ID: 1}}}},
		{Buf: one(false), Dedup: one(true), End: "optimize", Ops: []sOp{{Kind: "ups", Item: item(2, 3, 1, 1)}}},
		{Buf: one(false), Dedup: one(true), End: "commit", Ops: []sOp{{Kind: "query", Q: []float32{1, 0.37}, K: 100}}},
	}})
	// known finding: Consolidate migrates 100 staged entries, phase 4 drops the rest with the TempVectors store
	var many []sItem
	for i := 0; i < 103; i++ {
		many = append(many, item(i, i%7, float32(i%7+1), float32(i%5)))
	}
	out = append(out, script{Name: "staged-over-100-lost", Modes: []int{2}, Sessions: []sSession{
		{Buf: one(true), Dedup: one(true), End: "optimize", Ops: []sOp{{Kind: "batch", Items: many}}},
	}})
	// known finding: the first staged entry is deleted => its nil vector becomes centroid 1 and Optimize panics
	out = append(out, script{Name: "staged-delete-first-panics", Modes: []int{2}, Sessions: []sSession{
		{Buf: one(true), Dedup: one(true), End: "optimize", Ops: []sOp{{Kind: "ups", Item: item(0, 1, 1, 0)}, {Kind: "ups", Item: item(1, 2, 0, 1)}, {Kind: "del", Item: sItem{ID: 0}}}},
	}})
	// known finding: staging again after the first Optimize — the new entries are readable only through a staging
	// instance, the indexed ones only through an index instance
	out = append(out, script{Name: "restaged-after-optimize", Modes: []int{2}, Sessions: []sSession{
		{Buf: one(true), Dedup: one(true), End: "optimize", Ops: []sOp{{Kind: "ups", Item: item(0, 1, 1, 0)}, {Kind: "ups", Item: item(1, 2, 0, 1)}}},
		{Buf: one(true), Dedup: one(true), End: "commit", Ops: []sOp{{Kind: "ups", Item: item(2, 3, 1, 1)}, {Kind: "get", Item: sItem{ID: 0}}, {Kind: "get", Item: sItem{ID: 2}}}},
	}})
	// known finding (count-tracking mode): the first item's vector becomes centroid 1 by reference; the rolling
	// average of the next upsert is computed in place and overwrites the stored vector of the first item
	out = append(out, script{Name: "count-tracking-alias", Modes: []int{1}, Sessions: []sSession{
		{Buf: one(false), Dedup: one(true), End: "commit", Ops: []sOp{{Kind: "ups", Item: item(0, 1, 0, 0)}, {Kind: "ups", Item: item(1, 2, 2, 2)}}},
	}})
	// known finding (count-tracking mode): deleting a deleted item decrements the centroid's count again; at count -1
	// the rolling average divides by zero, the centroid becomes NaN/Inf and the transaction can no longer be committed
	out = append(out, script{Name: "count-tracking-nan", Modes: []int{1}, Sessions: []sSession{
		{Buf: one(false), Dedup: one(true), End: "commit", Ops: []sOp{{Kind: "centroid", Q: []float32{1, 1}}, {Kind: "ups", Item: item(0, 1, 1, 0)}}},
		{Buf: one(false), Dedup: one(true), End: "commit", Ops: []sOp{{Kind: "del", Item: sItem{ID: 0}}, {Kind: "del", Item: sItem{ID: 0}}, {Kind: "ups", Item: item(1, 2, 2, 2)}}},
	}})
	return out
}

// ---------------------------------------------------------------- entry

func runC33(cfg *hx.RunCfg) (*hx.Result, error) {
	// the store logs through slog/log/fmt on every call: keep the run quiet
	slog.SetDefault(slog.New(slog.NewTextHandler(io.Discard, nil)))
	log.SetOutput(io.Discard)
	devnull, _ := os.OpenFile(os.DevNull, os.O_WRONLY, 0)
	realStdout := os.Stdout
	os.Stdout = devnull
	defer func() { os.Stdout = realStdout }()

	res := hx.NewResult("C33")
	res.Imports = []string{"Lib.Bytes", "Vector", "Corr.C33"}
	res.CaseType = "c33case"
	res.Checker = "c33_check"
	res.Rule = "one evaluation = one recorded run of one domain (2-6 sessions of Upsert/UpsertBatch/Delete/Get/Query ending in Commit or Optimize, 1-3 domains per database, 2-8 dimensions, small integer coordinates with many equal and proportional vectors, dedup on/off, index and staged ingestion); distinct = distinct event list; non-trivial = at least two ids stored"
	r := &runner{res: res, ctx: context.Background()}
	if cfg.Replay != "" {
		raw, err := os.ReadFile(cfg.Replay)
		if err != nil {
			return nil, err
		}
		var rp struct {
			Input c33Input `json:"input"`
		}
		if err := json.Unmarshal(raw, &rp); err != nil {
			return nil, err
		}
		r.execScript(rp.Input.Script)
		os.Stdout = realStdout
		return res, nil
	}
	n := cfg.N
	if n == 0 {
		n = 25
		if cfg.Tier == "thorough" {
			n = 600
		}
	}
	for _, sc := range corpus() {
		r.execScript(sc)
	}
	// script i is a function of (seed, i) alone; the random part also stops at a wall-clock budget so that a loaded
	// machine shortens the run instead of overrunning the tier (the number of scripts run is in the distribution)
	budget := 45 * time.Second
	if cfg.Tier == "thorough" {
		budget = 8 * time.Minute
	}
	if cfg.N != 0 {
		budget = 24 * time.Hour
	}
	t0 := time.Now()
	for i := 0; i < n && time.Since(t0) < budget; i++ {
		rng := hx.NewRng(cfg.Seed*1000003 + uint64(i)*7919 + 11)
		r.execScript(genScript(rng, fmt.Sprintf("seed%d-%d", cfg.Seed, i), false))
		res.Count("scripts.random")
	}
	os.Stdout = realStdout
	return res, nil
}

package main

// C31: streamed values read back exactly as written.
//
// Implementation side: a StreamingDataStore[int] on a standalone infs database
// (filesystem + in-memory L2 cache) under VERIF_WORK.
//   * "prog" cases: add / update / upsert / remove programs over several keys,
//     values from a few bytes to > 1 MiB (biased to json.Decoder buffer
//     boundaries). Direct oracle after every op: the (key, chunkIndex) items of
//     the underlying B-tree are exactly the predicted ones with the predicted
//     bytes, and decoding every key through GetCurrentValue's json.Decoder
//     gives back exactly the encoded sequence. Small programs are also emitted
//     as correspondence cases (ProgCase) for the Coq model.
//   * "read" cases: the raw chunk reader (verif export VerifNewReader) driven
//     with chosen buffer sizes; oracle: the bytes of successive Reads are the
//     concatenation of the chunks, then io.EOF (sticky). Emitted as ReadCase.
// The Coq model is the model of the REPAIRED reader; on a tree without
// fixes/C31-reader-advance-chunk.patch both the oracle and the correspondence
// fail (expected).

import (
	"bytes"
	"context"
	"encoding/json"
	"fmt"
	"io"
	"os"
	"path/filepath"
	"sort"
	"strings"

	"github.com/sharedcode/sop"
	_ "github.com/sharedcode/sop/cache"
	"github.com/sharedcode/sop/fs"
	"github.com/sharedcode/sop/infs"
	sd "github.com/sharedcode/sop/streamingdata"

	"verif/harness/hx"
)

func main() { hx.Main("c31", run) }

// ---------------------------------------------------------------- inputs

// valSpec describes one JSON value deterministically (replay files stay small
// even for MiB values). Enc is the exact encoded size in bytes INCLUDING the
// trailing newline json.Encoder adds.
type valSpec struct {
	Kind string `json:"kind"` // "str" | "arr" | "obj" | "num"
	Enc  int    `json:"enc"`
	Seed uint64 `json:"seed"`
}

type opSpec struct {
	Op   string    `json:"op"` // add | update | upsert | remove
	Key  int       `json:"key"`
	Vals []valSpec `json:"vals,omitempty"`
}

type progInput struct {
	Kind   string   `json:"kind"` // "prog"
	Data   string   `json:"data"` // "big" | "medium" value placement
	Commit bool     `json:"commit"`
	Ops    []opSpec `json:"ops"`
}

type chunkSpec struct {
	Key int    `json:"key"`
	Idx int    `json:"idx"`
	Len int    `json:"len"`
	Sd  uint64 `json:"seed"`
}

type readInput struct {
	Kind   string      `json:"kind"` // "read"
	Chunks []chunkSpec `json:"chunks"`
	Key    int         `json:"key"`
	Start  int         `json:"start"`
	Cursor string      `json:"cursor"` // findone | first | other | last
	Sizes  []int       `json:"sizes"`
}

const alphabet = "abcdefghijklmnopqrstuvwxyzABCDEFGHIJKLMNOPQRSTUVWXYZ0123456789 _-"

func fill(n int, seed uint64) []byte {
	r := hx.NewRng(seed)
	b := make([]byte, n)
	for i := range b {
		b[i] = alphabet[r.Intn(len(alphabet))]
	}
	return b
}

// value builds the Go value whose json.Encoder output has exactly v.Enc bytes
// (where that is possible for the kind; otherwise the nearest larger size).
func value(v valSpec) any {
	switch v.Kind {
	case "num":
		return int(v.Seed % 10)
	case "arr": // [d,d,...,d]\n : 2n+2 bytes for n>=1 single digits
		n := (v.Enc - 2) / 2
		if n < 1 {
			n = 1
		}
		r := hx.NewRng(v.Seed)
		a := make([]int, n)
		for i := range a {
			a[i] = r.Intn(10)
		}
		return a
	case "obj": // {"k":"..."}\n : 9 + len
		n := v.Enc - 9
		if n < 0 {
			n = 0
		}
		return map[string]string{"k": string(fill(n, v.Seed))}
	default: // "..."\n : len + 3
		n := v.Enc - 3
		if n < 0 {
			n = 0
		}
		return string(fill(n, v.Seed))
	}
}

func encoded(v valSpec) []byte {
	b, err := json.Marshal(value(v))
	if err != nil {
		panic(err)
	}
	return append(b, '\n')
}

// ---------------------------------------------------------------- environment

type env struct {
	ctx  context.Context
	dir  string
	n    int
	opts sop.TransactionOptions
}

func newEnv() (*env, error) {
	base := os.Getenv("VERIF_WORK")
	var dir string
	var err error
	if base == "" {
		dir, err = os.MkdirTemp("", "c31-")
	} else {
		dir, err = os.MkdirTemp(base, "db-")
	}
	if err != nil {
		return nil, err
	}
	e := &env{ctx: context.Background(), dir: dir}
	e.opts = sop.TransactionOptions{StoresFolders: []string{dir}, Mode: sop.ForWriting, MaxTime: -1,
		CacheType: sop.InMemory, RegistryHashModValue: fs.MinimumModValue}
	return e, nil
}

func (e *env) close() { os.RemoveAll(e.dir) }

func (e *env) begin() (sop.Transaction, error) {
	t, err := infs.NewTransaction(e.ctx, e.opts)
	if err != nil {
		return nil, err
	}
	if err := t.Begin(e.ctx); err != nil {
		return nil, err
	}
	return t, nil
}

func (e *env) newStore(t sop.Transaction, data string) (*sd.StreamingDataStore[int], string, error) {
	e.n++
	name := fmt.Sprintf("s%d", e.n)
	// the fs registry needs the table folder to pre-exist
	if err := os.MkdirAll(filepath.Join(e.dir, name), 0o755); err != nil {
		return nil, "", err
	}
	size := sop.BigData
	if data == "medium" {
		size = sop.MediumData
	}
	so := sop.ConfigureStore(name, true, sd.MinimumStreamingStoreSlotLength, "", size, "")
	s, err := infs.NewStreamingDataStore[int](e.ctx, so, t, nil)
	return s, name, err
}

// ---------------------------------------------------------------- observation

type item struct {
	Key int
	Idx int
	Val []byte
}

// dump walks the underlying B-tree in order.
func dump(ctx context.Context, s *sd.StreamingDataStore[int]) ([]item, error) {
	var out []item
	ok, err := s.BtreeInterface.First(ctx)
	for ok && err == nil {
		k := s.BtreeInterface.GetCurrentKey().Key
		v, e2 := s.BtreeInterface.GetCurrentValue(ctx)
		if e2 != nil {
			return nil, e2
		}
		out = append(out, item{k.Key, k.ChunkIndex, append([]byte(nil), v...)})
		ok, err = s.BtreeInterface.Next(ctx)
	}
	return out, err
}

func coqChunk(b []byte) string { return hx.CoqBytes(b) }

func coqItems(it []item) string {
	xs := make([]string, len(it))
	for i, x := range it {
		xs[i] = fmt.Sprintf("((%d, %s), %s)", x.Key, hx.CoqZ(int64(x.Idx)), coqChunk(x.Val))
	}
	return hx.CoqList(xs)
}

func coqChunks(cs [][]byte) string {
	xs := make([]string, len(cs))
	for i, c := range cs {
		xs[i] = coqChunk(c)
	}
	return hx.CoqList(xs)
}

// ---------------------------------------------------------------- programs

type runner struct {
	res *hx.Result
	e   *env
}

// decodeAll decodes every value of key through the public API.
func decodeAll(ctx context.Context, s *sd.StreamingDataStore[int], key int, limit int) ([][]byte, error) {
	ok, err := s.FindOne(ctx, key)
	if err != nil || !ok {
		return nil, fmt.Errorf("FindOne(%d) = %v, %v", key, ok, err)
	}
	dec, err := s.GetCurrentValue(ctx)
	if err != nil {
		return nil, err
	}
	var out [][]byte
	for len(out) <= limit {
		var raw json.RawMessage
		if err := dec.Decode(&raw); err != nil {
			if err == io.EOF {
				return out, nil
			}
			return out, err
		}
		out = append(out, append([]byte(nil), raw...))
	}
	return out, fmt.Errorf("decoder delivered more than %d values", limit)
}

func sizeClass(n int) string {
	switch {
	case n <= 64:
		return "<=64"
	case n < 512:
		return "<512"
	case n <= 515:
		return "512.."
	case n < 1024:
		return "<1024"
	case n <= 1027:
		return "1024.."
	case n < 4096:
		return "<4096"
	case n <= 4099:
		return "4096.."
	case n < 1<<16:
		return "<64K"
	case n < 1<<20:
		return "<1M"
	default:
		return ">=1M"
	}
}

// check compares the store with the predicted state; returns a failure text or "".
//
// rewrites: how often each key was rewritten by Update/Upsert in the current transaction (nil after a commit).
// A chunk that reads back EMPTY (nil error) inside the transaction that rewrote its key at least twice, on a
// store with actively persisted values, is finding "C31/in-transaction-empty-value" (a defect of the value
// cache below streamingdata, see design/C31.md); everything else keeps the generic signatures.
func (rn *runner) check(s *sd.StreamingDataStore[int], want map[int][][]byte, when string, data string, rewrites map[int]int) (sig, what string, items []item) {
	ctx := rn.e.ctx
	items, err := dump(ctx, s)
	if err != nil {
		return "dump-error", when + ": dump: " + err.Error(), items
	}
	var keys []int
	for k := range want {
		keys = append(keys, k)
	}
	sort.Ints(keys)
	var exp []item
	for _, k := range keys {
		for i, c := range want[k] {
			exp = append(exp, item{k, i, c})
		}
	}
	if len(exp) != len(items) {
		return "chunk-set", fmt.Sprintf("%s: B-tree holds %d (key,chunk) items, predicted %d: got %s", when, len(items), len(exp), keyList(items)), items
	}
	for i := range exp {
		if exp[i].Key != items[i].Key || exp[i].Idx != items[i].Idx {
			return "chunk-set", fmt.Sprintf("%s: item %d is (%d,%d), predicted (%d,%d)", when, i, items[i].Key, items[i].Idx, exp[i].Key, exp[i].Idx), items
		}
		if len(items[i].Val) == 0 && len(exp[i].Val) > 0 && data == "big" && rewrites != nil && rewrites[exp[i].Key] >= 2 {
			return "in-transaction-empty-value:actively-persisted:key-rewritten-twice", fmt.Sprintf("%s: chunk (%d,%d) reads back empty (no error) inside the transaction that updated key %d %d times; %d bytes were written", when, exp[i].Key, exp[i].Idx, exp[i].Key, rewrites[exp[i].Key], len(exp[i].Val)), items
		}
		if !bytes.Equal(exp[i].Val, items[i].Val) {
			return "chunk-bytes", fmt.Sprintf("%s: chunk (%d,%d) holds %d bytes that differ from the %d written", when, exp[i].Key, exp[i].Idx, len(items[i].Val), len(exp[i].Val)), items
		}
	}
	for _, k := range keys {
		got, err := decodeAll(ctx, s, k, len(want[k])+4)
		big := 0
		for _, c := range want[k] {
			if len(c) > big {
				big = len(c)
			}
		}
		cls := "decode-sequence"
		if big > 512 {
			cls = "decode-sequence:value-longer-than-decoder-buffer"
		}
		if err != nil {
			return cls, fmt.Sprintf("%s: key %d: decoding stopped after %d of %d values: %v (encoded sizes %v)", when, k, len(got), len(want[k]), err, lens(want[k])), items
		}
		if len(got) != len(want[k]) {
			return cls, fmt.Sprintf("%s: key %d: %d values encoded (sizes %v) but %d decoded (sizes %v)", when, k, len(want[k]), lens(want[k]), len(got), lensRaw(got)), items
		}
		for i := range got {
			if !bytes.Equal(append(append([]byte(nil), got[i]...), '\n'), want[k][i]) {
				return cls, fmt.Sprintf("%s: key %d: value %d decoded differently from what was encoded (sizes %v)", when, k, i, lens(want[k])), items
			}
		}
	}
	return "", "", items
}

func lens(cs [][]byte) []int {
	o := make([]int, len(cs))
	for i, c := range cs {
		o[i] = len(c)
	}
	return o
}
func lensRaw(cs [][]byte) []int {
	o := make([]int, len(cs))
	for i, c := range cs {
		o[i] = len(c) + 1
	}
	return o
}
func keyList(it []item) string {
	var sb strings.Builder
	for i, x := range it {
		if i > 40 {
			sb.WriteString(" ...")
			break
		}
		fmt.Fprintf(&sb, " (%d,%d)", x.Key, x.Idx)
	}
	return sb.String()
}

// runProg executes one program. emit: also write a ProgCase (only for small data).
func (rn *runner) runProg(in progInput, emit bool) error {
	res, e := rn.res, rn.e
	ctx := e.ctx
	t, err := e.begin()
	if err != nil {
		return err
	}
	s, name, err := e.newStore(t, in.Data)
	if err != nil {
		return err
	}
	want := map[int][][]byte{}
	rewrites := map[int]int{}
	var steps []string
	failed := false
	total := 0
	canon := &strings.Builder{}
	for oi, op := range in.Ops {
		var cs [][]byte
		for _, v := range op.Vals {
			c := encoded(v)
			cs = append(cs, c)
			total += len(c)
			res.Count("value.enc" + sizeClass(len(c)))
		}
		fmt.Fprintf(canon, "%s %d %v;", op.Op, op.Key, lens(cs))
		_, exists := want[op.Key]
		if exists && (op.Op == "update" || op.Op == "upsert") {
			rewrites[op.Key]++
		}
		res.Count("op." + op.Op)
		status := 0 // 0 ok, 1 not found, 2 error
		var enc *sd.Encoder[int]
		var err error
		switch op.Op {
		case "add":
			enc, err = s.Add(ctx, op.Key)
		case "update":
			enc, err = s.Update(ctx, op.Key)
		case "upsert":
			enc, err = s.Upsert(ctx, op.Key)
		case "remove":
			var ok bool
			ok, err = s.Remove(ctx, op.Key)
			if err != nil {
				status = 2
			} else if !ok {
				status = 1
			}
		}
		if op.Op != "remove" {
			switch {
			case err != nil:
				status = 2
			case enc == nil:
				status = 1
			default:
				for _, v := range op.Vals {
					if err := enc.Encode(value(v)); err != nil {
						status = 2
						break
					}
				}
				if status == 0 {
					if err := enc.Close(); err != nil {
						status = 2
					}
				}
			}
		}
		// predicted status and state
		wantStatus := 0
		switch op.Op {
		case "add":
			if exists && len(cs) > 0 {
				wantStatus = 2
			} else if !exists && len(cs) > 0 {
				want[op.Key] = cs
			}
		case "update":
			if !exists {
				wantStatus = 1
			} else if len(cs) == 0 {
				delete(want, op.Key)
			} else {
				want[op.Key] = cs
			}
		case "upsert":
			if len(cs) == 0 {
				delete(want, op.Key)
			} else {
				want[op.Key] = cs
			}
		case "remove":
			if !exists {
				wantStatus = 1
			} else {
				delete(want, op.Key)
			}
		}
		if wantStatus == 1 {
			res.Count("op." + op.Op + ".notfound")
		}
		if wantStatus == 2 {
			res.Count("op." + op.Op + ".duplicate")
		}
		when := fmt.Sprintf("after op %d (%s key %d, %d values)", oi, op.Op, op.Key, len(cs))
		if status != wantStatus && !failed {
			failed = true
			res.Fail("op-status", fmt.Sprintf("%s: status %d, predicted %d", when, status, wantStatus), in)
		}
		sig, what, items := rn.check(s, want, when, in.Data, rewrites)
		if sig != "" && !failed {
			failed = true
			res.Fail(sig, what, in)
		}
		if emit {
			var o string
			switch op.Op {
			case "add":
				o = fmt.Sprintf("OpAdd %d %s", op.Key, coqChunks(cs))
			case "update":
				o = fmt.Sprintf("OpUpdate %d %s", op.Key, coqChunks(cs))
			case "upsert":
				o = fmt.Sprintf("OpUpsert %d %s", op.Key, coqChunks(cs))
			default:
				o = fmt.Sprintf("OpRemove %d", op.Key)
			}
			steps = append(steps, fmt.Sprintf("(%s, %d, %s)", o, status, coqItems(items)))
		}
		if failed {
			break
		}
	}
	if in.Commit && !failed {
		if err := t.Commit(ctx); err != nil {
			return fmt.Errorf("commit: %w", err)
		}
		t2, err := e.begin()
		if err != nil {
			return err
		}
		s2, err := infs.OpenStreamingDataStore[int](ctx, name, t2, nil)
		if err != nil {
			return fmt.Errorf("open: %w", err)
		}
		if sig, what, _ := rn.check(s2, want, "after commit, in a new transaction", in.Data, nil); sig != "" {
			res.Fail(sig, what, in)
		}
		res.Count("prog.committed")
		if err := t2.Commit(ctx); err != nil {
			return fmt.Errorf("commit 2: %w", err)
		}
	} else {
		t.Rollback(ctx)
	}
	res.Seen("prog:"+in.Data+":"+canon.String(), len(in.Ops) > 1 || total > 0)
	res.Count("prog")
	if emit && !failed {
		res.AddCase("ProgCase "+hx.CoqList(steps), in)
		res.Count("prog.corr")
	}
	res.Sample(map[string]any{"kind": "prog", "ops": len(in.Ops), "encoded_bytes": total, "final_keys": len(want)})
	return nil
}

// ---------------------------------------------------------------- raw reader

func (rn *runner) runRead(in readInput) error {
	res, e := rn.res, rn.e
	ctx := e.ctx
	t, err := e.begin()
	if err != nil {
		return err
	}
	defer t.Rollback(ctx)
	s, _, err := e.newStore(t, "big")
	if err != nil {
		return err
	}
	var mine [][]byte
	for _, c := range in.Chunks {
		b := hx.NewRng(c.Sd).Bytes(c.Len)
		ok, err := s.AddChunk(ctx, c.Key, c.Idx, b)
		if err != nil || !ok {
			return fmt.Errorf("AddChunk(%d,%d): %v %v", c.Key, c.Idx, ok, err)
		}
	}
	items, err := dump(ctx, s)
	if err != nil {
		return err
	}
	// the chunks the reader is expected to deliver: key's contiguous run from Start
	for i := in.Start; ; i++ {
		found := false
		for _, x := range items {
			if x.Key == in.Key && x.Idx == i {
				mine = append(mine, x.Val)
				found = true
			}
		}
		if !found {
			break
		}
	}
	bt := s.BtreeInterface
	switch in.Cursor {
	case "findone":
		s.FindOne(ctx, in.Key)
	case "first":
		bt.First(ctx)
	case "last":
		bt.Last(ctx)
	case "other":
		if len(items) > 0 {
			x := items[len(items)/2]
			bt.Find(ctx, sd.StreamingDataKey[int]{Key: x.Key, ChunkIndex: x.Idx}, false)
		}
	}
	cur := "None"
	if ck := bt.GetCurrentKey(); !ck.ID.IsNil() {
		cur = fmt.Sprintf("(Some (%d, %s))", ck.Key.Key, hx.CoqZ(int64(ck.Key.ChunkIndex)))
	}
	rd := sd.VerifNewReader[int](ctx, in.Key, in.Start, bt)
	var got []byte
	var results []string
	var szs []string
	sawEOF, bad := false, ""
	partial := false
	for ri, sz := range in.Sizes {
		p := make([]byte, sz)
		n, err := rd.Read(p)
		eof := err == io.EOF
		if err != nil && !eof {
			return fmt.Errorf("Read: %w", err)
		}
		if n < 0 || n > sz {
			bad = fmt.Sprintf("Read %d returned n=%d for a %d-byte buffer", ri, n, sz)
			n = 0
		}
		if sawEOF && !(eof && n == 0) && bad == "" {
			bad = fmt.Sprintf("Read %d returned n=%d eof=%v after io.EOF had been returned", ri, n, eof)
		}
		if eof && n != 0 && bad == "" {
			bad = fmt.Sprintf("Read %d returned %d bytes together with io.EOF", ri, n)
		}
		sawEOF = sawEOF || eof
		got = append(got, p[:n]...)
		results = append(results, fmt.Sprintf("(%s, %s)", coqChunk(p[:n]), hx.CoqBool(eof)))
		szs = append(szs, fmt.Sprint(sz))
	}
	all := bytes.Join(mine, nil)
	maxChunk := 0
	for _, c := range mine {
		if len(c) > maxChunk {
			maxChunk = len(c)
		}
	}
	minSz := 1 << 30
	for _, sz := range in.Sizes {
		if sz < minSz {
			minSz = sz
		}
	}
	if maxChunk > minSz {
		partial = true
		res.Count("read.chunk>buffer")
	} else {
		res.Count("read.chunk<=buffer")
	}
	sig := "raw-read"
	if partial {
		sig = "raw-read:chunk-longer-than-buffer"
	}
	if bad == "" && !bytes.HasPrefix(all, got) {
		bad = fmt.Sprintf("the %d bytes returned by %d Reads are not a prefix of the %d bytes of the chunks (chunk sizes %v, buffer sizes %v)", len(got), len(in.Sizes), len(all), lens(mine), head(in.Sizes))
	}
	if bad == "" && sawEOF && len(got) != len(all) {
		bad = fmt.Sprintf("io.EOF after %d of %d bytes (chunk sizes %v)", len(got), len(all), lens(mine))
	}
	if bad == "" && !sawEOF && len(in.Sizes) > len(all)+len(mine) {
		bad = fmt.Sprintf("no io.EOF within %d Reads of %d bytes in %d chunks", len(in.Sizes), len(all), len(mine))
	}
	if bad != "" {
		res.Fail(sig, bad, in)
	}
	if sawEOF {
		res.Count("read.reached_eof")
	}
	res.Count("read.cursor." + in.Cursor)
	res.Count("read")
	res.Seen(fmt.Sprintf("read:%v:%d:%d:%s:%v", in.Chunks, in.Key, in.Start, in.Cursor, in.Sizes), len(mine) > 0)
	res.AddCase(fmt.Sprintf("ReadCase %s %s %d %s %s %s", coqItems(items), cur, in.Key, hx.CoqZ(int64(in.Start)), hx.CoqList(szs), hx.CoqList(results)), in)
	res.Sample(map[string]any{"kind": "read", "chunk_sizes": lens(mine), "buffer_sizes": head(in.Sizes), "bytes": len(got)})
	return nil
}

func head(x []int) []int {
	if len(x) > 12 {
		return x[:12]
	}
	return x
}

// ---------------------------------------------------------------- generators

var boundaries = []int{509, 510, 511, 512, 513, 514, 515, 1021, 1023, 1024, 1025, 1027, 1535, 1536, 1537, 4093, 4095, 4096, 4097, 4099}

func genVal(r *hx.Rng, class string) valSpec {
	kind := hx.Pick(r, []string{"str", "str", "str", "arr", "obj"})
	var enc int
	switch class {
	case "tiny":
		enc = 3 + r.Intn(30)
		if r.Chance(30) {
			return valSpec{Kind: "num", Enc: 2, Seed: r.U64() % 1000}
		}
	case "boundary":
		enc = hx.Pick(r, boundaries)
	case "large":
		enc = hx.Pick(r, []int{600, 700, 2000, 3000, 5000, 10000, 70000}) + r.Intn(50)
	case "huge":
		enc = 1<<20 + 1 + r.Intn(3000)
		kind = "str"
	default:
		enc = 40 + r.Intn(460)
	}
	if kind == "arr" && enc%2 == 1 {
		enc++
	}
	if kind == "obj" && enc < 9 {
		kind = "str"
	}
	return valSpec{Kind: kind, Enc: enc, Seed: r.U64() % 1000000}
}

// genVals: a value sequence of one of the shapes named in why_tests_cant.
func genVals(r *hx.Rng, small bool, allowHuge bool) []valSpec {
	var vs []valSpec
	if small {
		n := hx.Pick(r, []int{0, 1, 1, 2, 3, 4, 6})
		for i := 0; i < n; i++ {
			vs = append(vs, genVal(r, "tiny"))
		}
		return vs
	}
	switch r.Intn(7) {
	case 0: // large then tiny ones
		vs = append(vs, genVal(r, "large"))
		for i, n := 0, 1+r.Intn(3); i < n; i++ {
			vs = append(vs, genVal(r, "tiny"))
		}
	case 1: // many consecutive large
		for i, n := 0, 2+r.Intn(4); i < n; i++ {
			vs = append(vs, genVal(r, "large"))
		}
	case 2: // boundary sizes
		for i, n := 0, 1+r.Intn(4); i < n; i++ {
			vs = append(vs, genVal(r, "boundary"))
		}
	case 3: // tiny, boundary, tiny
		vs = append(vs, genVal(r, "tiny"), genVal(r, "boundary"), genVal(r, "tiny"))
	case 4: // mid sizes filling the buffer gradually, then a boundary one
		for i, n := 0, 1+r.Intn(5); i < n; i++ {
			vs = append(vs, genVal(r, "mid"))
		}
		vs = append(vs, genVal(r, "boundary"))
	case 5:
		if allowHuge {
			vs = append(vs, genVal(r, "tiny"), genVal(r, "huge"), genVal(r, "tiny"))
		} else {
			vs = append(vs, genVal(r, "large"), genVal(r, "large"))
		}
	default:
		for i, n := 0, r.Intn(5); i < n; i++ {
			vs = append(vs, genVal(r, hx.Pick(r, []string{"tiny", "mid", "boundary", "large"})))
		}
	}
	return vs
}

func genProg(r *hx.Rng, small bool, allowHuge bool) progInput {
	in := progInput{Kind: "prog", Data: hx.Pick(r, []string{"big", "big", "medium"}), Commit: r.Chance(25)}
	keys := []int{0, 1, 2, 3, 7}
	nops := 2 + r.Intn(6)
	present := map[int]bool{}
	for i := 0; i < nops; i++ {
		k := hx.Pick(r, keys)
		var op string
		// mostly valid; 15 % against the state (add of an existing key, update/remove of a missing one)
		if present[k] {
			op = hx.Pick(r, []string{"update", "update", "update", "upsert", "remove"})
			if r.Chance(15) {
				op = "add"
			}
		} else {
			op = hx.Pick(r, []string{"add", "add", "upsert"})
			if r.Chance(15) {
				op = hx.Pick(r, []string{"update", "remove"})
			}
		}
		o := opSpec{Op: op, Key: k}
		if op != "remove" {
			o.Vals = genVals(r, small, allowHuge)
			allowHuge = false
		}
		switch op {
		case "add":
			if !present[k] && len(o.Vals) > 0 {
				present[k] = true
			}
		case "upsert":
			present[k] = len(o.Vals) > 0
		case "update":
			if present[k] {
				present[k] = len(o.Vals) > 0
			}
		case "remove":
			present[k] = false
		}
		in.Ops = append(in.Ops, o)
	}
	return in
}

// many chunks per key: node splits (slot length 50) while adding in update mode / closing / removing
func genWideProg(r *hx.Rng) progInput {
	in := progInput{Kind: "prog", Data: "big", Commit: r.Chance(30)}
	mk := func(n int) []valSpec {
		vs := make([]valSpec, n)
		for i := range vs {
			vs[i] = valSpec{Kind: "num", Enc: 2, Seed: r.U64() % 1000}
		}
		return vs
	}
	a, b, c := 20+r.Intn(60), 20+r.Intn(60), 1+r.Intn(130)
	in.Ops = []opSpec{
		{Op: "add", Key: 1, Vals: mk(a)},
		{Op: "add", Key: 2, Vals: mk(b)},
		{Op: "add", Key: 0, Vals: mk(3)},
		{Op: hx.Pick(r, []string{"update", "upsert"}), Key: 1, Vals: mk(c)},
		{Op: "update", Key: 2, Vals: mk(r.Intn(4))},
		{Op: "remove", Key: hx.Pick(r, []int{0, 1, 2})},
	}
	return in
}

func genRead(r *hx.Rng, big bool) readInput {
	in := readInput{Kind: "read", Key: hx.Pick(r, []int{0, 0, 1, 2}), Cursor: hx.Pick(r, []string{"findone", "findone", "first", "last", "other", "none"})}
	maxLen := 12
	if big {
		maxLen = 1100
	}
	clen := func() int {
		switch r.Intn(6) {
		case 0:
			return 1
		case 1:
			return 1 + r.Intn(3)
		default:
			if big && r.Chance(50) {
				return hx.Pick(r, []int{511, 512, 513, 600, 1024, 1025})
			}
			return 1 + r.Intn(maxLen)
		}
	}
	n := r.Intn(6)
	for i := 0; i < n; i++ {
		in.Chunks = append(in.Chunks, chunkSpec{Key: in.Key, Idx: i, Len: clen(), Sd: r.U64() % 100000})
	}
	// other keys around it (smaller, greater), sometimes a gap after the run, sometimes a negative index
	for _, k := range []int{0, 1, 2, 3} {
		if k != in.Key && r.Chance(60) {
			for i, m := 0, 1+r.Intn(3); i < m; i++ {
				in.Chunks = append(in.Chunks, chunkSpec{Key: k, Idx: i, Len: 1 + r.Intn(6), Sd: r.U64() % 100000})
			}
		}
	}
	if r.Chance(15) {
		in.Chunks = append(in.Chunks, chunkSpec{Key: in.Key, Idx: n + 1, Len: 2, Sd: 5})
	}
	if r.Chance(10) {
		in.Chunks = append(in.Chunks, chunkSpec{Key: in.Key, Idx: -1, Len: 2, Sd: 6})
	}
	if r.Chance(12) && n > 1 {
		in.Start = 1 + r.Intn(n-1)
		if in.Start == 1 && in.Key == 0 && (in.Cursor == "none") {
			in.Cursor = "findone" // (zero key, index 1) with an unset cursor is outside the modelled precondition, see design/C31.md
		}
	}
	total := 0
	for _, c := range in.Chunks {
		if c.Key == in.Key && c.Idx >= in.Start {
			total += c.Len
		}
	}
	// buffer sizes: biased to smaller than the chunks
	mode := r.Intn(5)
	reads := 0
	for delivered := 0; reads < 60 && (delivered <= total+2*n+3); reads++ {
		var sz int
		switch mode {
		case 0:
			sz = 1
		case 1:
			sz = 1 + r.Intn(3)
		case 2:
			sz = 1 + r.Intn(maxLen+4)
		case 3:
			if big {
				sz = 512
			} else {
				sz = 4
			}
		default:
			sz = hx.Pick(r, []int{1, 2, 3, 5, 8, maxLen, maxLen + 1, 2 * maxLen})
		}
		in.Sizes = append(in.Sizes, sz)
		delivered += sz
		if sz == 1 && mode == 0 && reads > 40 {
			break
		}
	}
	in.Sizes = append(in.Sizes, 3, 1) // reads past the end
	return in
}

// ---------------------------------------------------------------- corpus

func corpus() (progs []progInput, small []progInput, reads []readInput) {
	s := func(enc int, seed uint64) valSpec { return valSpec{Kind: "str", Enc: enc, Seed: seed} }
	// S5 of DESIGN.md section 10 (finding C31 "reader repeats a chunk longer than the read buffer"): runs first, forever
	progs = append(progs, progInput{Kind: "prog", Data: "big", Ops: []opSpec{
		{Op: "add", Key: 0, Vals: []valSpec{s(5, 1)}},
		{Op: "add", Key: 1, Vals: []valSpec{s(2000, 2), s(4, 3), s(700, 4)}},
		{Op: "add", Key: 2, Vals: []valSpec{s(6, 5)}},
	}})
	reads = append(reads,
		readInput{Kind: "read", Key: 1, Cursor: "findone", Sizes: []int{2, 2, 2, 2, 2},
			Chunks: []chunkSpec{{1, 0, 3, 11}, {0, 0, 2, 12}, {2, 0, 2, 13}}},
		readInput{Kind: "read", Key: 1, Cursor: "first", Sizes: []int{512, 512, 512, 512, 512, 512},
			Chunks: []chunkSpec{{1, 0, 600, 21}, {1, 1, 1, 22}, {1, 2, 513, 23}, {2, 0, 2, 24}}},
	)
	// finding "in-transaction-empty-value" (value cache below streamingdata): runs on every run
	progs = append(progs, progInput{Kind: "prog", Data: "big", Ops: []opSpec{
		{Op: "add", Key: 7, Vals: []valSpec{s(5, 1)}},
		{Op: "update", Key: 7, Vals: []valSpec{s(6, 2)}},
		{Op: "update", Key: 7, Vals: []valSpec{s(7, 3)}},
		{Op: "add", Key: 3, Vals: []valSpec{s(8, 4)}},
	}})
	// edge grid: every boundary size alone, preceded by a tiny value, and followed by one
	for _, b := range []int{511, 512, 513, 1024, 1025, 1536, 1537, 4096, 4097} {
		progs = append(progs, progInput{Kind: "prog", Data: "big", Ops: []opSpec{
			{Op: "add", Key: 1, Vals: []valSpec{s(b, 1)}},
			{Op: "add", Key: 2, Vals: []valSpec{s(7, 2), s(b, 3), s(7, 4)}},
			{Op: "update", Key: 1, Vals: []valSpec{s(b, 5), s(b, 6)}},
		}})
	}
	// update with fewer / equal / more values, remove in the middle, zero key
	small = append(small,
		progInput{Kind: "prog", Data: "big", Commit: true, Ops: []opSpec{
			{Op: "add", Key: 0, Vals: []valSpec{s(4, 1), s(5, 2), s(6, 3)}},
			{Op: "add", Key: 1, Vals: []valSpec{s(4, 4), s(5, 5), s(6, 6), s(7, 7)}},
			{Op: "add", Key: 2, Vals: []valSpec{s(4, 8)}},
			{Op: "update", Key: 1, Vals: []valSpec{s(9, 9)}},
			{Op: "update", Key: 0, Vals: []valSpec{s(4, 1), s(5, 2), s(6, 3)}},
			{Op: "update", Key: 2, Vals: []valSpec{s(4, 1), s(5, 2), s(6, 3), s(7, 4), s(8, 5)}},
			{Op: "remove", Key: 1},
			{Op: "update", Key: 0, Vals: nil},
		}},
		progInput{Kind: "prog", Data: "medium", Ops: []opSpec{
			{Op: "upsert", Key: 3, Vals: []valSpec{s(4, 1), s(4, 2)}},
			{Op: "add", Key: 3, Vals: []valSpec{s(4, 3)}},
			{Op: "remove", Key: 7},
			{Op: "update", Key: 7, Vals: []valSpec{s(4, 3)}},
			{Op: "upsert", Key: 3, Vals: []valSpec{s(5, 1)}},
			{Op: "remove", Key: 3},
		}},
	)
	return
}

// ---------------------------------------------------------------- run

func run(cfg *hx.RunCfg) (*hx.Result, error) {
	res := hx.NewResult("C31")
	res.Imports = []string{"Lib.Bytes", "Stream", "Corr.C31"}
	res.CaseType = "c31case"
	res.Checker = "c31_check"
	res.Rule = "programs of add/update/upsert/remove over keys {0,1,2,3,7} on a StreamingDataStore[int] (infs, in-memory L2 cache), value sizes tiny / 40-500 / json.Decoder buffer boundaries (509..515, 1021..1027, 1535..1537, 4093..4099) / 600..70000 / > 1 MiB, 15 % ops against the state; raw reader runs with buffer sizes mostly smaller than the chunks; distinct = distinct op/size sequence or distinct chunk layout + buffer sizes; non-trivial = writes at least one value / reads a key that has chunks"
	e, err := newEnv()
	if err != nil {
		return nil, err
	}
	defer e.close()
	rn := &runner{res: res, e: e}

	if cfg.Replay != "" {
		raw, err := os.ReadFile(cfg.Replay)
		if err != nil {
			return nil, err
		}
		var kind struct {
			Input struct {
				Kind string `json:"kind"`
			} `json:"input"`
		}
		if err := json.Unmarshal(raw, &kind); err != nil {
			return nil, err
		}
		if kind.Input.Kind == "read" {
			var rp struct {
				Input readInput `json:"input"`
			}
			if err := json.Unmarshal(raw, &rp); err != nil {
				return nil, err
			}
			return res, rn.runRead(rp.Input)
		}
		var rp struct {
			Input progInput `json:"input"`
		}
		if err := json.Unmarshal(raw, &rp); err != nil {
			return nil, err
		}
		return res, rn.runProg(rp.Input, progSmall(rp.Input))
	}

	thorough := cfg.Tier == "thorough"
	nSmall, nSized, nWide, nRead, nReadBig, nHuge := 90, 70, 3, 220, 8, 2
	if thorough {
		nSmall, nSized, nWide, nRead, nReadBig, nHuge = 1500, 900, 40, 4000, 150, 12
	}
	if cfg.N > 0 {
		nSmall, nSized, nWide, nRead, nReadBig, nHuge = cfg.N, cfg.N/2, cfg.N/20, cfg.N*2, cfg.N/10, 1
	}
	r := hx.NewRng(cfg.Seed)

	cp, cs, cr := corpus()
	for _, in := range cp {
		if err := rn.runProg(in, false); err != nil {
			return nil, err
		}
	}
	for _, in := range cr {
		if err := rn.runRead(in); err != nil {
			return nil, err
		}
	}
	for _, in := range cs {
		if err := rn.runProg(in, true); err != nil {
			return nil, err
		}
	}
	for i := 0; i < nSmall; i++ {
		if err := rn.runProg(genProg(r, true, false), true); err != nil {
			return nil, err
		}
	}
	for i := 0; i < nWide; i++ {
		if err := rn.runProg(genWideProg(r), true); err != nil {
			return nil, err
		}
	}
	for i := 0; i < nRead; i++ {
		if err := rn.runRead(genRead(r, false)); err != nil {
			return nil, err
		}
	}
	for i := 0; i < nReadBig; i++ {
		if err := rn.runRead(genRead(r, true)); err != nil {
			return nil, err
		}
	}
	for i := 0; i < nSized; i++ {
		if err := rn.runProg(genProg(r, false, i < nHuge), false); err != nil {
			return nil, err
		}
	}
	return res, nil
}

// progSmall: small enough to be evaluated by the Coq model as a ProgCase
func progSmall(in progInput) bool {
	total := 0
	for _, o := range in.Ops {
		for _, v := range o.Vals {
			total += v.Enc
		}
	}
	return total <= 1500
}

package sopx

import (
	"context"
	"encoding/json"
	"fmt"
	"os"
	"os/exec"
	"path/filepath"
	"sort"
	"strings"
	"time"

	"github.com/sharedcode/sop"
	"github.com/sharedcode/sop/encoding"

	"verif/harness/hx"
)

// ---------------------------------------------------------------- raw durable state

// RawStore is the decoded on-disk state of one store folder.
type RawStore struct {
	Handles []sop.Handle `json:"-"`
	Blobs   []sop.UUID   `json:"-"`
	Info    *sop.StoreInfo
	InfoRaw string
}

// Raw is the decoded durable state of a database folder.
type Raw struct {
	Stores    map[string]*RawStore
	StoreList []string
	TLogs     []string // file names under translogs/ (*.log)
	PLogs     []string // priority logs (*.plg)
	PLogged   []sop.RegistryPayload[sop.Handle] // decoded payloads of the priority logs, in file-name order
	Other     []string
}

const rawBlockSize, rawSlot, rawPerBlock = 4096, 62, 66

// ReadRaw decodes registry segment files, blob file names, store infos and log files.
func ReadRaw(folder string) (*Raw, error) {
	r := &Raw{Stores: map[string]*RawStore{}}
	ents, err := os.ReadDir(folder)
	if err != nil {
		return nil, err
	}
	for _, e := range ents {
		p := filepath.Join(folder, e.Name())
		switch {
		case e.Name() == "storelist.txt":
			b, _ := os.ReadFile(p)
			json.Unmarshal(b, &r.StoreList)
		case e.Name() == "translogs" && e.IsDir():
			filepath.Walk(p, func(q string, info os.FileInfo, err error) error {
				if err != nil || info.IsDir() {
					return nil
				}
				if strings.HasSuffix(q, ".plg") {
					r.PLogs = append(r.PLogs, info.Name())
					if b, err := os.ReadFile(q); err == nil && len(b) >= 4 {
						b = b[:len(b)-4] // fs.priorityLog.Add appends a CRC trailer (marshalData)
						var logged []sop.RegistryPayload[sop.Handle]
						if encoding.DefaultMarshaler.Unmarshal(b, &logged) == nil {
							r.PLogged = append(r.PLogged, logged...)
						}
					}
				} else {
					r.TLogs = append(r.TLogs, info.Name())
				}
				return nil
			})
		case e.IsDir():
			rs := &RawStore{}
			r.Stores[e.Name()] = rs
			m := encoding.NewHandleMarshaler()
			filepath.Walk(p, func(q string, info os.FileInfo, err error) error {
				if err != nil || info.IsDir() {
					return nil
				}
				name := info.Name()
				switch {
				case strings.HasSuffix(name, ".reg"):
					b, err := os.ReadFile(q)
					if err != nil {
						return nil
					}
					for off := 0; off+rawBlockSize <= len(b); off += rawBlockSize {
						for s := 0; s < rawPerBlock; s++ {
							rec := b[off+s*rawSlot : off+(s+1)*rawSlot]
							zero := true
							for _, x := range rec {
								if x != 0 {
									zero = false
									break
								}
							}
							if zero {
								continue
							}
							var h sop.Handle
							if m.Unmarshal(rec, &h) == nil {
								rs.Handles = append(rs.Handles, h)
							}
						}
					}
				case name == "storeinfo.txt":
					b, _ := os.ReadFile(q)
					rs.InfoRaw = string(b)
					var si sop.StoreInfo
					if json.Unmarshal(b, &si) == nil {
						rs.Info = &si
					}
				case strings.HasSuffix(name, ".cow"):
					r.Other = append(r.Other, filepath.Join(e.Name(), name))
				default:
					if id, err := sop.ParseUUID(name); err == nil {
						rs.Blobs = append(rs.Blobs, id)
					} else {
						r.Other = append(r.Other, filepath.Join(e.Name(), name))
					}
				}
				return nil
			})
		default:
			if e.Name() != "reghashmod.txt" {
				r.Other = append(r.Other, e.Name())
			}
		}
	}
	sort.Strings(r.TLogs)
	sort.Strings(r.PLogs)
	sort.Strings(r.Other)
	return r, nil
}

// ---------------------------------------------------------------- logical dump in a fresh process

// StoreDump is what a new transaction in a fresh OS process sees of one store.
type StoreDump struct {
	Count int64       `json:"count"`
	Keys  []int       `json:"keys"`
	Vals  []string    `json:"vals"`
	Back  []int       `json:"back,omitempty"` // keys of a backward scan
	Err   string      `json:"err,omitempty"`
}

// Dump is the logical content of every store.
type Dump struct {
	Stores map[string]*StoreDump `json:"stores"`
	Names  []string              `json:"names"`
	Err    string                `json:"err,omitempty"`
}

// DumpInProcess reads every store with a fresh reader transaction of THIS process
// (subject to the process-global L1 cache).
func DumpInProcess(ctx context.Context, folder string, hashMod int, backward bool) *Dump {
	d := &Dump{Stores: map[string]*StoreDump{}}
	e, err := NewEnv(folder, hashMod)
	if err != nil {
		d.Err = err.Error()
		return d
	}
	t, err := e.NewTxn(ctx, sop.ForReading, time.Minute, "dump", true)
	if err != nil {
		d.Err = err.Error()
		return d
	}
	if err := t.Begin(ctx); err != nil {
		d.Err = err.Error()
		return d
	}
	names, err := t.GetStores(ctx)
	if err != nil {
		d.Err = err.Error()
	}
	sort.Strings(names)
	d.Names = names
	for _, n := range names {
		sd := &StoreDump{}
		d.Stores[n] = sd
		b, err := t.OpenStore(ctx, n)
		if err != nil {
			sd.Err = "open: " + err.Error()
			continue
		}
		sd.Count = b.Count()
		ok, err := b.First(ctx)
		for ok && err == nil {
			k := b.GetCurrentKey().Key
			v, verr := b.GetCurrentValue(ctx)
			if verr != nil {
				sd.Err = fmt.Sprintf("value of key %d: %v", k, verr)
				break
			}
			sd.Keys = append(sd.Keys, k)
			sd.Vals = append(sd.Vals, v)
			ok, err = b.Next(ctx)
		}
		if err != nil {
			sd.Err = "scan: " + err.Error()
		}
		if backward && sd.Err == "" {
			ok, err := b.Last(ctx)
			for ok && err == nil {
				sd.Back = append(sd.Back, b.GetCurrentKey().Key)
				ok, err = b.Previous(ctx)
			}
			if err != nil {
				sd.Err = "backward scan: " + err.Error()
			}
		}
	}
	if err := t.Commit(ctx); err != nil && d.Err == "" {
		d.Err = "reader commit: " + err.Error()
	}
	return d
}

// DumpFresh runs DumpInProcess in a new OS process (cold L1/L2 caches).
func DumpFresh(folder string, hashMod int, backward bool) *Dump {
	bw := "0"
	if backward {
		bw = "1"
	}
	cmd := exec.Command(os.Args[0], "child:sopxdump", folder, fmt.Sprint(hashMod), bw)
	cmd.Stderr = nil
	out, err := cmd.Output()
	d := &Dump{}
	if err != nil {
		d.Err = fmt.Sprintf("dump child failed: %v: %s", err, string(out))
		return d
	}
	if err := json.Unmarshal(out, d); err != nil {
		d.Err = "dump child output: " + err.Error()
	}
	return d
}

func init() {
	hx.Children["sopxdump"] = func(args []string) int {
		if len(args) < 3 {
			return 2
		}
		var hm int
		fmt.Sscan(args[1], &hm)
		d := DumpInProcess(context.Background(), args[0], hm, args[2] == "1")
		b, _ := json.Marshal(d)
		os.Stdout.Write(b)
		return 0
	}
}

// Equal compares two store dumps (count, keys, values).
func (a *StoreDump) Equal(b *StoreDump) bool {
	if a == nil || b == nil {
		return a == b
	}
	if a.Count != b.Count || len(a.Keys) != len(b.Keys) || a.Err != b.Err {
		return false
	}
	for i := range a.Keys {
		if a.Keys[i] != b.Keys[i] || a.Vals[i] != b.Vals[i] {
			return false
		}
	}
	return true
}

// Equal compares two database dumps.
func (a *Dump) Equal(b *Dump) bool {
	if len(a.Names) != len(b.Names) || a.Err != b.Err {
		return false
	}
	for i := range a.Names {
		if a.Names[i] != b.Names[i] || !a.Stores[a.Names[i]].Equal(b.Stores[b.Names[i]]) {
			return false
		}
	}
	return true
}

// Package sopx is the shared implementation-side infrastructure of the protocol
// checks: a standalone filesystem database whose storage interfaces are wrapped
// by recording / fault-injecting / gating decorators, UUID canonicalisation,
// raw decoding of the durable state, and fresh-process logical dumps.
package sopx

import (
	"fmt"
	"sync"

	"github.com/sharedcode/sop"
)

// Canon maps UUIDs to small naturals by first occurrence (0 = NilUUID).
type Canon struct {
	mu sync.Mutex
	m  map[sop.UUID]int
	r  []sop.UUID
}

func NewCanon() *Canon { return &Canon{m: map[sop.UUID]int{}} }
func (c *Canon) ID(u sop.UUID) int {
	if u.IsNil() {
		return 0
	}
	c.mu.Lock()
	defer c.mu.Unlock()
	if v, ok := c.m[u]; ok {
		return v
	}
	c.r = append(c.r, u)
	c.m[u] = len(c.r)
	return len(c.r)
}
// Export lists the UUIDs in canonical order; Import rebuilds a Canon from such a list (cross-process canonicalisation).
func (c *Canon) Export() []string {
	c.mu.Lock()
	defer c.mu.Unlock()
	out := make([]string, len(c.r))
	for i, u := range c.r {
		out[i] = u.String()
	}
	return out
}
func ImportCanon(ids []string) *Canon {
	c := NewCanon()
	for _, s := range ids {
		if u, err := sop.ParseUUID(s); err == nil {
			c.ID(u)
		}
	}
	return c
}
func (c *Canon) Known(u sop.UUID) bool {
	c.mu.Lock()
	defer c.mu.Unlock()
	_, ok := c.m[u]
	return ok || u.IsNil()
}
func (c *Canon) UUID(i int) sop.UUID {
	c.mu.Lock()
	defer c.mu.Unlock()
	if i <= 0 || i > len(c.r) {
		return sop.NilUUID
	}
	return c.r[i-1]
}

// H is a canonicalised handle.
type H struct {
	Tbl     string `json:"tbl"`
	Lid     int    `json:"lid"`
	A       int    `json:"a"`
	B       int    `json:"b"`
	ActiveB bool   `json:"active_b"`
	Ver     int    `json:"ver"`
	Wip     int64  `json:"wip"` // 0, 1, or 2 (= a real timestamp)
	Deleted bool   `json:"deleted"`
}

func (c *Canon) Handle(tbl string, h sop.Handle) H {
	w := h.WorkInProgressTimestamp
	if w > 1 {
		w = 2
	}
	return H{Tbl: tbl, Lid: c.ID(h.LogicalID), A: c.ID(h.PhysicalIDA), B: c.ID(h.PhysicalIDB), ActiveB: h.IsActiveIDB, Ver: int(h.Version), Wip: w, Deleted: h.IsDeleted}
}

// Event is one intercepted interface call.
type Event struct {
	Seq    int      `json:"seq"`   // index among armed calls of this recorder
	Txn    string   `json:"txn"`   // label of the issuing transaction
	Iface  string   `json:"iface"` // reg | blob | sr | tlog | plog | l2
	Method string   `json:"method"`
	Tbls   []string `json:"tbls,omitempty"`
	IDs    []int    `json:"ids,omitempty"`     // canonical ids (logical ids / blob ids), flattened in call order
	Handles []H     `json:"handles,omitempty"` // canonical handles (arguments for writes, results for Get)
	Step   int      `json:"step,omitempty"`    // tlog commit function
	Names  []string `json:"names,omitempty"`   // store names / lock keys
	Deltas []int64  `json:"deltas,omitempty"`  // CountDelta per store (sr.Update)
	Bool   *bool    `json:"ok,omitempty"`
	Err    string   `json:"err,omitempty"`
	Injected bool   `json:"injected,omitempty"`
}

func (e *Event) Key() string { return e.Iface + "." + e.Method }

// Action of a script for one call.
type Action int

const (
	Proceed Action = iota
	Fail           // return an injected error without performing the call
	FailAfter      // perform the call, then return an injected error
)

// Recorder collects events of all decorated components that share it.
type Recorder struct {
	mu     sync.Mutex
	Canon  *Canon
	Armed  bool
	Events []*Event
	// Before is consulted for every armed call before it is performed. It may
	// block (gate), exit the process (crash) or ask for an injected failure.
	Before func(ev *Event) Action
	// After is called when the call has returned.
	After func(ev *Event)
	// Mute lists "iface.method" keys that are neither recorded nor scripted.
	Mute map[string]bool
}

func NewRecorder() *Recorder { return &Recorder{Canon: NewCanon(), Mute: map[string]bool{}} }

var ErrInjected = fmt.Errorf("verif: injected failure")

func (r *Recorder) begin(ev *Event) Action {
	r.mu.Lock()
	if !r.Armed || r.Mute[ev.Key()] || r.Mute[ev.Iface] {
		r.mu.Unlock()
		ev.Seq = -1
		return Proceed
	}
	ev.Seq = len(r.Events)
	r.Events = append(r.Events, ev)
	before := r.Before
	r.mu.Unlock()
	if before != nil {
		a := before(ev)
		if a != Proceed {
			ev.Injected = true
		}
		return a
	}
	return Proceed
}

func (r *Recorder) end(ev *Event, err error) {
	if ev.Seq < 0 {
		return
	}
	if err != nil {
		ev.Err = err.Error()
	}
	r.mu.Lock()
	after := r.After
	r.mu.Unlock()
	if after != nil {
		after(ev)
	}
}

// Arm starts numbering and scripting calls; Disarm stops it.
func (r *Recorder) Arm()    { r.mu.Lock(); r.Armed = true; r.mu.Unlock() }
func (r *Recorder) Disarm() { r.mu.Lock(); r.Armed = false; r.mu.Unlock() }
func (r *Recorder) Reset()  { r.mu.Lock(); r.Events = nil; r.mu.Unlock() }
func (r *Recorder) Snapshot() []*Event {
	r.mu.Lock()
	defer r.mu.Unlock()
	return append([]*Event(nil), r.Events...)
}

package sopx

import (
	"context"
	"fmt"
	"os"
	"time"

	"github.com/sharedcode/sop"
	"github.com/sharedcode/sop/btree"
	_ "github.com/sharedcode/sop/cache" // registers the in-memory L2 cache factory
	"github.com/sharedcode/sop/common"
	"github.com/sharedcode/sop/fs"
)

// Env is one standalone (in-memory L2 cache) filesystem database.
type Env struct {
	Folder  string
	HashMod int
	Cache   sop.L2Cache
	Rec     *Recorder
	// LastRegistryDec is the registry decorator of the most recently created decorated transaction.
	LastRegistryDec *RegistryDec
}

// NewEnv creates (or reuses) the database folder.
func NewEnv(folder string, hashMod int) (*Env, error) {
	if err := os.MkdirAll(folder, 0o755); err != nil {
		return nil, err
	}
	c := sop.GetL2Cache(sop.TransactionOptions{CacheType: sop.InMemory})
	if c == nil {
		return nil, fmt.Errorf("no in-memory L2 cache factory registered")
	}
	return &Env{Folder: folder, HashMod: hashMod, Cache: c, Rec: NewRecorder()}, nil
}

// Txn is a transaction whose storage interfaces are decorated.
type Txn struct {
	sop.Transaction
	Two   *common.Transaction
	Label string
	Env   *Env
}

// NewTxn mirrors infs.NewTwoPhaseCommitTransaction with every storage interface wrapped by
// the recording / fault-injecting decorators of this package (plain=true: no decorators).
func (e *Env) NewTxn(ctx context.Context, mode sop.TransactionMode, maxTime time.Duration, label string, plain bool) (*Txn, error) {
	rt, err := fs.NewReplicationTracker(ctx, []string{e.Folder}, false, e.Cache)
	if err != nil {
		return nil, err
	}
	mbsf := fs.NewManageStoreFolder(fs.NewFileIO())
	sr, err := fs.NewStoreRepository(ctx, rt, mbsf, e.Cache, e.HashMod)
	if err != nil {
		return nil, err
	}
	hm := e.HashMod
	if i, err := sr.GetRegistryHashModValue(ctx); err != nil {
		return nil, err
	} else if i > 0 {
		hm = i
	}
	tl := fs.NewTransactionLog(e.Cache, rt)
	var (
		bs  sop.BlobStore       = fs.NewBlobStore(e.Folder, nil, nil)
		srI sop.StoreRepository = sr
		reg sop.Registry        = fs.NewRegistry(mode == sop.ForWriting, hm, rt, e.Cache)
		l2  sop.L2Cache         = e.Cache
		tlI sop.TransactionLog  = tl
	)
	if !plain {
		bs = &BlobDec{Inner: bs, R: e.Rec, Txn: label}
		srI = &StoreRepoDec{Inner: sr, R: e.Rec, Txn: label}
		rd := &RegistryDec{Inner: reg, R: e.Rec, Txn: label}
		e.LastRegistryDec = rd
		reg = rd
		l2 = &CacheDec{L2Cache: e.Cache, R: e.Rec, Txn: label}
		tlI = NewTLogDec(tl, e.Rec, label)
	}
	two, err := common.NewTwoPhaseCommitTransaction(mode, maxTime, bs, srI, reg, l2, tlI)
	if err != nil {
		return nil, err
	}
	rt.SetTransactionID(two.GetID())
	t, err := sop.NewTransaction(mode, two)
	if err != nil {
		return nil, err
	}
	return &Txn{Transaction: t, Two: two, Label: label, Env: e}, nil
}

// StoreOpts are the store options the harnesses vary.
type StoreOpts struct {
	Name        string `json:"name"`
	Slot        int    `json:"slot"`
	Unique      bool   `json:"unique"`
	InNode      bool   `json:"in_node"`      // IsValueDataInNodeSegment
	ActivelyP   bool   `json:"actively_p"`   // IsValueDataActivelyPersisted
	GlobalCache bool   `json:"global_cache"` // IsValueDataGloballyCached
}

func (o StoreOpts) SOP(folder string) sop.StoreOptions {
	return sop.StoreOptions{
		Name: o.Name, SlotLength: o.Slot, IsUnique: o.Unique,
		IsValueDataInNodeSegment: o.InNode, IsValueDataActivelyPersisted: o.ActivelyP, IsValueDataGloballyCached: o.GlobalCache,
		DisableRegistryStoreFormatting: true, DisableBlobStoreFormatting: true, BlobStoreBaseFolderPath: folder,
	}
}

// NewStore creates-or-opens a store of int keys and string values in t.
func (t *Txn) NewStore(ctx context.Context, o StoreOpts) (btree.BtreeInterface[int, string], error) {
	return common.NewBtree[int, string](ctx, o.SOP(t.Env.Folder), t.Transaction, nil)
}

// OpenStore opens an existing store.
func (t *Txn) OpenStore(ctx context.Context, name string) (btree.BtreeInterface[int, string], error) {
	return common.OpenBtree[int, string](ctx, name, t.Transaction, nil)
}

package sopx

import (
	"context"
	"github.com/sharedcode/sop/encoding"
	"time"

	"github.com/sharedcode/sop"
)

// ---------------------------------------------------------------- registry

type RegistryDec struct {
	Inner sop.Registry
	R     *Recorder
	Txn   string
	// Torn, when it returns j >= 0 for an UpdateNoLocks event, lets only the first j handles of the batch through;
	// TornThen is called afterwards (typically os.Exit: a crash in the middle of the per-handle block writes).
	Torn     func(ev *Event) int
	TornThen func(ev *Event)
}

func (d *RegistryDec) evU(m string, p []sop.RegistryPayload[sop.UUID]) *Event {
	ev := &Event{Txn: d.Txn, Iface: "reg", Method: m}
	for _, x := range p {
		ev.Tbls = append(ev.Tbls, x.RegistryTable)
		for _, id := range x.IDs {
			ev.IDs = append(ev.IDs, d.R.Canon.ID(id))
		}
	}
	return ev
}
func (d *RegistryDec) evH(m string, p []sop.RegistryPayload[sop.Handle]) *Event {
	ev := &Event{Txn: d.Txn, Iface: "reg", Method: m}
	for _, x := range p {
		ev.Tbls = append(ev.Tbls, x.RegistryTable)
		for _, h := range x.IDs {
			ev.Handles = append(ev.Handles, d.R.Canon.Handle(x.RegistryTable, h))
		}
	}
	return ev
}
func (d *RegistryDec) Get(ctx context.Context, p []sop.RegistryPayload[sop.UUID]) ([]sop.RegistryPayload[sop.Handle], error) {
	ev := d.evU("Get", p)
	if d.R.begin(ev) == Fail {
		d.R.end(ev, ErrInjected)
		return nil, ErrInjected
	}
	r, err := d.Inner.Get(ctx, p)
	for _, x := range r {
		for _, h := range x.IDs {
			ev.Handles = append(ev.Handles, d.R.Canon.Handle(x.RegistryTable, h))
		}
	}
	if err == nil && ev.Injected {
		err = ErrInjected
	}
	d.R.end(ev, err)
	return r, err
}
func (d *RegistryDec) write(ev *Event, f func() error) error {
	a := d.R.begin(ev)
	if a == Fail {
		d.R.end(ev, ErrInjected)
		return ErrInjected
	}
	err := f()
	if err == nil && a == FailAfter {
		err = ErrInjected
	}
	d.R.end(ev, err)
	return err
}
func (d *RegistryDec) Add(ctx context.Context, p []sop.RegistryPayload[sop.Handle]) error {
	return d.write(d.evH("Add", p), func() error { return d.Inner.Add(ctx, p) })
}
func (d *RegistryDec) Update(ctx context.Context, p []sop.RegistryPayload[sop.Handle]) error {
	return d.write(d.evH("Update", p), func() error { return d.Inner.Update(ctx, p) })
}
func (d *RegistryDec) UpdateNoLocks(ctx context.Context, allOrNothing bool, p []sop.RegistryPayload[sop.Handle]) error {
	ev := d.evH("UpdateNoLocks", p)
	ev.Bool = &allOrNothing
	return d.write(ev, func() error {
		if d.Torn != nil {
			if j := d.Torn(ev); j >= 0 {
				// torn batch: only the first j handles (in call order) reach the registry, then TornThen runs (crash)
				var q []sop.RegistryPayload[sop.Handle]
				for _, x := range p {
					y := x
					y.IDs = nil
					for _, h := range x.IDs {
						if j > 0 {
							y.IDs = append(y.IDs, h)
							j--
						}
					}
					if len(y.IDs) > 0 {
						q = append(q, y)
					}
				}
				var err error
				if len(q) > 0 {
					err = d.Inner.UpdateNoLocks(ctx, allOrNothing, q)
				}
				if d.TornThen != nil {
					d.TornThen(ev)
				}
				if err == nil {
					err = ErrInjected
				}
				return err
			}
		}
		return d.Inner.UpdateNoLocks(ctx, allOrNothing, p)
	})
}
func (d *RegistryDec) Remove(ctx context.Context, p []sop.RegistryPayload[sop.UUID]) error {
	return d.write(d.evU("Remove", p), func() error { return d.Inner.Remove(ctx, p) })
}
func (d *RegistryDec) Replicate(ctx context.Context, a, b, c, e []sop.RegistryPayload[sop.Handle]) error {
	ev := &Event{Txn: d.Txn, Iface: "reg", Method: "Replicate"}
	return d.write(ev, func() error { return d.Inner.Replicate(ctx, a, b, c, e) })
}
func (d *RegistryDec) Close() error {
	if c, ok := d.Inner.(interface{ Close() error }); ok {
		return c.Close()
	}
	return nil
}

// ---------------------------------------------------------------- blob store

type BlobDec struct {
	Inner sop.BlobStore
	R     *Recorder
	Txn   string
}

func (d *BlobDec) GetOne(ctx context.Context, tbl string, id sop.UUID) ([]byte, error) {
	ev := &Event{Txn: d.Txn, Iface: "blob", Method: "GetOne", Tbls: []string{tbl}, IDs: []int{d.R.Canon.ID(id)}}
	if d.R.begin(ev) == Fail {
		d.R.end(ev, ErrInjected)
		return nil, ErrInjected
	}
	b, err := d.Inner.GetOne(ctx, tbl, id)
	d.R.end(ev, err)
	return b, err
}
func (d *BlobDec) kv(m string, p []sop.BlobsPayload[sop.KeyValuePair[sop.UUID, []byte]]) *Event {
	ev := &Event{Txn: d.Txn, Iface: "blob", Method: m}
	for _, x := range p {
		ev.Tbls = append(ev.Tbls, x.BlobTable)
		for _, b := range x.Blobs {
			ev.IDs = append(ev.IDs, d.R.Canon.ID(b.Key))
		}
	}
	return ev
}
func (d *BlobDec) do(ev *Event, f func() error) error {
	a := d.R.begin(ev)
	if a == Fail {
		d.R.end(ev, ErrInjected)
		return ErrInjected
	}
	err := f()
	if err == nil && a == FailAfter {
		err = ErrInjected
	}
	d.R.end(ev, err)
	return err
}
func (d *BlobDec) Add(ctx context.Context, p []sop.BlobsPayload[sop.KeyValuePair[sop.UUID, []byte]]) error {
	return d.do(d.kv("Add", p), func() error { return d.Inner.Add(ctx, p) })
}
func (d *BlobDec) Update(ctx context.Context, p []sop.BlobsPayload[sop.KeyValuePair[sop.UUID, []byte]]) error {
	return d.do(d.kv("Update", p), func() error { return d.Inner.Update(ctx, p) })
}
func (d *BlobDec) Remove(ctx context.Context, p []sop.BlobsPayload[sop.UUID]) error {
	ev := &Event{Txn: d.Txn, Iface: "blob", Method: "Remove"}
	for _, x := range p {
		ev.Tbls = append(ev.Tbls, x.BlobTable)
		for _, id := range x.Blobs {
			ev.IDs = append(ev.IDs, d.R.Canon.ID(id))
		}
	}
	return d.do(ev, func() error { return d.Inner.Remove(ctx, p) })
}

// ---------------------------------------------------------------- store repository

type StoreRepoDec struct {
	Inner sop.StoreRepository
	R     *Recorder
	Txn   string
}

func (d *StoreRepoDec) Get(ctx context.Context, names ...string) ([]sop.StoreInfo, error) {
	ev := &Event{Txn: d.Txn, Iface: "sr", Method: "Get", Names: names}
	if d.R.begin(ev) == Fail {
		d.R.end(ev, ErrInjected)
		return nil, ErrInjected
	}
	r, err := d.Inner.Get(ctx, names...)
	d.R.end(ev, err)
	return r, err
}
func (d *StoreRepoDec) GetWithTTL(ctx context.Context, ttl bool, dur time.Duration, names ...string) ([]sop.StoreInfo, error) {
	ev := &Event{Txn: d.Txn, Iface: "sr", Method: "GetWithTTL", Names: names}
	if d.R.begin(ev) == Fail {
		d.R.end(ev, ErrInjected)
		return nil, ErrInjected
	}
	r, err := d.Inner.GetWithTTL(ctx, ttl, dur, names...)
	d.R.end(ev, err)
	return r, err
}
func (d *StoreRepoDec) GetAll(ctx context.Context) ([]string, error) { return d.Inner.GetAll(ctx) }
func (d *StoreRepoDec) Add(ctx context.Context, s ...sop.StoreInfo) error {
	ev := &Event{Txn: d.Txn, Iface: "sr", Method: "Add"}
	for _, x := range s {
		ev.Names = append(ev.Names, x.Name)
	}
	a := d.R.begin(ev)
	if a == Fail {
		d.R.end(ev, ErrInjected)
		return ErrInjected
	}
	err := d.Inner.Add(ctx, s...)
	if err == nil && a == FailAfter {
		err = ErrInjected
	}
	d.R.end(ev, err)
	return err
}
func (d *StoreRepoDec) Remove(ctx context.Context, names ...string) error {
	ev := &Event{Txn: d.Txn, Iface: "sr", Method: "Remove", Names: names}
	a := d.R.begin(ev)
	if a == Fail {
		d.R.end(ev, ErrInjected)
		return ErrInjected
	}
	err := d.Inner.Remove(ctx, names...)
	if err == nil && a == FailAfter {
		err = ErrInjected
	}
	d.R.end(ev, err)
	return err
}
func (d *StoreRepoDec) Update(ctx context.Context, s []sop.StoreInfo) ([]sop.StoreInfo, error) {
	ev := &Event{Txn: d.Txn, Iface: "sr", Method: "Update"}
	for _, x := range s {
		ev.Names = append(ev.Names, x.Name)
		ev.Deltas = append(ev.Deltas, x.CountDelta)
	}
	a := d.R.begin(ev)
	if a == Fail {
		d.R.end(ev, ErrInjected)
		return nil, ErrInjected
	}
	r, err := d.Inner.Update(ctx, s)
	if err == nil && a == FailAfter {
		err = ErrInjected
	}
	d.R.end(ev, err)
	return r, err
}
func (d *StoreRepoDec) Replicate(ctx context.Context, s []sop.StoreInfo) error {
	return d.Inner.Replicate(ctx, s)
}

// ---------------------------------------------------------------- transaction log + priority log

type TLogDec struct {
	Inner sop.TransactionLog
	R     *Recorder
	Txn   string
	pl    *PLogDec
}

func NewTLogDec(inner sop.TransactionLog, r *Recorder, txn string) *TLogDec {
	d := &TLogDec{Inner: inner, R: r, Txn: txn}
	d.pl = &PLogDec{Inner: inner.PriorityLog(), R: r, Txn: txn}
	return d
}
func (d *TLogDec) PriorityLog() sop.TransactionPriorityLog { return d.pl }
func (d *TLogDec) Add(ctx context.Context, tid sop.UUID, f int, payload []byte) error {
	ev := &Event{Txn: d.Txn, Iface: "tlog", Method: "Add", IDs: []int{d.R.Canon.ID(tid)}, Step: f}
	a := d.R.begin(ev)
	if a == Fail {
		d.R.end(ev, ErrInjected)
		return ErrInjected
	}
	err := d.Inner.Add(ctx, tid, f, payload)
	if err == nil && a == FailAfter {
		err = ErrInjected
	}
	d.R.end(ev, err)
	return err
}
func (d *TLogDec) Remove(ctx context.Context, tid sop.UUID) error {
	ev := &Event{Txn: d.Txn, Iface: "tlog", Method: "Remove", IDs: []int{d.R.Canon.ID(tid)}}
	a := d.R.begin(ev)
	if a == Fail {
		d.R.end(ev, ErrInjected)
		return ErrInjected
	}
	err := d.Inner.Remove(ctx, tid)
	if err == nil && a == FailAfter {
		err = ErrInjected
	}
	d.R.end(ev, err)
	return err
}
func (d *TLogDec) GetOne(ctx context.Context) (sop.UUID, string, []sop.KeyValuePair[int, []byte], error) {
	return d.Inner.GetOne(ctx)
}
func (d *TLogDec) GetOneOfHour(ctx context.Context, hour string) (sop.UUID, []sop.KeyValuePair[int, []byte], error) {
	return d.Inner.GetOneOfHour(ctx, hour)
}
func (d *TLogDec) NewUUID() sop.UUID { return d.Inner.NewUUID() }

type PLogDec struct {
	Inner sop.TransactionPriorityLog
	R     *Recorder
	Txn   string
}

func (d *PLogDec) IsEnabled() bool { return d.Inner.IsEnabled() }
func (d *PLogDec) Add(ctx context.Context, tid sop.UUID, payload []byte) error {
	ev := &Event{Txn: d.Txn, Iface: "plog", Method: "Add", IDs: []int{d.R.Canon.ID(tid)}}
	// the logged handle images (what priorityRollback / doPriorityRollbacks will write back), decoded the way
	// fs.priorityLog.Get decodes them
	var logged []sop.RegistryPayload[sop.Handle]
	if encoding.DefaultMarshaler.Unmarshal(payload, &logged) == nil {
		for _, x := range logged {
			for _, h := range x.IDs {
				ev.Handles = append(ev.Handles, d.R.Canon.Handle(x.RegistryTable, h))
			}
		}
	}
	a := d.R.begin(ev)
	if a == Fail {
		d.R.end(ev, ErrInjected)
		return ErrInjected
	}
	err := d.Inner.Add(ctx, tid, payload)
	if err == nil && a == FailAfter {
		err = ErrInjected
	}
	d.R.end(ev, err)
	return err
}
func (d *PLogDec) Remove(ctx context.Context, tid sop.UUID) error {
	ev := &Event{Txn: d.Txn, Iface: "plog", Method: "Remove", IDs: []int{d.R.Canon.ID(tid)}}
	a := d.R.begin(ev)
	if a == Fail {
		d.R.end(ev, ErrInjected)
		return ErrInjected
	}
	err := d.Inner.Remove(ctx, tid)
	if err == nil && a == FailAfter {
		err = ErrInjected
	}
	d.R.end(ev, err)
	return err
}
func (d *PLogDec) Get(ctx context.Context, tid sop.UUID) ([]sop.RegistryPayload[sop.Handle], error) {
	ev := &Event{Txn: d.Txn, Iface: "plog", Method: "Get", IDs: []int{d.R.Canon.ID(tid)}}
	if d.R.begin(ev) == Fail {
		d.R.end(ev, ErrInjected)
		return nil, ErrInjected
	}
	r, err := d.Inner.Get(ctx, tid)
	for _, x := range r {
		for _, h := range x.IDs {
			ev.Handles = append(ev.Handles, d.R.Canon.Handle(x.RegistryTable, h))
		}
	}
	d.R.end(ev, err)
	return r, err
}
func (d *PLogDec) GetBatch(ctx context.Context, n int) ([]sop.KeyValuePair[sop.UUID, []sop.RegistryPayload[sop.Handle]], error) {
	return d.Inner.GetBatch(ctx, n)
}
func (d *PLogDec) ProcessNewer(ctx context.Context, p func(tid sop.UUID, payload []sop.RegistryPayload[sop.Handle]) error) error {
	return d.Inner.ProcessNewer(ctx, p)
}
func (d *PLogDec) LogCommitChanges(ctx context.Context, stores []sop.StoreInfo, a, b, c, e []sop.RegistryPayload[sop.Handle]) error {
	return d.Inner.LogCommitChanges(ctx, stores, a, b, c, e)
}

// ---------------------------------------------------------------- L2 cache (locks and data)

type CacheDec struct {
	sop.L2Cache
	R   *Recorder
	Txn string
}

func keyNames(lk []*sop.LockKey) []string {
	out := make([]string, len(lk))
	for i, k := range lk {
		out[i] = k.Key
	}
	return out
}
func (d *CacheDec) Lock(ctx context.Context, dur time.Duration, lk []*sop.LockKey) (bool, sop.UUID, error) {
	ev := &Event{Txn: d.Txn, Iface: "l2", Method: "Lock", Names: keyNames(lk)}
	if d.R.begin(ev) == Fail {
		d.R.end(ev, ErrInjected)
		return false, sop.NilUUID, ErrInjected
	}
	ok, id, err := d.L2Cache.Lock(ctx, dur, lk)
	ev.Bool = &ok
	d.R.end(ev, err)
	return ok, id, err
}
func (d *CacheDec) DualLock(ctx context.Context, dur time.Duration, lk []*sop.LockKey) (bool, sop.UUID, error) {
	ev := &Event{Txn: d.Txn, Iface: "l2", Method: "DualLock", Names: keyNames(lk)}
	if d.R.begin(ev) == Fail {
		d.R.end(ev, ErrInjected)
		return false, sop.NilUUID, ErrInjected
	}
	ok, id, err := d.L2Cache.DualLock(ctx, dur, lk)
	ev.Bool = &ok
	d.R.end(ev, err)
	return ok, id, err
}
func (d *CacheDec) IsLocked(ctx context.Context, lk []*sop.LockKey) (bool, error) {
	ev := &Event{Txn: d.Txn, Iface: "l2", Method: "IsLocked", Names: keyNames(lk)}
	if d.R.begin(ev) == Fail {
		d.R.end(ev, ErrInjected)
		return false, ErrInjected
	}
	ok, err := d.L2Cache.IsLocked(ctx, lk)
	ev.Bool = &ok
	d.R.end(ev, err)
	return ok, err
}
func (d *CacheDec) Unlock(ctx context.Context, lk []*sop.LockKey) error {
	ev := &Event{Txn: d.Txn, Iface: "l2", Method: "Unlock", Names: keyNames(lk)}
	if d.R.begin(ev) == Fail {
		d.R.end(ev, ErrInjected)
		return ErrInjected
	}
	err := d.L2Cache.Unlock(ctx, lk)
	d.R.end(ev, err)
	return err
}
func (d *CacheDec) SetStruct(ctx context.Context, key string, v interface{}, exp time.Duration) error {
	ev := &Event{Txn: d.Txn, Iface: "l2", Method: "SetStruct", Names: []string{key}}
	if d.R.begin(ev) == Fail {
		d.R.end(ev, ErrInjected)
		return ErrInjected
	}
	err := d.L2Cache.SetStruct(ctx, key, v, exp)
	d.R.end(ev, err)
	return err
}
func (d *CacheDec) GetStruct(ctx context.Context, key string, target interface{}) (bool, error) {
	ev := &Event{Txn: d.Txn, Iface: "l2", Method: "GetStruct", Names: []string{key}}
	if d.R.begin(ev) == Fail {
		d.R.end(ev, ErrInjected)
		return false, ErrInjected
	}
	ok, err := d.L2Cache.GetStruct(ctx, key, target)
	ev.Bool = &ok
	d.R.end(ev, err)
	return ok, err
}
func (d *CacheDec) GetStructEx(ctx context.Context, key string, target interface{}, exp time.Duration) (bool, error) {
	ev := &Event{Txn: d.Txn, Iface: "l2", Method: "GetStructEx", Names: []string{key}}
	if d.R.begin(ev) == Fail {
		d.R.end(ev, ErrInjected)
		return false, ErrInjected
	}
	ok, err := d.L2Cache.GetStructEx(ctx, key, target, exp)
	ev.Bool = &ok
	d.R.end(ev, err)
	return ok, err
}
func (d *CacheDec) Delete(ctx context.Context, keys []string) (bool, error) {
	ev := &Event{Txn: d.Txn, Iface: "l2", Method: "Delete", Names: keys}
	if d.R.begin(ev) == Fail {
		d.R.end(ev, ErrInjected)
		return false, ErrInjected
	}
	ok, err := d.L2Cache.Delete(ctx, keys)
	d.R.end(ev, err)
	return ok, err
}

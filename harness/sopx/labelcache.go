package sopx

import (
	"context"
	"strings"
	"time"

	"github.com/sharedcode/sop"
)

// LabelCache (added for C02/C03) wraps the shared L2 cache for ONE transaction label. It
// records and gates the L2 calls that the CacheDec of NewTxn lets through or never sees:
//   - GetStructs / SetStructs: the item lock records of itemActionTracker.lock / checkTrackedItems
//     and the handle look-aside of fs.Registry.Get   (Event l2x.GetStructs / l2x.SetStructs)
//   - SetStruct whose key is a bare UUID: fs.Registry publishing ONE handle to the L2 cache after
//     a registry write (Add / Update / UpdateNoLocks / Get refill)      (Event l2x.SetHandle, IDs = canonical lid)
//   - DualLock on a registry file-region key: taken around every single block write of the
//     registry hash map (one per handle inside one UpdateNoLocks)       (Event l2x.RegionLock)
//
// Use Env.NewTxnDeep; everything else is forwarded untouched.
type LabelCache struct {
	sop.L2Cache
	R   *Recorder
	Txn string
}

// NewTxnDeep is NewTxn (decorated) with a LabelCache under every component of the transaction,
// the registry included.
func (e *Env) NewTxnDeep(ctx context.Context, mode sop.TransactionMode, maxTime time.Duration, label string) (*Txn, error) {
	e2 := *e
	e2.Cache = &LabelCache{L2Cache: e.Cache, R: e.Rec, Txn: label}
	t, err := e2.NewTxn(ctx, mode, maxTime, label, false)
	if t != nil {
		t.Env = e
	}
	return t, err
}

func (c *LabelCache) GetStructs(ctx context.Context, keys []string, targets []interface{}, exp time.Duration) ([]bool, error) {
	ev := &Event{Txn: c.Txn, Iface: "l2x", Method: "GetStructs", Names: keys}
	if c.R.begin(ev) == Fail {
		c.R.end(ev, ErrInjected)
		return nil, ErrInjected
	}
	r, err := c.L2Cache.GetStructs(ctx, keys, targets, exp)
	c.R.end(ev, err)
	return r, err
}

func (c *LabelCache) SetStructs(ctx context.Context, keys []string, values []interface{}, exp time.Duration) error {
	ev := &Event{Txn: c.Txn, Iface: "l2x", Method: "SetStructs", Names: keys}
	if c.R.begin(ev) == Fail {
		c.R.end(ev, ErrInjected)
		return ErrInjected
	}
	err := c.L2Cache.SetStructs(ctx, keys, values, exp)
	c.R.end(ev, err)
	return err
}

func (c *LabelCache) SetStruct(ctx context.Context, key string, v interface{}, exp time.Duration) error {
	id, perr := sop.ParseUUID(key)
	if perr != nil || len(key) != 36 {
		return c.L2Cache.SetStruct(ctx, key, v, exp)
	}
	ev := &Event{Txn: c.Txn, Iface: "l2x", Method: "SetHandle", IDs: []int{c.R.Canon.ID(id)}}
	if h, ok := v.(*sop.Handle); ok && h != nil {
		ev.Handles = []H{c.R.Canon.Handle("", *h)}
	}
	if c.R.begin(ev) == Fail {
		c.R.end(ev, ErrInjected)
		return ErrInjected
	}
	err := c.L2Cache.SetStruct(ctx, key, v, exp)
	c.R.end(ev, err)
	return err
}

func (c *LabelCache) DualLock(ctx context.Context, dur time.Duration, lk []*sop.LockKey) (bool, sop.UUID, error) {
	region := len(lk) == 1 && strings.Contains(lk[0].Key, ".reg")
	if !region {
		return c.L2Cache.DualLock(ctx, dur, lk)
	}
	ev := &Event{Txn: c.Txn, Iface: "l2x", Method: "RegionLock", Names: keyNames(lk)}
	if c.R.begin(ev) == Fail {
		c.R.end(ev, ErrInjected)
		return false, sop.NilUUID, ErrInjected
	}
	ok, id, err := c.L2Cache.DualLock(ctx, dur, lk)
	ev.Bool = &ok
	c.R.end(ev, err)
	return ok, id, err
}
